import DarkluaModel.Shared.Visitor
import DarkluaModel.Shared.Run
import DarkluaModel.Rules.FindVariables
/-!
# `convert_square_root_call` (`src/rules/convert_square_root_call.rs`)

`ScopeVisitor` with an `IdentifierTracker` (a stack of identifier sets; `is_identifier_used`
looks through the whole stack). `is_math_sqrt_call`: no method, exactly one argument, prefix
`math.sqrt` with `math` an identifier that no enclosing scope declares.

* `process_expression`: `math.sqrt(x)` in expression position → `x ^ 0.5`;
* `process_statement`: a call statement `math.sqrt(x)` →
  `expressions_as_statement(preserve_arguments_side_effects(evaluator, args))`
  (`src/utils/…`): the call disappears, the arguments that may have side effects stay.

`Evaluator::has_side_effects` (default evaluator: metamethods are NOT assumed pure) needs
`Evaluator::evaluate` for `and`/`or`/arithmetic/`if` expressions; that evaluator is property
C08's model. Here only its trivial part is modelled (`evalLV`: literals, and the forms that
are `Unknown` by definition); where more would be needed `hasSE` answers `none` and the whole
rule model answers `none` (driver token `unmodelled`; the harness then runs the oracle only).
-/
namespace DarkluaModel.Rules.ConvertSquareRootCall

/-- what `has_side_effects` needs to know of a `LuaValue`: `is_truthy` and `maybe_metatable` -/
inductive LV where
  | falsy | truthy | unknown
  deriving DecidableEq, Repr

/-- `Evaluator::evaluate`, trivial part only (`none` = not modelled here) -/
def evalLV : Expr → Option LV
  | .false | .nil => some .falsy
  | .true | .num _ | .str _ | .fn _ | .table _ => some .truthy
  | .call _ _ _ _ | .field _ _ | .var _ | .index _ _ | .vararg => some .unknown
  | .paren e => evalLV e
  | .cast e _ => evalLV e
  | .inst e _ =>
    -- `evaluate_prefix`
    match e with
    | .paren x => evalLV x
    | .inst _ _ => none
    | _ => some .unknown
  | _ => none

def or3 (a b : Option Bool) : Option Bool :=
  match a, b with
  | some true, _ | _, some true => some true
  | some false, some false => some false
  | _, _ => none

def maybeMetatable : Option LV → Option Bool
  | some .unknown => some true
  | some _ => some false
  | none => none

mutual
  /-- `Evaluator::has_side_effects` with `pure_metamethods = false` -/
  def hasSE : Expr → Option Bool
    | .false | .fn _ | .var _ | .nil | .num _ | .str _ | .true | .vararg => some false
    | .ifx _ _ _ _ => none
    | .bin .and l r =>
      match hasSE l with
      | some true => some true
      | some false =>
        match evalLV l with
        | some .falsy => some false
        | some _ => hasSE r
        | none => none
      | none => none
    | .bin .or l r =>
      match hasSE l with
      | some true => some true
      | some false =>
        match evalLV l with
        | some .truthy => some false
        | some _ => hasSE r
        | none => none
      | none => none
    | .bin _ l r =>
      or3 (or3 (maybeMetatable (evalLV l)) (maybeMetatable (evalLV r))) (or3 (hasSE l) (hasSE r))
    | .un .not e => hasSE e
    | .un _ e => or3 (maybeMetatable (evalLV e)) (hasSE e)
    | .field _ _ => some true
    | .index _ _ => some true
    | .paren e => hasSE e
    | .table es => hasSEEntries es
    | .call _ _ _ _ => some true
    | .interp segs => hasSESegs segs
    | .cast e _ => hasSE e
    | .inst e _ =>
      -- `prefix_has_side_effects`
      match e with
      | .var _ => some false
      | .paren x => hasSE x
      | .inst _ _ => none
      | _ => some true
  def hasSEEntries : List Entry → Option Bool
    | [] => some false
    | .pos v :: rest => or3 (hasSE v) (hasSEEntries rest)
    | .named _ v :: rest => or3 (hasSE v) (hasSEEntries rest)
    | .keyed k v :: rest => or3 (or3 (hasSE k) (hasSE v)) (hasSEEntries rest)
  def hasSESegs : List Seg → Option Bool
    | [] => some false
    | .s _ :: rest => hasSESegs rest
    | .v e :: rest => or3 (hasSE e) (hasSESegs rest)
end

/-- keep the expressions that have side effects -/
def filterSE : List Expr → Option (List Expr)
  | [] => some []
  | e :: rest =>
    match hasSE e, filterSE rest with
    | some true, some r => some (e :: r)
    | some false, some r => some r
    | _, _ => none

def entryExprs : List Entry → List Expr
  | [] => []
  | .pos v :: rest => v :: entryExprs rest
  | .named _ v :: rest => v :: entryExprs rest
  | .keyed k v :: rest => k :: v :: entryExprs rest

/-- `preserve_arguments_side_effects` -/
def preserveArgumentsSideEffects (kind : ArgKind) (args : List Expr) : Option (List Expr) :=
  match kind, args with
  | .tuple, _ => filterSE args
  | .tbl, [.table entries] => filterSE (entryExprs entries)
  | .str, _ => some []
  | _, _ => none

/-- `get_inner_expression` (fuel = size of the expression: total, never runs out) -/
def innerExpression : Nat → Expr → Expr
  | n + 1, .paren e => innerExpression n e
  | n + 1, .cast e _ => innerExpression n e
  | _, e => e

/-- `uses_discard_variable` (/repo fix 43be447): `FindVariables("_")` through `DefaultVisitor` on the
expression as written (before parentheses / casts are stripped) -/
def usesDiscard (e : Expr) : Bool := FindVariables.mE ["_"] e

/-- the loop of `expressions_as_statement`; `acc` is `statements` in REVERSE order. `used_later` for the
current value = some LATER expression mentions an identifier named `_`: a non-call value then gets its
own `do local _ = value end` (so that the later `_` does not read it); otherwise it extends a
trailing `local _ = …` or starts one. -/
def asStatements : List Expr → List Stmt → List Stmt
  | [], acc => acc.reverse
  | v :: rest, acc =>
    match innerExpression v.size v with
    | .call f m k a => asStatements rest (.callStmt (.call f m k a) :: acc)
    | value =>
      if rest.any usesDiscard then
        asStatements rest (.doBlock (.mk [.localAssign .loc [.mk "_" none] [value]] none) :: acc)
      else
        match acc with
        | .localAssign kind names values :: acc' => asStatements rest (.localAssign kind names (values ++ [value]) :: acc')
        | _ => asStatements rest (.localAssign .loc [.mk "_" none] [value] :: acc)

/-- `expressions_as_statement` -/
def expressionsAsStatement (values : List Expr) : Stmt :=
  match asStatements values [] with
  | [s] => s
  | stmts => .doBlock (.mk stmts none)

/-- bits of the `f64` 0.5 -/
def halfBits : UInt64 := 0x3FE0000000000000

/-- `IdentifierTracker`: innermost scope first -/
abbrev Tracker := List (List String)

def Tracker.used (t : Tracker) (name : String) : Bool := t.any fun s => s.contains name

def Tracker.insert (t : Tracker) (name : String) : Tracker :=
  match t with
  | [] => [[name]]
  | s :: rest => (name :: s) :: rest

/-- `is_math_sqrt_call`: the single argument when the call qualifies -/
def mathSqrtArg (t : Tracker) : Expr → Option (ArgKind × Expr)
  | .call (.field (.var "math") "sqrt") none kind [arg] => if t.used "math" then none else some (kind, arg)
  | _ => none

/-- state: the tracker, and whether something outside the modelled part of the evaluator was needed -/
structure St where
  tracker : Tracker := []
  unmodelled : Bool := false

def processExpression (e : Expr) (s : St) : Expr × St :=
  match mathSqrtArg s.tracker e with
  | some (_, arg) => (.bin .pow arg (.num halfBits), s)
  | none => (e, s)

def processStatement (st : Stmt) (s : St) : Stmt × St :=
  match st with
  | .callStmt c =>
    match mathSqrtArg s.tracker c with
    | some (kind, arg) =>
      match preserveArgumentsSideEffects kind [arg] with
      | some values => (expressionsAsStatement values, s)
      | none => (st, { s with unmodelled := true })
    | none => (st, s)
  | _ => (st, s)

def processor : Processor St :=
  { expr := processExpression
    stmt := processStatement
    push := fun s => { s with tracker := [] :: s.tracker }
    pop := fun s => { s with tracker := s.tracker.drop 1 }
    insert := fun n s => (n, { s with tracker := s.tracker.insert n })
    insertSelf := fun s => { s with tracker := s.tracker.insert "self" }
    insertLocal := fun n e s => ((n, e), { s with tracker := s.tracker.insert n })
    insertLocalFn := fun n s => (n, { s with tracker := s.tracker.insert n }) }

/-- `flawless_process`: one `ScopeVisitor` pass; `none` when the unmodelled part of the evaluator was needed -/
def apply (b : Block) : Option Block :=
  let (b', s) := Visitor.runScoped processor b {}
  if s.unmodelled then none else some b'

/-! ### local soundness against `Shared/Sem.lean`

`NumOps` is abstract and `sqrt x = pow x 0.5` is NOT one of its laws (IEEE doubles violate it on
`-0`, `-∞` and on rare finite values where `pow` is not correctly rounded). The expression hook is
exact relative to that law at the argument's value, for the standard `math` table, with at least
two levels of library-call fuel (`k = d + 2`: `callVal` and `libCall` each consume one; with less
the ORIGINAL times out while `^` does not). `processExpression_not_exact` shows the law cannot be
dropped. The statement hook (dropping `math.sqrt(x)` used as a statement and keeping the
arguments that `Evaluator::has_side_effects` flags) rests on property C08 and has no lemma here. -/

open Sem
section
variable {N : NumOps} (call : CallFn N) (ρ : ExtOracle N) (env : Env N)

theorem first_cons (v : Val N) (vs : List (Val N)) : first (v :: vs) = v := rfl
theorem toNumber_num (y : N.F) : toNumber? (Val.num y : Val N) = some y := rfl

/-- `math.sqrt(arg)` with the standard `math` table, on an argument that evaluates to a number -/
theorem sqrt_call_value (d t : Nat) (kind : ArgKind) (arg : Expr) (σ σ' : State N) (vs : List (Val N)) (x : N.F)
    (hmath : lookupVar env "math" σ = .tbl t)
    (hsqrt : σ.rawGet t (strVal "sqrt") = .builtin "math.sqrt")
    (harg : evalE call ρ (d + 2) env arg σ = .ok vs σ')
    (hnum : toNumber? (first vs) = some x) :
    evalE call ρ (d + 2) env (.call (.field (.var "math") "sqrt") none kind [arg]) σ = .ok [.num (N.sqrt x)] σ' := by
  simp [evalE, evalEs, Res.bind, first_cons, hmath, indexVal, hsqrt, harg, callVal, libNames, libCall, hnum]

/-- `arg ^ 0.5` on an argument that evaluates to a number -/
theorem pow_value (k : Nat) (arg : Expr) (σ σ' : State N) (vs : List (Val N)) (x : N.F)
    (harg : evalE call ρ k env arg σ = .ok vs σ')
    (hnum : toNumber? (first vs) = some x) :
    evalE call ρ k env (.bin .pow arg (.num halfBits)) σ = .ok [.num (N.pow x (N.ofBits halfBits))] σ' := by
  simp [evalE, Res.bind, first_cons, harg, binopVal, toNumber_num, hnum, arithPrim]

/-- the expression hook is exact wherever `sqrt x = pow x 0.5` holds for the argument's value -/
theorem processExpression_exact (d t : Nat) (kind : ArgKind) (arg : Expr) (σ σ' : State N) (vs : List (Val N)) (x : N.F)
    (st : St) (hfree : st.tracker.used "math" = false)
    (hmath : lookupVar env "math" σ = .tbl t)
    (hsqrt : σ.rawGet t (strVal "sqrt") = .builtin "math.sqrt")
    (harg : evalE call ρ (d + 2) env arg σ = .ok vs σ')
    (hnum : toNumber? (first vs) = some x)
    (hlaw : N.sqrt x = N.pow x (N.ofBits halfBits)) :
    evalE call ρ (d + 2) env (processExpression (.call (.field (.var "math") "sqrt") none kind [arg]) st).1 σ
      = evalE call ρ (d + 2) env (.call (.field (.var "math") "sqrt") none kind [arg]) σ := by
  rw [sqrt_call_value call ρ env d t kind arg σ σ' vs x hmath hsqrt harg hnum]
  simp only [processExpression, mathSqrtArg, hfree]
  simp only [Bool.false_eq_true, if_false]
  rw [pow_value call ρ env (d + 2) arg σ σ' vs x harg hnum, hlaw]

/-- a number system in which `sqrt` and `^ 0.5` differ (as IEEE doubles do on `-0` and `-∞`) -/
def boolOps : NumOps :=
  { F := Bool, ofBits := fun _ => false, toBits := fun _ => 0, add := fun a _ => a, sub := fun a _ => a,
    mul := fun a _ => a, div := fun a _ => a, mod := fun a _ => a, pow := fun _ _ => false, idiv := fun a _ => a,
    neg := fun a => a, lt := fun _ _ => false, le := fun _ _ => true, eq := fun a b => a == b, isNaN := fun _ => false,
    ofNat := fun _ => false, toNat? := fun _ => none, toStr := fun _ => [], ofStr := fun _ => none,
    floor := fun a => a, sqrt := fun _ => true }

def wState : State boolOps :=
  { globals := [("math", .tbl 0)], cells := [], tables := [⟨[(strVal "sqrt", .builtin "math.sqrt")], none⟩],
    closures := [], trace := [] }

/-- without the law the rewrite is not exact -/
theorem processExpression_not_exact :
    ¬ ∀ (N : NumOps) (call : CallFn N) (ρ : ExtOracle N) (k : Nat) (env : Env N) (e : Expr) (st : St) (σ : State N),
        st.tracker.used "math" = false →
        evalE call ρ k env (processExpression e st).1 σ = evalE call ρ k env e σ := by
  intro h
  have h1 := h boolOps (fun _ _ _ => .timeout) (fun _ _ _ => []) 2 ⟨[], []⟩
    (.call (.field (.var "math") "sqrt") none .tuple [.num 0]) {} wState rfl
  have hm : lookupVar (N := boolOps) ⟨[], []⟩ "math" wState = .tbl 0 := by
    simp [lookupVar, lookupAssoc, wState, State.getGlobal]
  have hs : wState.rawGet 0 (strVal "sqrt") = .builtin "math.sqrt" := by
    simp [State.rawGet, State.getTable, wState, rawGetEntries, strVal, rawEq]
  have e1 : evalE (N := boolOps) (fun _ _ _ => .timeout) (fun _ _ _ => []) 2 ⟨[], []⟩
      (.call (.field (.var "math") "sqrt") none .tuple [.num 0]) wState = .ok [.num true] wState :=
    sqrt_call_value _ _ _ 0 0 .tuple (.num 0) wState wState [.num false] false hm hs (by simp [evalE, boolOps]) rfl
  have e2 : evalE (N := boolOps) (fun _ _ _ => .timeout) (fun _ _ _ => []) 2 ⟨[], []⟩
      (.bin .pow (.num 0) (.num halfBits)) wState = .ok [.num false] wState :=
    pow_value _ _ _ 2 (.num 0) wState wState [.num false] false (by simp [evalE, boolOps]) rfl
  rw [e1] at h1
  simp only [processExpression, mathSqrtArg] at h1
  rw [show (({} : St).tracker.used "math") = false from rfl] at h1
  simp only [Bool.false_eq_true, if_false] at h1
  rw [e2] at h1
  simp at h1
  exact Bool.noConfusion (Val.num.inj h1)
end

end DarkluaModel.Rules.ConvertSquareRootCall
