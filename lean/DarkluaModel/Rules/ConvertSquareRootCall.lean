import DarkluaModel.Shared.Visitor
import DarkluaModel.Shared.Run
/-!
# `convert_square_root_call` (`src/rules/convert_square_root_call.rs`)

`ScopeVisitor` with an `IdentifierTracker` (a stack of identifier sets; `is_identifier_used`
looks through the whole stack). `is_math_sqrt_call`: no method, exactly one argument, prefix
`math.sqrt` with `math` an identifier that no enclosing scope declares.

* `process_expression`: `math.sqrt(x)` in expression position → `x ^ 0.5`;
* `process_statement`: a call statement `math.sqrt(x)` →
  `expressions_as_statement(preserve_arguments_side_effects(evaluator, args))`
  (`src/utils/…`): the call disappears, the arguments that may have side effects stay.

`Evaluator::has_side_effects` (default evaluator: metamethods are NOT assumed pure) needs
`Evaluator::evaluate` for `and`/`or`/arithmetic/`if` expressions; that evaluator is property
C08's model. Here only its trivial part is modelled (`evalLV`: literals, and the forms that
are `Unknown` by definition); where more would be needed `hasSE` answers `none` and the whole
rule model answers `none` (driver token `unmodelled`; the harness then runs the oracle only).
-/
namespace DarkluaModel.Rules.ConvertSquareRootCall

/-- what `has_side_effects` needs to know of a `LuaValue`: `is_truthy` and `maybe_metatable` -/
inductive LV where
  | falsy | truthy | unknown
  deriving DecidableEq, Repr

/-- `Evaluator::evaluate`, trivial part only (`none` = not modelled here) -/
def evalLV : Expr → Option LV
  | .false | .nil => some .falsy
  | .true | .num _ | .str _ | .fn _ | .table _ => some .truthy
  | .call _ _ _ _ | .field _ _ | .var _ | .index _ _ | .vararg => some .unknown
  | .paren e => evalLV e
  | .cast e _ => evalLV e
  | .inst e _ =>
    -- `evaluate_prefix`
    match e with
    | .paren x => evalLV x
    | .inst _ _ => none
    | _ => some .unknown
  | _ => none

def or3 (a b : Option Bool) : Option Bool :=
  match a, b with
  | some true, _ | _, some true => some true
  | some false, some false => some false
  | _, _ => none

def maybeMetatable : Option LV → Option Bool
  | some .unknown => some true
  | some _ => some false
  | none => none

mutual
  /-- `Evaluator::has_side_effects` with `pure_metamethods = false` -/
  def hasSE : Expr → Option Bool
    | .false | .fn _ | .var _ | .nil | .num _ | .str _ | .true | .vararg => some false
    | .ifx _ _ _ _ => none
    | .bin .and l r =>
      match hasSE l with
      | some true => some true
      | some false =>
        match evalLV l with
        | some .falsy => some false
        | some _ => hasSE r
        | none => none
      | none => none
    | .bin .or l r =>
      match hasSE l with
      | some true => some true
      | some false =>
        match evalLV l with
        | some .truthy => some false
        | some _ => hasSE r
        | none => none
      | none => none
    | .bin _ l r =>
      or3 (or3 (maybeMetatable (evalLV l)) (maybeMetatable (evalLV r))) (or3 (hasSE l) (hasSE r))
    | .un .not e => hasSE e
    | .un _ e => or3 (maybeMetatable (evalLV e)) (hasSE e)
    | .field _ _ => some true
    | .index _ _ => some true
    | .paren e => hasSE e
    | .table es => hasSEEntries es
    | .call _ _ _ _ => some true
    | .interp segs => hasSESegs segs
    | .cast e _ => hasSE e
    | .inst e _ =>
      -- `prefix_has_side_effects`
      match e with
      | .var _ => some false
      | .paren x => hasSE x
      | .inst _ _ => none
      | _ => some true
  def hasSEEntries : List Entry → Option Bool
    | [] => some false
    | .pos v :: rest => or3 (hasSE v) (hasSEEntries rest)
    | .named _ v :: rest => or3 (hasSE v) (hasSEEntries rest)
    | .keyed k v :: rest => or3 (or3 (hasSE k) (hasSE v)) (hasSEEntries rest)
  def hasSESegs : List Seg → Option Bool
    | [] => some false
    | .s _ :: rest => hasSESegs rest
    | .v e :: rest => or3 (hasSE e) (hasSESegs rest)
end

/-- keep the expressions that have side effects -/
def filterSE : List Expr → Option (List Expr)
  | [] => some []
  | e :: rest =>
    match hasSE e, filterSE rest with
    | some true, some r => some (e :: r)
    | some false, some r => some r
    | _, _ => none

def entryExprs : List Entry → List Expr
  | [] => []
  | .pos v :: rest => v :: entryExprs rest
  | .named _ v :: rest => v :: entryExprs rest
  | .keyed k v :: rest => k :: v :: entryExprs rest

/-- `preserve_arguments_side_effects` -/
def preserveArgumentsSideEffects (kind : ArgKind) (args : List Expr) : Option (List Expr) :=
  match kind, args with
  | .tuple, _ => filterSE args
  | .tbl, [.table entries] => filterSE (entryExprs entries)
  | .str, _ => some []
  | _, _ => none

/-- `get_inner_expression` (fuel = size of the expression: total, never runs out) -/
def innerExpression : Nat → Expr → Expr
  | n + 1, .paren e => innerExpression n e
  | n + 1, .cast e _ => innerExpression n e
  | _, e => e

/-- the loop of `expressions_as_statement`; `acc` is `statements` in REVERSE order -/
def asStatements : List Expr → List Stmt → List Stmt
  | [], acc => acc.reverse
  | v :: rest, acc =>
    match innerExpression v.size v with
    | .call f m k a => asStatements rest (.callStmt (.call f m k a) :: acc)
    | value =>
      match acc with
      | .localAssign kind names values :: acc' => asStatements rest (.localAssign kind names (values ++ [value]) :: acc')
      | _ => asStatements rest (.localAssign .loc [.mk "_" none] [value] :: acc)

/-- `expressions_as_statement` -/
def expressionsAsStatement (values : List Expr) : Stmt :=
  match asStatements values [] with
  | [s] => s
  | stmts => .doBlock (.mk stmts none)

/-- bits of the `f64` 0.5 -/
def halfBits : UInt64 := 0x3FE0000000000000

/-- `IdentifierTracker`: innermost scope first -/
abbrev Tracker := List (List String)

def Tracker.used (t : Tracker) (name : String) : Bool := t.any fun s => s.contains name

def Tracker.insert (t : Tracker) (name : String) : Tracker :=
  match t with
  | [] => [[name]]
  | s :: rest => (name :: s) :: rest

/-- `is_math_sqrt_call`: the single argument when the call qualifies -/
def mathSqrtArg (t : Tracker) : Expr → Option (ArgKind × Expr)
  | .call (.field (.var "math") "sqrt") none kind [arg] => if t.used "math" then none else some (kind, arg)
  | _ => none

/-- state: the tracker, and whether something outside the modelled part of the evaluator was needed -/
structure St where
  tracker : Tracker := []
  unmodelled : Bool := false

def processExpression (e : Expr) (s : St) : Expr × St :=
  match mathSqrtArg s.tracker e with
  | some (_, arg) => (.bin .pow arg (.num halfBits), s)
  | none => (e, s)

def processStatement (st : Stmt) (s : St) : Stmt × St :=
  match st with
  | .callStmt c =>
    match mathSqrtArg s.tracker c with
    | some (kind, arg) =>
      match preserveArgumentsSideEffects kind [arg] with
      | some values => (expressionsAsStatement values, s)
      | none => (st, { s with unmodelled := true })
    | none => (st, s)
  | _ => (st, s)

def processor : Processor St :=
  { expr := processExpression
    stmt := processStatement
    push := fun s => { s with tracker := [] :: s.tracker }
    pop := fun s => { s with tracker := s.tracker.drop 1 }
    insert := fun n s => (n, { s with tracker := s.tracker.insert n })
    insertSelf := fun s => { s with tracker := s.tracker.insert "self" }
    insertLocal := fun n e s => ((n, e), { s with tracker := s.tracker.insert n })
    insertLocalFn := fun n s => (n, { s with tracker := s.tracker.insert n }) }

/-- `flawless_process`: one `ScopeVisitor` pass; `none` when the unmodelled part of the evaluator was needed -/
def apply (b : Block) : Option Block :=
  let (b', s) := Visitor.runScoped processor b {}
  if s.unmodelled then none else some b'

end DarkluaModel.Rules.ConvertSquareRootCall
