import DarkluaModel.Rules.LuauCommon
/-!
# `convert_luau_number` (`src/rules/convert_luau_number.rs`)

`process_number_expression` (with `DefaultVisitor`) re-spells number literals: a binary literal
`0b…` becomes the hexadecimal literal of the same raw value, underscores are removed from the
tokens of decimal / hexadecimal literals. The shared AST carries only the VALUE of a literal
(`(num <bits of compute_value()>)`), which none of this changes: on the semantic AST the hook is
the identity. (The spelling itself is judged by the harness on the real output; literal text is
property C13's subject.)
-/
namespace DarkluaModel.Rules.ConvertLuauNumber

/-- `process_number_expression`: same value -/
def node : Expr → Unit → Expr × Unit
  | .num bits, s => (.num bits, s)
  | e, s => (e, s)

def processor : Processor Unit where
  node := node

def apply (b : Block) : Block := (Visitor.runDefault processor b ()).1

end DarkluaModel.Rules.ConvertLuauNumber
