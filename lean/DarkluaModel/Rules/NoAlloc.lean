import DarkluaModel.Shared.Ast
/-!
`noAlloc e`: no table constructor and no function expression anywhere in `e` — evaluating such an
expression allocates nothing, so "no side effects" means the state is left EXACTLY as it was
(`C08.pure_sound_noalloc`). Shared by the evaluator soundness theorems (C08) and the rule lemmas
that need exact state preservation (C01; same definition as `Rules/EvalApi.lean` on branch c01).
-/
namespace DarkluaModel.Rules

mutual
  def noAlloc : Expr → Bool
    | .nil | .true | .false | .vararg | .num _ | .str _ | .var _ => true
    | .paren e => noAlloc e
    | .un _ e => noAlloc e
    | .bin _ l r => noAlloc l && noAlloc r
    | .call f _ _ args => noAlloc f && noAllocList args
    | .field e _ => noAlloc e
    | .index e k => noAlloc e && noAlloc k
    | .fn _ => false
    | .table _ => false
    | .ifx c t elifs e => noAlloc c && noAlloc t && noAllocPairs elifs && noAlloc e
    | .interp segs => noAllocSegs segs
    | .cast e _ => noAlloc e
    | .inst e _ => noAlloc e
  def noAllocList : List Expr → Bool
    | [] => true
    | e :: es => noAlloc e && noAllocList es
  def noAllocPairs : List (Expr × Expr) → Bool
    | [] => true
    | (a, b) :: rest => noAlloc a && noAlloc b && noAllocPairs rest
  def noAllocSegs : List Seg → Bool
    | [] => true
    | .s _ :: rest => noAllocSegs rest
    | .v e :: rest => noAlloc e && noAllocSegs rest
end

end DarkluaModel.Rules
