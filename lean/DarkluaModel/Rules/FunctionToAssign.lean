import DarkluaModel.Shared.Visitor
import DarkluaModel.Shared.Run
import DarkluaModel.Rules.FnErase
/-!
# `convert_function_to_assignment` (`src/rules/global_function_to_assign.rs`)

`Processor::process_statement` (pre-order, `DefaultVisitor`) turns EVERY function statement
`function base.f1.….fn:m(params) body end` into the assignment
`base.f1.….fn.m = function(self, params) body end` (`self` only with a method name).
As in `convert_local_function_to_assign`, only block, parameters and `is_variadic` survive:
variadic type, return type, generics and attributes are dropped.
-/
namespace DarkluaModel.Rules.FunctionToAssign

/-- the assignment target `base.f1.….fk` (left-nested field expressions) -/
def target (base : Expr) : List String → Expr
  | [] => base
  | f :: rest => target (.field base f) rest

/-- the function a function statement denotes: `self` is prepended for methods -/
def withSelf (m : Option String) : FnBody → FnBody
  | .mk ps v vt r g a b =>
    match m with
    | some _ => .mk (.mk "self" none :: ps) v vt r g a b
    | none => .mk ps v vt r g a b

/-- the keys after the root identifier: field names, then the method name -/
def keysOf (fields : List String) (m : Option String) : List String :=
  fields ++ (match m with | some mm => [mm] | none => [])

/-- `convert` -/
def convert (name : List String) (method : Option String) (body : FnBody) : Option Stmt :=
  match name with
  | [] => none
  | root :: fields =>
    some (.assign [target (.var root) (keysOf fields method)] [.fn (erase (withSelf method body))])

def processStatement : Stmt → Unit → Stmt × Unit
  | .function name method body, u =>
    match convert name method body with
    | some s => (s, u)
    | none => (.function name method body, u)
  | s, u => (s, u)

def processor : Processor Unit := { stmt := processStatement }

/-- `flawless_process`: one `DefaultVisitor` pass -/
def apply (b : Block) : Block := (Visitor.runDefault processor b ()).1

/-! ### local soundness against `Shared/Sem.lean`

`Sem.execS (.function …)` allocates the closure FIRST and then walks `root.f1.….f(n-1)`;
the assignment walks first and allocates afterwards. The two differ only when the walk runs an
`__index` handler (the closure gets another number, or an error state has one closure less):
`path_exact` is exact under that explicit commutation hypothesis, `single_exact` /
`global_exact` need none. With Luau annotations the created closure additionally carries the
erased body (`erase`), which `callClosure` never reads (`callClosure_erase`). -/

open Sem
section
variable {N : NumOps} (call : CallFn N) (ρ : ExtOracle N) (k : Nat) (env : Env N)

/-- evaluating the assignment target `base.k1.….kn` (n ≥ 1) is the field walk of a function statement -/
theorem evalTarget_target (keys : List String) (hk : keys ≠ []) (base : Expr) (σ : State N) :
    evalTarget call ρ k env (target base keys) σ =
      (evalE call ρ k env base σ).bind fun vs σ' =>
        (walkFields call ρ k (first vs) keys σ').bind fun r σ'' => .ok (.slot r.1 (strVal r.2)) σ'' := by
  induction keys generalizing base σ with
  | nil => exact absurd rfl hk
  | cons f rest ih =>
    cases rest with
    | nil =>
      simp only [target, evalTarget, walkFields]
      cases evalE call ρ k env base σ <;> simp [Res.bind]
    | cons g rest' =>
      have := ih (by simp) (.field base f) σ
      simp only [target] at this ⊢
      rw [this]
      simp only [evalE, walkFields]
      cases evalE call ρ k env base σ with
      | ok vs σ1 =>
        simp only [Res.bind]
        cases indexVal call ρ k (first vs) (strVal f) σ1 <;> simp [first]
      | err v σ1 => simp [Res.bind]
      | timeout => simp [Res.bind]


theorem lookupVar_closures (x : String) (σ : State N) (cs : List (Closure N)) :
    lookupVar env x { globals := σ.globals, cells := σ.cells, tables := σ.tables, closures := cs, trace := σ.trace }
      = lookupVar env x σ := by
  simp [lookupVar, State.getCell, State.getGlobal]

theorem execS_function (root : String) (fields : List String) (m : Option String) (body : FnBody)
    (hk : keysOf fields m ≠ []) (σ : State N) :
    execS call ρ k env (.function (root :: fields) m body) σ =
      let clo : Closure N := ⟨withSelf m body, env.locals, []⟩
      (walkFields call ρ k (lookupVar env root σ) (keysOf fields m) (σ.allocClosure clo).2).bind fun r σ2 =>
        (setIndexVal call ρ k r.1 (strVal r.2) (.fn σ.closures.length) σ2).bind fun _ σ3 => .ok (.next env) σ3 := by
  cases body with
  | mk ps v vt r g a b =>
  cases m with
  | some mm =>
    cases fields <;> simp [execS, withSelf, keysOf, lookupVar_closures, State.allocClosure]
  | none =>
    cases fields with
    | nil => simp [keysOf] at hk
    | cons f rest => simp [execS, withSelf, keysOf, lookupVar_closures, State.allocClosure]

theorem execS_assign_target (root : String) (keys : List String) (hk : keys ≠ []) (fb : FnBody) (σ : State N) :
    execS call ρ k env (.assign [target (.var root) keys] [.fn fb]) σ =
      (walkFields call ρ k (lookupVar env root σ) keys σ).bind fun r σw =>
        (setIndexVal call ρ k r.1 (strVal r.2) (.fn σw.closures.length)
          (σw.allocClosure ⟨fb, env.locals, []⟩).2).bind fun _ σ3 => .ok (.next env) σ3 := by
  simp only [execS, evalTargets, evalTarget_target call ρ k env keys hk, evalE, Res.bind, first, List.headD]
  cases walkFields call ρ k (lookupVar env root σ) keys σ with
  | ok r σw => simp [Res.bind, evalEs, evalE, storeTargets, storeTarget, first, State.allocClosure]
  | err v σ1 => simp
  | timeout => simp


/-- `function n(…) … end` for a plain name is exactly `n = function(…) … end` -/
theorem global_exact (n : String) (body : FnBody) (σ : State N) :
    execS call ρ k env (.assign [.var n] [.fn body]) σ = execS call ρ k env (.function [n] none body) σ := by
  simp [execS, evalTargets, evalTarget, evalEs, evalE, storeTargets, storeTarget, Res.bind, first]

/-- `function root.f1.….fn[:m](…)` is exactly `root.f1.….fn[.m] = function([self,] …)` whenever the walk
`root.f1.….f(n-1)` gives the same table whether the closure is allocated before it (function
statement) or after it (assignment) and allocates no closure itself. -/
theorem path_exact (root : String) (fields : List String) (m : Option String) (body : FnBody)
    (hk : keysOf fields m ≠ []) (σ σw : State N) (r : Val N × String)
    (h1 : walkFields call ρ k (lookupVar env root σ) (keysOf fields m) σ = .ok r σw)
    (h2 : walkFields call ρ k (lookupVar env root σ) (keysOf fields m)
            (σ.allocClosure ⟨withSelf m body, env.locals, []⟩).2
          = .ok r (σw.allocClosure ⟨withSelf m body, env.locals, []⟩).2)
    (hlen : σw.closures.length = σ.closures.length) :
    execS call ρ k env (.assign [target (.var root) (keysOf fields m)] [.fn (withSelf m body)]) σ
      = execS call ρ k env (.function (root :: fields) m body) σ := by
  rw [execS_function call ρ k env root fields m body hk, execS_assign_target call ρ k env root _ hk]
  simp only [h1, h2, Res.bind, hlen]

/-- one key after the root (`function a.f()`, `function a:m()`): no walk at all, unconditionally exact -/
theorem single_exact (root : String) (fields : List String) (m : Option String) (body : FnBody) (last : String)
    (hk : keysOf fields m = [last]) (σ : State N) :
    execS call ρ k env (.assign [target (.var root) (keysOf fields m)] [.fn (withSelf m body)]) σ
      = execS call ρ k env (.function (root :: fields) m body) σ := by
  apply path_exact call ρ k env root fields m body (by simp [hk]) σ σ (lookupVar env root σ, last)
  · simp [hk, walkFields]
  · simp [hk, walkFields]
  · rfl

theorem plain_withSelf (m : Option String) (body : FnBody) : plain (withSelf m body) = plain body := by
  cases body with
  | mk ps v vt r g a b => cases m <;> cases vt <;> cases r <;> cases g <;> cases a <;> simp [withSelf, plain]

/-- the statement hook on a function statement without Luau annotations -/
theorem processStatement_plain (root : String) (fields : List String) (m : Option String) (body : FnBody)
    (hp : plain body = true) (u : Unit) :
    (processStatement (.function (root :: fields) m body) u).1
      = .assign [target (.var root) (keysOf fields m)] [.fn (withSelf m body)] := by
  have h : erase (withSelf m body) = withSelf m body :=
    erase_plain _ (by rw [plain_withSelf]; exact hp)
  simp [processStatement, convert, h]

end

end DarkluaModel.Rules.FunctionToAssign
