import DarkluaModel.Shared.Visitor
import DarkluaModel.Shared.Run
/-!
# `convert_function_to_assignment` (`src/rules/global_function_to_assign.rs`)

`Processor::process_statement` (pre-order, `DefaultVisitor`) turns EVERY function statement
`function base.f1.….fn:m(params) body end` into the assignment
`base.f1.….fn.m = function(self, params) body end` (`self` only with a method name).
As in `convert_local_function_to_assign`, only block, parameters and `is_variadic` survive:
variadic type, return type, generics and attributes are dropped.
-/
namespace DarkluaModel.Rules.FunctionToAssign

/-- the assignment target `base.f1.….fk` (left-nested field expressions) -/
def target (base : Expr) : List String → Expr
  | [] => base
  | f :: rest => target (.field base f) rest

/-- `convert` -/
def convert (name : List String) (method : Option String) : FnBody → Option Stmt
  | .mk params variadic _ _ _ _ body =>
    match name with
    | [] => none
    | root :: fields =>
      let keys := fields ++ (match method with | some m => [m] | none => [])
      let params' := match method with
        | some _ => .mk "self" none :: params
        | none => params
      some (.assign [target (.var root) keys] [.fn (.mk params' variadic none none [] [] body)])

def processStatement : Stmt → Unit → Stmt × Unit
  | .function name method body, u =>
    match convert name method body with
    | some s => (s, u)
    | none => (.function name method body, u)
  | s, u => (s, u)

def processor : Processor Unit := { stmt := processStatement }

/-- `flawless_process`: one `DefaultVisitor` pass -/
def apply (b : Block) : Block := (Visitor.runDefault processor b ()).1

end DarkluaModel.Rules.FunctionToAssign
