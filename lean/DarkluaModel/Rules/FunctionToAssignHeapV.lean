import DarkluaModel.Rules.FunctionToAssign
import DarkluaModel.Shared.VisitorSoundHeapV
/-!
# `convert_function_to_assignment` — whole rule, EVERY program, through the stage-4 lifting

`function root.f1.….fn[:m](…) … end` allocates its closure FIRST and then walks `root.f1.….f(n-1)`; the
assignment `root.f1.….fn[.m] = function([self,] …) … end` walks first and allocates afterwards. When the
walk runs `__index` handlers that create closures, the two runs number closures differently: not exact
(stage 3 covers at most one key after the root). Under the renumbering relation of stage 4 the early
closure of the original is PINNED (`SRel.allocClosureLeftPinned`), the two walks are related by
parametricity, and the late closure of the output is matched with the pinned one
(`SRel.matchClosureRight`).
-/
namespace DarkluaModel.Rules.FunctionToAssign
open Sem Sem.HeapV

theorem withSelf_eq_addSelf (m : Option String) (f : FnBody) : withSelf m f = Heap.addSelf m f := by
  cases f; cases m <;> rfl

/-- the step is sound for the renumbering relation, whatever the length of the path -/
theorem function_to_assign_sound {Q : QRel} {D : List DName} {root : String} {fields : List String}
    {m : Option String} {body fb : FnBody} (hk : keysOf fields m ≠ []) (hroot : DName.ref root ∉ D)
    (hq : Q D (withSelf m body) fb) :
    SoundS Q D (.function (root :: fields) m body) (.assign [target (.var root) (keysOf fields m)] [.fn fb]) := by
  intro N call ρ k env env' σ σ' β hp hs he
  rw [execS_function call ρ k env root fields m body hk, execS_assign_target call ρ k env' root _ hk]
  simp only []
  -- the original allocates its closure now: pinned
  have hs1 := hs.allocClosureLeftPinned (withSelf m body) env.locals
  have hle1 := le_pinNew (β := β) σ.closures.length (withSelf m body) env.locals
  have hpin : (σ.closures.length, withSelf m body, env.locals) ∈ (β.pinNew σ.closures.length (withSelf m body) env.locals).pinF :=
    List.mem_cons_self
  -- the two walks
  have hv := (hs.lookupVar he.loc hroot).mono hle1
  have hw := walkFields_param hp.call hp.flat k hv (keysOf fields m) hs1
  revert hw
  generalize walkFields call ρ k (lookupVar env root σ) (keysOf fields m)
    (σ.allocClosure ⟨withSelf m body, env.locals, []⟩).2 = wl
  generalize walkFields call ρ k (lookupVar env' root σ') (keysOf fields m) σ' = wr
  intro hw
  cases wl <;> cases wr <;> simp only [HeapV.RRel] at hw
  · obtain ⟨β1, hle2, hpq, hs2⟩ := hw
    rename_i r s r' s'
    simp only [Res.bind]
    -- the output allocates its closure now: matched with the pinned one
    have hpin1 := hle2.pins _ hpin
    have hcr : CRel Q β1 (⟨withSelf m body, env.locals, []⟩ : Closure N) ⟨fb, env'.locals, []⟩ :=
      ⟨.nil, D, hq, (he.loc.mono hle1).mono hle2⟩
    have hs3 := hs2.matchClosureRight hpin1 hcr
    have hle01 := Inj.le_trans hle1 hle2
    have hfR : β.fR ≤ s'.closures.length := Nat.le_trans hle01.front.2.2.2.2.2 hs2.front.fR
    have hle3 : β.le (β1.matchF σ.closures.length s'.closures.length) :=
      le_late hle01 hs.front.fL hfR fun p hp0 => by
        have := getElem?_lt (hs.pin p hp0).1; omega
    have hle13 : ∀ {v v' : Val N}, VRel β1 v v' → VRel (β1.matchF σ.closures.length s'.closures.length) v v' := by
      intro v v' hv
      cases v <;> cases v' <;> simp only [VRel] at hv ⊢ <;> first | exact hv | exact .inl hv
    have hfn : VRel (N := N) (β1.matchF σ.closures.length s'.closures.length) (.fn σ.closures.length)
        (.fn s'.closures.length) := .inr ⟨rfl, rfl⟩
    refine RRel.mono hle3 ?_
    refine RRel.bind (setIndexVal_param hp.call hp.flat k (hle13 hpq.1)
      (by rw [hpq.2]; simp only [strVal, VRel]) hfn hs3) fun β4 hle4 _ _ _ _ _ h => ?_
    exact RRel.ok (A := ACtlS D) ((he.mono hle3).mono hle4) h
  · obtain ⟨β1, hle2, hv1, hs2⟩ := hw
    exact RRel.mono (Inj.le_trans hle1 hle2) (RRel.err hv1 hs2)
  · trivial

/-! ### the link -/

theorem refsT_target (x : DName) (base : Expr) : ∀ (keys : List String), keys ≠ [] → (target base keys).refsT x = base.refs x
  | [], h => absurd rfl h
  | [k], _ => by simp [target, Expr.refsT]
  | k :: k2 :: ks, _ => by
    have := refsT_target x (.field base k) (k2 :: ks) (by simp)
    simpa [target, Expr.refs] using this

theorem noRef_output {D : List DName} {root : String} {fields : List String} {m : Option String} {body : FnBody}
    (hk : keysOf fields m ≠ []) (hn : NoRefS D (.function (root :: fields) m body)) :
    NoRefS D (.assign [target (.var root) (keysOf fields m)] [.fn (withSelf m body)]) := by
  have h := NoRefS.functionCons.mp hn
  refine NoRefS.assign.mpr ⟨?_, ?_⟩
  · intro x hx
    simp only [Expr.refsTList, refsT_target x _ _ hk, Expr.refs, Bool.or_false]
    by_cases hxe : x = .ref root
    · subst hxe; exact absurd hx h.1
    · simpa using hxe
  · intro x hx
    have := Heap.NoRefF.addSelf h.2.2.2 h.2.2.1 x hx
    simpa [Expr.refsList, Expr.refs, withSelf_eq_addSelf] using this

theorem vk_functionToAssign {root : String} {fields : List String} {m : Option String} {body : FnBody}
    (hk : keysOf fields m ≠ []) :
    VkS (.function (root :: fields) m body) (.assign [target (.var root) (keysOf fields m)] [.fn (withSelf m body)]) := by
  intro D _ hn
  have h := NoRefS.functionCons.mp hn
  refine ⟨.genS fun Q hq => function_to_assign_sound hk h.1 (hq D _ ?_), noRef_output hk hn⟩
  rw [withSelf_eq_addSelf]
  exact Heap.NoRefF.addSelf h.2.2.2 h.2.2.1

/-- `.fn f ⇝ .fn (erase f)`: the dropped annotations are not part of the relation -/
theorem vk_erase (f : FnBody) : VkE (.fn f) (.fn (erase f)) := by
  cases f with
  | mk ps v vt r g a b => exact vk_fn (vk_fnBody rfl (VkB.refl b))

theorem stmt_chain (x : Stmt) (s : Unit) : Chain VkS x (processStatement x s).1 := by
  cases x with
  | function name m body =>
    cases name with
    | nil => exact .refl _
    | cons root fields =>
      simp only [processStatement, convert]
      refine Chain.trans ?_ (.single (vk_assign (Forall2.refl VkT.refl _) (.cons (vk_erase _) .nil)))
      by_cases hk : keysOf fields m = []
      · -- `function f() … end`: exactly `f = function() … end`
        have hf : fields = [] := by cases fields <;> simp_all [keysOf]
        have hm : m = none := by cases m <;> simp_all [keysOf]
        subst hf; subst hm
        have hw : withSelf none body = body := by cases body; rfl
        simp only [keysOf, List.append_nil, target, hw]
        refine .single (VkS.ofEq (fun N call ρ k env σ => global_exact call ρ k env root body σ) ?_)
        intro D _ hn
        have h := NoRefS.functionCons.mp hn
        refine NoRefS.assign.mpr ⟨?_, ?_⟩
        · intro x hx
          simp only [Expr.refsTList, Expr.refsT, Bool.or_false, Bool.or_eq_false_iff]
          constructor
          · by_cases hxe : x = .ref root
            · subst hxe; exact absurd hx h.1
            · simpa using hxe
          · by_cases hxe : x = .wat root
            · subst hxe; exact absurd hx h.2.1
            · simpa using hxe
        · intro x hx
          have := h.2.2.2 x hx
          simpa [Expr.refsList, Expr.refs] using this
      · exact .single (vk_functionToAssign hk)
  | _ => exact .refl _

theorem hooksV : HooksV processor where
  stmt := stmt_chain

/-- **whole rule, EVERY program**: `convert_function_to_assignment` preserves the observable outcome —
returned / raised values and the trace of external calls — at every call level and number system, for
every oracle that returns no heap references. -/
theorem apply_refines (b : Block) {N : NumOps} (ρ : ExtOracle N) (hρ : OracleFlat ρ) (n : Nat) (externs : List String) :
    runProgram ρ n externs (apply b) = runProgram ρ n externs b :=
  Visitor.runDefault_v hooksV b () ρ hρ n externs

end DarkluaModel.Rules.FunctionToAssign
