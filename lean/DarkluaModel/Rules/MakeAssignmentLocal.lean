import DarkluaModel.Rules.LuauCommon
/-!
# `make_assignment_local` (`src/rules/make_assignment_local.rs`)

`process_local_assign_statement` / `process_local_function_statement` (with `DefaultVisitor`)
set the assignment kind to `local` (`const x = 1` ⇒ `local x = 1`).
-/
namespace DarkluaModel.Rules.MakeAssignmentLocal

def stmtNode : Stmt → Unit → Stmt × Unit
  | .localAssign _ names values, s => (.localAssign .loc names values, s)
  | .localFn _ name body, s => (.localFn .loc name body, s)
  | st, s => (st, s)

def processor : Processor Unit where
  stmtNode := stmtNode

def apply (b : Block) : Block := (Visitor.runDefault processor b ()).1

end DarkluaModel.Rules.MakeAssignmentLocal
