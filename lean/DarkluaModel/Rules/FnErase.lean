import DarkluaModel.Shared.Run
/-!
What `convert_local_function_to_assign` and `convert_function_to_assignment` keep of a function:
block, parameters (with their types) and the `is_variadic` flag. The variadic type, the return
type, the generic parameters and the attributes are dropped. None of them is read when a closure
is called (`callClosure_erase`).
-/
namespace DarkluaModel.Rules
open Sem

/-- drop the annotations that `FunctionExpression::default()` + `set_variadic` + the two swaps lose -/
def erase : FnBody → FnBody
  | .mk params variadic _ _ _ _ body => .mk params variadic none none [] [] body

/-- no variadic type, return type, generics or attributes: `erase` is the identity (all Lua 5.1 functions) -/
def plain : FnBody → Bool
  | .mk _ _ none none [] [] _ => true
  | _ => false

theorem erase_plain (b : FnBody) (h : plain b = true) : erase b = b := by
  cases b with
  | mk ps v vt r g a blk =>
    cases vt <;> cases r <;> cases g <;> cases a <;> simp_all [plain, erase]

/-- calling a closure never looks at the erased annotations -/
theorem callClosure_erase {N : NumOps} (ρ : ExtOracle N) (n : Nat) (b : FnBody) (env : List (String × Nat))
    (va args : List (Val N)) (σ : State N) :
    callClosure ρ n ⟨erase b, env, va⟩ args σ = callClosure ρ n ⟨b, env, va⟩ args σ := by
  cases n with
  | zero => rfl
  | succ n => cases b; simp [callClosure, erase]

theorem lookupVar_allocClosure {N : NumOps} (env : Env N) (x : String) (σ : State N) (c : Closure N) :
    lookupVar env x (σ.allocClosure c).2 = lookupVar env x σ := by
  simp [lookupVar, State.allocClosure, State.getCell, State.getGlobal]

/-- a one-point number system (witnesses do not compute with numbers) -/
def unitOps : NumOps :=
  { F := Unit, ofBits := fun _ => (), toBits := fun _ => 0, add := fun _ _ => (), sub := fun _ _ => (),
    mul := fun _ _ => (), div := fun _ _ => (), mod := fun _ _ => (), pow := fun _ _ => (), idiv := fun _ _ => (),
    neg := fun _ => (), lt := fun _ _ => false, le := fun _ _ => true, eq := fun _ _ => true, isNaN := fun _ => false,
    ofNat := fun _ => (), toNat? := fun _ => none, toStr := fun _ => [], ofStr := fun _ => none,
    floor := fun _ => (), sqrt := fun _ => () }


end DarkluaModel.Rules
