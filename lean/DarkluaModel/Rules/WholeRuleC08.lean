import DarkluaModel.Rules.AtN
import DarkluaModel.Rules.EvalC08Total
import DarkluaModel.Rules.WholeRule
import DarkluaModel.Rules.UnusedIfBranchWhole
import DarkluaModel.Rules.ConvertIndexWhole
import DarkluaModel.Rules.ComputeExpressionWhole
/-!
# Whole-rule theorems at ONE number system (for the real evaluator)

`remove_unused_while`, `remove_unused_if_branch`, `convert_index_to_field`: the hook lemmas of
`WholeRule.lean` / `UnusedIfBranchWhole.lean` / `ConvertIndexWhole.lean` are already about one number system
(`EvalTotal N api`); here they are packaged as `HooksLeAt N`, the hooks are shown to introduce no identifier
reference (`HooksNoRef`), and `AtN.runDefault_upto_at` (stage 3, the number system pinned through the context's
call-handler assumption) gives the whole-rule statement for runs over `N`. With `gApi N E` (the real evaluator
restricted to `h8 ∧ tot`) and `C08.Agree N E` the contracts are theorems (`gApi_total`, `gApi_str`).
-/
namespace DarkluaModel.Rules
open Sem AtN

variable {N : NumOps} {api : EvalApi}

theorem refsList_append (x : DName) : ∀ (a b : List Stmt),
    Stmt.refsList x (a ++ b) = (Stmt.refsList x a || Stmt.refsList x b)
  | [], b => by simp [Stmt.refsList]
  | s :: a, b => by simp [Stmt.refsList, refsList_append x a b, Bool.or_assoc]

theorem refsList_filter (x : DName) (p : Stmt → Bool) : ∀ (l : List Stmt),
    Stmt.refsList x l = false → Stmt.refsList x (l.filter p) = false
  | [], _ => rfl
  | s :: l, h => by
    simp only [Stmt.refsList, Bool.or_eq_false_iff] at h
    by_cases hp : p s = true
    · simp [List.filter, hp, Stmt.refsList, h.1, refsList_filter x p l h.2]
    · simp [List.filter, hp, refsList_filter x p l h.2]

/-- a block hook that rewrites the statement list only -/
theorem noRefB_of_stmts {D : List DName} {ss ss' : List Stmt} {last : Option Last}
    (h : ∀ x, Stmt.refsList x ss = false → Stmt.refsList x ss' = false) (hb : NoRefB D (.mk ss last)) :
    NoRefB D (.mk ss' last) := by
  intro x hx
  have := hb x hx
  cases last with
  | none => simp only [Block.refs] at this ⊢; exact h x this
  | some l =>
    simp only [Block.refs, Bool.or_eq_false_iff] at this ⊢
    exact ⟨h x this.1, this.2⟩

/-! ### remove_unused_while -/
namespace UnusedWhile

theorem hooksLeAt (ht : EvalTotal N api) : HooksLeAt N (processor api) where
  block := fun b _ call ρ k env σ => by
    cases b with
    | mk stmts last =>
      simp only [processor, processBlock, execB]
      rcases execSs_filter_le ht call ρ k stmts env σ with hto | heq
      · left; simp [hto, Res.bind]
      · right; rw [heq]

theorem hooksNoRef : HooksNoRef (processor api) where
  block := fun b _ D h => by
    cases b with
    | mk stmts last => exact noRefB_of_stmts (fun x => refsList_filter x _ stmts) h

/-- whole rule at one number system -/
theorem apply_upto_at (ht : EvalTotal N api) (b : Block) (ρ : ExtOracle N) (n : Nat) (externs : List String) :
    runProgram ρ n externs b = .timeout ∨ runProgram ρ n externs (apply api b) = runProgram ρ n externs b :=
  runDefault_upto_at (hooksLeAt ht) hooksNoRef b () ρ n externs

end UnusedWhile

/-! ### convert_index_to_field -/
namespace ConvertIndexToField
open Whole

theorem convertIndex_leEAt (ht : EvalTotal N api) (hstr : StrSound N api) (e : Expr) :
    LeEAt N e (convertIndex api e) := by
  intro call ρ n env σ
  cases e with
  | index p k =>
    cases hc : convertToField api k with
    | none => right; simp [convertIndex, hc]
    | some name =>
      simp only [convertIndex, hc, evalE]
      cases hp : evalE call ρ n env p σ with
      | timeout => left; rfl
      | err v σ1 => right; rfl
      | ok ps σ1 =>
        rcases key_total ht hstr hc call ρ n env σ1 with hto | ⟨ks, hok, hv⟩
        · left; simp [Res.bind, hto]
        · right; simp [Res.bind, hok, hv]
  | _ => right; rfl

theorem convertIndex_leTAt (ht : EvalTotal N api) (hstr : StrSound N api) (e : Expr) :
    LeTAt N e (convertIndex api e) := by
  intro call ρ n env σ
  cases e with
  | index p k =>
    cases hc : convertToField api k with
    | none => right; simp [convertIndex, hc]
    | some name =>
      simp only [convertIndex, hc, evalTarget]
      cases hp : evalE call ρ n env p σ with
      | timeout => left; rfl
      | err v σ1 => right; rfl
      | ok ps σ1 =>
        rcases key_total ht hstr hc call ρ n env σ1 with hto | ⟨ks, hok, hv⟩
        · left; simp [Res.bind, hto]
        · right; simp [Res.bind, hok, hv]
  | _ => right; rfl

theorem processTable_leEAt (ht : EvalTotal N api) (hstr : StrSound N api) (e : Expr) :
    LeEAt N e (processTable api e) := by
  intro call ρ n env σ
  cases e with
  | table es =>
    simp only [processTable, evalE]
    rcases entries_le ht hstr call ρ n env (σ.allocTable { entries := [], mt := none }).1 es 1
        (σ.allocTable { entries := [], mt := none }).2 with hto | heq
    · left; simp [hto, Res.bind]
    · right; rw [heq]
  | _ => right; rfl

theorem convertIndex_var (e : Expr) (a : String) (h : e = .var a) : convertIndex api e = .var a := by
  subst h; rfl
theorem processTable_var (e : Expr) (a : String) (h : e = .var a) : processTable api e = .var a := by
  subst h; rfl

theorem hooksLeAt (ht : EvalTotal N api) (hstr : StrSound N api) : HooksLeAt N (processor api) where
  expr := fun e _ => convertIndex_leEAt ht hstr e
  pref := fun e _ => convertIndex_leEAt ht hstr e
  target := fun e _ => convertIndex_leTAt ht hstr e
  targetVar := fun e _ a h => convertIndex_var e a h
  node := fun e _ => ⟨processTable_leEAt ht hstr e, LeTAt.ofLe (processTable_leT e)⟩
  nodeVar := fun e _ a h => processTable_var e a h

theorem convertIndex_refs (x : DName) (e : Expr) : (convertIndex api e).refs x = true → e.refs x = true := by
  cases e with
  | index p k =>
    cases hc : convertToField api k with
    | none => simp [convertIndex, hc]
    | some name => simp only [convertIndex, hc, Expr.refs]; intro h; simp [h]
  | _ => exact id

theorem convertIndex_refsT (x : DName) (e : Expr) : (convertIndex api e).refsT x = true → e.refsT x = true := by
  cases e with
  | index p k =>
    cases hc : convertToField api k with
    | none => simp [convertIndex, hc]
    | some name => simp only [convertIndex, hc, Expr.refsT]; intro h; simp [h]
  | _ => exact id

theorem entries_refs (x : DName) : ∀ (es : List Entry),
    Entry.refsList x es = false → Entry.refsList x (es.map (convertEntry api)) = false
  | [], _ => rfl
  | .pos v :: es, h => by
    simp only [Entry.refsList, Bool.or_eq_false_iff] at h
    simp [convertEntry, Entry.refsList, h.1, entries_refs x es h.2]
  | .named k v :: es, h => by
    simp only [Entry.refsList, Bool.or_eq_false_iff] at h
    simp [convertEntry, Entry.refsList, h.1, entries_refs x es h.2]
  | .keyed k v :: es, h => by
    simp only [Entry.refsList, Bool.or_eq_false_iff] at h
    cases hc : convertToField api k with
    | none => simp [convertEntry, hc, Entry.refsList, h.1.1, h.1.2, entries_refs x es h.2]
    | some name => simp [convertEntry, hc, Entry.refsList, h.1.2, entries_refs x es h.2]

theorem processTable_refs (x : DName) (e : Expr) (h : e.refs x = false) : (processTable api e).refs x = false := by
  cases e with
  | table es => simp only [processTable, Expr.refs] at h ⊢; exact entries_refs x es h
  | _ => exact h

theorem processTable_refsT (x : DName) (e : Expr) (h : e.refsT x = false) : (processTable api e).refsT x = false := by
  cases e with
  | table es => simp [processTable, Expr.refsT]
  | _ => exact h

theorem bool_false_of_imp {a b : Bool} (h : a = true → b = true) (hb : b = false) : a = false := by
  cases a <;> simp_all

theorem hooksNoRef : HooksNoRef (processor api) where
  expr := fun e _ D h x hx => bool_false_of_imp (convertIndex_refs x e) (h x hx)
  pref := fun e _ D h x hx => bool_false_of_imp (convertIndex_refs x e) (h x hx)
  target := fun e _ D h x hx => bool_false_of_imp (convertIndex_refsT x e) (h x hx)
  node := fun e _ D h x hx => processTable_refs x e (h x hx)
  nodeT := fun e _ D h x hx => processTable_refsT x e (h x hx)

/-- whole rule at one number system -/
theorem apply_upto_at (ht : EvalTotal N api) (hstr : StrSound N api) (b : Block) (ρ : ExtOracle N) (n : Nat)
    (externs : List String) :
    runProgram ρ n externs b = .timeout ∨ runProgram ρ n externs (apply api b) = runProgram ρ n externs b :=
  runDefault_upto_at (hooksLeAt ht hstr) hooksNoRef b () ρ n externs

end ConvertIndexToField

/-! ### remove_unused_if_branch -/
namespace UnusedIfBranch
open Whole

theorem hooksLeAt (ht : EvalTotal N api) : HooksLeAt N (processor api) where
  block := fun b _ call ρ k env σ => by
    cases b with
    | mk stmts last =>
      simp only [processor, processBlock, execB]
      rcases processStmts_le ht call ρ k stmts env σ with hto | heq
      · left; simp [hto, Res.bind]
      · right; rw [heq]
  expr := fun e _ call ρ k env σ => by
    cases e with
    | ifx c t elifs el => exact simplifyIf_le ht call ρ k env elifs el c t σ
    | _ => right; rfl

/-- the references of the branches kept by `retain_branches_mut`, and of the replacement else -/
theorem retainBranches_refs (x : DName) : ∀ (brs : List (Expr × Block)) (st : Retain Block),
    Stmt.refsBranches x brs = false → (∀ b, st.replaceElse = some b → b.refs x = false) →
    Stmt.refsBranches x (retainBranches api brs st).1 = false ∧
      ∀ b, (retainBranches api brs st).2.replaceElse = some b → b.refs x = false
  | [], st, _, hs => by simp only [retainBranches]; exact ⟨rfl, hs⟩
  | (c, b) :: rest, st, h, hs => by
    simp only [Stmt.refsBranches, Bool.or_eq_false_iff] at h
    obtain ⟨⟨hc, hb⟩, hr⟩ := h
    cases hk : st.keepNext with
    | false =>
      have := retainBranches_refs x rest st hr hs
      simpa [retainBranches, hk] using this
    | true =>
      cases ht : api.isTruthy c with
      | none =>
        have := retainBranches_refs x rest st hr hs
        simp only [retainBranches, hk, ht, Bool.not_true, Bool.false_eq_true, if_false]
        exact ⟨by simp [Stmt.refsBranches, hc, hb, this.1], this.2⟩
      | some tv =>
        cases hse : api.hasSideEffects c <;> cases tv
        · have := retainBranches_refs x rest st hr hs
          simpa [retainBranches, hk, ht, hse] using this
        · have := retainBranches_refs x rest { keepNext := false, replaceElse := some b } hr
            (fun b' hb' => by simp at hb'; subst hb'; exact hb)
          simpa [retainBranches, hk, ht, hse] using this
        · have := retainBranches_refs x rest st hr hs
          simp only [retainBranches, hk, ht, hse, Bool.not_true, Bool.false_eq_true, if_false, if_true]
          exact ⟨by simp [Stmt.refsBranches, hc, emptyBlock, Block.refs, Stmt.refsList, this.1], this.2⟩
        · have := retainBranches_refs x rest { st with keepNext := false } hr hs
          simp only [retainBranches, hk, ht, hse, Bool.not_true, Bool.false_eq_true, if_false, if_true]
          exact ⟨by simp [Stmt.refsBranches, hc, hb, this.1], this.2⟩

theorem simplifyIfStatement_refs (x : DName) (brs : List (Expr × Block)) (els : Option Block)
    (h : (Stmt.ifs brs els).refs x = false) : Stmt.refsList x (simplifyIfStatement api brs els) = false := by
  have hbrs : Stmt.refsBranches x brs = false := by
    cases els <;> simp only [Stmt.refs, Bool.or_eq_false_iff] at h
    · exact h
    · exact h.1
  have hels : ∀ e, dropEmptyElse els = some e → e.refs x = false := by
    intro e he
    cases els with
    | none => simp [dropEmptyElse] at he
    | some b0 =>
      simp only [Stmt.refs, Bool.or_eq_false_iff] at h
      simp only [dropEmptyElse] at he
      split at he
      · cases he
      · cases he; exact h.2
  have hret := retainBranches_refs (api := api) x brs {} hbrs (fun b hb => by cases hb)
  simp only [simplifyIfStatement]
  generalize retainBranches api brs {} = ret at hret
  obtain ⟨kept, st⟩ := ret
  simp only at hret ⊢
  have ifsRefs : ∀ (o : Option Block), (∀ e, o = some e → e.refs x = false) → (Stmt.ifs kept o).refs x = false := by
    intro o ho
    cases o with
    | none => simp [Stmt.refs, hret.1]
    | some e => simp [Stmt.refs, hret.1, ho e rfl]
  split
  · split
    · rename_i blk hblk
      split
      · rfl
      · simp [Stmt.refsList, Stmt.refs, hret.2 blk hblk]
    · split
      · rename_i e he
        split
        · rfl
        · simp [Stmt.refsList, Stmt.refs, hels e he]
      · rfl
  · split
    · simp only [Stmt.refsList, Bool.or_false]; exact ifsRefs _ hret.2
    · simp only [Stmt.refsList, Bool.or_false]; exact ifsRefs _ hels

theorem processStmts_refs (x : DName) : ∀ (ss : List Stmt),
    Stmt.refsList x ss = false → Stmt.refsList x (processStmts api ss) = false
  | [], _ => rfl
  | s :: rest, h => by
    simp only [Stmt.refsList, Bool.or_eq_false_iff] at h
    have ih := processStmts_refs x rest h.2
    cases s with
    | ifs brs els =>
      simp only [processStmts, refsList_append, Bool.or_eq_false_iff]
      exact ⟨simplifyIfStatement_refs x brs els h.1, ih⟩
    | assign _ _ | cassign _ _ _ | callStmt _ | doBlock _ | function _ _ _ | gfor _ _ _ | nfor _ _ _ _ _
    | localAssign _ _ _ | localFn _ _ _ | repeat_ _ _ | while_ _ _ | typeDecl _ _ _ | typeFn _ _ _ =>
      simp only [processStmts, Stmt.refsList, Bool.or_eq_false_iff]
      exact ⟨h.1, ih⟩

theorem retainElifs_refs (x : DName) : ∀ (el : List (Expr × Expr)) (st : Retain Expr),
    Expr.refsPairs x el = false → (∀ b, st.replaceElse = some b → b.refs x = false) →
    Expr.refsPairs x (retainElifs api el st).1 = false ∧
      ∀ b, (retainElifs api el st).2.replaceElse = some b → b.refs x = false
  | [], st, _, hs => by simp only [retainElifs]; exact ⟨rfl, hs⟩
  | (c, b) :: rest, st, h, hs => by
    simp only [Expr.refsPairs, Bool.or_eq_false_iff] at h
    obtain ⟨⟨hc, hb⟩, hr⟩ := h
    cases hk : st.keepNext with
    | false =>
      have := retainElifs_refs x rest st hr hs
      simpa [retainElifs, hk] using this
    | true =>
      cases ht : api.isTruthy c with
      | none =>
        have := retainElifs_refs x rest st hr hs
        simp only [retainElifs, hk, ht, Bool.not_true, Bool.false_eq_true, if_false]
        exact ⟨by simp [Expr.refsPairs, hc, hb, this.1], this.2⟩
      | some tv =>
        cases hse : api.hasSideEffects c <;> cases tv
        · have := retainElifs_refs x rest st hr hs
          simpa [retainElifs, hk, ht, hse] using this
        · have := retainElifs_refs x rest { keepNext := false, replaceElse := some b } hr
            (fun b' hb' => by simp at hb'; subst hb'; exact hb)
          simpa [retainElifs, hk, ht, hse] using this
        · have := retainElifs_refs x rest st hr hs
          simp only [retainElifs, hk, ht, hse, Bool.not_true, Bool.false_eq_true, if_false, if_true]
          exact ⟨by simp [Expr.refsPairs, hc, Expr.refs, this.1], this.2⟩
        · have := retainElifs_refs x rest { st with keepNext := false } hr hs
          simp only [retainElifs, hk, ht, hse, Bool.not_true, Bool.false_eq_true, if_false, if_true]
          exact ⟨by simp [Expr.refsPairs, hc, hb, this.1], this.2⟩

theorem wrap_refs (x : DName) (r : Expr) (h : r.refs x = false) : (wrap api r).refs x = false := by
  unfold wrap; split
  · simpa [Expr.refs] using h
  · exact h

theorem simplifyIf_refs (x : DName) : ∀ (elifs : List (Expr × Expr)) (c t e : Expr),
    c.refs x = false → t.refs x = false → Expr.refsPairs x elifs = false → e.refs x = false →
    (simplifyIf api c t elifs e).refs x = false := by
  intro elifs
  induction elifs with
  | nil =>
    intro c t e hc ht _ he
    unfold simplifyIf
    cases htr : api.isTruthy c with
    | none => simp [retainElifs, Expr.refs, hc, ht, he, Expr.refsPairs]
    | some tv =>
      cases tv <;> cases hse : api.hasSideEffects c <;>
        simp [Expr.refs, hc, ht, he, Expr.refsPairs, wrap_refs]
  | cons p rest ih =>
    obtain ⟨c', t'⟩ := p
    intro c t e hc ht hel he
    have hel' := hel
    simp only [Expr.refsPairs, Bool.or_eq_false_iff] at hel'
    unfold simplifyIf
    cases htr : api.isTruthy c with
    | none =>
      have hret := retainElifs_refs (api := api) x ((c', t') :: rest) {} hel (fun b hb => by cases hb)
      simp only
      generalize retainElifs api ((c', t') :: rest) {} = ret at hret
      obtain ⟨kept, st⟩ := ret
      simp only at hret ⊢
      split
      · cases hro : st.replaceElse with
        | none => simp [Expr.refs, hc, ht, hret.1]
        | some r => simp [Expr.refs, hc, ht, hret.1, hret.2 r hro]
      · simp [Expr.refs, hc, ht, hret.1, he]
    | some tv =>
      cases tv <;> cases hse : api.hasSideEffects c
      · simp only [Bool.false_eq_true, if_false]
        exact ih c' t' e hel'.1.1 hel'.1.2 hel'.2 he
      · simp [Expr.refs, hc, hel, he]
      · simp [wrap_refs, ht]
      · simp [Expr.refs, hc, ht, Expr.refsPairs]

theorem processExpr_refs (x : DName) (e : Expr) (h : e.refs x = false) : (processExpr api e).refs x = false := by
  cases e with
  | ifx c t elifs el =>
    simp only [Expr.refs, Bool.or_eq_false_iff] at h
    exact simplifyIf_refs x elifs c t el h.1.1.1 h.1.1.2 h.1.2 h.2
  | _ => exact h

theorem hooksNoRef : HooksNoRef (processor api) where
  block := fun b _ D h => by
    cases b with
    | mk stmts last => exact noRefB_of_stmts (fun x => processStmts_refs x stmts) h
  expr := fun e _ D h x hx => processExpr_refs x e (h x hx)

/-- whole rule at one number system -/
theorem apply_upto_at (ht : EvalTotal N api) (b : Block) (ρ : ExtOracle N) (n : Nat) (externs : List String) :
    runProgram ρ n externs b = .timeout ∨ runProgram ρ n externs (apply api b) = runProgram ρ n externs b :=
  runDefault_upto_at (hooksLeAt ht) hooksNoRef b () ρ n externs

end UnusedIfBranch

/-! ### compute_expression -/
namespace ComputeExpression
open Whole DarkluaModel.Evaluator

theorem gApi_toExpr {E : EvalOps N} {e v : Expr} (h : (gApi N E).toExpr e = some v) :
    guard E e = true ∧ isNum (evaluate E e) = false ∧ toExprOf (evaluate E e) = some v := by
  simp only [gApi] at h
  by_cases hg : guard E e = true
  · cases hn : isNum (evaluate E e)
    · simp only [hg, hn, Bool.not_false, Bool.and_self, if_true, c08Api] at h; exact ⟨hg, rfl, h⟩
    · simp [hg, hn] at h
  · simp [hg] at h

/-- `to_expression` of a definite non-number value of a total expression denotes what the expression denotes -/
theorem gApi_fold {E : EvalOps N} (A : C08.Agree N E) : FoldTotal N (gApi N E) := by
  intro e v hte _ call ρ k env σ
  obtain ⟨hg, hn, hv⟩ := gApi_toExpr hte
  simp only [guard, Bool.and_eq_true] at hg
  obtain ⟨w0, hw0⟩ := tot_total A call ρ k env e hg.1 hg.2 σ
  right
  rw [hw0]
  cases hev : evaluate E e <;> rw [hev] at hv hn <;> simp only [toExprOf, isNum] at hv hn <;>
    first
    | exact Bool.noConfusion hn
    | (cases hv
       have := val_of_ok A call ρ k env hg.1 (by rw [hev]; rfl) hw0
       subst this
       simp [evalE])
    | cases hv

theorem gApi_coherent {E : EvalOps N} : AndOrCoherent (gApi N E) := by
  intro op l r hop h
  simp only [gApi, Bool.or_eq_false_iff, Bool.not_eq_false'] at h ⊢
  obtain ⟨hg, hse⟩ := h
  simp only [guard, Bool.and_eq_true] at hg ⊢
  have hgl : C08.h8 E l = true ∧ tot E l = true := by
    rcases hop with rfl | rfl <;> simp only [C08.h8, tot, Bool.and_eq_true] at hg <;> exact ⟨hg.1.1.1, hg.2.1⟩
  refine ⟨hgl, ?_⟩
  simp only [c08Api] at hse ⊢
  rcases hop with rfl | rfl <;> simp only [Evaluator.hasSideEffects] at hse
  · split at hse
    · simp only [Bool.or_eq_false_iff] at hse; exact hse.1
    · exact hse
  · split at hse
    · exact hse
    · simp only [Bool.or_eq_false_iff] at hse; exact hse.1

theorem gApi_closed {E : EvalOps N} : FoldClosed (gApi N E) := by
  intro e v hte x
  obtain ⟨_, hn, hv⟩ := gApi_toExpr hte
  cases hev : evaluate E e <;> rw [hev] at hv hn <;> simp only [toExprOf, isNum] at hv hn <;>
    first
    | exact Bool.noConfusion hn
    | (cases hv; rfl)
    | cases hv

end ComputeExpression

end DarkluaModel.Rules
