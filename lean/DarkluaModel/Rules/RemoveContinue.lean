import DarkluaModel.Rules.LuauCommon
/-!
# `remove_continue` (`src/rules/remove_continue.rs`)

Applied with `DefaultPostVisitor`. State: `loop_stack: Vec<Option<LoopData>>` (head of the list =
last element) and `loop_identifier_count: u16` (modelled as `Nat`: more than 65535 loops in one
file overflow the real counter).

* entering `for`/`while`/`repeat` pushes `Some(LoopData)` with a fresh id; entering a function
  STATEMENT or function EXPRESSION pushes `None`. `local function` and `type function` push
  nothing (their bodies see the enclosing loop) — as in the Rust.
* `process_block`: a block ending in `continue` while the innermost entry is a loop becomes
  `…; __DARKLUA_CONTINUE_n = true; break` and marks the loop.
* leaving a loop pops; a marked loop body `B` becomes
  `local __DARKLUA_CONTINUE_n = false; repeat B' until true; if not __DARKLUA_CONTINUE_n then break end`
  where `B'` is `B` followed by `__DARKLUA_CONTINUE_n = true` when `B` has no last statement.
-/
namespace DarkluaModel.Rules.RemoveContinue
open DarkluaModel.Rules

structure LoopData where
  hasContinue : Bool
  id : Nat
  deriving Repr

structure State where
  stack : List (Option LoopData) := []
  count : Nat := 0
  deriving Repr

def identifier (id : Nat) : String := "__DARKLUA_CONTINUE_" ++ toString id

def pushLoop (s : State) : State :=
  { stack := some ⟨false, s.count + 1⟩ :: s.stack, count := s.count + 1 }

def pushNoLoop (s : State) : State := { s with stack := none :: s.stack }

def popOnly (s : State) : State := { s with stack := s.stack.tail }

def setFlag (id : Nat) : Stmt := .assign [.var (identifier id)] [.true]

/-- `wrap_loop_block_if_needed` on the loop body (after the pop) -/
def wrapBlock (ld : LoopData) (b : Block) : Block :=
  if !ld.hasContinue then b
  else
    let inner : Block := match b with
      | .mk stmts none => .mk (stmts ++ [setFlag ld.id]) none
      | other => other
    .mk [ .localAssign .loc [.mk (identifier ld.id) none] [.false],
          .repeat_ inner .true,
          .ifs [(.un .not (.var (identifier ld.id)), .mk [] (some .brk))] none ] none

/-- `process_block` -/
def processBlock : Block → State → Block × State
  | .mk stmts (some .cont), s =>
    match s.stack with
    | some ld :: rest =>
      (.mk (stmts ++ [setFlag ld.id]) (some .brk), { s with stack := some { ld with hasContinue := true } :: rest })
    | _ => (.mk stmts (some .cont), s)
  | b, s => (b, s)

/-- `process_<loop>_statement` / `process_function_statement` -/
def stmtNode : Stmt → State → Stmt × State
  | st@(.gfor ..), s | st@(.nfor ..), s | st@(.repeat_ ..), s | st@(.while_ ..), s => (st, pushLoop s)
  | st@(.function ..), s => (st, pushNoLoop s)
  | st, s => (st, s)

/-- pop; `Some(loop_data)` ⇒ wrap the body -/
def popWrap (s : State) (body : Block) : Block × State :=
  match s.stack with
  | some ld :: rest => (wrapBlock ld body, { s with stack := rest })
  | _ :: rest => (body, { s with stack := rest })
  | [] => (body, s)

/-- `process_after_<loop>_statement` / `process_after_function_statement` -/
def afterStmtNode : Stmt → State → Stmt × State
  | .gfor names vs body, s => let (b, s') := popWrap s body; (.gfor names vs b, s')
  | .nfor n a b step body, s => let (b', s') := popWrap s body; (.nfor n a b step b', s')
  | .repeat_ body c, s => let (b, s') := popWrap s body; (.repeat_ b c, s')
  | .while_ c body, s => let (b, s') := popWrap s body; (.while_ c b, s')
  | st@(.function ..), s => (st, popOnly s)
  | st, s => (st, s)

/-- `process_function_expression` -/
def node : Expr → State → Expr × State
  | e@(.fn _), s => (e, pushNoLoop s)
  | e, s => (e, s)

/-- `process_after_function_expression` -/
def afterNode : Expr → State → Expr × State
  | e@(.fn _), s => (e, popOnly s)
  | e, s => (e, s)

def processor : Processor State where
  block := processBlock
  stmtNode := stmtNode
  afterStmtNode := afterStmtNode
  node := node
  afterNode := afterNode

/-- `flawless_process`: `DefaultPostVisitor::visit_block` with a fresh processor -/
def apply (b : Block) : Block := (Visitor.runDefault processor b {}).1

end DarkluaModel.Rules.RemoveContinue
