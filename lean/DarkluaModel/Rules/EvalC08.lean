import DarkluaModel.Rules.EvalApi
import DarkluaModel.Rules.Evaluator
/-!
# The evaluator interface of the C01 rule models, instantiated with the C08 model

`c08Api N E` packages `Evaluator.evaluate E`, `Evaluator.hasSideEffects E false` (the rules use
`Evaluator::default()`: metamethods are not assumed pure) and `Evaluator.canReturnMultiple`
(`Rules/Evaluator.lean`, property C08) as an `EvalApi`. `LuaValue::to_expression` is modelled
here (`Expression::from(f64)` on the semantic AST). The driver uses `c08Api floatOps floatEvalOps`.
-/
namespace DarkluaModel.Rules
open DarkluaModel.Evaluator

variable {N : NumOps}

def kindOf : LuaValue N → LuaKind
  | .false_ => .false_ | .function => .function | .nil => .nil | .number _ => .number
  | .string s => .string s | .table => .table | .true_ => .true_ | .unknown => .unknown

theorem kindOf_isTruthy (v : LuaValue N) : (kindOf v).isTruthy = v.isTruthy := by
  cases v <;> rfl

/-- `Expression::from(f64)` on the semantic AST (exponent notation is spelling, not value):
NaN ↦ `0/0`, ±∞ ↦ `±1/0`, zeros keep their sign, negative numbers ↦ `-(abs)` -/
def numToExpr (x : N.F) : Expr :=
  let zero : N.F := N.ofNat 0
  let one : UInt64 := 0x3FF0000000000000
  if N.isNaN x then .bin .div (.num 0) (.num 0)
  else if N.eq x (N.div (N.ofNat 1) zero) then .bin .div (.num one) (.num 0)
  else if N.eq x (N.neg (N.div (N.ofNat 1) zero)) then .bin .div (.un .neg (.num one)) (.num 0)
  else if N.eq x zero then .num (if N.toBits x ≥ 0x8000000000000000 then 0x8000000000000000 else 0)
  else if N.lt x zero then .un .neg (.num (N.toBits (N.neg x)))
  else .num (N.toBits x)

/-- `LuaValue::to_expression` -/
def toExprOf : LuaValue N → Option Expr
  | .false_ => some .false
  | .true_ => some .true
  | .nil => some .nil
  | .string s => some (.str s)
  | .number x => some (numToExpr x)
  | _ => none

def c08Api (N : NumOps) (E : EvalOps N) : EvalApi where
  kind e := kindOf (evaluate E e)
  toExpr e := toExprOf (evaluate E e)
  hasSideEffects e := Evaluator.hasSideEffects E false e
  canReturnMultiple := Evaluator.canReturnMultiple

end DarkluaModel.Rules
