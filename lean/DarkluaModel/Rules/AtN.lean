import DarkluaModel.Shared.VisitorSoundHeap
/-!
# Lifting hooks that are sound for ONE number system

The step relations `LeE md` … of stages 1–2 quantify over every number system inside the step. A hook whose
soundness rests on the evaluator (property C08) is sound only for a number system `N` that agrees with the
evaluator's primitives (`C08.Agree N E`), and the rule itself (`apply (c08Api N E)`) depends on `N`.

`LeEAt N` … are the step relations at one number system; `HooksLeAt N P` the hooks; the stage-3 context
`cxAt N` (`upto := true`, `CF := fun N' _ => N' = N`: the call-handler assumption pins the number system, it is
available in every generic leaf and asked — trivially — of every level by the final theorem) turns them into
stage-3 links through generic leaves. `runDefault_upto_at`: the whole-rule statement at `N`.
-/
namespace DarkluaModel.Rules.AtN
open DarkluaModel.Sem DarkluaModel.Sem.Heap

def LeEAt (N : NumOps) (e e' : Expr) : Prop :=
  ∀ (call : CallFn N) (ρ : ExtOracle N) (k : Nat) (env : Env N) (σ : State N),
    evalE call ρ k env e σ = .timeout ∨ evalE call ρ k env e' σ = evalE call ρ k env e σ
def LeTAt (N : NumOps) (e e' : Expr) : Prop :=
  ∀ (call : CallFn N) (ρ : ExtOracle N) (k : Nat) (env : Env N) (σ : State N),
    evalTarget call ρ k env e σ = .timeout ∨ evalTarget call ρ k env e' σ = evalTarget call ρ k env e σ
def LeSAt (N : NumOps) (e e' : Stmt) : Prop :=
  ∀ (call : CallFn N) (ρ : ExtOracle N) (k : Nat) (env : Env N) (σ : State N),
    execS call ρ k env e σ = .timeout ∨ execS call ρ k env e' σ = execS call ρ k env e σ
def LeLAt (N : NumOps) (e e' : Last) : Prop :=
  ∀ (call : CallFn N) (ρ : ExtOracle N) (k : Nat) (env : Env N) (σ : State N),
    execLast call ρ k env e σ = .timeout ∨ execLast call ρ k env e' σ = execLast call ρ k env e σ
def LeBAt (N : NumOps) (e e' : Block) : Prop :=
  ∀ (call : CallFn N) (ρ : ExtOracle N) (k : Nat) (env : Env N) (σ : State N),
    execB call ρ k env e σ = .timeout ∨ execB call ρ k env e' σ = execB call ρ k env e σ

variable {N : NumOps}

theorem LeEAt.refl (e : Expr) : LeEAt N e e := fun _ _ _ _ _ => .inr rfl
theorem LeTAt.refl (e : Expr) : LeTAt N e e := fun _ _ _ _ _ => .inr rfl
theorem LeSAt.refl (e : Stmt) : LeSAt N e e := fun _ _ _ _ _ => .inr rfl
theorem LeLAt.refl (e : Last) : LeLAt N e e := fun _ _ _ _ _ => .inr rfl
theorem LeBAt.refl (e : Block) : LeBAt N e e := fun _ _ _ _ _ => .inr rfl

theorem LeEAt.ofLe {md e e'} (h : LeE md e e') : LeEAt N e e' := fun call ρ k env σ =>
  (h N call ρ k env σ).elim (fun h => .inl h.2) .inr
theorem LeTAt.ofLe {md e e'} (h : LeT md e e') : LeTAt N e e' := fun call ρ k env σ =>
  (h N call ρ k env σ).elim (fun h => .inl h.2) .inr
theorem LeSAt.ofLe {md e e'} (h : LeS md e e') : LeSAt N e e' := fun call ρ k env σ =>
  (h N call ρ k env σ).elim (fun h => .inl h.2) .inr
theorem LeBAt.ofLe {md e e'} (h : LeB md e e') : LeBAt N e e' := fun call ρ k env σ =>
  (h N call ρ k env σ).elim (fun h => .inl h.2) .inr

theorem LeEAt.trans {a b c : Expr} (h1 : LeEAt N a b) (h2 : LeEAt N b c) : LeEAt N a c := by
  intro call ρ k env σ
  rcases h1 call ρ k env σ with h | h
  · exact .inl h
  · rcases h2 call ρ k env σ with h' | h'
    · exact .inl (by rw [← h]; exact h')
    · exact .inr (h'.trans h)

macro "hook_id_at" : tactic =>
  `(tactic| (intros; first
      | exact LeEAt.refl _ | exact LeTAt.refl _ | exact LeSAt.refl _ | exact LeLAt.refl _ | exact LeBAt.refl _
      | exact ⟨LeEAt.refl _, LeTAt.refl _⟩ | rfl | assumption))

/-- hooks that are exact, up to budget exhaustion of the original, for runs over the number system `N`. The scope
and insertion hooks are the identity (none of the evaluator-driven rules has them). -/
structure HooksLeAt {σ : Type} (N : NumOps) (P : Processor σ) : Prop where
  expr : ∀ e s, LeEAt N e (P.expr e s).1 := by hook_id_at
  pref : ∀ e s, LeEAt N e (P.pref e s).1 := by hook_id_at
  target : ∀ e s, LeTAt N e (P.target e s).1 := by hook_id_at
  targetVar : ∀ e s a, e = .var a → (P.target e s).1 = .var a := by hook_id_at
  node : ∀ e s, LeEAt N e (P.node e s).1 ∧ LeTAt N e (P.node e s).1 := by hook_id_at
  nodeVar : ∀ e s a, e = .var a → (P.node e s).1 = .var a := by hook_id_at
  afterNode : ∀ e s, LeEAt N e (P.afterNode e s).1 ∧ LeTAt N e (P.afterNode e s).1 := by hook_id_at
  afterNodeVar : ∀ e s a, e = .var a → (P.afterNode e s).1 = .var a := by hook_id_at
  stmt : ∀ x s, LeSAt N x (P.stmt x s).1 := by hook_id_at
  stmtNode : ∀ x s, LeSAt N x (P.stmtNode x s).1 := by hook_id_at
  afterStmtNode : ∀ x s, LeSAt N x (P.afterStmtNode x s).1 := by hook_id_at
  last : ∀ x s, LeLAt N x (P.last x s).1 := by hook_id_at
  block : ∀ b s, LeBAt N b (P.block b s).1 := by hook_id_at
  afterBlock : ∀ b s, LeBAt N b (P.afterBlock b s).1 := by hook_id_at
  scopeB : ∀ b c s, (P.scope b c s).1.1 = b := by hook_id_at
  scopeC : ∀ b c s, (P.scope b (some c) s).1.2.getD c = c := by hook_id_at
  insert : ∀ n s, (P.insert n s).1 = n := by hook_id_at
  insertLocalName : ∀ n v s, (P.insertLocal n v s).1.1 = n := by hook_id_at
  insertLocalVal : ∀ n v s, (P.insertLocal n (some v) s).1.2.getD v = v := by hook_id_at
  insertLocalFn : ∀ n s, (P.insertLocalFn n s).1 = n := by hook_id_at

/-! ## stage 3 -/

/-- the stage-3 context that pins the number system -/
def cxAt (N : NumOps) : Heap.Cx := { upto := true, CF := fun N' _ => N' = N }

theorem soundE_at {Q : QRel} {D : List DName} {a a' : Expr} (h : LeEAt N a a')
    (hr : SoundE Q (cxAt N) D a' a') : SoundE Q (cxAt N) D a a' := by
  intro N' call ρ k env env' σ σ' β hc hs he
  have hN : N' = N := hc.cf
  subst hN
  rcases h call ρ k env σ with h1 | h1
  · rw [h1]; exact RRel.timeout_left rfl _
  · rw [← h1]; exact hr _ call ρ k env env' σ σ' β hc hs he

theorem soundT_at {Q : QRel} {D : List DName} {a a' : Expr} (h : LeTAt N a a')
    (hr : SoundT Q (cxAt N) D a' a') : SoundT Q (cxAt N) D a a' := by
  intro N' call ρ k env env' σ σ' β hc hs he
  have hN : N' = N := hc.cf
  subst hN
  rcases h call ρ k env σ with h1 | h1
  · rw [h1]; exact RRel.timeout_left rfl _
  · rw [← h1]; exact hr _ call ρ k env env' σ σ' β hc hs he

theorem soundS_at {Q : QRel} {D : List DName} {a a' : Stmt} (h : LeSAt N a a')
    (hr : SoundS Q (cxAt N) D a' a') : SoundS Q (cxAt N) D a a' := by
  intro N' call ρ k env env' σ σ' β hc hs he
  have hN : N' = N := hc.cf
  subst hN
  rcases h call ρ k env σ with h1 | h1
  · rw [h1]; exact RRel.timeout_left rfl _
  · rw [← h1]; exact hr _ call ρ k env env' σ σ' β hc hs he

theorem soundL_at {Q : QRel} {D : List DName} {a a' : Last} (h : LeLAt N a a')
    (hr : SoundL Q (cxAt N) D a' a') : SoundL Q (cxAt N) D a a' := by
  intro N' call ρ k env env' σ σ' β hc hs he
  have hN : N' = N := hc.cf
  subst hN
  rcases h call ρ k env σ with h1 | h1
  · rw [h1]; exact RRel.timeout_left rfl _
  · rw [← h1]; exact hr _ call ρ k env env' σ σ' β hc hs he

theorem soundB_at {Q : QRel} {D D' : List DName} {a a' : Block} (h : LeBAt N a a')
    (hr : SoundB Q (cxAt N) D a' a' D') : SoundB Q (cxAt N) D a a' D' :=
  ⟨hr.1, by
    intro N' call ρ k env env' σ σ' β hc hs he
    have hN : N' = N := hc.cf
    subst hN
    rcases h call ρ k env σ with h1 | h1
    · rw [h1]; exact RRel.timeout_left rfl _
    · rw [← h1]; exact hr.2 _ call ρ k env env' σ σ' β hc hs he⟩

theorem lkE_at {a a' : Expr} (h : LeEAt N a a') (hn : ∀ D, NoRefE D a → NoRefE D a') : (LkE (cxAt N)) a a' :=
  fun D _ hd => ⟨.genE fun _ hq => soundE_at h (Heap.reflE hq a' D (hn D hd)), hn D hd⟩
theorem lkT_at {a a' : Expr} (h : LeTAt N a a') (hn : ∀ D, NoRefT D a → NoRefT D a')
    (hv : ∀ x, a = .var x → a' = .var x) : (LkT (cxAt N)) a a' :=
  ⟨fun D _ hd => ⟨.genT fun _ hq => soundT_at h (Heap.reflT hq a' D (hn D hd)), hn D hd⟩, hv⟩
theorem lkS_at {a a' : Stmt} (h : LeSAt N a a') (hn : ∀ D, NoRefS D a → NoRefS D a') : (LkS (cxAt N)) a a' :=
  fun D _ hd => ⟨.genS fun _ hq => soundS_at h (Heap.reflS hq a' D (hn D hd)), hn D hd⟩
theorem lkL_at {a a' : Last} (h : LeLAt N a a') (hn : ∀ D, NoRefL D a → NoRefL D a') : (LkL (cxAt N)) a a' :=
  fun D _ hd => ⟨.genL fun _ hq => soundL_at h (Heap.reflL hq a' D (hn D hd)), hn D hd⟩
theorem lkBo_at {a a' : Block} (h : LeBAt N a a') (hn : ∀ D, NoRefB D a → NoRefB D a') : (LkBo (cxAt N)) a a' :=
  fun D _ hd => ⟨.genB fun _ hq => soundB_at h (Heap.reflB hq a' D (hn D hd)), hn D hd⟩

variable {σ : Type} {P : Processor σ}

theorem HooksLeAt.toHeap (H : HooksLeAt N P) (F : HooksNoRef P) : HooksHeap (cxAt N) P where
  expr := fun e s => .single (lkE_at (H.expr e s) (F.expr e s))
  pref := fun e s => .single (lkE_at (H.pref e s) (F.pref e s))
  target := fun e s => .single (lkT_at (H.target e s) (F.target e s) (H.targetVar e s))
  node := fun e s =>
    ⟨.single (lkE_at (H.node e s).1 (F.node e s)), .single (lkT_at (H.node e s).2 (F.nodeT e s) (H.nodeVar e s))⟩
  afterNode := fun e s =>
    ⟨.single (lkE_at (H.afterNode e s).1 (F.afterNode e s)),
      .single (lkT_at (H.afterNode e s).2 (F.afterNodeT e s) (H.afterNodeVar e s))⟩
  stmt := fun e s => .single (lkS_at (H.stmt e s) (F.stmt e s))
  stmtNode := fun e s => .single (lkS_at (H.stmtNode e s) (F.stmtNode e s))
  afterStmtNode := fun e s => .single (lkS_at (H.afterStmtNode e s) (F.afterStmtNode e s))
  last := fun e s => .single (lkL_at (H.last e s) (F.last e s))
  block := fun e s => .single (lkBo_at (H.block e s) (F.block e s))
  afterBlock := fun e s => .single (lkBo_at (H.afterBlock e s) (F.afterBlock e s))
  scopeB := fun b s => by rw [H.scopeB b none s]; exact Chain.refl _
  scopeR := fun b c s => by rw [H.scopeB b (some c) s, H.scopeC b c s]; exact Chain.refl _
  insert := H.insert
  insertLocalName := H.insertLocalName
  insertLocalVal := fun n v s => by rw [H.insertLocalVal n v s]; exact Chain.refl _
  insertLocalFn := H.insertLocalFn

/-- **whole pass at one number system**: hooks exact up to budget exhaustion for runs over `N`, introducing no
identifier reference ⇒ the visited program has the same observable outcome in every run over `N`, unless the
original exhausts its budget -/
theorem runDefault_upto_at (H : HooksLeAt N P) (F : HooksNoRef P) (b : Block) (s : σ) (ρ : ExtOracle N) (n : Nat)
    (externs : List String) :
    runProgram ρ n externs b = .timeout ∨
      runProgram ρ n externs (Visitor.runDefault P b s).1 = runProgram ρ n externs b :=
  Visitor.runDefault_heap_upto (cx := cxAt N) (H.toHeap F) b s (fun _ h => by cases h) ρ n externs
    (fun _ h => by cases h) trivial rfl (fun _ => rfl)

end DarkluaModel.Rules.AtN
