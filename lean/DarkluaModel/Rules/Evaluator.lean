import DarkluaModel.Shared.Sem
/-!
# Model of darklua's static evaluator (`src/process/evaluator/{mod,lua_value}.rs`)

Shared by C08 (its soundness theorems) and by the rule models that consult the evaluator
(`compute_expression`, `remove_unused_if_branch`, `remove_unused_while`, `convert_index_to_field`,
`remove_nil_declaration`, `remove_unused_variable`, …).

API (all over the shared AST, parametric in `N : NumOps` and `E : EvalOps N`):
* `LuaValue N`, `LuaValue.isTruthy : LuaValue N → Option Bool`
* `evaluate E : Expr → LuaValue N`                      — `Evaluator::evaluate`
* `hasSideEffects E (pure : Bool) : Expr → Bool`        — `Evaluator::has_side_effects`
  (`pure` = the `pure_metamethods` flag; `Evaluator::default()` has `pure = false`)
* `canReturnMultiple : Expr → Bool`                     — `Evaluator::can_return_multiple_values`

Every number operation darklua performs with the IEEE operation the reference semantics also
uses is the SAME `N.…` call here (`+ - * / ^`, unary minus, `< <=`, `len as f64`). `//` and `%` are
computed by darklua as `floor(a/b)` and `a - b*floor(a/b)`: modelled literally (with `N.floor`).
`==` on numbers is IEEE equality (`N.eq`; the former `(a - b).abs() < f64::EPSILON` test was finding
F1/F2, fixed). What darklua does differently from Lua is an extra primitive in `EvalOps`:
* `fmtRust x`   — `f64::to_string` (`string_coercion`, used only where it is also Lua's text: `luaNumberToString`)
* `parseLit s`  — `s.parse::<NumberExpression>().ok().map(compute_value)` on UTF-8 text
                  (`number_coercion`, after `from_utf8`, `trim` and the leading `-` are handled here)
The executable instance over `Float` is in `Rules/EvaluatorFloat.lean`.
-/
namespace DarkluaModel.Evaluator

/-- `process::LuaValue` -/
inductive LuaValue (N : NumOps) where
  | false_
  | function
  | nil
  | number (x : N.F)
  | string (s : List UInt8)
  | table
  | true_
  | unknown

instance {N : NumOps} : Inhabited (LuaValue N) := ⟨.unknown⟩

/-- the primitives of the evaluator that are NOT operations of the reference semantics -/
structure EvalOps (N : NumOps) where
  /-- Rust `f64::to_string` -/
  fmtRust : N.F → List UInt8
  /-- `text.parse::<NumberExpression>().ok().map(|n| n.compute_value())` (text is valid UTF-8) -/
  parseLit : List UInt8 → Option N.F

variable {N : NumOps}

namespace LuaValue

/-- `LuaValue::is_truthy` -/
def isTruthy : LuaValue N → Option Bool
  | .unknown => none
  | .nil => some false
  | .false_ => some false
  | _ => some true

/-- `From<bool>` -/
def ofBool (b : Bool) : LuaValue N := if b then .true_ else .false_

/-- `LuaValue::length` -/
def length : LuaValue N → LuaValue N
  | .string s => .number (N.ofNat s.length)
  | _ => .unknown

/-- the values rules may turn back into an expression (`LuaValue::to_expression` is `Some`) -/
def isDefinite : LuaValue N → Bool
  | .nil | .true_ | .false_ | .number _ | .string _ => true
  | _ => false

end LuaValue

/-! ### `number_coercion` on strings: `from_utf8`, `str::trim`, leading `-`, literal grammar -/

/-- continuation byte `80..BF` -/
def isCont (b : UInt8) : Bool := 0x80 ≤ b && b ≤ 0xBF

/-- `core::str::from_utf8`: the scalar values with their encodings, `none` when invalid
(overlong forms, surrogates and values above U+10FFFF are invalid). -/
def utf8Chunks : Nat → List UInt8 → Option (List (Nat × List UInt8))
  | 0, [] => some []
  | 0, _ :: _ => none
  | _ + 1, [] => some []
  | fuel + 1, b0 :: rest =>
    if b0 < 0x80 then (utf8Chunks fuel rest).map (fun t => (b0.toNat, [b0]) :: t)
    else if 0xC2 ≤ b0 && b0 ≤ 0xDF then
      match rest with
      | b1 :: r =>
        if isCont b1 then
          (utf8Chunks fuel r).map (fun t => ((b0.toNat - 0xC0) * 64 + (b1.toNat - 0x80), [b0, b1]) :: t)
        else none
      | _ => none
    else if 0xE0 ≤ b0 && b0 ≤ 0xEF then
      match rest with
      | b1 :: b2 :: r =>
        let lo : UInt8 := if b0 == 0xE0 then 0xA0 else 0x80
        let hi : UInt8 := if b0 == 0xED then 0x9F else 0xBF
        if lo ≤ b1 && b1 ≤ hi && isCont b2 then
          (utf8Chunks fuel r).map (fun t =>
            ((b0.toNat - 0xE0) * 4096 + (b1.toNat - 0x80) * 64 + (b2.toNat - 0x80), [b0, b1, b2]) :: t)
        else none
      | _ => none
    else if 0xF0 ≤ b0 && b0 ≤ 0xF4 then
      match rest with
      | b1 :: b2 :: b3 :: r =>
        let lo : UInt8 := if b0 == 0xF0 then 0x90 else 0x80
        let hi : UInt8 := if b0 == 0xF4 then 0x8F else 0xBF
        if lo ≤ b1 && b1 ≤ hi && isCont b2 && isCont b3 then
          (utf8Chunks fuel r).map (fun t =>
            ((b0.toNat - 0xF0) * 262144 + (b1.toNat - 0x80) * 4096 + (b2.toNat - 0x80) * 64 + (b3.toNat - 0x80),
              [b0, b1, b2, b3]) :: t)
        else none
      | _ => none
    else none

/-- `char::is_whitespace` (Unicode `White_Space`) -/
def isWhiteSpace (c : Nat) : Bool :=
  (9 ≤ c && c ≤ 13) || c == 32 || c == 0x85 || c == 0xA0 || c == 0x1680 ||
  (0x2000 ≤ c && c ≤ 0x200A) || c == 0x2028 || c == 0x2029 || c == 0x202F || c == 0x205F || c == 0x3000

/-- `str::from_utf8(s).ok().map(str::trim)` as bytes -/
def utf8Trim (s : List UInt8) : Option (List UInt8) :=
  match utf8Chunks (s.length + 1) s with
  | none => none
  | some cs =>
    let cs := cs.dropWhile (fun c => isWhiteSpace c.1)
    let cs := (cs.reverse.dropWhile (fun c => isWhiteSpace c.1)).reverse
    some (cs.flatMap (·.2))

/-- the string arm of `LuaValue::number_coercion` -/
def coerceString (E : EvalOps N) (s : List UInt8) : Option N.F :=
  match utf8Trim s with
  | none => none
  | some t =>
    match t with
    | 45 :: rest => (E.parseLit rest).map N.neg
    | _ => E.parseLit t

/-- `LuaValue::number_coercion` -/
def LuaValue.numberCoercion (E : EvalOps N) : LuaValue N → LuaValue N
  | .string s =>
    match coerceString E s with
    | some x => .number x
    | none => .string s
  | v => v

/-- `lua_number_to_string` (lua_value.rs): the Rust text of a number, only when the number is written in
plain notation (`0`, or `1e-4 ≤ |x| < 1e14`) with at most 14 significant digits — where Lua 5.1's `%.14g`,
Luau's shortest round-trip format and Rust's `to_string` give the same text (F3, fixed) -/
def luaNumberToString (E : EvalOps N) (x : N.F) : Option (List UInt8) :=
  let lo : N.F := N.ofBits 0x3F1A36E2EB1C432D   -- 1e-4
  let hi : N.F := N.ofBits 0x42D6BCC41E900000   -- 1e14
  -- `(1e-4..1e14).contains(&v)`
  let inRange (v : N.F) : Bool := N.le lo v && N.lt v hi
  let plainNotation := N.eq x (N.ofNat 0) || inRange x || inRange (N.neg x)
  if !plainNotation then none
  else
    let text := E.fmtRust x
    -- `text.trim_start_matches(['-', '0', '.']).trim_end_matches('0').bytes().filter(u8::is_ascii_digit).count()`
    let t1 := text.dropWhile fun b => b == 45 || b == 48 || b == 46
    let t2 := (t1.reverse.dropWhile (· == 48)).reverse
    let significant := (t2.filter fun b => 48 ≤ b && b ≤ 57).length
    if significant ≤ 14 then some text else none

/-- `LuaValue::string_coercion` -/
def LuaValue.stringCoercion (E : EvalOps N) : LuaValue N → LuaValue N
  | .number x =>
    match luaNumberToString E x with
    | some t => .string t
    | none => .number x
  | v => v

/-! ### `evaluate` -/

/-- `evaluate_equal` -/
def evaluateEqual (E : EvalOps N) : LuaValue N → LuaValue N → LuaValue N
  | .unknown, _ => .unknown
  | _, .unknown => .unknown
  | .true_, .true_ => .true_
  | .false_, .false_ => .true_
  | .nil, .nil => .true_
  | .number a, .number b => .ofBool (N.eq a b)
  | .string a, .string b => .ofBool (a == b)
  | _, _ => .false_

/-- the closures passed to `evaluate_math` -/
def mathOp : BinOp → Option (N.F → N.F → N.F)
  | .add => some N.add
  | .sub => some N.sub
  | .mul => some N.mul
  | .div => some N.div
  | .idiv => some fun a b => N.floor (N.div a b)
  | .pow => some N.pow
  | .mod => some fun a b => N.sub a (N.mul b (N.floor (N.div a b)))
  | _ => none

/-- `evaluate_math` on the evaluated operands -/
def evaluateMath (E : EvalOps N) (f : N.F → N.F → N.F) (l r : LuaValue N) : LuaValue N :=
  match l.numberCoercion E with
  | .number a =>
    match r.numberCoercion E with
    | .number b => .number (f a b)
    | _ => .unknown
  | _ => .unknown

/-- `evaluate_relational` with `compare_strings`; `a > b` is `b < a` and `a >= b` is `b <= a` on
both doubles and byte slices -/
def evaluateRelational (op : BinOp) (l r : LuaValue N) : LuaValue N :=
  match l with
  | .number a =>
    match r with
    | .number b =>
      match op with
      | .lt => .ofBool (N.lt a b)
      | .le => .ofBool (N.le a b)
      | .gt => .ofBool (N.lt b a)
      | .ge => .ofBool (N.le b a)
      | _ => .unknown
    | _ => .unknown
  | .string a =>
    match r with
    | .string b =>
      match op with
      | .lt => .ofBool (Sem.bytesLt a b)
      | .le => .ofBool (!Sem.bytesLt b a)
      | .gt => .ofBool (Sem.bytesLt b a)
      | .ge => .ofBool (!Sem.bytesLt a b)
      | _ => .unknown
    | _ => .unknown
  | _ => .unknown

/-- `evaluate_binary` on the evaluated operands (evaluation is total and effect-free, so the
laziness of the Rust closures is not observable) -/
def evaluateBinary (E : EvalOps N) (op : BinOp) (l r : LuaValue N) : LuaValue N :=
  match op with
  | .and =>
    match l.isTruthy with
    | some true => r
    | some false => l
    | none => .unknown
  | .or =>
    match l.isTruthy with
    | some true => l
    | some false => r
    | none => .unknown
  | .eq => evaluateEqual E l r
  | .ne =>
    match evaluateEqual E l r with
    | .true_ => .false_
    | .false_ => .true_
    | _ => .unknown
  | .add | .sub | .mul | .div | .idiv | .pow | .mod =>
    match mathOp op with
    | some f => evaluateMath E f l r
    | none => .unknown
  | .concat =>
    match l.stringCoercion E, r.stringCoercion E with
    | .string a, .string b => .string (a ++ b)
    | _, _ => .unknown
  | .lt | .le | .gt | .ge => evaluateRelational op l r

/-- `evaluate_unary` on the evaluated operand -/
def evaluateUnary (E : EvalOps N) (op : UnOp) (v : LuaValue N) : LuaValue N :=
  match op with
  | .not =>
    match v.isTruthy with
    | some b => .ofBool (!b)
    | none => .unknown
  | .neg =>
    match v.numberCoercion E with
    | .number x => .number (N.neg x)
    | _ => .unknown
  | .len => v.length

def bytesOf (s : String) : List UInt8 := s.toUTF8.toList

/-- the text an evaluated interpolation segment contributes, `none` = give up (`Unknown`) -/
def segText : LuaValue N → Option (List UInt8)
  | .false_ => some "false".toUTF8.toList
  | .true_ => some "true".toUTF8.toList
  | .nil => some "nil".toUTF8.toList
  | .string s => some s
  | _ => none

/-- the prefixes `evaluate_prefix` looks into -/
def isParenOrInst : Expr → Bool
  | .paren _ => true
  | .inst _ _ => true
  | _ => false

mutual
  /-- `Evaluator::evaluate` -/
  def evaluate (E : EvalOps N) : Expr → LuaValue N
    | .false => .false_
    | .fn _ => .function
    | .nil => .nil
    | .num b => .number (N.ofBits b)
    | .str s => .string s
    | .table _ => .table
    | .true => .true_
    | .bin op l r => evaluateBinary E op (evaluate E l) (evaluate E r)
    | .un op e => evaluateUnary E op (evaluate E e)
    | .paren e => evaluate E e
    | .ifx c t elifs e =>
      -- `evaluate_if`
      match (evaluate E c).isTruthy with
      | some true => evaluate E t
      | some false =>
        match evaluateElifs E elifs with
        | some v => v
        | none => evaluate E e
      | none => .unknown
    | .interp segs => evaluateSegs E segs []
    | .cast e _ => evaluate E e
    | .inst e _ =>
      -- `evaluate_prefix`: only a parenthesised expression (or a nested instantiation) is looked into
      if isParenOrInst e then evaluate E e else .unknown
    | .call _ _ _ _ => .unknown
    | .field _ _ => .unknown
    | .var _ => .unknown
    | .index _ _ => .unknown
    | .vararg => .unknown

  /-- the `for branch in expression.iter_branches()` loop of `evaluate_if`; `none` = the loop
  ended without returning (the else result is evaluated next) -/
  def evaluateElifs (E : EvalOps N) : List (Expr × Expr) → Option (LuaValue N)
    | [] => none
    | (c, t) :: rest =>
      match (evaluate E c).isTruthy with
      | some true => some (evaluate E t)
      | some false => evaluateElifs E rest
      | none => some .unknown

  /-- the segment loop of the `InterpolatedString` arm -/
  def evaluateSegs (E : EvalOps N) : List Seg → List UInt8 → LuaValue N
    | [], acc => .string acc
    | .s b :: rest, acc => evaluateSegs E rest (acc ++ b)
    | .v e :: rest, acc =>
      match segText (evaluate E e) with
      | some t => evaluateSegs E rest (acc ++ t)
      | none => .unknown
end

/-- `Evaluator::can_return_multiple_values` -/
def canReturnMultiple : Expr → Bool
  | .call _ _ _ _ | .un _ _ | .vararg => true
  | .bin op _ _ =>
    match op with
    | .and | .or => false
    | _ => true
  | _ => false

/-- `maybe_metatable` -/
def maybeMetatable : LuaValue N → Bool
  | .unknown => true
  | _ => false

mutual
  /-- `Evaluator::has_side_effects`; `pure` is the `pure_metamethods` flag. `prefix_has_side_effects`
  and `type_instantiation_has_side_effects` agree with `has_side_effects` on every prefix shape
  (call → true, field/index → the same helpers, identifier → false, parenthese → inner), so the
  prefix of a field / index / instantiation is passed to this same function. -/
  def hasSideEffects (E : EvalOps N) (pure : Bool) : Expr → Bool
    | .false | .fn _ | .var _ | .nil | .num _ | .str _ | .true | .vararg => false
    | .ifx c t elifs e =>
      -- `if_expression_has_side_effects`
      if hasSideEffects E pure c then true
      else
        match (evaluate E c).isTruthy with
        | some true => hasSideEffects E pure t
        | some false =>
          match hseElifsKnown E pure elifs with
          | some b => b
          | none => hasSideEffects E pure e
        | none =>
          if hasSideEffects E pure t then true
          else if hseElifsAll E pure elifs then true
          else hasSideEffects E pure e
    | .bin op l r =>
      let lv := evaluate E l
      let lse := hasSideEffects E pure l
      match op with
      | .and => if lv.isTruthy.getD true then lse || hasSideEffects E pure r else lse
      | .or => if lv.isTruthy.getD false then lse else lse || hasSideEffects E pure r
      | _ =>
        if pure then lse || hasSideEffects E pure r
        else maybeMetatable lv || maybeMetatable (evaluate E r) || lse || hasSideEffects E pure r
    | .un op e =>
      if pure || (match op with | .not => true | _ => false) then hasSideEffects E pure e
      else maybeMetatable (evaluate E e) || hasSideEffects E pure e
    | .field e _ => !pure || hasSideEffects E pure e
    | .index e k => !pure || hasSideEffects E pure k || hasSideEffects E pure e
    | .paren e => hasSideEffects E pure e
    | .table entries => hseEntries E pure entries
    | .call _ _ _ _ => true
    | .interp segs => hseSegs E pure segs
    | .cast e _ => hasSideEffects E pure e
    | .inst e _ => hasSideEffects E pure e

  /-- branch loop when the main condition is known to be false; `some b` = the loop returned `b`,
  `none` = it ended (the else result decides) -/
  def hseElifsKnown (E : EvalOps N) (pure : Bool) : List (Expr × Expr) → Option Bool
    | [] => none
    | (c, t) :: rest =>
      if hasSideEffects E pure c then some true
      else
        match (evaluate E c).isTruthy with
        | some true => some (hasSideEffects E pure t)
        | some false => hseElifsKnown E pure rest
        | none => if hasSideEffects E pure t then some true else hseElifsKnown E pure rest

  /-- branch loop when the main condition is unknown: does some branch condition or result have
  side effects -/
  def hseElifsAll (E : EvalOps N) (pure : Bool) : List (Expr × Expr) → Bool
    | [] => false
    | (c, t) :: rest =>
      if hasSideEffects E pure c || hasSideEffects E pure t then true else hseElifsAll E pure rest

  /-- `table_entry_has_side_effects` over `get_entries().iter().any(…)` -/
  def hseEntries (E : EvalOps N) (pure : Bool) : List Entry → Bool
    | [] => false
    | .pos v :: rest => hasSideEffects E pure v || hseEntries E pure rest
    | .named _ v :: rest => hasSideEffects E pure v || hseEntries E pure rest
    | .keyed k v :: rest => (hasSideEffects E pure k || hasSideEffects E pure v) || hseEntries E pure rest

  def hseSegs (E : EvalOps N) (pure : Bool) : List Seg → Bool
    | [] => false
    | .s _ :: rest => hseSegs E pure rest
    | .v e :: rest =>
      -- the value is converted with `tostring`, which can call `__tostring` (F4, fixed)
      ((!pure && maybeMetatable (evaluate E e)) || hasSideEffects E pure e) || hseSegs E pure rest
end

end DarkluaModel.Evaluator
