import DarkluaModel.Shared.Visitor
import DarkluaModel.Shared.Run
/-!
# `remove_method_definition` (`src/rules/method_def.rs`)

`FunctionMutator::process_function_statement` calls `FunctionStatement::remove_method`
(`src/nodes/statements/function.rs`): when the name has a method part `:m`, it is pushed as a
field and a parameter `self` is inserted at position 0. One `DefaultVisitor` pass.
-/
namespace DarkluaModel.Rules.MethodDef

/-- `FunctionStatement::remove_method` -/
def removeMethod : Stmt → Stmt
  | .function (root :: path) (some m) (.mk ps v vt r g a b) =>
    -- (a `FunctionName` always has a root identifier: the empty name list is not representable in Rust
    -- nor on the wire, and is left alone)
    .function (root :: path ++ [m]) none (.mk (.mk "self" none :: ps) v vt r g a b)
  | s => s

def processor : Processor Unit := { stmtNode := fun s u => (removeMethod s, u) }

/-- `flawless_process` -/
def apply (b : Block) : Block := (Visitor.runDefault processor b ()).1

/-! ### local soundness (exact): `function a.b:m(p…)` ≡ `function a.b.m(self, p…)` -/
open Sem

theorem removeMethod_sound {N : NumOps} (call : CallFn N) (ρ : ExtOracle N) (k : Nat) (env : Env N)
    (s : Stmt) (σ : State N) :
    execS call ρ k env (removeMethod s) σ = execS call ρ k env s σ := by
  cases s with
  | function name m body =>
    cases m with
    | none => cases name <;> rfl
    | some mm =>
      cases body with
      | mk ps v vt r g a b =>
        cases name with
        | nil => rfl
        | cons root path =>
          cases path with
          | nil => simp [removeMethod, execS]
          | cons p ps' => simp [removeMethod, execS]
  | _ => rfl

end DarkluaModel.Rules.MethodDef
