import DarkluaModel.Rules.AtNU
import DarkluaModel.Rules.EvalC08TotalA
import DarkluaModel.Rules.WholeRuleC08
/-!
# `remove_unused_while` / `remove_unused_if_branch` with ALLOCATING conditions (stage 4 unified)

`while not {} do … end` is removed; `if {} then A else B end` becomes `do A end`: the evaluation that disappears
allocates a table. With an evaluator that meets `EvalTotalA` (decided and pure ⇒ evaluates, only allocating) every
removed `while` is `ReplA N _ []`, so the block hook of `remove_unused_while` is a `HeapU` link and the whole rule
preserves the outcome of every run over `N` (flat oracle), up to budget exhaustion.

For `remove_unused_if_branch` the allocation-tolerant part is `stripHead`: the leading conditions of an `if`
statement that are decided and pure for the tolerant evaluator `apiA` are resolved (a true one selects its block,
a false one is skipped — both up to the allocations of the condition), the rest of the statement is rewritten by
`simplify_if_statement` with the exact evaluator `api`. `processorGA apiA api` is the rule's processor with
`stripHead` in place of `simplify_if_statement` and `api` in `if` expressions; the rule is covered on every
program on which `applyGA` and the rule agree.
-/
namespace DarkluaModel.Rules
open Sem Sem.HeapU AtN AtNU
open DarkluaModel.Rules.UnusedIfBranch.Sound (replSem)

variable {N : NumOps}

/-! ### remove_unused_while -/
namespace UnusedWhile
variable {api : EvalApi}

/-- a removed loop exhausts the budget, or only allocates -/
theorem while_removed_A (ht : EvalTotalA N api) (c : Expr) (body : Block) (hk : keep api (.while_ c body) = false) :
    ReplA N (.while_ c body) [] := by
  intro call ρ k env σ
  have hse : api.hasSideEffects c = false := by
    simp only [keep, Bool.or_eq_false_iff] at hk; exact hk.1
  have htr : api.isTruthy c = some false := by
    simp only [keep, Bool.or_eq_false_iff] at hk
    cases h : api.isTruthy c with
    | none => simp [h] at hk
    | some b => cases b <;> simp_all
  cases k with
  | zero => left; simp [execS, whileLoop, Res.bind]
  | succ n =>
    rcases ht.pureAlloc c false htr hse call ρ (n + 1) env σ with hto | ⟨vs, σ1, hok, hx⟩
    · left; simp [execS, whileLoop, hto, Res.bind]
    · right
      have := ht.decided c false htr call ρ (n + 1) env σ σ1 vs hok
      exact ⟨σ1, hx, by simp [replSem, execS, whileLoop, hok, Res.bind, this]⟩

theorem filter_repl (ht : EvalTotalA N api) : ∀ (stmts : List Stmt), ReplList N stmts (stmts.filter (keep api))
  | [] => .nil
  | s :: rest => by
    by_cases hk : keep api s = true
    · have := ReplList.cons (ReplA.refl (N := N) s) (.inr ⟨s, rfl⟩)
        (fun x h => by simp [Stmt.refsList, h]) (filter_repl ht rest)
      simpa [List.filter, hk] using this
    · have hk' : keep api s = false := by simpa using hk
      cases s with
      | while_ c body =>
        have := ReplList.cons (while_removed_A ht c body hk') (.inl rfl) (fun _ _ => rfl) (filter_repl ht rest)
        simpa [List.filter, hk'] using this
      | _ => simp [keep] at hk'

theorem hooksU (ht : EvalTotalA N api) : HooksU (cxU N) (processor api) where
  block := fun b _ => by
    cases b with
    | mk stmts last => exact .single (vkBo_repl (filter_repl ht stmts))

/-- whole rule at one number system, allocating conditions included (flat oracle) -/
theorem apply_upto_alloc (ht : EvalTotalA N api) (b : Block) (ρ : ExtOracle N) (hρ : OracleFlat ρ) (n : Nat)
    (externs : List String) :
    runProgram ρ n externs b = .timeout ∨ runProgram ρ n externs (apply api b) = runProgram ρ n externs b :=
  Visitor.runDefault_u_upto (cx := cxU N) (hooksU ht) b () ρ hρ n externs trivial (fun _ => rfl)

end UnusedWhile

/-! ### remove_unused_if_branch -/
namespace UnusedIfBranch
open Whole Sound
variable {apiA api : EvalApi}

/-- resolve the leading conditions that `apiA` decides without side effects; hand the rest to `simplify_if_statement` -/
def stripHead (apiA api : EvalApi) : List (Expr × Block) → Option Block → List Stmt
  | [], els => simplifyIfStatement api [] els
  | (c, A) :: rest, els =>
    if apiA.hasSideEffects c then simplifyIfStatement api ((c, A) :: rest) els
    else
      match apiA.isTruthy c with
      | some true => if blockIsEmpty A then [] else [.doBlock A]
      | some false => stripHead apiA api rest els
      | none => simplifyIfStatement api ((c, A) :: rest) els

def processStmtsGA (apiA api : EvalApi) : List Stmt → List Stmt
  | [] => []
  | .ifs branches els :: rest => stripHead apiA api branches els ++ processStmtsGA apiA api rest
  | s :: rest => s :: processStmtsGA apiA api rest

def processorGA (apiA api : EvalApi) : Processor Unit :=
  { block := fun b u => match b with | .mk stmts last => (.mk (processStmtsGA apiA api stmts) last, u)
    expr := fun e u => (processExpr api e, u) }

/-- the guarded rule -/
def applyGA (apiA api : EvalApi) (b : Block) : Block := (Visitor.runDefault (processorGA apiA api) b ()).1

theorem stripHead_short : ∀ (brs : List (Expr × Block)) (els : Option Block),
    stripHead apiA api brs els = [] ∨ ∃ s, stripHead apiA api brs els = [s]
  | [], els => simplify_short api [] els
  | (c, A) :: rest, els => by
    unfold stripHead
    split
    · exact simplify_short api _ els
    · split
      · split
        · exact .inl rfl
        · exact .inr ⟨_, rfl⟩
      · exact stripHead_short rest els
      · exact simplify_short api _ els

theorem stripHead_refs (x : DName) : ∀ (brs : List (Expr × Block)) (els : Option Block),
    (Stmt.ifs brs els).refs x = false → Stmt.refsList x (stripHead apiA api brs els) = false
  | [], els, h => simplifyIfStatement_refs x [] els h
  | (c, A) :: rest, els, h => by
    have hparts : c.refs x = false ∧ A.refs x = false ∧ (Stmt.ifs rest els).refs x = false := by
      cases els <;> simp only [Stmt.refs, Stmt.refsBranches, Bool.or_eq_false_iff] at h ⊢
      · exact ⟨h.1.1, h.1.2, h.2⟩
      · exact ⟨h.1.1.1, h.1.1.2, h.1.2, h.2⟩
    unfold stripHead
    split
    · exact simplifyIfStatement_refs x _ els h
    · split
      · split
        · rfl
        · simp [Stmt.refsList, Stmt.refs, hparts.2.1]
      · exact stripHead_refs x rest els hparts.2.2
      · exact simplifyIfStatement_refs x _ els h

theorem doBlock_empty (call : CallFn N) (ρ : ExtOracle N) (k : Nat) (env : Env N) (A : Block) (σ : State N) :
    replSem call ρ k env (if blockIsEmpty A then [] else [.doBlock A]) σ = execS call ρ k env (.doBlock A) σ := by
  by_cases hA : blockIsEmpty A = true
  · simp only [hA, if_true, replSem]
    have := elseSem_empty call ρ k env A hA σ
    simp only [elseSem] at this
    exact this.symm
  · simp [hA, replSem]

theorem stripHead_replA (htA : EvalTotalA N apiA) (ht : EvalTotal N api) : ∀ (brs : List (Expr × Block)) (els : Option Block),
    ReplA N (.ifs brs els) (stripHead apiA api brs els)
  | [], els => ReplA.ofExact fun call ρ k env σ => simplifyIfStatement_le ht call ρ k env [] els σ
  | (c, A) :: rest, els => by
    unfold stripHead
    split
    · exact ReplA.ofExact fun call ρ k env σ => simplifyIfStatement_le ht call ρ k env _ els σ
    · rename_i hse
      have hse' : apiA.hasSideEffects c = false := by simpa using hse
      split
      · rename_i htr
        intro call ρ k env σ
        rw [execS_ifs, sem_cons]
        rcases htA.pureAlloc c true htr hse' call ρ k env σ with hto | ⟨vs, σ1, hok, hx⟩
        · left; simp [hto, Res.bind]
        · right
          have := htA.decided c true htr call ρ k env σ σ1 vs hok
          exact ⟨σ1, hx, by simp only [hok, Res.bind, this, if_true]; exact doBlock_empty call ρ k env A σ1⟩
      · rename_i htr
        have ih := stripHead_replA htA ht rest els
        intro call ρ k env σ
        rw [execS_ifs, sem_cons]
        rcases htA.pureAlloc c false htr hse' call ρ k env σ with hto | ⟨vs, σ1, hok, hx⟩
        · left; simp [hto, Res.bind]
        · have := htA.decided c false htr call ρ k env σ σ1 vs hok
          simp only [hok, Res.bind, this, Bool.false_eq_true, if_false]
          rw [← execS_ifs]
          rcases ih call ρ k env σ1 with h1 | ⟨σ2, hx2, h2⟩
          · exact .inl h1
          · exact .inr ⟨σ2, hx.trans hx2, h2⟩
      · exact ReplA.ofExact fun call ρ k env σ => simplifyIfStatement_le ht call ρ k env _ els σ

theorem processStmtsGA_repl (htA : EvalTotalA N apiA) (ht : EvalTotal N api) : ∀ (stmts : List Stmt),
    ReplList N stmts (processStmtsGA apiA api stmts)
  | [] => .nil
  | s :: rest => by
    have ih := processStmtsGA_repl htA ht rest
    cases s with
    | ifs brs els =>
      simp only [processStmtsGA]
      exact .cons (stripHead_replA htA ht brs els) (stripHead_short brs els) (fun x h => stripHead_refs x brs els h) ih
    | assign _ _ | cassign _ _ _ | callStmt _ | doBlock _ | function _ _ _ | gfor _ _ _ | nfor _ _ _ _ _
    | localAssign _ _ _ | localFn _ _ _ | repeat_ _ _ | while_ _ _ | typeDecl _ _ _ | typeFn _ _ _ =>
      simp only [processStmtsGA]
      exact ReplList.cons (ReplA.refl _) (.inr ⟨_, rfl⟩) (fun x h => by simp [Stmt.refsList, h]) ih

theorem hooksU (htA : EvalTotalA N apiA) (ht : EvalTotal N api) : HooksU (cxU N) (processorGA apiA api) where
  block := fun b _ => by
    cases b with
    | mk stmts last => exact .single (vkBo_repl (processStmtsGA_repl htA ht stmts))
  expr := fun e _ => .single (vkE_at (N := N)
    (by
      intro call ρ k env σ
      cases e with
      | ifx c t elifs el => exact simplifyIf_le ht call ρ k env elifs el c t σ
      | _ => right; rfl)
    (fun D h x hx => processExpr_refs x e (h x hx)))

/-- the guarded rule: every program, every run over `N` with a flat oracle -/
theorem applyGA_upto (htA : EvalTotalA N apiA) (ht : EvalTotal N api) (b : Block) (ρ : ExtOracle N) (hρ : OracleFlat ρ)
    (n : Nat) (externs : List String) :
    runProgram ρ n externs b = .timeout ∨ runProgram ρ n externs (applyGA apiA api b) = runProgram ρ n externs b :=
  Visitor.runDefault_u_upto (cx := cxU N) (hooksU htA ht) b () ρ hρ n externs trivial (fun _ => rfl)

end UnusedIfBranch

end DarkluaModel.Rules
