import DarkluaModel.Rules.UnusedVariableHeapV
/-!
# `remove_unused_variable` — a still larger fragment: unused declarations whose value is a CALL

Beyond `UnusedVariableHeapV.lean` (allocation-only initialisers, unused local functions) the rule turns
`local a, b = f(x)` with `a`, `b` unused into the statement `f(x)` (`expressions_as_statement`, through
parentheses and type casts). New stage-4 leaf `localToCall_sound`: the declaration and the call statement
perform the same evaluation; the cells bound on the left only are garbage once the names are dead.

* `VkB.localToCall` / `VkRep.localToCall` — the links;
* `GuardedV2.applyG` — the guarded rule: removals as in `GuardedV`, plus this replacement;
* `applyG_refines`, `apply_refines_of_agree` — as before.
-/
namespace DarkluaModel.Sem.HeapV
open Heap (refNames tailRefs)
open DarkluaModel.Rules.UnusedVariable (getInner)

variable {Q : QRel} {D : List DName}

/-- values are ignored -/
def ATrue {α : Type} : ARel α := fun _ _ _ => True

/-- `x` and `y` have the same effects (results related, values ignored) -/
def EffE (Q : QRel) (D : List DName) (x y : Expr) : Prop :=
  ∀ (N : NumOps) (call : CallFn N) (ρ : ExtOracle N) (k : Nat) (env env' : Env N) (σ σ' : State N) (β : Inj),
    POK Q call ρ → SRel Q β σ σ' → EnvOK β D env env' →
      RRel Q β (ATrue (α := List (Val N))) (evalE call ρ k env x σ) (evalE call ρ k env' y σ')

theorem EffE.ofSound {x y : Expr} (h : SoundE Q D x y) : EffE Q D x y :=
  fun N call ρ k env env' σ σ' β hp hs he => (h N call ρ k env env' σ σ' β hp hs he).mapA fun _ _ _ _ _ => trivial

/-- wrapping the left side in something that only post-processes the values -/
theorem EffE.bindLeft {x y : Expr} (h : EffE Q D x y) {N : NumOps} {call : CallFn N} {ρ : ExtOracle N} {k : Nat}
    {env env' : Env N} {σ σ' : State N} {β : Inj} (hp : POK Q call ρ) (hs : SRel Q β σ σ') (he : EnvOK β D env env')
    (g : List (Val N) → List (Val N)) :
    RRel Q β (ATrue (α := List (Val N))) ((evalE call ρ k env x σ).bind fun vs s => .ok (g vs) s)
      (evalE call ρ k env' y σ') := by
  have h0 := h N call ρ k env env' σ σ' β hp hs he
  revert h0
  generalize evalE call ρ k env x σ = r
  generalize evalE call ρ k env' y σ' = r'
  intro h0
  cases r <;> cases r' <;> simp only [RRel, Res.bind] at h0 ⊢ <;> first | exact h0 | trivial

theorem effE_inner (hq : QRefl Q) : ∀ (e : Expr), NoRefE D e → EffE Q D e (getInner e)
  | .paren x, h => fun N call ρ k env env' σ σ' β hp hs he => by
    have ih := effE_inner hq x (NoRefE.paren.mp h)
    simp only [getInner, evalE]
    exact ih.bindLeft hp hs he _
  | .cast x ty, h => fun N call ρ k env env' σ σ' β hp hs he => by
    have ih := effE_inner hq x (NoRefE.cast.mp h)
    simp only [getInner, evalE]
    exact ih.bindLeft hp hs he _
  | .nil, h | .true, h | .false, h | .vararg, h | .num _, h | .str _, h | .var _, h | .un _ _, h | .bin _ _ _, h
  | .call _ _ _ _, h | .field _ _, h | .index _ _, h | .fn _, h | .table _, h | .ifx _ _ _ _, h | .interp _, h
  | .inst _ _, h => by
    simp only [getInner]
    exact EffE.ofSound (reflE hq _ D h)

theorem noRefE_inner : ∀ (e : Expr), NoRefE D e → NoRefE D (getInner e)
  | .paren x, h => by simp only [getInner]; exact noRefE_inner x (NoRefE.paren.mp h)
  | .cast x ty, h => by simp only [getInner]; exact noRefE_inner x (NoRefE.cast.mp h)
  | .nil, h | .true, h | .false, h | .vararg, h | .num _, h | .str _, h | .var _, h | .un _ _, h | .bin _ _ _, h
  | .call _ _ _ _, h | .field _ _, h | .index _ _, h | .fn _, h | .table _, h | .ifx _ _ _ _, h | .interp _, h
  | .inst _ _, h => by simpa only [getInner] using h

/-- **leaf**: `local ns = e; rest` against `c; rest'` when `e` and the call `c` have the same effects and the
names are dead in the rest -/
theorem localToCall_sound {D' : List DName} {kind : LocalKind} {ns : List TName} {e c : Expr}
    {rest rest' : List Stmt} (heff : EffE Q D e c) (hrest : SoundSs Q (refNames ns ++ D) rest rest' D') :
    SoundSs Q D (.localAssign kind ns [e] :: rest) (.callStmt c :: rest') D' :=
  ⟨(DSub.refs _ D).trans hrest.1, fun N call ρ k env env' σ σ' β hp hs he => by
    have h0 := heff N call ρ k env env' σ σ' β hp hs he
    simp only [execSs, execS, evalEs]
    revert h0
    generalize evalE call ρ k env e σ = r
    generalize evalE call ρ k env' c σ' = r'
    intro h0
    cases r <;> cases r' <;> simp only [RRel, Res.bind] at h0 ⊢
    all_goals try (first | exact h0 | trivial)
    · rename_i ws σ1 ws' σ1'
      obtain ⟨β1, h1, _, h3⟩ := h0
      have he1 := he.mono h1
      have hb := h3.bindLocalsLeft (D := refNames ns ++ D) (ns.map TName.name) refNames_mem ws
        (he1.loc.weaken (DSub.refs _ D))
      exact RRel.mono h1 (hrest.2 N call ρ k _ _ _ _ _ hp hb.1 ⟨he1.va, hb.2⟩)⟩

theorem VkB.localToCall {pre rest : List Stmt} {last : Option Last} {kind : LocalKind} {ns : List TName}
    {e : Expr} (hx : ∀ n ∈ ns.map TName.name, tailRefs n rest last = false) :
    VkB (.mk (pre ++ .localAssign kind ns [e] :: rest) last) (.mk (pre ++ .callStmt (getInner e) :: rest) last) := by
  intro D _ hn
  have hx1 : ∀ n ∈ ns.map TName.name, Stmt.refsList (.ref n) rest = false := fun n h => by
    have := hx n h; simp only [tailRefs, Bool.or_eq_false_iff] at this; exact this.1
  cases last with
  | none =>
    have h1 := Heap.NoRefSs.append.mp (NoRefB.none.mp hn)
    have h2 := NoRefSs.cons.mp h1.2
    have he : NoRefE D e := (NoRefEs.cons.mp (NoRefS.localAssign.mp h2.1).2).1
    exact ⟨⟨_, .blockNone (.ssPrefix pre h1.1 (.genSs fun Q hq =>
        localToCall_sound (effE_inner hq e he) (reflSs hq rest _ (Heap.NoRefSs.consName h2.2 hx1))))⟩,
      NoRefB.none.mpr (Heap.NoRefSs.append.mpr ⟨h1.1, NoRefSs.cons.mpr ⟨NoRefS.callStmt.mpr (noRefE_inner e he), h2.2⟩⟩)⟩
  | some l =>
    have h0 := NoRefB.some.mp hn
    have h1 := Heap.NoRefSs.append.mp h0.1
    have h2 := NoRefSs.cons.mp h1.2
    have he : NoRefE D e := (NoRefEs.cons.mp (NoRefS.localAssign.mp h2.1).2).1
    have hx2 : ∀ n ∈ ns.map TName.name, l.refs (.ref n) = false := fun n h => by
      have := hx n h; simp only [tailRefs, Bool.or_eq_false_iff] at this; exact this.2
    exact ⟨⟨_, .blockSome (.ssPrefix pre h1.1 (.genSs fun Q hq =>
        localToCall_sound (effE_inner hq e he) (reflSs hq rest _ (Heap.NoRefSs.consName h2.2 hx1))))
        (.reflL (Heap.NoRefL.consName h0.2 hx2))⟩,
      NoRefB.some.mpr ⟨Heap.NoRefSs.append.mpr ⟨h1.1, NoRefSs.cons.mpr ⟨NoRefS.callStmt.mpr (noRefE_inner e he), h2.2⟩⟩, h0.2⟩⟩

theorem VkRep.localToCall {pre rest : List Stmt} {last : Option Last} {kind : LocalKind} {ns : List TName}
    {e c : Expr} (hx : ∀ n ∈ ns.map TName.name, tailRefs n rest last = false)
    (hc : ∀ n ∈ ns.map TName.name, c.refs (.ref n) = false) :
    VkRep (.mk (pre ++ .localAssign kind ns [e] :: rest) last, c) (.mk (pre ++ .callStmt (getInner e) :: rest) last, c) := by
  intro D _ hnb hnc
  have hx1 : ∀ n ∈ ns.map TName.name, Stmt.refsList (.ref n) rest = false := fun n h => by
    have := hx n h; simp only [tailRefs, Bool.or_eq_false_iff] at this; exact this.1
  cases last with
  | none =>
    have h1 := Heap.NoRefSs.append.mp (NoRefB.none.mp hnb)
    have h2 := NoRefSs.cons.mp h1.2
    have he : NoRefE D e := (NoRefEs.cons.mp (NoRefS.localAssign.mp h2.1).2).1
    exact ⟨.rep (.blockNone (.ssPrefix pre h1.1 (.genSs fun Q hq =>
        localToCall_sound (effE_inner hq e he) (reflSs hq rest _ (Heap.NoRefSs.consName h2.2 hx1)))))
        (.reflE (Heap.NoRefE.consName hnc hc)),
      NoRefB.none.mpr (Heap.NoRefSs.append.mpr ⟨h1.1, NoRefSs.cons.mpr ⟨NoRefS.callStmt.mpr (noRefE_inner e he), h2.2⟩⟩), hnc⟩
  | some l =>
    have h0 := NoRefB.some.mp hnb
    have h1 := Heap.NoRefSs.append.mp h0.1
    have h2 := NoRefSs.cons.mp h1.2
    have he : NoRefE D e := (NoRefEs.cons.mp (NoRefS.localAssign.mp h2.1).2).1
    have hx2 : ∀ n ∈ ns.map TName.name, l.refs (.ref n) = false := fun n h => by
      have := hx n h; simp only [tailRefs, Bool.or_eq_false_iff] at this; exact this.2
    exact ⟨.rep (.blockSome (.ssPrefix pre h1.1 (.genSs fun Q hq =>
        localToCall_sound (effE_inner hq e he) (reflSs hq rest _ (Heap.NoRefSs.consName h2.2 hx1))))
          (.reflL (Heap.NoRefL.consName h0.2 hx2))) (.reflE (Heap.NoRefE.consName hnc hc)),
      NoRefB.some.mpr ⟨Heap.NoRefSs.append.mpr ⟨h1.1, NoRefSs.cons.mpr ⟨NoRefS.callStmt.mpr (noRefE_inner e he), h2.2⟩⟩, h0.2⟩, hnc⟩

end DarkluaModel.Sem.HeapV

namespace DarkluaModel.Rules.UnusedVariable.GuardedV2
open DarkluaModel.Sem DarkluaModel.Sem.HeapV DarkluaModel.Rules DarkluaModel.Rules.UnusedVariable
open DarkluaModel.Sem.Heap (tailRefs)

def isCall : Expr → Bool
  | .call _ _ _ _ => true
  | _ => false

/-- an unused declaration with ONE value that is (parentheses / casts around) a call, which the rule turns into
the call statement, and that the `localToCall` link covers (names not referenced afterwards) -/
def callOK (api : EvalApi) (last : Option Last) (inExtra : List String) (cr : String → Bool) (s : Stmt)
    (rest : List Stmt) : Bool :=
  match s with
  | .localAssign _ ns [e] =>
    !ns.isEmpty &&
    ((tnames ns).map fun id => isUsedAfter id rest last inExtra).all (!·) &&
    api.hasSideEffects e && isCall (getInner e) &&
    (ns.map TName.name).all (fun n => !tailRefs n rest last && !cr n)
  | _ => false

/-- the statement that replaces such a declaration -/
def callOf : Stmt → Stmt
  | .localAssign _ _ [e] => .callStmt (getInner e)
  | s => s

/-- the removals of `GuardedV` plus the call replacements (the flag records removals only, as the rule does) -/
def rewriteG (api : EvalApi) (last : Option Last) (inExtra : List String) (cr : String → Bool) :
    List Stmt → Bool → List Stmt × Bool
  | [], m => ([], m)
  | s :: rest, m =>
    if GuardedV.dropOK api last inExtra cr s rest then rewriteG api last inExtra cr rest true
    else
      let (r, m') := rewriteG api last inExtra cr rest m
      if callOK api last inExtra cr s rest then (callOf s :: r, m') else (s :: r, m')

theorem drop_chain (api : EvalApi) (last : Option Last) (inExtra : List String)
    (ss : List Stmt) (m : Bool) (pre : List Stmt) :
    Chain VkB (.mk (pre ++ ss) last) (.mk (pre ++ (rewriteG api last inExtra (fun _ => false) ss m).1) last) := by
  induction ss generalizing pre m with
  | nil => exact .refl _
  | cons s rest ih =>
    by_cases hd : GuardedV.dropOK api last inExtra (fun _ => false) s rest = true
    · simp only [rewriteG, hd, if_true]
      cases s with
      | localAssign kind ns vs =>
        simp only [GuardedV.dropOK, Bool.and_eq_true, List.all_eq_true, Bool.not_eq_true'] at hd
        obtain ⟨⟨_, hatoms⟩, hrefs⟩ := hd
        refine .cons (VkB.dropLocal (allocPureAll_sound vs hatoms) fun n hn => ?_) (ih true pre)
        have := hrefs n hn
        first | exact this.1 | exact this | (simp at this; exact this)
      | localFn kind name f =>
        simp only [GuardedV.dropOK, Bool.and_eq_true, Bool.not_eq_true'] at hd
        exact .cons (VkB.dropLocalFn hd.1.2) (ih true pre)
      | _ => simp [GuardedV.dropOK] at hd
    · simp only [rewriteG, hd, Bool.false_eq_true, if_false]
      by_cases hc : callOK api last inExtra (fun _ => false) s rest = true
      · simp only [hc, if_true]
        match s, hc with
        | .localAssign kind ns [e], hc =>
          simp only [callOK, Bool.and_eq_true, List.all_eq_true, Bool.not_eq_true'] at hc
          obtain ⟨_, hrefs⟩ := hc
          have hx : ∀ n ∈ ns.map TName.name, tailRefs n rest last = false := fun n hn => by
            have := hrefs n hn
            first | exact this.1 | exact this | (simp at this; exact this)
          have := ih m (pre ++ [.callStmt (getInner e)])
          simp only [List.append_assoc, List.singleton_append] at this
          exact .cons (VkB.localToCall hx) this
      · simp only [hc, Bool.false_eq_true, if_false]
        have := ih m (pre ++ [s])
        simpa [List.append_assoc] using this

theorem drop_chain_rep (api : EvalApi) (last : Option Last) (inExtra : List String) (c : Expr)
    (ss : List Stmt) (m : Bool) (pre : List Stmt) :
    Chain VkRep (.mk (pre ++ ss) last, c)
      (.mk (pre ++ (rewriteG api last inExtra (fun n => c.refs (.ref n)) ss m).1) last, c) := by
  induction ss generalizing pre m with
  | nil => exact .refl _
  | cons s rest ih =>
    by_cases hd : GuardedV.dropOK api last inExtra (fun n => c.refs (.ref n)) s rest = true
    · simp only [rewriteG, hd, if_true]
      cases s with
      | localAssign kind ns vs =>
        simp only [GuardedV.dropOK, Bool.and_eq_true, List.all_eq_true, Bool.not_eq_true'] at hd
        obtain ⟨⟨_, hatoms⟩, hrefs⟩ := hd
        have h2 : ∀ n ∈ ns.map TName.name, tailRefs n rest last = false ∧ c.refs (.ref n) = false := fun n hn => by
          have := hrefs n hn
          simpa only [Bool.and_eq_true, Bool.not_eq_true'] using this
        exact .cons (VkRep.dropLocal (allocPureAll_sound vs hatoms) (fun n hn => (h2 n hn).1) (fun n hn => (h2 n hn).2))
          (ih true pre)
      | localFn kind name f =>
        simp only [GuardedV.dropOK, Bool.and_eq_true, Bool.not_eq_true'] at hd
        exact .cons (VkRep.dropLocalFn hd.1.2 hd.2) (ih true pre)
      | _ => simp [GuardedV.dropOK] at hd
    · simp only [rewriteG, hd, Bool.false_eq_true, if_false]
      by_cases hc : callOK api last inExtra (fun n => c.refs (.ref n)) s rest = true
      · simp only [hc, if_true]
        match s, hc with
        | .localAssign kind ns [e], hc =>
          simp only [callOK, Bool.and_eq_true, List.all_eq_true, Bool.not_eq_true'] at hc
          obtain ⟨_, hrefs⟩ := hc
          have h2 : ∀ n ∈ ns.map TName.name, tailRefs n rest last = false ∧ c.refs (.ref n) = false := fun n hn => by
            have := hrefs n hn
            simpa only [Bool.and_eq_true, Bool.not_eq_true'] using this
          have := ih m (pre ++ [.callStmt (getInner e)])
          simp only [List.append_assoc, List.singleton_append] at this
          exact .cons (VkRep.localToCall (fun n hn => (h2 n hn).1) (fun n hn => (h2 n hn).2)) this
      · simp only [hc, Bool.false_eq_true, if_false]
        have := ih m (pre ++ [s])
        simpa [List.append_assoc] using this

/-- the guarded `process_scope` -/
def scopeG (api : EvalApi) : Block → Option Expr → Bool → (Block × Option Expr) × Bool
  | .mk stmts last, extra, m =>
    let (stmts', m') := rewriteG api last (usagesInExtra stmts extra) (GuardedV.condRefs extra) stmts m
    ((.mk stmts' last, extra), m')

def processorG (api : EvalApi) : Processor Bool := { scope := scopeG api }

theorem scopeG_none_chain (api : EvalApi) (b : Block) (m : Bool) :
    Chain VkB b (scopeG api b none m).1.1 := by
  cases b with
  | mk ss last =>
    simp only [scopeG, GuardedV.condRefs]
    simpa using drop_chain api last (usagesInExtra ss none) ss m []

theorem hooksV (api : EvalApi) : HooksV (processorG api) where
  scopeB := fun b s => scopeG_none_chain api b s
  scopeR := fun b c s => by
    cases b with
    | mk ss last =>
      simp only [processorG, scopeG, GuardedV.condRefs, Option.getD]
      simpa using drop_chain_rep api last (usagesInExtra ss (some c)) c ss s []

def passG (api : EvalApi) (b : Block) : Block × Bool :=
  let ((b1, _), m1) := scopeG api b none false
  Visitor.runDefault (processorG api) b1 m1

def loopG (api : EvalApi) : Nat → Block → Block
  | 0, b => b
  | n + 1, b =>
    let (b', mutated) := passG api b
    if mutated then loopG api n b' else b'

/-- the rule restricted to the (larger) fragment -/
def applyG (api : EvalApi) (b : Block) : Block := loopG api (b.size + 1) b

theorem passG_refines (api : EvalApi) (b : Block) {N : NumOps} (ρ : ExtOracle N) (hρ : OracleFlat ρ) (n : Nat)
    (externs : List String) : runProgram ρ n externs (passG api b).1 = runProgram ρ n externs b := by
  simp only [passG]
  have h1 := chain_runProgram (scopeG_none_chain api b false) ρ hρ n externs
  have h2 := Visitor.runDefault_v (hooksV api) (scopeG api b none false).1.1 (scopeG api b none false).2 ρ hρ n externs
  exact h2.trans h1

theorem loopG_refines (api : EvalApi) : ∀ (k : Nat) (b : Block) {N : NumOps} (ρ : ExtOracle N) (_ : OracleFlat ρ)
    (n : Nat) (externs : List String), runProgram ρ n externs (loopG api k b) = runProgram ρ n externs b
  | 0, _, _, _, _, _, _ => rfl
  | k + 1, b, N, ρ, hρ, n, externs => by
    simp only [loopG]
    split
    · exact (loopG_refines api k _ ρ hρ n externs).trans (passG_refines api b ρ hρ n externs)
    · exact passG_refines api b ρ hρ n externs

/-- **whole rule, every program**: the guarded rule preserves the observable outcome -/
theorem applyG_refines (api : EvalApi) (b : Block) {N : NumOps} (ρ : ExtOracle N) (hρ : OracleFlat ρ) (n : Nat)
    (externs : List String) : runProgram ρ n externs (applyG api b) = runProgram ρ n externs b :=
  loopG_refines api _ b ρ hρ n externs

theorem apply_refines_of_agree (api : EvalApi) (b : Block) (h : applyG api b = apply api b)
    {N : NumOps} (ρ : ExtOracle N) (hρ : OracleFlat ρ) (n : Nat) (externs : List String) :
    runProgram ρ n externs (apply api b) = runProgram ρ n externs b := by
  rw [← h]; exact applyG_refines api b ρ hρ n externs

end DarkluaModel.Rules.UnusedVariable.GuardedV2
