import DarkluaModel.Shared.VisitorSoundHeapU
import DarkluaModel.Rules.AtN
import DarkluaModel.Rules.UnusedIfBranchSound
/-!
# One number system, and evaluations that only ALLOCATE (stage 4 unified, `Sem.HeapU`)

`while not {} do … end` and `if {} then A else B end` are rewritten by `remove_unused_while` /
`remove_unused_if_branch` (the evaluator: `{}` is a table — truthy — without side effects), but the dropped
condition allocates a table: the two runs continue in states that differ by garbage, so no step relation "same
result in the same state" holds. Stage 4 relates states up to renumbering / garbage; `HeapU` has `upto` and the
call-handler assumption `CF`, so the number system can be pinned as in `AtN.lean`.

* `cxU N` — the context; `vkE_at` … — hooks exact at `N` (`LeEAt`) are `HeapU` links;
* `ReplA N s repl` — in every run over `N`, statement `s` exhausts the budget, or behaves as the replacement
  list `repl` (nothing, or one statement) started in a state that is the current one plus allocations;
* `replA_sound` — the generic leaf; `ReplList` / `vkBo_repl` — a block hook that replaces statements this way is
  an (open-block) link.
-/
namespace DarkluaModel.Rules.AtNU
open DarkluaModel.Sem DarkluaModel.Sem.HeapU DarkluaModel.Rules.AtN
open DarkluaModel.Rules.UnusedIfBranch.Sound (replSem)

/-- the `HeapU` context that pins the number system -/
def cxU (N : NumOps) : HeapU.Cx := { upto := true, CF := fun N' _ _ _ => N' = N }

variable {N : NumOps}

theorem soundE_at {Q : QRel} {D : List DName} {a a' : Expr} (h : LeEAt N a a')
    (hr : SoundE Q (cxU N) D a' a') : SoundE Q (cxU N) D a a' := by
  intro N' call ρ k env env' σ σ' β hp hs he
  have hN : N' = N := hp.cf
  subst hN
  rcases h call ρ k env σ with h1 | h1
  · rw [h1]; exact RRel.timeout_left rfl _
  · rw [← h1]; exact hr _ call ρ k env env' σ σ' β hp hs he

theorem vkE_at {a a' : Expr} (h : LeEAt N a a') (hn : ∀ D, NoRefE D a → NoRefE D a') : (VkE (cxU N)) a a' :=
  fun D _ hd => ⟨.genE fun _ hq => soundE_at h (HeapU.reflE hq a' D (hn D hd)), hn D hd⟩

/-- `s` exhausts the budget, or is `repl` run from the current state plus allocations -/
def ReplA (N : NumOps) (s : Stmt) (repl : List Stmt) : Prop :=
  ∀ (call : CallFn N) (ρ : ExtOracle N) (k : Nat) (env : Env N) (σ : State N),
    execS call ρ k env s σ = .timeout ∨
      ∃ σ1, StExt σ σ1 ∧ replSem call ρ k env repl σ1 = execS call ρ k env s σ

theorem ReplA.refl (s : Stmt) : ReplA N s [s] := fun _ _ _ _ σ => .inr ⟨σ, StExt.refl σ, rfl⟩

/-- an exact replacement (same state) is one -/
theorem ReplA.ofExact {s : Stmt} {repl : List Stmt}
    (h : ∀ (call : CallFn N) (ρ : ExtOracle N) (k : Nat) (env : Env N) (σ : State N),
      execS call ρ k env s σ = .timeout ∨ replSem call ρ k env repl σ = execS call ρ k env s σ) : ReplA N s repl :=
  fun call ρ k env σ => (h call ρ k env σ).elim .inl fun h => .inr ⟨σ, StExt.refl σ, h⟩

/-- **generic leaf**: a statement replaced by nothing / one statement up to allocations, in front of related rests -/
theorem replA_sound {Q : QRel} {D D' : List DName} {s : Stmt} {repl rest rest' : List Stmt} (h : ReplA N s repl)
    (short : repl = [] ∨ ∃ s', repl = [s']) (hr : ∀ s' ∈ repl, SoundS Q (cxU N) D s' s')
    (hrest : SoundSs Q (cxU N) D rest rest' D') : SoundSs Q (cxU N) D (s :: rest) (repl ++ rest') D' :=
  ⟨hrest.1, fun N' call ρ k env env' σ σ' β hp hs he => by
    have hN : N' = N := hp.cf
    subst hN
    rcases h call ρ k env σ with h1 | ⟨σ1, hx, h1⟩
    · simp only [execSs, h1, Res.bind]; exact RRel.timeout_left rfl _
    · rcases short with rfl | ⟨s', rfl⟩
      · simp only [replSem] at h1
        simp only [execSs, ← h1, Res.bind, List.nil_append]
        exact hrest.2 _ call ρ k env env' σ1 σ' β hp (hs.extLeft hx) he
      · simp only [replSem] at h1
        have := (SoundSs.cons (hr s' (by simp)) hrest).2 _ call ρ k env env' σ1 σ' β hp (hs.extLeft hx) he
        simp only [execSs, ← h1, List.cons_append, List.nil_append] at this ⊢
        exact this⟩

/-- statement lists related by statement-wise replacement -/
inductive ReplList (N : NumOps) : List Stmt → List Stmt → Prop
  | nil : ReplList N [] []
  | cons {s repl ss ss'} : ReplA N s repl → (repl = [] ∨ ∃ s', repl = [s']) →
      (∀ x, s.refs x = false → Stmt.refsList x repl = false) → ReplList N ss ss' → ReplList N (s :: ss) (repl ++ ss')

theorem refsList_append' (x : DName) : ∀ (a b : List Stmt),
    Stmt.refsList x (a ++ b) = (Stmt.refsList x a || Stmt.refsList x b)
  | [], b => by simp [Stmt.refsList]
  | s :: a, b => by simp [Stmt.refsList, refsList_append' x a b, Bool.or_assoc]

theorem ReplList.noRef {ss ss' : List Stmt} (h : ReplList N ss ss') {D : List DName} (hn : NoRefSs D ss) :
    NoRefSs D ss' := by
  induction h with
  | nil => exact hn
  | cons _ _ hrefs _ ih =>
    have h2 := NoRefSs.cons.mp hn
    intro x hx
    rw [refsList_append', hrefs x (h2.1 x hx), ih h2.2 x hx]; rfl

theorem ReplList.sound {Q : QRel} (hq : QRefl Q) {ss ss' : List Stmt} (h : ReplList N ss ss') {D : List DName}
    (hn : NoRefSs D ss) : SoundSs Q (cxU N) D ss ss' D := by
  induction h with
  | nil => exact SoundSs.nil
  | @cons s repl ss ss' hA hshort hrefs _ ih =>
    have h2 := NoRefSs.cons.mp hn
    refine replA_sound hA hshort (fun s' hs' => HeapU.reflS hq s' D fun x hx => ?_) (ih h2.2)
    have := hrefs x (h2.1 x hx)
    rcases hshort with rfl | ⟨s0, rfl⟩
    · cases hs'
    · simp only [List.mem_singleton] at hs'; subst hs'
      simpa [Stmt.refsList] using this

/-- a block hook that replaces statements one by one is an open-block link -/
theorem vkBo_repl {ss ss' : List Stmt} {last : Option Last} (h : ReplList N ss ss') :
    (VkBo (cxU N)) (.mk ss last) (.mk ss' last) := by
  intro D _ hn
  cases last with
  | none =>
    have h1 := NoRefB.none.mp hn
    exact ⟨.genB fun _ hq => SoundB.none (h.sound hq h1), NoRefB.none.mpr (h.noRef h1)⟩
  | some l =>
    have h1 := NoRefB.some.mp hn
    exact ⟨.genB fun _ hq => SoundB.some (h.sound hq h1.1) (HeapU.reflL hq l D h1.2),
      NoRefB.some.mpr ⟨h.noRef h1.1, h1.2⟩⟩

/-! ## hooks exact at `N` are `HeapU` hooks (`HooksLeAt → HooksU`; added by b-sim, round 5) -/

theorem soundT_at {Q : QRel} {D : List DName} {a a' : Expr} (h : LeTAt N a a')
    (hr : SoundT Q (cxU N) D a' a') : SoundT Q (cxU N) D a a' := by
  intro N' call ρ k env env' σ σ' β hp hs he
  have hN : N' = N := hp.cf
  subst hN
  rcases h call ρ k env σ with h1 | h1
  · rw [h1]; exact RRel.timeout_left rfl _
  · rw [← h1]; exact hr _ call ρ k env env' σ σ' β hp hs he

theorem soundS_at {Q : QRel} {D : List DName} {a a' : Stmt} (h : LeSAt N a a')
    (hr : SoundS Q (cxU N) D a' a') : SoundS Q (cxU N) D a a' := by
  intro N' call ρ k env env' σ σ' β hp hs he
  have hN : N' = N := hp.cf
  subst hN
  rcases h call ρ k env σ with h1 | h1
  · rw [h1]; exact RRel.timeout_left rfl _
  · rw [← h1]; exact hr _ call ρ k env env' σ σ' β hp hs he

theorem soundL_at {Q : QRel} {D : List DName} {a a' : Last} (h : LeLAt N a a')
    (hr : SoundL Q (cxU N) D a' a') : SoundL Q (cxU N) D a a' := by
  intro N' call ρ k env env' σ σ' β hp hs he
  have hN : N' = N := hp.cf
  subst hN
  rcases h call ρ k env σ with h1 | h1
  · rw [h1]; exact RRel.timeout_left rfl _
  · rw [← h1]; exact hr _ call ρ k env env' σ σ' β hp hs he

theorem soundB_at {Q : QRel} {D D' : List DName} {a a' : Block} (h : LeBAt N a a')
    (hr : SoundB Q (cxU N) D a' a' D') : SoundB Q (cxU N) D a a' D' :=
  ⟨hr.1, by
    intro N' call ρ k env env' σ σ' β hp hs he
    have hN : N' = N := hp.cf
    subst hN
    rcases h call ρ k env σ with h1 | h1
    · rw [h1]; exact RRel.timeout_left rfl _
    · rw [← h1]; exact hr.2 _ call ρ k env env' σ σ' β hp hs he⟩

theorem vkT_at {a a' : Expr} (h : LeTAt N a a') (hn : ∀ D, NoRefT D a → NoRefT D a')
    (hv : ∀ x, a = .var x → a' = .var x) : (VkT (cxU N)) a a' :=
  ⟨fun D _ hd => ⟨.genT fun _ hq => soundT_at h (HeapU.reflT hq a' D (hn D hd)), hn D hd⟩, hv⟩
theorem vkS_at {a a' : Stmt} (h : LeSAt N a a') (hn : ∀ D, NoRefS D a → NoRefS D a') : (VkS (cxU N)) a a' :=
  fun D _ hd => ⟨.genS fun _ hq => soundS_at h (HeapU.reflS hq a' D (hn D hd)), hn D hd⟩
theorem vkL_at {a a' : Last} (h : LeLAt N a a') (hn : ∀ D, NoRefL D a → NoRefL D a') : (VkL (cxU N)) a a' :=
  fun D _ hd => ⟨.genL fun _ hq => soundL_at h (HeapU.reflL hq a' D (hn D hd)), hn D hd⟩
theorem vkBo_at {a a' : Block} (h : LeBAt N a a') (hn : ∀ D, NoRefB D a → NoRefB D a') : (VkBo (cxU N)) a a' :=
  fun D _ hd => ⟨.genB fun _ hq => soundB_at h (HeapU.reflB hq a' D (hn D hd)), hn D hd⟩

variable {σ : Type} {P : Processor σ}

theorem _root_.DarkluaModel.Rules.AtN.HooksLeAt.toU (H : HooksLeAt N P) (F : HooksNoRef P) : HooksU (cxU N) P where
  expr := fun e s => .single (vkE_at (H.expr e s) (F.expr e s))
  pref := fun e s => .single (vkE_at (H.pref e s) (F.pref e s))
  target := fun e s => .single (vkT_at (H.target e s) (F.target e s) (H.targetVar e s))
  node := fun e s =>
    ⟨.single (vkE_at (H.node e s).1 (F.node e s)), .single (vkT_at (H.node e s).2 (F.nodeT e s) (H.nodeVar e s))⟩
  afterNode := fun e s =>
    ⟨.single (vkE_at (H.afterNode e s).1 (F.afterNode e s)),
      .single (vkT_at (H.afterNode e s).2 (F.afterNodeT e s) (H.afterNodeVar e s))⟩
  stmt := fun e s => .single (vkS_at (H.stmt e s) (F.stmt e s))
  stmtNode := fun e s => .single (vkS_at (H.stmtNode e s) (F.stmtNode e s))
  afterStmtNode := fun e s => .single (vkS_at (H.afterStmtNode e s) (F.afterStmtNode e s))
  last := fun e s => .single (vkL_at (H.last e s) (F.last e s))
  block := fun e s => .single (vkBo_at (H.block e s) (F.block e s))
  afterBlock := fun e s => .single (vkBo_at (H.afterBlock e s) (F.afterBlock e s))
  scopeB := fun b s => by rw [H.scopeB b none s]; exact Chain.refl _
  scopeR := fun b c s => by rw [H.scopeB b (some c) s, H.scopeC b c s]; exact Chain.refl _
  insert := H.insert
  insertLocalName := H.insertLocalName
  insertLocalVal := fun n v s => by rw [H.insertLocalVal n v s]; exact Chain.refl _
  insertLocalFn := H.insertLocalFn

/-- the `HeapU` form of `AtN.runDefault_upto_at` (hooks of this kind compose with allocation-insensitive `HeapU`
hooks, `vkBo_repl`, in ONE pass) -/
theorem runDefault_upto_atU (H : HooksLeAt N P) (F : HooksNoRef P) (b : Block) (s : σ) (ρ : ExtOracle N)
    (hρ : OracleFlat ρ) (n : Nat) (externs : List String) :
    runProgram ρ n externs b = .timeout ∨
      runProgram ρ n externs (Visitor.runDefault P b s).1 = runProgram ρ n externs b :=
  Visitor.runDefault_u_upto (cx := cxU N) (H.toU F) b s ρ hρ n externs trivial (fun _ => rfl)

end DarkluaModel.Rules.AtNU
