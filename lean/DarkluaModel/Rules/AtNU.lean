import DarkluaModel.Shared.VisitorSoundHeapU
import DarkluaModel.Rules.AtN
import DarkluaModel.Rules.UnusedIfBranchSound
/-!
# One number system, and evaluations that only ALLOCATE (stage 4 unified, `Sem.HeapU`)

`while not {} do … end` and `if {} then A else B end` are rewritten by `remove_unused_while` /
`remove_unused_if_branch` (the evaluator: `{}` is a table — truthy — without side effects), but the dropped
condition allocates a table: the two runs continue in states that differ by garbage, so no step relation "same
result in the same state" holds. Stage 4 relates states up to renumbering / garbage; `HeapU` has `upto` and the
call-handler assumption `CF`, so the number system can be pinned as in `AtN.lean`.

* `cxU N` — the context; `vkE_at` … — hooks exact at `N` (`LeEAt`) are `HeapU` links;
* `ReplA N s repl` — in every run over `N`, statement `s` exhausts the budget, or behaves as the replacement
  list `repl` (nothing, or one statement) started in a state that is the current one plus allocations;
* `replA_sound` — the generic leaf; `ReplList` / `vkBo_repl` — a block hook that replaces statements this way is
  an (open-block) link.
-/
namespace DarkluaModel.Rules.AtNU
open DarkluaModel.Sem DarkluaModel.Sem.HeapU DarkluaModel.Rules.AtN
open DarkluaModel.Rules.UnusedIfBranch.Sound (replSem)

/-- the `HeapU` context that pins the number system -/
def cxU (N : NumOps) : HeapU.Cx := { upto := true, CF := fun N' _ _ _ => N' = N }

variable {N : NumOps}

theorem soundE_at {Q : QRel} {D : List DName} {a a' : Expr} (h : LeEAt N a a')
    (hr : SoundE Q (cxU N) D a' a') : SoundE Q (cxU N) D a a' := by
  intro N' call ρ k env env' σ σ' β hp hs he
  have hN : N' = N := hp.cf
  subst hN
  rcases h call ρ k env σ with h1 | h1
  · rw [h1]; exact RRel.timeout_left rfl _
  · rw [← h1]; exact hr _ call ρ k env env' σ σ' β hp hs he

theorem vkE_at {a a' : Expr} (h : LeEAt N a a') (hn : ∀ D, NoRefE D a → NoRefE D a') : (VkE (cxU N)) a a' :=
  fun D _ hd => ⟨.genE fun _ hq => soundE_at h (HeapU.reflE hq a' D (hn D hd)), hn D hd⟩

/-- `s` exhausts the budget, or is `repl` run from the current state plus allocations -/
def ReplA (N : NumOps) (s : Stmt) (repl : List Stmt) : Prop :=
  ∀ (call : CallFn N) (ρ : ExtOracle N) (k : Nat) (env : Env N) (σ : State N),
    execS call ρ k env s σ = .timeout ∨
      ∃ σ1, StExt σ σ1 ∧ replSem call ρ k env repl σ1 = execS call ρ k env s σ

theorem ReplA.refl (s : Stmt) : ReplA N s [s] := fun _ _ _ _ σ => .inr ⟨σ, StExt.refl σ, rfl⟩

/-- an exact replacement (same state) is one -/
theorem ReplA.ofExact {s : Stmt} {repl : List Stmt}
    (h : ∀ (call : CallFn N) (ρ : ExtOracle N) (k : Nat) (env : Env N) (σ : State N),
      execS call ρ k env s σ = .timeout ∨ replSem call ρ k env repl σ = execS call ρ k env s σ) : ReplA N s repl :=
  fun call ρ k env σ => (h call ρ k env σ).elim .inl fun h => .inr ⟨σ, StExt.refl σ, h⟩

/-- **generic leaf**: a statement replaced by nothing / one statement up to allocations, in front of related rests -/
theorem replA_sound {Q : QRel} {D D' : List DName} {s : Stmt} {repl rest rest' : List Stmt} (h : ReplA N s repl)
    (short : repl = [] ∨ ∃ s', repl = [s']) (hr : ∀ s' ∈ repl, SoundS Q (cxU N) D s' s')
    (hrest : SoundSs Q (cxU N) D rest rest' D') : SoundSs Q (cxU N) D (s :: rest) (repl ++ rest') D' :=
  ⟨hrest.1, fun N' call ρ k env env' σ σ' β hp hs he => by
    have hN : N' = N := hp.cf
    subst hN
    rcases h call ρ k env σ with h1 | ⟨σ1, hx, h1⟩
    · simp only [execSs, h1, Res.bind]; exact RRel.timeout_left rfl _
    · rcases short with rfl | ⟨s', rfl⟩
      · simp only [replSem] at h1
        simp only [execSs, ← h1, Res.bind, List.nil_append]
        exact hrest.2 _ call ρ k env env' σ1 σ' β hp (hs.extLeft hx) he
      · simp only [replSem] at h1
        have := (SoundSs.cons (hr s' (by simp)) hrest).2 _ call ρ k env env' σ1 σ' β hp (hs.extLeft hx) he
        simp only [execSs, ← h1, List.cons_append, List.nil_append] at this ⊢
        exact this⟩

/-- statement lists related by statement-wise replacement -/
inductive ReplList (N : NumOps) : List Stmt → List Stmt → Prop
  | nil : ReplList N [] []
  | cons {s repl ss ss'} : ReplA N s repl → (repl = [] ∨ ∃ s', repl = [s']) →
      (∀ x, s.refs x = false → Stmt.refsList x repl = false) → ReplList N ss ss' → ReplList N (s :: ss) (repl ++ ss')

theorem refsList_append' (x : DName) : ∀ (a b : List Stmt),
    Stmt.refsList x (a ++ b) = (Stmt.refsList x a || Stmt.refsList x b)
  | [], b => by simp [Stmt.refsList]
  | s :: a, b => by simp [Stmt.refsList, refsList_append' x a b, Bool.or_assoc]

theorem ReplList.noRef {ss ss' : List Stmt} (h : ReplList N ss ss') {D : List DName} (hn : NoRefSs D ss) :
    NoRefSs D ss' := by
  induction h with
  | nil => exact hn
  | cons _ _ hrefs _ ih =>
    have h2 := NoRefSs.cons.mp hn
    intro x hx
    rw [refsList_append', hrefs x (h2.1 x hx), ih h2.2 x hx]; rfl

theorem ReplList.sound {Q : QRel} (hq : QRefl Q) {ss ss' : List Stmt} (h : ReplList N ss ss') {D : List DName}
    (hn : NoRefSs D ss) : SoundSs Q (cxU N) D ss ss' D := by
  induction h with
  | nil => exact SoundSs.nil
  | @cons s repl ss ss' hA hshort hrefs _ ih =>
    have h2 := NoRefSs.cons.mp hn
    refine replA_sound hA hshort (fun s' hs' => HeapU.reflS hq s' D fun x hx => ?_) (ih h2.2)
    have := hrefs x (h2.1 x hx)
    rcases hshort with rfl | ⟨s0, rfl⟩
    · cases hs'
    · simp only [List.mem_singleton] at hs'; subst hs'
      simpa [Stmt.refsList] using this

/-- a block hook that replaces statements one by one is an open-block link -/
theorem vkBo_repl {ss ss' : List Stmt} {last : Option Last} (h : ReplList N ss ss') :
    (VkBo (cxU N)) (.mk ss last) (.mk ss' last) := by
  intro D _ hn
  cases last with
  | none =>
    have h1 := NoRefB.none.mp hn
    exact ⟨.genB fun _ hq => SoundB.none (h.sound hq h1), NoRefB.none.mpr (h.noRef h1)⟩
  | some l =>
    have h1 := NoRefB.some.mp hn
    exact ⟨.genB fun _ hq => SoundB.some (h.sound hq h1.1) (HeapU.reflL hq l D h1.2),
      NoRefB.some.mpr ⟨h.noRef h1.1, h1.2⟩⟩

end DarkluaModel.Rules.AtNU
