import DarkluaModel.Rules.LuauCommon
/-!
# `remove_compound_assignment` (`src/rules/remove_compound_assign.rs`)

`Processor::process_statement` replaces every `target op= value` by `target = target op value`;
when the target is `prefix.field` / `prefix[key]` with a prefix or key that is not an identifier
or a literal, the prefix / key are first stored in fresh locals
(`IdentifierTracker::generate_identifier_with_prefix("__DARKLUA_VAR")`) inside a `do … end`.
Applied with `ScopeVisitor`, the processor state is the `IdentifierTracker`.
(`remove_comments` / `remove_spaces` on the copied target only touch tokens: invisible here.)
-/
namespace DarkluaModel.Rules.RemoveCompoundAssign
open DarkluaModel.Rules

/-- the `matches!(parenthese.inner_expression(), False | Identifier | Number | Nil | String | True | VariableArguments)` test -/
def isSimpleInner : Expr → Bool
  | .false | .var _ | .num _ | .nil | .str _ | .true | .vararg => true
  | _ => false

/-- does the prefix of an index/field target need a temporary? -/
def prefixNeedsVar : Expr → Bool
  | .var _ => false
  | .paren inner => !isSimpleInner inner
  | _ => true

/-- does the key of an index target need a temporary? (an interpolated string does, since the fix of
finding F29: it used to be in the "no" list, and its value segments were evaluated twice) -/
def indexNeedsVar : Expr → Bool
  | .false | .var _ | .num _ | .nil | .str _ | .true | .vararg => false
  | .paren inner => !isSimpleInner inner
  | _ => true

/-- `simplify_prefix(p).unwrap_or_else(|| p.clone())` -/
def simplifyPrefix : Expr → Expr
  | .paren (.var x) => .var x
  | p => p

/-- `remove_parentheses` -/
def removeParens : Expr → Expr
  | .paren e => e
  | e => e

/-- `create_new_assignment_with_variable(assignment, variable, Some(variable))` -/
def newAssign (op : BinOp) (target value : Expr) : Stmt :=
  .assign [target] [.bin op target value]

def localOf (names : List String) (values : List Expr) : Stmt :=
  .localAssign .loc (names.map fun n => .mk n none) values

/-- `create_do_assignment` -/
def doAssign (op : BinOp) (assign : Stmt) (target value : Expr) : Stmt :=
  .doBlock (.mk [assign, newAssign op target value] none)

def varPrefix : String := "__DARKLUA_VAR"

/-- `replace_with(..).unwrap_or_else(|| create_new_assignment(assignment, variable))` -/
def replaceCompound (op : BinOp) (target value : Expr) (t : Tracker) : Stmt × Tracker :=
  match target with
  | .index p k =>
    -- both temporaries are generated before anything else: prefix first, then key
    let (pv, t1) : Option String × Tracker :=
      if prefixNeedsVar p then let (n, t') := t.generateWithPrefix varPrefix; (some n, t') else (none, t)
    let (iv, t2) : Option String × Tracker :=
      if indexNeedsVar k then let (n, t') := t1.generateWithPrefix varPrefix; (some n, t') else (none, t1)
    match pv, iv with
    | none, none =>
      (newAssign op (.index (simplifyPrefix p) (removeParens k)) value, t2)
    | none, some i =>
      (doAssign op (localOf [i] [removeParens k]) (.index (simplifyPrefix p) (.var i)) value, t2)
    | some pn, none =>
      (doAssign op (localOf [pn] [removeParens p]) (.index (.var pn) k) value, t2)
    | some pn, some i =>
      (doAssign op (localOf [pn, i] [removeParens p, removeParens k]) (.index (.var pn) (.var i)) value, t2)
  | .field p name =>
    match p with
    | .var _ => (newAssign op target value, t)
    | .paren inner =>
      if isSimpleInner inner then
        let newPrefix := match inner with
          | .var x => Expr.var x
          | _ => p
        (newAssign op (.field newPrefix name) value, t)
      else
        let (n, t1) := t.generateWithPrefix varPrefix
        (doAssign op (localOf [n] [inner]) (.field (.var n) name) value, t1)
    | _ =>
      let (n, t1) := t.generateWithPrefix varPrefix
      (doAssign op (localOf [n] [p]) (.field (.var n) name) value, t1)
  | _ => (newAssign op target value, t)

/-- `NodeProcessor::process_statement` -/
def processStatement : Stmt → Tracker → Stmt × Tracker
  | .cassign op target value, t => replaceCompound op target value t
  | s, t => (s, t)

/-- the processor: `process_statement` + the `Scope` implementation of `IdentifierTracker` -/
def processor : Processor Tracker where
  stmt := processStatement
  push := Tracker.push
  pop := Tracker.pop
  insert := fun n t => (n, t.insertIdentifier n)
  insertSelf := fun t => t.insertIdentifier "self"
  insertLocal := fun n e t => ((n, e), t.insertIdentifier n)
  insertLocalFn := fun n t => (n, t.insertIdentifier n)

/-- `flawless_process`: `ScopeVisitor::visit_block` with a fresh processor -/
def apply (b : Block) : Block := (Visitor.runScoped processor b Tracker.new).1

/-- `RemoveCompoundAssignment::replace_compound_assignment` (used by `remove_floor_division`):
`ScopeVisitor::visit_statement` on ONE statement with a processor that takes over the CALLER's
identifier tracker and hands it back afterwards. -/
def replaceCompoundAssignment (s : Stmt) (t : Tracker) : Stmt × Tracker :=
  Visitor.visitStmt processor true (8 * s.size + 64) s t

end DarkluaModel.Rules.RemoveCompoundAssign
