import DarkluaModel.Shared.Visitor
/-!
# `remove_spaces`, `remove_comments` (`src/rules/remove_spaces.rs`, `remove_comments.rs`)

Both rules only clear token trivia (`clear_whitespaces`, `clear_comments` / `filter_comments`).
The semantic AST has no trivia, so on it they are the identity; that the real rules leave the
token-free tree unchanged is exactly what the correspondence checks on every program.
-/
namespace DarkluaModel.Rules.Trivia

def removeSpaces (b : Block) : Block := b
def removeComments (b : Block) : Block := b

end DarkluaModel.Rules.Trivia
