import DarkluaModel.Rules.LuauCommon
/-!
# `remove_types` (`src/rules/remove_types.rs`)

With `DefaultVisitor`: `process_block` drops `type` declarations and type functions; the
statement / function hooks clear annotations (`clear_types`: parameter types, variadic type,
return type, generic parameters); `process_expression` unwraps type casts and type
instantiations (parenthesising what may return several values); `process_prefix_expression`
unwraps type instantiations in prefix position; `process_function_call` drops the type
instantiation of a method call (not representable in the shared AST: nothing to do here).
-/
namespace DarkluaModel.Rules.RemoveTypes
open DarkluaModel.Rules

def isTypeStmt : Stmt → Bool
  | .typeDecl .. | .typeFn .. => true
  | _ => false

/-- `process_block`: `filter_statements` -/
def processBlock : Block → Block
  | .mk stmts last => .mk (stmts.filter fun s => !isTypeStmt s) last

def clearTName : TName → TName
  | .mk n _ => .mk n none

/-- `clear_types` of the three function nodes -/
def clearFn : FnBody → FnBody
  | .mk params variadic _ _ _ attrs body => .mk (params.map clearTName) variadic none none [] attrs body

/-- the kind-specific statement hooks -/
def stmtNode : Stmt → Stmt
  | .localAssign k names values => .localAssign k (names.map clearTName) values
  | .nfor name a b step body => .nfor (clearTName name) a b step body
  | .gfor names values body => .gfor (names.map clearTName) values body
  | .function name m body => .function name m (clearFn body)
  | .localFn k name body => .localFn k name (clearFn body)
  | st => st

/-- `process_function_expression` (and `process_function_call`, a no-op here) -/
def node : Expr → Expr
  | .fn body => .fn (clearFn body)
  | e => e

/-- the `loop` of `process_expression` -/
def processExpression : Expr → Expr
  | .cast e _ => if canReturnMultipleSyn e then .paren e else processExpression e
  | .inst p _ => if canReturnMultipleSyn p then .paren p else processExpression p
  | e => e

/-- the `while let` of `process_prefix_expression` -/
def processPrefix : Expr → Expr
  | .inst p _ => processPrefix p
  | e => e

def processor : Processor Unit where
  block := fun b s => (processBlock b, s)
  stmtNode := fun st s => (stmtNode st, s)
  node := fun e s => (node e, s)
  expr := fun e s => (processExpression e, s)
  pref := fun e s => (processPrefix e, s)

def apply (b : Block) : Block := (Visitor.runDefault processor b ()).1

end DarkluaModel.Rules.RemoveTypes
