import DarkluaModel.Rules.EvalC08Sound
/-!
# The real evaluator on the expressions whose evaluation cannot fail

The whole-rule theorems "same outcome unless the original exhausts its budget" need more than C08's theorems
(which are about error-free evaluations): an expression the rules drop must EVALUATE — a "pure" expression that
raises (`-nil`) or allocates (`{}`) is not dropped for free. `tot E e` is a syntactic-plus-evaluator check under
which the evaluation of `e` provably succeeds, with one value, in the state it started from, in every context:
literals, parentheses, casts, `not`, `and`/`or` along the decided side, (in)equality of definite primitive
values, arithmetic / unary minus on (evaluator-)numbers, concatenation and `#` on strings, comparisons of two
numbers or two strings. (No string→number coercion, no number formatting: those need more than `C08.Agree`.)

`gApi N E` is `c08Api N E` restricted to `h8 ∧ tot`: outside, it answers "unknown / has side effects". It meets the
total contracts (`EvalTotal`, `StrSound`-style) at every `N` with `C08.Agree N E`; a rule run with `gApi` is the
GUARDED rule, and the rule itself is covered on every program on which the two runs agree (decidable).
-/
namespace DarkluaModel.Rules
open DarkluaModel.Evaluator DarkluaModel.Sem

variable {N : NumOps}

def isNum : LuaValue N → Bool | .number _ => true | _ => false
def isStr : LuaValue N → Bool | .string _ => true | _ => false
def isPrim : LuaValue N → Bool
  | .nil | .true_ | .false_ | .number _ | .string _ => true
  | _ => false

/-- the evaluation of `e` cannot fail, allocates nothing and calls nothing -/
def tot (E : EvalOps N) : Expr → Bool
  | .nil | .true | .false | .num _ | .str _ => true
  | .paren e => tot E e
  | .cast e _ => tot E e
  | .un .not e => tot E e
  | .un .neg e => tot E e && isNum (evaluate E e)
  | .un .len e => tot E e && isStr (evaluate E e)
  | .bin .and l r =>
    tot E l && (match (evaluate E l).isTruthy with | some true => tot E r | some false => true | none => false)
  | .bin .or l r =>
    tot E l && (match (evaluate E l).isTruthy with | some true => true | some false => tot E r | none => false)
  | .bin .eq l r | .bin .ne l r => tot E l && tot E r && isPrim (evaluate E l) && isPrim (evaluate E r)
  | .bin .add l r | .bin .sub l r | .bin .mul l r | .bin .div l r | .bin .mod l r | .bin .pow l r | .bin .idiv l r =>
    tot E l && tot E r && isNum (evaluate E l) && isNum (evaluate E r)
  | .bin .concat l r => tot E l && tot E r && isStr (evaluate E l) && isStr (evaluate E r)
  | .bin .lt l r | .bin .le l r | .bin .gt l r | .bin .ge l r =>
    tot E l && tot E r &&
      ((isNum (evaluate E l) && isNum (evaluate E r)) || (isStr (evaluate E l) && isStr (evaluate E r)))
  | _ => false

theorem isNum_toVal {v : LuaValue N} (h : isNum v = true) : ∃ x, C08.toVal? v = some (.num x) := by
  cases v <;> simp [isNum] at h; exact ⟨_, rfl⟩
theorem isStr_toVal {v : LuaValue N} (h : isStr v = true) : ∃ s, C08.toVal? v = some (.str s) := by
  cases v <;> simp [isStr] at h; exact ⟨_, rfl⟩
theorem isPrim_toVal {v : LuaValue N} (h : isPrim v = true) :
    ∃ w, C08.toVal? v = some w ∧ ∀ t, w ≠ .tbl t := by
  cases v <;> simp [isPrim] at h <;> exact ⟨_, rfl, fun _ h => by cases h⟩

/-- `==` / `~=` on a left operand that is not a table: no metamethod, no error -/
theorem binopVal_eq_nontbl (call : CallFn N) (ρ : ExtOracle N) (k : Nat) (a b : Val N) (σ : State N)
    (h : ∀ t, a ≠ .tbl t) (op : BinOp) (hop : op = .eq ∨ op = .ne) : ∃ v, binopVal call ρ k op a b σ = .ok v σ := by
  rcases hop with rfl | rfl <;> cases a <;> first | exact absurd rfl (h _) | exact ⟨_, rfl⟩

section
variable {E : EvalOps N} (A : C08.Agree N E) (call : CallFn N) (ρ : ExtOracle N) (k : Nat) (env : Env N)
include A

/-- the value of an expression the evaluator knows, from one successful evaluation -/
theorem val_of_ok {e : Expr} {σ σ' : State N} {v w : Val N} (h8 : C08.h8 E e = true)
    (hw : C08.toVal? (evaluate E e) = some w) (h : evalE call ρ k env e σ = .ok [v] σ') : v = w := by
  have := C08.evaluate_sound_partial A call ρ k env e σ σ' [v] w h8 hw h
  injection this

/-- **totality**: inside `H8`, a `tot` expression evaluates — in every context — to one value, leaving the state
as it was -/
theorem tot_total : ∀ (e : Expr), C08.h8 E e = true → tot E e = true →
    ∀ (σ : State N), ∃ v, evalE call ρ k env e σ = .ok [v] σ
  | .nil, _, _, σ => ⟨_, by simp [evalE] <;> rfl⟩
  | .true, _, _, σ => ⟨_, by simp [evalE] <;> rfl⟩
  | .false, _, _, σ => ⟨_, by simp [evalE] <;> rfl⟩
  | .num _, _, _, σ => ⟨_, by simp [evalE] <;> rfl⟩
  | .str _, _, _, σ => ⟨_, by simp [evalE] <;> rfl⟩
  | .paren e, h8, ht, σ => by
    obtain ⟨v, hv⟩ := tot_total e (by simpa [C08.h8] using h8) (by simpa [tot] using ht) σ
    exact ⟨v, by simp [evalE, hv, Res.bind, first]⟩
  | .cast e _, h8, ht, σ => by
    obtain ⟨v, hv⟩ := tot_total e (by simpa [C08.h8] using h8) (by simpa [tot] using ht) σ
    exact ⟨v, by simp [evalE, hv, Res.bind, first]⟩
  | .un op e, h8, ht, σ => by
    have h8e : C08.h8 E e = true := by simpa [C08.h8] using h8
    cases op with
    | not =>
      obtain ⟨v, hv⟩ := tot_total e h8e (by simpa [tot] using ht) σ
      exact ⟨_, by simp [evalE, hv, Res.bind, first, unopVal] <;> rfl⟩
    | neg =>
      simp only [tot, Bool.and_eq_true] at ht
      obtain ⟨v, hv⟩ := tot_total e h8e ht.1 σ
      obtain ⟨x, hx⟩ := isNum_toVal ht.2
      have := val_of_ok A call ρ k env h8e hx hv
      subst this
      exact ⟨_, by simp [evalE, hv, Res.bind, first, unopVal, toNumber?] <;> rfl⟩
    | len =>
      simp only [tot, Bool.and_eq_true] at ht
      obtain ⟨v, hv⟩ := tot_total e h8e ht.1 σ
      obtain ⟨x, hx⟩ := isStr_toVal ht.2
      have := val_of_ok A call ρ k env h8e hx hv
      subst this
      exact ⟨_, by simp [evalE, hv, Res.bind, first, unopVal] <;> rfl⟩
  | .bin op l r, h8, ht, σ => by
    have h8l : C08.h8 E l = true := by
      simp only [C08.h8, Bool.and_eq_true] at h8; exact h8.1.1
    have h8r : C08.h8 E r = true := by
      simp only [C08.h8, Bool.and_eq_true] at h8; exact h8.1.2
    have arith : ∀ (op : BinOp), (op = .add ∨ op = .sub ∨ op = .mul ∨ op = .div ∨ op = .mod ∨ op = .pow ∨ op = .idiv) →
        tot E l = true → tot E r = true → isNum (evaluate E l) = true → isNum (evaluate E r) = true →
        ∃ v, evalE call ρ k env (.bin op l r) σ = .ok [v] σ := by
      intro op hop tl tr nl nr
      obtain ⟨a, ha⟩ := tot_total l h8l tl σ
      obtain ⟨b, hb⟩ := tot_total r h8r tr σ
      obtain ⟨x, hx⟩ := isNum_toVal nl
      obtain ⟨y, hy⟩ := isNum_toVal nr
      have := val_of_ok A call ρ k env h8l hx ha
      subst this
      have := val_of_ok A call ρ k env h8r hy hb
      subst this
      rcases hop with rfl | rfl | rfl | rfl | rfl | rfl | rfl <;>
        exact ⟨_, by simp [evalE, ha, hb, Res.bind, first, binopVal, toNumber?] <;> rfl⟩
    have rel : ∀ (op : BinOp), (op = .lt ∨ op = .le ∨ op = .gt ∨ op = .ge) →
        tot E l = true → tot E r = true →
        ((isNum (evaluate E l) = true ∧ isNum (evaluate E r) = true) ∨
          (isStr (evaluate E l) = true ∧ isStr (evaluate E r) = true)) →
        ∃ v, evalE call ρ k env (.bin op l r) σ = .ok [v] σ := by
      intro op hop tl tr hk
      obtain ⟨a, ha⟩ := tot_total l h8l tl σ
      obtain ⟨b, hb⟩ := tot_total r h8r tr σ
      rcases hk with ⟨nl, nr⟩ | ⟨sl, sr⟩
      · obtain ⟨x, hx⟩ := isNum_toVal nl
        obtain ⟨y, hy⟩ := isNum_toVal nr
        have := val_of_ok A call ρ k env h8l hx ha
        subst this
        have := val_of_ok A call ρ k env h8r hy hb
        subst this
        rcases hop with rfl | rfl | rfl | rfl <;>
          exact ⟨_, by simp [evalE, ha, hb, Res.bind, first, binopVal] <;> rfl⟩
      · obtain ⟨x, hx⟩ := isStr_toVal sl
        obtain ⟨y, hy⟩ := isStr_toVal sr
        have := val_of_ok A call ρ k env h8l hx ha
        subst this
        have := val_of_ok A call ρ k env h8r hy hb
        subst this
        rcases hop with rfl | rfl | rfl | rfl <;>
          exact ⟨_, by simp [evalE, ha, hb, Res.bind, first, binopVal] <;> rfl⟩
    have eqne : ∀ (op : BinOp), (op = .eq ∨ op = .ne) →
        tot E l = true → tot E r = true → isPrim (evaluate E l) = true → isPrim (evaluate E r) = true →
        ∃ v, evalE call ρ k env (.bin op l r) σ = .ok [v] σ := by
      intro op hop tl tr pl pr
      obtain ⟨a, ha⟩ := tot_total l h8l tl σ
      obtain ⟨b, hb⟩ := tot_total r h8r tr σ
      obtain ⟨x, hx, hxt⟩ := isPrim_toVal pl
      have := val_of_ok A call ρ k env h8l hx ha
      subst this
      obtain ⟨v, hv⟩ := binopVal_eq_nontbl call ρ k a b σ hxt op hop
      refine ⟨v, ?_⟩
      rcases hop with rfl | rfl <;> simp only [evalE, ha, hb, Res.bind, first, List.headD, hv]
    cases op with
    | and =>
      simp only [tot, Bool.and_eq_true] at ht
      obtain ⟨a, ha⟩ := tot_total l h8l ht.1 σ
      cases htr : (evaluate E l).isTruthy with
      | none => rw [htr] at ht; simp at ht
      | some b =>
        have hb := C08.truthy_sound A call ρ k env l σ σ [a] b h8l htr ha
        simp only [first, List.headD] at hb
        cases b with
        | true =>
          rw [htr] at ht
          obtain ⟨c, hc⟩ := tot_total r h8r ht.2 σ
          exact ⟨c, by simp [evalE, ha, hc, Res.bind, hb, first]⟩
        | false => exact ⟨a, by simp [evalE, ha, Res.bind, hb, first]⟩
    | or =>
      simp only [tot, Bool.and_eq_true] at ht
      obtain ⟨a, ha⟩ := tot_total l h8l ht.1 σ
      cases htr : (evaluate E l).isTruthy with
      | none => rw [htr] at ht; simp at ht
      | some b =>
        have hb := C08.truthy_sound A call ρ k env l σ σ [a] b h8l htr ha
        simp only [first, List.headD] at hb
        cases b with
        | true => exact ⟨a, by simp [evalE, ha, Res.bind, hb, first]⟩
        | false =>
          rw [htr] at ht
          obtain ⟨c, hc⟩ := tot_total r h8r ht.2 σ
          exact ⟨c, by simp [evalE, ha, hc, Res.bind, hb, first]⟩
    | eq => simp only [tot, Bool.and_eq_true] at ht; exact eqne _ (.inl rfl) ht.1.1.1 ht.1.1.2 ht.1.2 ht.2
    | ne => simp only [tot, Bool.and_eq_true] at ht; exact eqne _ (.inr rfl) ht.1.1.1 ht.1.1.2 ht.1.2 ht.2
    | add => simp only [tot, Bool.and_eq_true] at ht; exact arith _ (by simp) ht.1.1.1 ht.1.1.2 ht.1.2 ht.2
    | sub => simp only [tot, Bool.and_eq_true] at ht; exact arith _ (by simp) ht.1.1.1 ht.1.1.2 ht.1.2 ht.2
    | mul => simp only [tot, Bool.and_eq_true] at ht; exact arith _ (by simp) ht.1.1.1 ht.1.1.2 ht.1.2 ht.2
    | div => simp only [tot, Bool.and_eq_true] at ht; exact arith _ (by simp) ht.1.1.1 ht.1.1.2 ht.1.2 ht.2
    | mod => simp only [tot, Bool.and_eq_true] at ht; exact arith _ (by simp) ht.1.1.1 ht.1.1.2 ht.1.2 ht.2
    | pow => simp only [tot, Bool.and_eq_true] at ht; exact arith _ (by simp) ht.1.1.1 ht.1.1.2 ht.1.2 ht.2
    | idiv => simp only [tot, Bool.and_eq_true] at ht; exact arith _ (by simp) ht.1.1.1 ht.1.1.2 ht.1.2 ht.2
    | concat =>
      simp only [tot, Bool.and_eq_true] at ht
      obtain ⟨a, ha⟩ := tot_total l h8l ht.1.1.1 σ
      obtain ⟨b, hb⟩ := tot_total r h8r ht.1.1.2 σ
      obtain ⟨x, hx⟩ := isStr_toVal ht.1.2
      obtain ⟨y, hy⟩ := isStr_toVal ht.2
      have := val_of_ok A call ρ k env h8l hx ha
      subst this
      have := val_of_ok A call ρ k env h8r hy hb
      subst this
      exact ⟨_, by simp [evalE, ha, hb, Res.bind, first, binopVal, toStringPrim?] <;> rfl⟩
    | lt =>
      simp only [tot, Bool.and_eq_true, Bool.or_eq_true] at ht; exact rel _ (by simp) ht.1.1 ht.1.2 ht.2
    | le =>
      simp only [tot, Bool.and_eq_true, Bool.or_eq_true] at ht; exact rel _ (by simp) ht.1.1 ht.1.2 ht.2
    | gt =>
      simp only [tot, Bool.and_eq_true, Bool.or_eq_true] at ht; exact rel _ (by simp) ht.1.1 ht.1.2 ht.2
    | ge =>
      simp only [tot, Bool.and_eq_true, Bool.or_eq_true] at ht; exact rel _ (by simp) ht.1.1 ht.1.2 ht.2
  | .vararg, _, ht, _ | .var _, _, ht, _ | .call _ _ _ _, _, ht, _ | .field _ _, _, ht, _ | .index _ _, _, ht, _
  | .fn _, _, ht, _ | .table _, _, ht, _ | .ifx _ _ _ _, _, ht, _ | .interp _, _, ht, _ | .inst _ _, _, ht, _ => by
    simp [tot] at ht

end

/-! ## the guarded evaluator -/

/-- inside C08's proved region, and total -/
def guard (E : EvalOps N) (e : Expr) : Bool := C08.h8 E e && tot E e

/-- `c08Api N E` restricted to `guard`: outside, nothing is known and everything may have side effects. Numbers are
not folded (`to_expression` of a number needs round-trip laws of the number system that `C08.Agree` does not give). -/
def gApi (N : NumOps) (E : EvalOps N) : EvalApi where
  kind e := if guard E e then (c08Api N E).kind e else .unknown
  toExpr e := if guard E e && !isNum (evaluate E e) then (c08Api N E).toExpr e else none
  hasSideEffects e := !guard E e || (c08Api N E).hasSideEffects e
  canReturnMultiple := (c08Api N E).canReturnMultiple

theorem gApi_isTruthy {E : EvalOps N} {e : Expr} {b : Bool} (h : (gApi N E).isTruthy e = some b) :
    guard E e = true ∧ (evaluate E e).isTruthy = some b := by
  simp only [EvalApi.isTruthy, gApi] at h
  by_cases hg : guard E e = true
  · simp only [hg, if_true, c08Api, kindOf_isTruthy] at h; exact ⟨hg, h⟩
  · simp [hg, LuaKind.isTruthy] at h

theorem gApi_total {E : EvalOps N} (A : C08.Agree N E) : EvalTotal N (gApi N E) where
  decided e b hb call ρ k env σ σ' vs h := by
    obtain ⟨hg, ht⟩ := gApi_isTruthy hb
    simp only [guard, Bool.and_eq_true] at hg
    exact C08.truthy_sound A call ρ k env e σ σ' vs b hg.1 ht h
  pureTotal e b hb _ call ρ k env σ := by
    obtain ⟨hg, _⟩ := gApi_isTruthy hb
    simp only [guard, Bool.and_eq_true] at hg
    obtain ⟨v, hv⟩ := tot_total A call ρ k env e hg.1 hg.2 σ
    exact .inr ⟨[v], hv⟩
  single e hm call ρ k env σ σ' vs h := by
    have hl := C08.single_sound call ρ k env e σ σ' vs hm h
    match vs, hl with
    | [v], _ => rfl

/-- a decided string value is the value -/
theorem gApi_str {E : EvalOps N} (A : C08.Agree N E) (e : Expr) (s : List UInt8) (hk : (gApi N E).kind e = .string s)
    (call : CallFn N) (ρ : ExtOracle N) (k : Nat) (env : Env N) (σ σ' : State N) (vs : List (Val N))
    (h : evalE call ρ k env e σ = .ok vs σ') : first vs = .str s := by
  simp only [gApi] at hk
  by_cases hg : guard E e = true
  · simp only [hg, if_true] at hk
    simp only [guard, Bool.and_eq_true] at hg
    exact (c08_sound A).str e s hg.1 hk call ρ k env σ σ' vs h
  · simp [hg] at hk

end DarkluaModel.Rules
