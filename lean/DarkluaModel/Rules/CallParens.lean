import DarkluaModel.Shared.Visitor
import DarkluaModel.Shared.Run
/-!
# `remove_function_call_parens` (`src/rules/call_parens.rs`)

`Processor::process_function_call`: a call whose arguments are a tuple of exactly one string
or table expression gets `Arguments::String` / `Arguments::Table` instead. On the semantic AST
this only changes the `ArgKind`. One `DefaultVisitor` pass.
-/
namespace DarkluaModel.Rules.CallParens

def processCall : Expr → Expr
  | .call f m .tuple [.str s] => .call f m .str [.str s]
  | .call f m .tuple [.table es] => .call f m .tbl [.table es]
  | e => e

def processor : Processor Unit := { node := fun e u => (processCall e, u) }

/-- `flawless_process` -/
def apply (b : Block) : Block := (Visitor.runDefault processor b ()).1

/-! ### local soundness (exact): the way the arguments were written is not observable -/
open Sem

theorem evalE_kind {N : NumOps} (call : CallFn N) (ρ : ExtOracle N) (k : Nat) (env : Env N)
    (f : Expr) (m : Option String) (k1 k2 : ArgKind) (args : List Expr) (σ : State N) :
    evalE call ρ k env (.call f m k1 args) σ = evalE call ρ k env (.call f m k2 args) σ := by
  cases m <;> simp [evalE]

theorem processCall_sound {N : NumOps} (call : CallFn N) (ρ : ExtOracle N) (k : Nat) (env : Env N)
    (e : Expr) (σ : State N) :
    evalE call ρ k env (processCall e) σ = evalE call ρ k env e σ := by
  unfold processCall
  split
  · exact evalE_kind ..
  · exact evalE_kind ..
  · rfl

end DarkluaModel.Rules.CallParens
