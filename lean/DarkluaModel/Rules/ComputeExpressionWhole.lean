import DarkluaModel.Rules.ComputeExpressionSound
import DarkluaModel.Shared.VisitorSound
import DarkluaModel.Rules.AtN
/-!
# `compute_expression` — whole rule on the F5-free fragment, up to budget exhaustion

`processExprG` is `process_expression` except that an expression whose rewrite would be MULTI-valued (a call
or `...` taking the place of an `and`/`or`: finding F5) is left alone. Under the evaluator contracts
`EvalTotal` and `FoldTotal` (`evaluate(e).to_expression()` of a side-effect-free `e` has the denotation of `e`,
unless the budget runs out) the guarded hook is exact up to budget exhaustion (`LeE true`), so the generic
lifting theorem gives the whole-rule statement for every program; the rule itself is covered on every program
on which it agrees with the guarded version (no F5 rewrite happens).
-/
namespace DarkluaModel.Rules.ComputeExpression.Whole
open DarkluaModel.Sem DarkluaModel.Rules DarkluaModel.Rules.ComputeExpression DarkluaModel.Rules.AtN

/-- `to_expression` of a side-effect-free expression: same denotation, unless the budget runs out -/
def FoldTotal (N : NumOps) (api : EvalApi) : Prop :=
  ∀ (e v : Expr), api.toExpr e = some v → api.hasSideEffects e = false →
    ∀ (call : CallFn N) (ρ : ExtOracle N) (k : Nat) (env : Env N) (σ : State N),
      evalE call ρ k env e σ = .timeout ∨ evalE call ρ k env v σ = evalE call ρ k env e σ

theorem litApi_foldTotal (N : NumOps) : FoldTotal N litApi := by
  intro e v ht _ call ρ k env σ
  right
  cases e <;> simp [litApi] at ht <;> (subst ht; rfl)

/-- every successful evaluation yields exactly one value -/
def Single (e : Expr) : Prop :=
  ∀ (N : NumOps) (call : CallFn N) (ρ : ExtOracle N) (k : Nat) (env : Env N) (σ σ' : State N) (ws : List (Val N)),
    evalE call ρ k env e σ = .ok ws σ' → ws = [first ws]

theorem single_of_not_multi : ∀ (e : Expr), multi e = false → Single e
  | .inst x t, _ => fun N call ρ k env σ σ' ws h => by
    simp only [evalE] at h
    cases hx : evalE call ρ k env x σ <;> simp [hx, Res.bind] at h
    rw [← h.1]; simp [first]
  | .nil, h | .true, h | .false, h | .num _, h | .str _, h | .var _, h | .paren _, h | .un _ _, h | .bin _ _ _, h
  | .field _ _, h | .index _ _, h | .fn _, h | .table _, h | .ifx _ _ _ _, h | .interp _, h | .cast _ _, h =>
    fun N call ρ k env σ σ' ws hr => Sound.notMulti_single call ρ k env _ h trivial σ σ' ws hr
  | .vararg, h | .call _ _ _ _, h => by simp [multi] at h

theorem leE_trans {a b c : Expr} (h1 : LeE true a b) (h2 : LeE true b c) : LeE true a c := by
  intro N call ρ k env σ
  rcases h1 N call ρ k env σ with ⟨_, h⟩ | h
  · exact .inl ⟨rfl, h⟩
  · rcases h2 N call ρ k env σ with ⟨_, h'⟩ | h'
    · exact .inl ⟨rfl, by rw [← h]; exact h'⟩
    · exact .inr (h'.trans h)

variable {api : EvalApi}

/-- selecting the operand that is the result of an `and`/`or` whose left side is decided and pure -/
theorem select_le {N : NumOps} (ht : EvalTotal N api) (op : BinOp) (l r : Expr) (b : Bool) (hop : op = .and ∨ op = .or)
    (htl : api.isTruthy l = some b) (hse : api.hasSideEffects l = false)
    (x : Expr) (hx : x = if (op = .and) = b then r else l) (hs : Single x) :
    LeEAt N (.bin op l r) x := by
  intro call ρ k env σ
  rcases ht.pureTotal l b htl hse call ρ k env σ with hto | ⟨ls, hok⟩
  · left
    rcases hop with rfl | rfl <;> simp [evalE, hto, Res.bind]
  · have htr := ht.decided l b htl call ρ k env σ σ ls hok
    right
    have one : ∀ (y : Expr), Single y → (evalE call ρ k env y σ).bind (fun ws s => Res.ok [first ws] s) = evalE call ρ k env y σ := by
      intro y hy
      cases hr : evalE call ρ k env y σ with
      | timeout => rfl
      | err v s => rfl
      | ok ws s => exact (congrArg (fun w => Res.ok w s) (hy N call ρ k env σ s ws hr)).symm
    have lself : Single l → Res.ok [first ls] σ = evalE call ρ k env l σ := fun hl => by
      rw [hok]; exact (congrArg (fun w => Res.ok w σ) (hl N call ρ k env σ σ ls hok)).symm
    rcases hop with rfl | rfl <;> cases b <;> simp at hx <;> subst hx <;>
      simp only [evalE, hok, Res.bind, htr, Bool.false_eq_true, if_false, if_true]
    · exact congrArg (fun w => Res.ok w σ) (hs N call ρ k env σ σ ls hok)
    · exact (one _ hs).symm
    · exact (one _ hs).symm
    · exact congrArg (fun w => Res.ok w σ) (hs N call ρ k env σ σ ls hok)

theorem fold_le {N : NumOps} (hf : FoldTotal N api) (e v : Expr) (hte : api.toExpr e = some v)
    (hse : api.hasSideEffects e = false) : LeEAt N e v :=
  fun call ρ k env σ => hf e v hte hse call ρ k env σ

theorem leE_of_at {a b : Expr} (h : ∀ N, LeEAt N a b) : LeE true a b := fun N call ρ k env σ =>
  (h N call ρ k env σ).elim (fun h => .inl ⟨rfl, h⟩) .inr

/-- coherence of the side-effect analysis on `and`/`or`: no side effects as a whole ⇒ none in the left operand
(true of `Evaluator::has_side_effects` by its definition; `compute_expression` relies on it) -/
def AndOrCoherent (api : EvalApi) : Prop :=
  ∀ (op : BinOp) (l r : Expr), op = .and ∨ op = .or → api.hasSideEffects (.bin op l r) = false →
    api.hasSideEffects l = false

theorem litApi_coherent : AndOrCoherent litApi := fun op l r _ h => by simp [litApi] at h

/-- the rule's rewrite is exact up to budget exhaustion whenever its result is single-valued -/
theorem processExpr_le {N : NumOps} (ht : EvalTotal N api) (hf : FoldTotal N api) (hco : AndOrCoherent api) :
    ∀ (e : Expr), multi (processExpr api e) = false → LeEAt N e (processExpr api e)
  | .un op x, _ => by
    by_cases hse : api.hasSideEffects (.un op x) = true
    · simp only [processExpr, hse, Bool.not_true, Bool.false_eq_true, if_false]; exact LeEAt.refl _
    · have hse' : api.hasSideEffects (.un op x) = false := by simpa using hse
      cases hte : api.toExpr (.un op x) with
      | none => simp only [processExpr, hse', hte, Bool.not_false, if_true, Option.getD]; exact LeEAt.refl _
      | some v => simp only [processExpr, hse', hte, Bool.not_false, if_true, Option.getD]; exact fold_le hf _ v hte hse'
  | .ifx c t elifs el, _ => by
    by_cases hse : api.hasSideEffects (.ifx c t elifs el) = true
    · simp only [processExpr, hse, Bool.not_true, Bool.false_eq_true, if_false]; exact LeEAt.refl _
    · have hse' : api.hasSideEffects (.ifx c t elifs el) = false := by simpa using hse
      cases hte : api.toExpr (.ifx c t elifs el) with
      | none => simp only [processExpr, hse', hte, Bool.not_false, if_true, Option.getD]; exact LeEAt.refl _
      | some v => simp only [processExpr, hse', hte, Bool.not_false, if_true, Option.getD]; exact fold_le hf _ v hte hse'
  | .bin op l r, hm => by
    by_cases hop : op = .and ∨ op = .or
    · by_cases hse : api.hasSideEffects (.bin op l r) = true
      · by_cases hsel : api.hasSideEffects l = true
        · rcases hop with rfl | rfl <;> simp only [processExpr, hse, hsel, Bool.not_true, Bool.false_eq_true, if_false] <;>
            exact LeEAt.refl _
        · have hsel' : api.hasSideEffects l = false := by simpa using hsel
          cases htl : api.isTruthy l with
          | none =>
            rcases hop with rfl | rfl <;>
              simp only [processExpr, hse, hsel', htl, Bool.not_true, Bool.not_false, Bool.false_eq_true, if_false, if_true] <;>
              exact LeEAt.refl _
          | some b =>
            rcases hop with rfl | rfl <;> cases b <;>
              simp only [processExpr, hse, hsel', htl, Bool.not_true, Bool.not_false, Bool.false_eq_true, if_false,
                if_true] at hm ⊢
            · exact select_le ht .and l r false (.inl rfl) htl hsel' l (by simp) (single_of_not_multi _ hm)
            · exact select_le ht .and l r true (.inl rfl) htl hsel' r (by simp) (single_of_not_multi _ hm)
            · exact select_le ht .or l r false (.inr rfl) htl hsel' r (by simp) (single_of_not_multi _ hm)
            · exact select_le ht .or l r true (.inr rfl) htl hsel' l (by simp) (single_of_not_multi _ hm)
      · have hse' : api.hasSideEffects (.bin op l r) = false := by simpa using hse
        cases hte : api.toExpr (.bin op l r) with
        | some v =>
          have : processExpr api (.bin op l r) = v := by simp [processExpr, hse', hte]
          rw [this]; exact fold_le hf _ v hte hse'
        | none =>
          cases htl : api.isTruthy l with
          | none =>
            rcases hop with rfl | rfl <;> simp only [processExpr, hse', hte, htl, Bool.not_false, if_true] <;>
              exact LeEAt.refl _
          | some b =>
            have hsel' := hco op l r hop hse'
            rcases hop with rfl | rfl <;> cases b <;>
              simp only [processExpr, hse', hte, htl, Bool.not_false, if_true] at hm ⊢
            · exact LeEAt.trans (select_le ht .and l r false (.inl rfl) htl hsel' l (by simp)
                (single_of_not_multi _ (Sound.multi_false_of_processed hm))) (processExpr_le ht hf hco l hm)
            · exact LeEAt.trans (select_le ht .and l r true (.inl rfl) htl hsel' r (by simp)
                (single_of_not_multi _ (Sound.multi_false_of_processed hm))) (processExpr_le ht hf hco r hm)
            · exact LeEAt.trans (select_le ht .or l r false (.inr rfl) htl hsel' r (by simp)
                (single_of_not_multi _ (Sound.multi_false_of_processed hm))) (processExpr_le ht hf hco r hm)
            · exact LeEAt.trans (select_le ht .or l r true (.inr rfl) htl hsel' l (by simp)
                (single_of_not_multi _ (Sound.multi_false_of_processed hm))) (processExpr_le ht hf hco l hm)
    · have h1 : op ≠ .and := fun hh => hop (Or.inl hh)
      have h2 : op ≠ .or := fun hh => hop (Or.inr hh)
      by_cases hse : api.hasSideEffects (.bin op l r) = true
      · have : processExpr api (.bin op l r) = .bin op l r := by
          cases op <;> first | exact absurd rfl h1 | exact absurd rfl h2 | simp [processExpr, hse]
        rw [this]; exact LeEAt.refl _
      · have hse' : api.hasSideEffects (.bin op l r) = false := by simpa using hse
        cases hte : api.toExpr (.bin op l r) with
        | some v =>
          have : processExpr api (.bin op l r) = v := by simp [processExpr, hse', hte]
          rw [this]; exact fold_le hf _ v hte hse'
        | none =>
          have : processExpr api (.bin op l r) = .bin op l r := by
            cases op <;> first | exact absurd rfl h1 | exact absurd rfl h2 | simp [processExpr, hse', hte]
          rw [this]; exact LeEAt.refl _
  | .nil, _ | .true, _ | .false, _ | .vararg, _ | .num _, _ | .str _, _ | .var _, _ | .paren _, _
  | .call _ _ _ _, _ | .field _ _, _ | .index _ _, _ | .fn _, _ | .table _, _ | .interp _, _ | .cast _ _, _
  | .inst _ _, _ => by simp only [processExpr]; exact LeEAt.refl _

/-- `process_expression`, except that a rewrite into a multi-valued expression (F5) is not performed -/
def processExprG (api : EvalApi) (e : Expr) : Expr :=
  if multi (processExpr api e) then e else processExpr api e

def processorG (api : EvalApi) : Processor Unit := { expr := fun e u => (processExprG api e, u) }

theorem hooksLe (ht : ∀ N, EvalTotal N api) (hf : ∀ N, FoldTotal N api) (hco : AndOrCoherent api) :
    HooksLe true (processorG api) where
  expr := fun e _ => by
    simp only [processorG, processExprG]
    split
    · exact LeE.refl _
    · rename_i hm
      exact leE_of_at fun N => processExpr_le (ht N) (hf N) hco e (by simpa using hm)

/-- the guarded hook at one number system -/
theorem hooksLeAt {N : NumOps} (ht : EvalTotal N api) (hf : FoldTotal N api) (hco : AndOrCoherent api) :
    HooksLeAt N (processorG api) where
  expr := fun e _ => by
    simp only [processorG, processExprG]
    split
    · exact LeEAt.refl _
    · rename_i hm
      exact processExpr_le ht hf hco e (by simpa using hm)

/-- folded expressions are closed (literals) -/
def FoldClosed (api : EvalApi) : Prop := ∀ (e v : Expr), api.toExpr e = some v → ∀ x, v.refs x = false

theorem processExpr_refs (hc : FoldClosed api) (x : DName) : ∀ (e : Expr), e.refs x = false →
    (processExpr api e).refs x = false
  | .un op y, h => by
    simp only [processExpr]
    split
    · cases hte : api.toExpr (.un op y) with
      | none => simpa using h
      | some v => simpa using hc _ v hte x
    · exact h
  | .ifx c t elifs el, h => by
    simp only [processExpr]
    split
    · cases hte : api.toExpr (.ifx c t elifs el) with
      | none => simpa using h
      | some v => simpa using hc _ v hte x
    · exact h
  | .bin op l r, h => by
    have hlr := h
    simp only [Expr.refs, Bool.or_eq_false_iff] at hlr
    have ihl := processExpr_refs hc x l hlr.1
    have ihr := processExpr_refs hc x r hlr.2
    simp only [processExpr]
    split
    · cases hte : api.toExpr (.bin op l r) with
      | some v => simpa using hc _ v hte x
      | none =>
        simp only
        cases op <;> simp only <;> first | exact h | (split <;> first | exact ihl | exact ihr | exact h)
    · cases op <;> simp only <;> first
        | exact h
        | (split <;> first | exact h | (split <;> first | exact hlr.1 | exact hlr.2 | exact h))
  | .nil, h | .true, h | .false, h | .vararg, h | .num _, h | .str _, h | .var _, h | .paren _, h
  | .call _ _ _ _, h | .field _ _, h | .index _ _, h | .fn _, h | .table _, h | .interp _, h | .cast _ _, h
  | .inst _ _, h => by simpa only [processExpr] using h

theorem hooksNoRef (hc : FoldClosed api) : HooksNoRef (processorG api) where
  expr := fun e _ D h x hx => by
    simp only [processorG, processExprG]
    split
    · exact h x hx
    · exact processExpr_refs hc x e (h x hx)

/-- the rule without its F5 rewrites -/
def applyG (api : EvalApi) (b : Block) : Block := (Visitor.runDefault (processorG api) b ()).1

/-- **whole guarded rule, every program**: same outcome unless the original exhausts its budget -/
theorem applyG_upto (ht : ∀ N, EvalTotal N api) (hf : ∀ N, FoldTotal N api) (hco : AndOrCoherent api) (b : Block)
    {N : NumOps} (ρ : ExtOracle N) (n : Nat) (externs : List String) :
    runProgram ρ n externs b = .timeout ∨ runProgram ρ n externs (applyG api b) = runProgram ρ n externs b :=
  Visitor.runDefault_upto (hooksLe ht hf hco) b () ρ n externs

theorem apply_upto_of_agree (ht : ∀ N, EvalTotal N api) (hf : ∀ N, FoldTotal N api) (hco : AndOrCoherent api) (b : Block)
    (h : applyG api b = apply api b) {N : NumOps} (ρ : ExtOracle N) (n : Nat) (externs : List String) :
    runProgram ρ n externs b = .timeout ∨ runProgram ρ n externs (apply api b) = runProgram ρ n externs b := by
  rw [← h]; exact applyG_upto ht hf hco b ρ n externs

/-- the guarded rule at one number system -/
theorem applyG_upto_at {N : NumOps} (ht : EvalTotal N api) (hf : FoldTotal N api) (hco : AndOrCoherent api)
    (hc : FoldClosed api) (b : Block) (ρ : ExtOracle N) (n : Nat) (externs : List String) :
    runProgram ρ n externs b = .timeout ∨ runProgram ρ n externs (applyG api b) = runProgram ρ n externs b :=
  runDefault_upto_at (hooksLeAt ht hf hco) (hooksNoRef hc) b () ρ n externs

end DarkluaModel.Rules.ComputeExpression.Whole
