import DarkluaModel.Shared.Sem
/-!
# Local step lemmas about `local` declarations, for the allocation-insensitive lifting (stage 3)

`remove_unused_variable` drops declarations (one cell fewer) and `remove_nil_declaration`
reorders the variables of one declaration (cells permuted). Neither is an exact equality of
states; both are equalities up to a renaming of cells. This file states what ONE `local`
statement does in closed form, so that the two steps

* drop `local x = e` with `e` pure and `x` not free in the rest, and
* permute the (variable, value) pairs of one `local` statement,

can be discharged against an allocation-insensitive relation (`Shared/VisitorSound`, stage 3):

* `bindLocals_eq`        — `bindLocals` = fresh consecutive cells holding the padded values;
* `execS_localAssign`    — the statement = evaluate the values, then that;
* `lookup_new` / `lookup_old` — what every name denotes afterwards (distinct names);
* `local_single_pure`    — `local x = e` with a state-exact `e`: ONE fresh cell, bound to `x`, nothing else changes;
* `permute_observable`   — two declarations that bind the same values to the same (distinct) names,
  in any order, are indistinguishable through `lookupVar`, and agree on everything but the order of
  the new cells.
-/
namespace DarkluaModel.Rules.AllocSteps
open DarkluaModel.Sem

variable {N : NumOps}

/-- the first `n` values, missing ones are `nil` -/
def padVals : Nat → List (Val N) → List (Val N)
  | 0, _ => []
  | n + 1, vals => first vals :: padVals n (vals.drop 1)

/-- the bindings `bindLocals` adds: consecutive cells from `c`, later names in front -/
def newLocals : List String → Nat → List (String × Nat) → List (String × Nat)
  | [], _, env => env
  | n :: ns, c, env => newLocals ns (c + 1) ((n, c) :: env)

theorem padVals_length (n : Nat) (vals : List (Val N)) : (padVals n vals).length = n := by
  induction n generalizing vals with
  | zero => rfl
  | succ n ih => simp [padVals, ih]

/-- `bindLocals` in closed form -/
theorem bindLocals_eq (ns : List String) (vals : List (Val N)) (env : List (String × Nat)) (σ : State N) :
    bindLocals ns vals env σ =
      (newLocals ns σ.cells.length env, { σ with cells := σ.cells ++ padVals ns.length vals }) := by
  induction ns generalizing vals env σ with
  | nil => simp [bindLocals, newLocals, padVals]
  | cons n ns ih =>
    simp only [bindLocals, State.allocCell, ih, newLocals, List.length_cons, padVals]
    simp [List.append_assoc]

/-- a `local` declaration: evaluate the values, then bind fresh cells -/
theorem execS_localAssign (call : CallFn N) (ρ : ExtOracle N) (k : Nat) (env : Env N) (kind : LocalKind)
    (names : List TName) (values : List Expr) (σ : State N) :
    execS call ρ k env (.localAssign kind names values) σ =
      (evalEs call ρ k env values σ).bind fun vs σ1 =>
        .ok (.next { env with locals := newLocals (names.map TName.name) σ1.cells.length env.locals })
          { σ1 with cells := σ1.cells ++ padVals names.length vs } := by
  simp only [execS]
  cases evalEs call ρ k env values σ with
  | timeout => rfl
  | err v σ1 => rfl
  | ok vs σ1 => simp [Res.bind, bindLocals_eq]

/-! ### what the names denote afterwards -/

/-- a name that is not declared keeps its binding -/
theorem lookup_other (x : String) (ns : List String) (c : Nat) (env : List (String × Nat)) (h : x ∉ ns) :
    lookupAssoc x (newLocals ns c env) = lookupAssoc x env := by
  induction ns generalizing c env with
  | nil => rfl
  | cons n ns ih =>
    simp only [List.mem_cons, not_or] at h
    rw [newLocals, ih (c + 1) _ h.2]
    have : (n == x) = false := by simpa using fun hh => h.1 hh.symm
    simp [lookupAssoc, this]

/-- the `i`-th declared name (names pairwise distinct) is bound to the `i`-th fresh cell -/
theorem lookup_declared (ns : List String) (hd : ns.Nodup) (c : Nat) (env : List (String × Nat)) (i : Nat)
    (x : String) (hx : ns[i]? = some x) : lookupAssoc x (newLocals ns c env) = some (c + i) := by
  induction ns generalizing c env i with
  | nil => simp at hx
  | cons n ns ih =>
    rw [List.nodup_cons] at hd
    cases i with
    | zero =>
      simp at hx; subst hx
      rw [newLocals, lookup_other n ns (c + 1) _ hd.1]
      simp [lookupAssoc]
    | succ j =>
      simp at hx
      rw [newLocals, ih hd.2 (c + 1) _ j hx]
      congr 1; omega

theorem getCell_new (σ : State N) (pv : List (Val N)) (i : Nat) :
    ({ σ with cells := σ.cells ++ pv } : State N).getCell (σ.cells.length + i) = (pv[i]?).getD .nil := by
  simp only [State.getCell]
  rw [List.getElem?_append_right (by omega)]
  congr 2; omega

theorem getCell_old (σ : State N) (pv : List (Val N)) (c : Nat) (h : c < σ.cells.length) :
    ({ σ with cells := σ.cells ++ pv } : State N).getCell c = σ.getCell c := by
  simp [State.getCell, List.getElem?_append_left h]

/-- every local of the environment points to an existing cell -/
def envWF (env : Env N) (σ : State N) : Prop := ∀ n c, lookupAssoc n env.locals = some c → c < σ.cells.length

/-- after `local ns = …` (values `vs`, evaluated in state `σ1`): a declared name denotes its value -/
theorem lookup_new (env : Env N) (σ1 : State N) (ns : List String) (hd : ns.Nodup) (vs : List (Val N))
    (i : Nat) (x : String) (hx : ns[i]? = some x) :
    lookupVar { env with locals := newLocals ns σ1.cells.length env.locals } x
        { σ1 with cells := σ1.cells ++ padVals ns.length vs }
      = ((padVals ns.length vs)[i]?).getD .nil := by
  simp only [lookupVar, lookup_declared ns hd _ _ i x hx]
  exact getCell_new σ1 _ i

/-- … and every other name denotes what it denoted before -/
theorem lookup_old (env : Env N) (σ1 : State N) (hwf : envWF env σ1) (ns : List String) (vs : List (Val N))
    (x : String) (hx : x ∉ ns) :
    lookupVar { env with locals := newLocals ns σ1.cells.length env.locals } x
        { σ1 with cells := σ1.cells ++ padVals ns.length vs }
      = lookupVar env x σ1 := by
  simp only [lookupVar, lookup_other x ns _ _ hx]
  cases h : lookupAssoc x env.locals with
  | none => rfl
  | some c => exact getCell_old σ1 _ c (hwf x c h)

/-! ### step 1: dropping `local x = e` -/

/-- `local x = e` where evaluating `e` is state-exact (pure, non-allocating — `EvalSound.pure`): the
statement allocates exactly ONE fresh cell holding the value and binds `x` to it; globals, tables,
closures, trace and all existing cells are untouched. Dropping it is therefore sound as soon as `x` is
not free in the rest — up to that one unreachable cell. -/
theorem local_single_pure (call : CallFn N) (ρ : ExtOracle N) (k : Nat) (env : Env N) (kind : LocalKind)
    (x : String) (ty : Option Ty) (e : Expr) (σ : State N) (vs : List (Val N))
    (he : evalE call ρ k env e σ = .ok vs σ) :
    execS call ρ k env (.localAssign kind [.mk x ty] [e]) σ =
      .ok (.next { env with locals := (x, σ.cells.length) :: env.locals })
        { σ with cells := σ.cells ++ [first vs] } := by
  rw [execS_localAssign]
  simp [evalEs, he, Res.bind, newLocals, padVals, TName.name]

/-! ### step 2: permuting the pairs of one declaration -/

/-- the value a declaration gives to a name (names distinct): the padded value at the name's position -/
def valueOf (ns : List String) (vs : List (Val N)) (x : String) : Val N :=
  match ns.idxOf? x with
  | some i => ((padVals ns.length vs)[i]?).getD .nil
  | none => .nil

theorem idxOf?_getElem {ns : List String} {x : String} {i : Nat} (h : ns.idxOf? x = some i) : ns[i]? = some x := by
  induction ns generalizing i with
  | nil => simp [List.idxOf?] at h
  | cons n ns ih =>
    simp only [List.idxOf?, List.findIdx?_cons] at h
    by_cases hn : (n == x) = true
    · simp [hn] at h; subst h; simpa using hn
    · simp [hn] at h
      obtain ⟨j, hj, rfl⟩ := h
      simpa using ih (by simpa [List.idxOf?] using hj)

theorem idxOf?_none {ns : List String} {x : String} (h : ns.idxOf? x = none) : x ∉ ns := by
  intro hm
  induction ns with
  | nil => simp at hm
  | cons n ns ih =>
    simp only [List.idxOf?, List.findIdx?_cons] at h
    by_cases hn : (n == x) = true
    · simp [hn] at h
    · simp [hn] at h
      rcases List.mem_cons.mp hm with rfl | hm'
      · simp at hn
      · exact ih (by simpa [List.idxOf?] using h) hm'

/-- what any name denotes after a declaration with distinct names -/
theorem lookup_after (env : Env N) (σ1 : State N) (hwf : envWF env σ1) (ns : List String) (hd : ns.Nodup)
    (vs : List (Val N)) (x : String) :
    lookupVar { env with locals := newLocals ns σ1.cells.length env.locals } x
        { σ1 with cells := σ1.cells ++ padVals ns.length vs }
      = if x ∈ ns then valueOf ns vs x else lookupVar env x σ1 := by
  cases h : ns.idxOf? x with
  | some i =>
    have hx := idxOf?_getElem h
    have hm : x ∈ ns := List.mem_of_getElem? hx
    simp only [hm, if_true, valueOf, h]
    exact lookup_new env σ1 ns hd vs i x hx
  | none =>
    have hm := idxOf?_none h
    simp only [hm, if_false]
    exact lookup_old env σ1 hwf ns vs x hm

/-- **Permutation step.** Two declarations evaluated to value lists `vs`, `vs'` in the same state `σ1`
whose (distinct) name lists are permutations of each other and which give every name the same value:
afterwards every variable denotes the same value in both, and the two states agree on globals, tables,
closures and trace, have the same number of cells and the same old cells — they differ only in the
ORDER of the freshly allocated cells. -/
theorem permute_observable (env : Env N) (σ1 : State N) (hwf : envWF env σ1) (ns ns' : List String)
    (hd : ns.Nodup) (hd' : ns'.Nodup) (hperm : ∀ x, x ∈ ns ↔ x ∈ ns') (hlen : ns.length = ns'.length)
    (vs vs' : List (Val N)) (hval : ∀ x, x ∈ ns → valueOf ns vs x = valueOf ns' vs' x) :
    let σa : State N := { σ1 with cells := σ1.cells ++ padVals ns.length vs }
    let σb : State N := { σ1 with cells := σ1.cells ++ padVals ns'.length vs' }
    let enva : Env N := { env with locals := newLocals ns σ1.cells.length env.locals }
    let envb : Env N := { env with locals := newLocals ns' σ1.cells.length env.locals }
    (∀ x, lookupVar enva x σa = lookupVar envb x σb) ∧
      σa.globals = σb.globals ∧ σa.tables = σb.tables ∧ σa.closures = σb.closures ∧ σa.trace = σb.trace ∧
      σa.cells.length = σb.cells.length ∧ (∀ c, c < σ1.cells.length → σa.getCell c = σb.getCell c) := by
  refine ⟨?_, rfl, rfl, rfl, rfl, ?_, ?_⟩
  · intro x
    rw [lookup_after env σ1 hwf ns hd vs x, lookup_after env σ1 hwf ns' hd' vs' x]
    by_cases hm : x ∈ ns
    · simp [hm, (hperm x).mp hm, hval x hm]
    · have : x ∉ ns' := fun h => hm ((hperm x).mpr h)
      simp [hm, this]
  · simp [padVals_length, hlen]
  · intro c hc
    rw [getCell_old σ1 _ c hc, getCell_old σ1 _ c hc]

end DarkluaModel.Rules.AllocSteps
