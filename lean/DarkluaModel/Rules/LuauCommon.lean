import DarkluaModel.Shared.Visitor
/-!
# Helpers shared by the models of the Luau-lowering rules (C06 / C07)

* `Tracker` — `IdentifierTracker` (`src/process/scope_visitor.rs`): a stack of sets of DECLARED
  local identifiers (globals and mere uses are never recorded), `is_identifier_used`,
  `generate_identifier_with_prefix` (suffixes from `Permutator::new("012345689")` — there is no
  `7` in the real alphabet).
* `canReturnMultipleSyn` — `Evaluator::can_return_multiple_values` (`src/process/evaluator/mod.rs`).
* `Census` / `count` — the feature census used by property C07: the number of occurrences of the
  Luau-only constructs selected by a `Census` over EVERY syntactic position of the shared AST.
* `WF` — the trees darklua's own AST types can express (the shared AST folds `Prefix`,
  `Variable`, `Arguments` into `Expr`).
-/
namespace DarkluaModel.Rules

/-! ### IdentifierTracker -/

/-- `identifiers: Vec<HashSet<String>>`; the head of the list is the LAST (innermost) set -/
structure Tracker where
  ids : List (List String) := []
  deriving Repr, Inhabited

namespace Tracker

def new : Tracker := {}

/-- `insert_identifier`: into the innermost set; creates one when the stack is empty -/
def insertIdentifier (t : Tracker) (name : String) : Tracker :=
  match t.ids with
  | [] => { ids := [[name]] }
  | set :: rest => { ids := (name :: set) :: rest }

def isUsed (t : Tracker) (name : String) : Bool :=
  t.ids.any fun set => set.contains name

def push (t : Tracker) : Tracker := { ids := [] :: t.ids }
def pop (t : Tracker) : Tracker := { ids := t.ids.tail }

/-- the alphabet of `Permutator::new("012345689".chars())` -/
def suffixAlphabet : List Char := ['0', '1', '2', '3', '4', '5', '6', '8', '9']

/-- bijective base-9 numeral of `n ≥ 1` over `suffixAlphabet` (length-then-lexicographic order,
which is the order in which `Permutator` yields its strings) -/
def bijective : Nat → Nat → List Char
  | 0, _ => []
  | _, 0 => []
  | fuel + 1, n + 1 => bijective fuel (n / 9) ++ [suffixAlphabet.getD (n % 9) '_']

/-- the `i`-th string (from 0) produced by the permutator: "0", "1", …, "9", "00", "01", … -/
def suffix (i : Nat) : String := String.ofList (bijective (i + 1) (i + 1))

def total (t : Tracker) : Nat := (t.ids.map List.length).sum

/-- first `i ≥ start` (at most `fuel` tries) with `prefix ++ suffix i` unused -/
def findSuffix (t : Tracker) (pre : String) : Nat → Nat → String
  | 0, i => pre ++ suffix i
  | fuel + 1, i =>
    let candidate := pre ++ suffix i
    if t.isUsed candidate then findSuffix t pre fuel (i + 1) else candidate

/-- `generate_identifier_with_prefix` for a non-empty prefix: the prefix itself when unused,
otherwise the first unused `prefix ++ suffix`; the result is recorded in the innermost set.
(At most `total` candidates can be in use, so `total + 1` tries always suffice.) -/
def generateWithPrefix (t : Tracker) (pre : String) : String × Tracker :=
  let name := if t.isUsed pre then findSuffix t pre (t.total + 1) 0 else pre
  (name, t.insertIdentifier name)

end Tracker

/-! ### Evaluator::can_return_multiple_values -/

def canReturnMultipleSyn : Expr → Bool
  | .call .. | .un .. | .vararg => true
  | .bin op _ _ => !(op == .and || op == .or)
  | _ => false

/-- `expression.in_parentheses()` when it may return several values -/
def parenIfMultiple (e : Expr) : Expr := if canReturnMultipleSyn e then .paren e else e

/-! ### the feature census (property C07) -/

/-- which constructs are counted, and how much each occurrence counts -/
structure Census where
  /-- `l op r` -/
  bin : BinOp → Nat := fun _ => 0
  ifx : Nat := 0
  interp : Nat := 0
  cast : Nat := 0
  inst : Nat := 0
  /-- `target op= value` -/
  cassign : BinOp → Nat := fun _ => 0
  cont : Nat := 0
  localKind : LocalKind → Nat := fun _ => 0
  /-- `type T = …`, `type function …` -/
  typeStmt : Nat := 0
  /-- every node of every type annotation -/
  tyNode : Nat := 0
  /-- every generic parameter of a function -/
  generic : Nat := 0
  /-- every attribute of a function -/
  attr : Nat := 0

/-- count the constructs of both -/
def Census.add (A B : Census) : Census where
  bin := fun op => A.bin op + B.bin op
  ifx := A.ifx + B.ifx
  interp := A.interp + B.interp
  cast := A.cast + B.cast
  inst := A.inst + B.inst
  cassign := fun op => A.cassign op + B.cassign op
  cont := A.cont + B.cont
  localKind := fun k => A.localKind k + B.localKind k
  typeStmt := A.typeStmt + B.typeStmt
  tyNode := A.tyNode + B.tyNode
  generic := A.generic + B.generic
  attr := A.attr + B.attr

variable (C : Census)

mutual
  def countTy : Ty → Nat
    | .mk _ kids => C.tyNode + countTys kids
    | .typeof e => C.tyNode + countE e
  def countTys : List Ty → Nat
    | [] => 0
    | t :: ts => countTy t + countTys ts
  def countOTy : Option Ty → Nat
    | none => 0
    | some t => countTy t
  def countTN : TName → Nat
    | .mk _ ty => countOTy ty
  def countTNs : List TName → Nat
    | [] => 0
    | t :: ts => countTN t + countTNs ts
  def countE : Expr → Nat
    | .nil | .true | .false | .vararg | .num _ | .str _ | .var _ => 0
    | .paren e => countE e
    | .un _ e => countE e
    | .bin op l r => C.bin op + countE l + countE r
    | .call f _ _ args => countE f + countEs args
    | .field e _ => countE e
    | .index e k => countE e + countE k
    | .fn body => countF body
    | .table es => countEntries es
    | .ifx c t elifs e => C.ifx + countE c + countE t + countPairs elifs + countE e
    | .interp segs => C.interp + countSegs segs
    | .cast e ty => C.cast + countE e + countTy ty
    | .inst e tys => C.inst + countE e + countTys tys
  def countEs : List Expr → Nat
    | [] => 0
    | e :: es => countE e + countEs es
  def countOE : Option Expr → Nat
    | none => 0
    | some e => countE e
  def countPairs : List (Expr × Expr) → Nat
    | [] => 0
    | (a, b) :: rest => countE a + countE b + countPairs rest
  def countEntry : Entry → Nat
    | .pos v => countE v
    | .named _ v => countE v
    | .keyed k v => countE k + countE v
  def countEntries : List Entry → Nat
    | [] => 0
    | e :: es => countEntry e + countEntries es
  def countSeg : Seg → Nat
    | .s _ => 0
    | .v e => countE e
  def countSegs : List Seg → Nat
    | [] => 0
    | e :: es => countSeg e + countSegs es
  def countF : FnBody → Nat
    | .mk params _ varTy ret generics attrs body =>
      countTNs params + countOTy varTy + countOTy ret + C.generic * generics.length +
        C.attr * attrs.length + countB body
  def countS : Stmt → Nat
    | .assign ts vs => countEs ts + countEs vs
    | .cassign op t v => C.cassign op + countE t + countE v
    | .callStmt c => countE c
    | .doBlock b => countB b
    | .function _ _ body => countF body
    | .gfor names vs body => countTNs names + countEs vs + countB body
    | .nfor name a b step body => countTN name + countE a + countE b + countOE step + countB body
    | .ifs branches els => countBranches branches + countOB els
    | .localAssign k names vs => C.localKind k + countTNs names + countEs vs
    | .localFn k _ body => C.localKind k + countF body
    | .repeat_ b c => countB b + countE c
    | .while_ c b => countE c + countB b
    | .typeDecl _ _ ty => C.typeStmt + countTy ty
    | .typeFn _ _ body => C.typeStmt + countF body
  def countBranches : List (Expr × Block) → Nat
    | [] => 0
    | (c, b) :: rest => countE c + countB b + countBranches rest
  def countSs : List Stmt → Nat
    | [] => 0
    | s :: ss => countS s + countSs ss
  def countL : Last → Nat
    | .ret es => countEs es
    | .brk => 0
    | .cont => C.cont
  def countOL : Option Last → Nat
    | none => 0
    | some l => countL l
  def countOB : Option Block → Nat
    | none => 0
    | some b => countB b
  /-- number of occurrences of the constructs selected by `C` in a block, over every position -/
  def countB : Block → Nat
    | .mk stmts last => countSs stmts + countOL last
end

/-! ### well-formed trees: what `darklua_core::nodes` can express -/

/-- `Prefix`: identifier, call, field, index, parenthese, type instantiation -/
def isPrefix : Expr → Bool
  | .var _ | .call .. | .field .. | .index .. | .paren _ | .inst .. => true
  | _ => false

/-- `Variable`: identifier, field, index -/
def isVariable : Expr → Bool
  | .var _ | .field .. | .index .. => true
  | _ => false

def isCall : Expr → Bool
  | .call .. => true
  | _ => false

/-- `CompoundOperator` -/
def isCompoundOp : BinOp → Bool
  | .add | .sub | .mul | .div | .idiv | .mod | .pow | .concat => true
  | _ => false

/-- `Arguments::String` holds one string, `Arguments::Table` one table -/
def argsOk : ArgKind → List Expr → Bool
  | .tuple, _ => true
  | .str, [.str _] => true
  | .tbl, [.table _] => true
  | _, _ => false

mutual
  def wfTy : Ty → Bool
    | .mk _ kids => wfTys kids
    | .typeof e => wfE e
  def wfTys : List Ty → Bool
    | [] => true
    | t :: ts => wfTy t && wfTys ts
  def wfOTy : Option Ty → Bool
    | none => true
    | some t => wfTy t
  def wfTN : TName → Bool
    | .mk _ ty => wfOTy ty
  def wfTNs : List TName → Bool
    | [] => true
    | t :: ts => wfTN t && wfTNs ts
  def wfE : Expr → Bool
    | .nil | .true | .false | .vararg | .num _ | .str _ | .var _ => true
    | .paren e => wfE e
    | .un _ e => wfE e
    | .bin _ l r => wfE l && wfE r
    | .call f _ k args => isPrefix f && wfE f && argsOk k args && wfEs args
    | .field e _ => isPrefix e && wfE e
    | .index e k => isPrefix e && wfE e && wfE k
    | .fn body => wfF body
    | .table es => wfEntries es
    | .ifx c t elifs e => wfE c && wfE t && wfPairs elifs && wfE e
    | .interp segs => wfSegs segs
    | .cast e ty => wfE e && wfTy ty
    | .inst e tys => isPrefix e && wfE e && wfTys tys
  def wfEs : List Expr → Bool
    | [] => true
    | e :: es => wfE e && wfEs es
  def wfOE : Option Expr → Bool
    | none => true
    | some e => wfE e
  def wfPairs : List (Expr × Expr) → Bool
    | [] => true
    | (a, b) :: rest => wfE a && wfE b && wfPairs rest
  def wfEntry : Entry → Bool
    | .pos v => wfE v
    | .named _ v => wfE v
    | .keyed k v => wfE k && wfE v
  def wfEntries : List Entry → Bool
    | [] => true
    | e :: es => wfEntry e && wfEntries es
  def wfSeg : Seg → Bool
    | .s _ => true
    | .v e => wfE e
  def wfSegs : List Seg → Bool
    | [] => true
    | e :: es => wfSeg e && wfSegs es
  def wfF : FnBody → Bool
    | .mk params _ varTy ret _ _ body => wfTNs params && wfOTy varTy && wfOTy ret && wfB body
  /-- assignment targets -/
  def wfTargets : List Expr → Bool
    | [] => true
    | e :: es => isVariable e && wfE e && wfTargets es
  def wfS : Stmt → Bool
    | .assign ts vs => wfTargets ts && wfEs vs
    | .cassign op t v => isCompoundOp op && isVariable t && wfE t && wfE v
    | .callStmt c => isCall c && wfE c
    | .doBlock b => wfB b
    | .function name _ body => !name.isEmpty && wfF body
    | .gfor names vs body => wfTNs names && wfEs vs && wfB body
    | .nfor name a b step body => wfTN name && wfE a && wfE b && wfOE step && wfB body
    | .ifs branches els => wfBranches branches && wfOB els
    | .localAssign _ names vs => wfTNs names && wfEs vs
    | .localFn _ _ body => wfF body
    | .repeat_ b c => wfB b && wfE c
    | .while_ c b => wfE c && wfB b
    | .typeDecl _ _ ty => wfTy ty
    | .typeFn _ _ body =>
      -- `TypeFunctionStatement` has no attributes
      (match body with | .mk _ _ _ _ _ attrs _ => attrs.isEmpty) && wfF body
  def wfBranches : List (Expr × Block) → Bool
    | [] => true
    | (c, b) :: rest => wfE c && wfB b && wfBranches rest
  def wfSs : List Stmt → Bool
    | [] => true
    | s :: ss => wfS s && wfSs ss
  def wfL : Last → Bool
    | .ret es => wfEs es
    | _ => true
  def wfOL : Option Last → Bool
    | none => true
    | some l => wfL l
  def wfOB : Option Block → Bool
    | none => true
    | some b => wfB b
  /-- the block is one darklua's AST can express -/
  def wfB : Block → Bool
    | .mk stmts last => wfSs stmts && wfOL last
end

/-- `Block::insert_statement(0, s)` -/
def insertFirst (s : Stmt) : Block → Block
  | .mk stmts last => .mk (s :: stmts) last

/-- `Expression::from(1)` — the f64 `1.0` -/
def numOne : Expr := .num 0x3ff0000000000000

end DarkluaModel.Rules
