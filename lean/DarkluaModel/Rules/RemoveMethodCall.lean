import DarkluaModel.Shared.Visitor
import DarkluaModel.Shared.Run
/-!
# `remove_method_call` (`src/rules/remove_method_call.rs`)

`process_function_call` (called by the visitor on every call node, and once more by the rule's
own `process_expression` for calls in expression position — the second call finds no method
left): `prefix:m(args)` becomes `prefix'.m(prefix', args)` when the prefix is
* an identifier `x` (`prefix' = x`), or
* a parenthesised identifier `(x)` (`prefix' = x`: `Prefix::from(Expression::Identifier)`), or
* a parenthesised `nil`/`true`/`false`/string/number literal `(lit)`
  (`prefix' = (lit)`: `Prefix::from` re-wraps the literal in parentheses and the inserted first
  argument is that parenthesised expression).
Everything else (calls, fields, indexes, `(...)`, nested parentheses, …) is left alone.
`f:m"s"` / `f:m{…}` become tuple calls (`Arguments::insert`).
-/
namespace DarkluaModel.Rules.RemoveMethodCall

/-- `replace_with` -/
def newPrefix : Expr → Option Expr
  | .var x => some (.var x)
  | .paren (.var x) => some (.var x)
  | .paren .nil => some (.paren .nil)
  | .paren .true => some (.paren .true)
  | .paren .false => some (.paren .false)
  | .paren (.str s) => some (.paren (.str s))
  | .paren (.num n) => some (.paren (.num n))
  | _ => none

def processFunctionCall : Expr → Expr
  | .call f (some m) kind args =>
    match newPrefix f with
    | some p => .call (.field p m) none .tuple (p :: args)
    | none => .call f (some m) kind args
  | e => e

def processor : Processor Unit :=
  { expr := fun e u => (processFunctionCall e, u)
    node := fun e u => (processFunctionCall e, u) }

/-- `flawless_process`: one `DefaultVisitor` pass -/
def apply (b : Block) : Block := (Visitor.runDefault processor b ()).1

/-! ### the harness-side hypothesis of `method_call_refines_partial`

The rewrite reads the receiver variable a second time AFTER `receiver.m` has been looked up. The
lookup can run an `__index` handler, which can assign the receiver variable (defect recorded in
known_findings.json). Sufficient syntactic condition that excludes this: no identifier used as a
converted receiver is assigned anywhere in the program (assignment target, compound-assignment
target, root of a function statement name). -/

structure Names where
  receivers : List String := []
  assigned : List String := []

def collector : Processor Names :=
  { node := fun e s =>
      match e with
      | .call f (some _) _ _ =>
        match newPrefix f with
        | some (.var x) => (e, { s with receivers := x :: s.receivers })
        | _ => (e, s)
      | _ => (e, s)
    target := fun e s =>
      match e with
      | .var x => (e, { s with assigned := x :: s.assigned })
      | _ => (e, s)
    stmt := fun st s =>
      match st with
      | .function (root :: _) _ _ => (st, { s with assigned := root :: s.assigned })
      | _ => (st, s) }

/-- no converted receiver identifier is assigned anywhere in the program -/
def receiversStable (b : Block) : Bool :=
  let s := (Visitor.runDefault collector b {}).2
  s.receivers.all fun r => !(s.assigned.contains r)

end DarkluaModel.Rules.RemoveMethodCall
