import DarkluaModel.Shared.Visitor
import DarkluaModel.Shared.Run
import DarkluaModel.Rules.FnErase
/-!
# `remove_method_call` (`src/rules/remove_method_call.rs`)

`process_function_call` (called by the visitor on every call node, and once more by the rule's
own `process_expression` for calls in expression position — the second call finds no method
left): `prefix:m(args)` becomes `prefix'.m(prefix', args)` when the prefix is
* an identifier `x` (`prefix' = x`), or
* a parenthesised identifier `(x)` (`prefix' = x`: `Prefix::from(Expression::Identifier)`), or
* a parenthesised `nil`/`true`/`false`/string/number literal `(lit)`
  (`prefix' = (lit)`: `Prefix::from` re-wraps the literal in parentheses and the inserted first
  argument is that parenthesised expression).
Everything else (calls, fields, indexes, `(...)`, nested parentheses, …) is left alone.
`f:m"s"` / `f:m{…}` become tuple calls (`Arguments::insert`).
-/
namespace DarkluaModel.Rules.RemoveMethodCall

/-- `replace_with` -/
def newPrefix : Expr → Option Expr
  | .var x => some (.var x)
  | .paren (.var x) => some (.var x)
  | .paren .nil => some (.paren .nil)
  | .paren .true => some (.paren .true)
  | .paren .false => some (.paren .false)
  | .paren (.str s) => some (.paren (.str s))
  | .paren (.num n) => some (.paren (.num n))
  | _ => none

def processFunctionCall : Expr → Expr
  | .call f (some m) kind args =>
    match newPrefix f with
    | some p => .call (.field p m) none .tuple (p :: args)
    | none => .call f (some m) kind args
  | e => e

def processor : Processor Unit :=
  { expr := fun e u => (processFunctionCall e, u)
    node := fun e u => (processFunctionCall e, u) }

/-- `flawless_process`: one `DefaultVisitor` pass -/
def apply (b : Block) : Block := (Visitor.runDefault processor b ()).1

/-! ### local soundness against `Shared/Sem.lean`

`Sem.evalE (.call obj (some m) …)` evaluates the receiver ONCE, looks the method up, evaluates the
arguments, calls. The rewritten call evaluates `p.m` (receiver, lookup) and then the argument
list `p, args…`: the receiver is evaluated a second time AFTER the lookup. Literal receivers are
constants; an identifier is re-read, and the lookup may have run an `__index` handler that
assigned it: `processFunctionCall_exact` is exact under the hypothesis "same value after the
lookup", `processFunctionCall_not_exact` shows the hypothesis cannot be dropped. -/

open Sem
section
variable {N : NumOps} (call : CallFn N) (ρ : ExtOracle N) (k : Nat) (env : Env N)

/-- the value of a converted receiver (an identifier or a parenthesised literal) in a state -/
def recvVal (env : Env N) : Expr → State N → Val N
  | .var x, σ => lookupVar env x σ
  | .paren .true, _ => .bool true
  | .paren .false, _ => .bool false
  | .paren (.str s), _ => .str s
  | .paren (.num n), _ => .num (N.ofBits n)
  | _, _ => .nil

/-- original receiver `f` and duplicated receiver `p` both evaluate, without effect, to `recvVal p` -/
theorem eval_receivers (f p : Expr) (h : newPrefix f = some p) (σ : State N) :
    evalE call ρ k env f σ = .ok [recvVal env p σ] σ ∧ evalE call ρ k env p σ = .ok [recvVal env p σ] σ := by
  unfold newPrefix at h
  split at h <;> simp_all <;> subst h <;> simp [evalE, recvVal, Res.bind, first]

/-- `p:m(args)` → `p.m(p, args)` is exact when the receiver has the same value after the method
lookup `p.m` as before it. -/
theorem processFunctionCall_exact (f : Expr) (m : String) (kind : ArgKind) (args : List Expr) (p : Expr)
    (hp : newPrefix f = some p) (σ : State N)
    (hstable : ∀ fv σ2, indexVal call ρ k (recvVal env p σ) (strVal m) σ = .ok fv σ2 →
      recvVal env p σ2 = recvVal env p σ) :
    evalE call ρ k env (processFunctionCall (.call f (some m) kind args)) σ
      = evalE call ρ k env (.call f (some m) kind args) σ := by
  have hf := fun s => (eval_receivers call ρ k env f p hp s).1
  have hpp := fun s => (eval_receivers call ρ k env f p hp s).2
  simp only [processFunctionCall, hp, evalE, hf, hpp, Res.bind, first, List.headD]
  cases hi : indexVal call ρ k (recvVal env p σ) (strVal m) σ with
  | ok fv σ2 =>
    have hs := hstable fv σ2 hi
    cases args with
    | nil => simp [evalEs, hpp, hs]
    | cons a as =>
      simp only [evalEs, hpp, Res.bind, first, List.headD, hs]
      cases evalEs call ρ k env (a :: as) σ2 <;> simp
  | err v σ2 => simp
  | timeout => simp

end

/-- witness state: global `x` is table 0 whose metatable (table 1) has `__index = closure 0` -/
def wState : State unitOps :=
  { globals := [("x", .tbl 0)], cells := []
    tables := [⟨[], some 1⟩, ⟨[(strVal "__index", .fn 0)], none⟩]
    closures := [⟨.mk [] false none none [] [] (.mk [] none), [], []⟩], trace := [] }

/-- witness call handler: a call with one argument returns it; any other call (the `__index`
handler, called with table and key) assigns the global `x` and returns closure 0 as the method -/
def wCall : CallFn unitOps := fun _ args σ =>
  match args with
  | [a] => .ok [a] σ
  | _ => .ok [.fn 0] (σ.setGlobal "x" .nil)

def wExpr : Expr := .call (.var "x") (some "m") .tuple []

theorem w_original (ρ : ExtOracle unitOps) :
    evalE wCall ρ 3 ⟨[], []⟩ wExpr wState = .ok [.tbl 0] (wState.setGlobal "x" .nil) := by
  simp [wExpr, evalE, evalEs, Res.bind, first, lookupVar, lookupAssoc, wState, State.getGlobal, indexVal,
    State.rawGet, State.getTable, rawGetEntries, State.metamethod, State.metaOf, strVal, rawEq, callVal, wCall,
    State.setGlobal, setAssoc]

theorem w_converted (ρ : ExtOracle unitOps) :
    evalE wCall ρ 3 ⟨[], []⟩ (processFunctionCall wExpr) wState = .ok [.nil] (wState.setGlobal "x" .nil) := by
  simp [wExpr, processFunctionCall, newPrefix, evalE, evalEs, Res.bind, first, lookupVar, lookupAssoc, wState, State.getGlobal, indexVal,
    State.rawGet, State.getTable, rawGetEntries, State.metamethod, State.metaOf, strVal, rawEq, callVal, wCall,
    State.setGlobal, setAssoc]

/-- the rewrite is NOT exact in general: the re-read receiver can have been reassigned by `__index` -/
theorem processFunctionCall_not_exact :
    ¬ ∀ (N : NumOps) (call : CallFn N) (ρ : ExtOracle N) (k : Nat) (env : Env N) (e : Expr) (σ : State N),
        evalE call ρ k env (processFunctionCall e) σ = evalE call ρ k env e σ := by
  intro h
  have := h unitOps wCall (fun _ _ _ => []) 3 ⟨[], []⟩ wExpr wState
  rw [w_original (fun _ _ _ => []), w_converted (fun _ _ _ => [])] at this
  simp at this

/-! ### the harness-side hypothesis of `method_call_refines_partial`

The rewrite reads the receiver variable a second time AFTER `receiver.m` has been looked up. The
lookup can run an `__index` handler, which can assign the receiver variable (defect recorded in
known_findings.json). Sufficient syntactic condition that excludes this: no identifier used as a
converted receiver is assigned anywhere in the program (assignment target, compound-assignment
target, root of a function statement name). -/

structure Names where
  receivers : List String := []
  assigned : List String := []

def collector : Processor Names :=
  { node := fun e s =>
      match e with
      | .call f (some _) _ _ =>
        match newPrefix f with
        | some (.var x) => (e, { s with receivers := x :: s.receivers })
        | _ => (e, s)
      | _ => (e, s)
    target := fun e s =>
      match e with
      | .var x => (e, { s with assigned := x :: s.assigned })
      | _ => (e, s)
    stmt := fun st s =>
      match st with
      | .function (root :: _) _ _ => (st, { s with assigned := root :: s.assigned })
      | _ => (st, s) }

/-- no converted receiver identifier is assigned anywhere in the program -/
def receiversStable (b : Block) : Bool :=
  let s := (Visitor.runDefault collector b {}).2
  s.receivers.all fun r => !(s.assigned.contains r)

end DarkluaModel.Rules.RemoveMethodCall
