import DarkluaModel.Shared.Ast
/-!
# `FindVariables` (`src/process/processors/find_identifier.rs`) run by `DefaultVisitor`

`FindVariables::process_variable_expression` sets `usage_found` as soon as an identifier node
whose name is one of `variables` is met; the flag is never reset. `DefaultVisitor` calls the
hook on identifier expressions, identifier prefixes, identifier assignment targets and the
root identifier of a function statement's name — in the semantic AST: every `.var` node and the
head of `.function` names — and it descends into every child, types and `typeof(e)` included.
The processor never rewrites anything, so the traversal is an ordinary fold: it is modelled
by structural recursion (`mentions…`) instead of the fuelled `Visitor` (deviation noted in
meta/C16.json; checked against the real `FindVariables` + `DefaultVisitor` by `c16.mentions`).
-/
namespace DarkluaModel.Rules.FindVariables

mutual
  def mTy (ns : List String) : Ty → Bool
    | .mk _ kids => mTys ns kids
    | .typeof e => mE ns e
  def mTys (ns : List String) : List Ty → Bool
    | [] => false
    | t :: ts => mTy ns t || mTys ns ts
  def mTyOpt (ns : List String) : Option Ty → Bool
    | none => false
    | some t => mTy ns t
  def mTName (ns : List String) : TName → Bool
    | .mk _ ty => mTyOpt ns ty
  def mTNames (ns : List String) : List TName → Bool
    | [] => false
    | t :: ts => mTName ns t || mTNames ns ts
  /-- `DefaultVisitor::visit_expression(e, &mut find)` followed by `find.has_found_usage()` -/
  def mE (ns : List String) : Expr → Bool
    | .nil | .true | .false | .vararg | .num _ | .str _ => false
    | .var x => ns.contains x
    | .paren e => mE ns e
    | .un _ e => mE ns e
    | .bin _ l r => mE ns l || mE ns r
    | .call f _ _ args => mE ns f || mEs ns args
    | .field e _ => mE ns e
    | .index e k => mE ns e || mE ns k
    | .fn body => mFn ns body
    | .table es => mEntries ns es
    | .ifx c t elifs e => mE ns c || mE ns t || mPairs ns elifs || mE ns e
    | .interp segs => mSegs ns segs
    | .cast e ty => mE ns e || mTy ns ty
    | .inst e tys => mE ns e || mTys ns tys
  def mEs (ns : List String) : List Expr → Bool
    | [] => false
    | e :: es => mE ns e || mEs ns es
  def mEOpt (ns : List String) : Option Expr → Bool
    | none => false
    | some e => mE ns e
  def mPairs (ns : List String) : List (Expr × Expr) → Bool
    | [] => false
    | (a, b) :: rest => mE ns a || mE ns b || mPairs ns rest
  def mEntry (ns : List String) : Entry → Bool
    | .pos v => mE ns v
    | .named _ v => mE ns v
    | .keyed k v => mE ns k || mE ns v
  def mEntries (ns : List String) : List Entry → Bool
    | [] => false
    | e :: es => mEntry ns e || mEntries ns es
  def mSeg (ns : List String) : Seg → Bool
    | .s _ => false
    | .v e => mE ns e
  def mSegs (ns : List String) : List Seg → Bool
    | [] => false
    | e :: es => mSeg ns e || mSegs ns es
  def mFn (ns : List String) : FnBody → Bool
    | .mk params _ varTy ret _ _ body => mTNames ns params || mTyOpt ns varTy || mTyOpt ns ret || mB ns body
  def mS (ns : List String) : Stmt → Bool
    | .assign ts vs => mEs ns ts || mEs ns vs
    | .cassign _ t v => mE ns t || mE ns v
    | .callStmt c => mE ns c
    | .doBlock b => mB ns b
    | .function name _ body => (match name with | [] => false | root :: _ => ns.contains root) || mFn ns body
    | .gfor names vs body => mTNames ns names || mEs ns vs || mB ns body
    | .nfor name a b step body => mTName ns name || mE ns a || mE ns b || mEOpt ns step || mB ns body
    | .ifs branches els => mBranches ns branches || mBOpt ns els
    | .localAssign _ names vs => mTNames ns names || mEs ns vs
    | .localFn _ _ body => mFn ns body
    | .repeat_ b c => mB ns b || mE ns c
    | .while_ c b => mE ns c || mB ns b
    | .typeDecl _ _ ty => mTy ns ty
    | .typeFn _ _ body => mFn ns body
  def mBranches (ns : List String) : List (Expr × Block) → Bool
    | [] => false
    | (c, b) :: rest => mE ns c || mB ns b || mBranches ns rest
  def mSs (ns : List String) : List Stmt → Bool
    | [] => false
    | s :: ss => mS ns s || mSs ns ss
  def mLast (ns : List String) : Last → Bool
    | .ret es => mEs ns es
    | _ => false
  def mBOpt (ns : List String) : Option Block → Bool
    | none => false
    | some b => mB ns b
  /-- `DefaultVisitor::visit_block(b, &mut find)` followed by `find.has_found_usage()` -/
  def mB (ns : List String) : Block → Bool
    | .mk stmts last => mSs ns stmts || (match last with | none => false | some l => mLast ns l)
end

end DarkluaModel.Rules.FindVariables
