import DarkluaModel.Shared.Visitor
import DarkluaModel.Rules.EvalApi
/-!
# `remove_unused_if_branch` (`src/rules/unused_if_branch.rs`)

`IfFilter::process_block` rewrites every `if` statement of a block with
`simplify_if_statement` (keep / remove / replace by a `do` block); `process_expression`
rewrites `if` expressions with `simplify_if`. One `DefaultVisitor` pass.
-/
namespace DarkluaModel.Rules.UnusedIfBranch
open DarkluaModel.Rules

def blockIsEmpty : Block → Bool
  | .mk [] none => true
  | _ => false

def emptyBlock : Block := .mk [] none

/-- state of the `retain_branches_mut` closure: `keep_next_branches`, `replace_else_with` -/
structure Retain (α : Type) where
  keepNext : Bool := true
  replaceElse : Option α := none

/-- the closure of `retain_branches_mut` in `simplify_if_statement`, over the branch list -/
def retainBranches (api : EvalApi) : List (Expr × Block) → Retain Block → List (Expr × Block) × Retain Block
  | [], st => ([], st)
  | (c, b) :: rest, st =>
    if !st.keepNext then retainBranches api rest st
    else
      match api.isTruthy c with
      | some true =>
        let st1 : Retain Block := { st with keepNext := false }
        if api.hasSideEffects c then
          let (r, st2) := retainBranches api rest st1
          ((c, b) :: r, st2)
        else retainBranches api rest { st1 with replaceElse := some b }
      | some false =>
        if api.hasSideEffects c then
          let (r, st2) := retainBranches api rest st
          ((c, emptyBlock) :: r, st2)
        else retainBranches api rest st
      | none =>
        let (r, st2) := retainBranches api rest st
        ((c, b) :: r, st2)

/-- `if else_block.is_empty() { if_statement.take_else_block(); }` -/
def dropEmptyElse : Option Block → Option Block
  | some b => if blockIsEmpty b then none else some b
  | none => none

/-- `FilterResult`, as the list of statements that replaces the `if` (none / the `do` / the `if`) -/
def simplifyIfStatement (api : EvalApi) (branches : List (Expr × Block)) (els : Option Block) : List Stmt :=
  let els1 : Option Block := dropEmptyElse els
  let (kept, st) := retainBranches api branches {}
  if kept.isEmpty then
    match st.replaceElse with
    | some blk => if blockIsEmpty blk then [] else [.doBlock blk]
    | none =>
      match els1 with
      | some e => if blockIsEmpty e then [] else [.doBlock e]
      | none => []
  else
    if !st.keepNext then
      [.ifs kept st.replaceElse]
    else [.ifs kept els1]

/-- the closure of `retain_elseif_branches_mut` in `simplify_if` -/
def retainElifs (api : EvalApi) : List (Expr × Expr) → Retain Expr → List (Expr × Expr) × Retain Expr
  | [], st => ([], st)
  | (c, r) :: rest, st =>
    if !st.keepNext then retainElifs api rest st
    else
      match api.isTruthy c with
      | some true =>
        let st1 : Retain Expr := { st with keepNext := false }
        if api.hasSideEffects c then
          let (l, st2) := retainElifs api rest st1
          ((c, r) :: l, st2)
        else retainElifs api rest { st1 with replaceElse := some r }
      | some false =>
        if api.hasSideEffects c then
          let (l, st2) := retainElifs api rest st
          ((c, .nil) :: l, st2)
        else retainElifs api rest st
      | none =>
        let (l, st2) := retainElifs api rest st
        ((c, r) :: l, st2)

/-- `if can_return_multiple_values(result) { result.in_parentheses() } else { result }` -/
def wrap (api : EvalApi) (r : Expr) : Expr := if api.canReturnMultiple r then .paren r else r

/-- `simplify_if`: the expression that stands where `if c then t (elseif …)* else e` stood
(either the replacement or the `if` expression mutated in place) -/
def simplifyIf (api : EvalApi) (c t : Expr) : List (Expr × Expr) → Expr → Expr
  | elifs, e =>
    match api.isTruthy c with
    | some true =>
      if api.hasSideEffects c then .ifx c t [] .nil else wrap api t
    | some false =>
      if api.hasSideEffects c then .ifx c .nil elifs e
      else
        match elifs with
        | (c', t') :: rest => simplifyIf api c' t' rest e
        | [] => wrap api e
    | none =>
      let (elifs', st) := retainElifs api elifs {}
      if !st.keepNext then .ifx c t elifs' (st.replaceElse.getD .nil) else .ifx c t elifs' e

def processStmts (api : EvalApi) : List Stmt → List Stmt
  | [] => []
  | .ifs branches els :: rest => simplifyIfStatement api branches els ++ processStmts api rest
  | s :: rest => s :: processStmts api rest

def processBlock (api : EvalApi) : Block → Unit → Block × Unit
  | .mk stmts last, u => (.mk (processStmts api stmts) last, u)

def processExpr (api : EvalApi) : Expr → Expr
  | .ifx c t elifs e => simplifyIf api c t elifs e
  | x => x

def processor (api : EvalApi) : Processor Unit :=
  { block := processBlock api, expr := fun e u => (processExpr api e, u) }

/-- `flawless_process` -/
def apply (api : EvalApi) (b : Block) : Block := (Visitor.runDefault (processor api) b ()).1

end DarkluaModel.Rules.UnusedIfBranch
