import DarkluaModel.Shared.Sem
import DarkluaModel.Rules.NoAlloc
/-!
# The static evaluator as the default rules see it (`src/process/evaluator/mod.rs`)

The rules of C01 consult `Evaluator::{evaluate, has_side_effects, can_return_multiple_values}`
and `LuaValue::{is_truthy, to_expression}`. The evaluator itself is property C08's model; the
rule models here are written against this interface so that plugging the C08 model in is one
definition (`EvalApi` instance) plus one proof term (`EvalSound` from C08's theorems).

* `kind e`      — `evaluate(e)` with the payload of numbers dropped
* `toExpr e`    — `evaluate(e).to_expression()`
* `hasSideEffects e`, `canReturnMultiple e` — the two analyses
-/
namespace DarkluaModel.Rules

/-- `LuaValue` (`src/process/evaluator/lua_value.rs`) without the `f64` payload -/
inductive LuaKind where
  | false_ | function | nil | number | string (s : List UInt8) | table | true_ | unknown
  deriving DecidableEq, Repr, Inhabited

/-- `LuaValue::is_truthy` -/
def LuaKind.isTruthy : LuaKind → Option Bool
  | .unknown => none
  | .nil | .false_ => some false
  | _ => some true

structure EvalApi where
  kind : Expr → LuaKind
  toExpr : Expr → Option Expr
  hasSideEffects : Expr → Bool
  canReturnMultiple : Expr → Bool

/-- `Evaluator::can_return_multiple_values` — purely syntactic, so it is modelled here once
and every `EvalApi` instance uses it. -/
def canReturnMultiple : Expr → Bool
  | .call _ _ _ _ | .un _ _ | .vararg => true
  | .bin .and _ _ | .bin .or _ _ => false
  | .bin _ _ _ => true
  | _ => false

/-- `Expression::in_parentheses` -/
def inParens (e : Expr) : Expr := .paren e

/-- `evaluate(e).is_truthy()` -/
def EvalApi.isTruthy (api : EvalApi) (e : Expr) : Option Bool := (api.kind e).isTruthy

/-! ### expressions whose evaluation allocates nothing (no table constructor, no closure)

Dropping the evaluation of such an expression leaves the state *exactly* as it was; dropping
an allocating one changes the numbering of later tables/closures (unobservable, but not an
equality of states). The exact local lemmas carry `noAlloc` (`Rules/NoAlloc.lean`, shared with C08). -/

open Sem

/-- What the rules need from the evaluator, on a region `good` of expressions (C08 proves it
for the real evaluator on `H₈`; findings F1–F4 are outside). All statements are about the
reference semantics `Sem.evalE` over the number system `N`, in every context (C08's theorems are
relative to a number system that agrees with the evaluator's primitives).

* `truthy`: a definite truthiness is the truthiness of the (first) value, whenever the
  evaluation succeeds;
* `pure`: "no side effects" + no allocation ⇒ a successful evaluation leaves the state untouched;
* `str`: a definite string value is the value;
* `single`: "cannot return multiple values" ⇒ exactly one value. -/
structure EvalSound (N : NumOps) (api : EvalApi) (good : Expr → Prop) : Prop where
  truthy : ∀ (e : Expr) (b : Bool), good e → api.isTruthy e = some b →
    ∀ (call : CallFn N) (ρ : ExtOracle N) (k : Nat) (env : Env N) (σ σ' : State N) (vs : List (Val N)),
      evalE call ρ k env e σ = .ok vs σ' → (first vs).truthy = b
  pure : ∀ (e : Expr), good e → api.hasSideEffects e = false → noAlloc e = true →
    ∀ (call : CallFn N) (ρ : ExtOracle N) (k : Nat) (env : Env N) (σ σ' : State N) (vs : List (Val N)),
      evalE call ρ k env e σ = .ok vs σ' → σ' = σ
  str : ∀ (e : Expr) (s : List UInt8), good e → api.kind e = .string s →
    ∀ (call : CallFn N) (ρ : ExtOracle N) (k : Nat) (env : Env N) (σ σ' : State N) (vs : List (Val N)),
      evalE call ρ k env e σ = .ok vs σ' → first vs = .str s
  single : ∀ (e : Expr), good e → api.canReturnMultiple e = false →
    ∀ (call : CallFn N) (ρ : ExtOracle N) (k : Nat) (env : Env N) (σ σ' : State N) (vs : List (Val N)),
      evalE call ρ k env e σ = .ok vs σ' → vs = [first vs]

/-- A stronger contract, needed by the generic lifting theorem (which wants hooks that are exact
up to budget exhaustion, in EVERY context): a decided expression has that truthiness whenever
it evaluates; a decided expression WITHOUT side effects evaluates — unless the budget runs out —
successfully and leaves the state untouched. The real evaluator meets `pureTotal` only on
expressions that allocate nothing (`{}` is "pure" for it, yet allocates a table); `litApi` meets it. -/
structure EvalTotal (N : NumOps) (api : EvalApi) : Prop where
  decided : ∀ (e : Expr) (b : Bool), api.isTruthy e = some b →
    ∀ (call : CallFn N) (ρ : ExtOracle N) (k : Nat) (env : Env N) (σ σ' : State N) (vs : List (Val N)),
      evalE call ρ k env e σ = .ok vs σ' → (first vs).truthy = b
  pureTotal : ∀ (e : Expr) (b : Bool), api.isTruthy e = some b → api.hasSideEffects e = false →
    ∀ (call : CallFn N) (ρ : ExtOracle N) (k : Nat) (env : Env N) (σ : State N),
      evalE call ρ k env e σ = .timeout ∨ ∃ vs, evalE call ρ k env e σ = .ok vs σ
  single : ∀ (e : Expr), api.canReturnMultiple e = false →
    ∀ (call : CallFn N) (ρ : ExtOracle N) (k : Nat) (env : Env N) (σ σ' : State N) (vs : List (Val N)),
      evalE call ρ k env e σ = .ok vs σ' → vs = [first vs]

end DarkluaModel.Rules
