import DarkluaModel.Rules.RemoveCallMatch
/-!
# `remove_assertions` (`src/rules/remove_assertions.rs`)

`AssertMatcher::matches`: the callee is the identifier `assert` and `assert` is not in the
identifier tracker. `compute_result` (expression position — the `preserve_arguments_side_effects`
option is therefore ignored there): 0 arguments → `nil`; 1 → the argument itself; n ≥ 2 →
`select(1, a1, …, an)` where `select` is the reserved alias when one was captured.
`reserve_globals` = `select`.
-/
namespace DarkluaModel.Rules.RemoveAssertions
open RemoveCallMatch

/-- bits of `1.0` (`Expression::from(1)`) -/
def oneBits : UInt64 := 0x3FF0000000000000

def selectName (mappings : List (String × String)) : String :=
  (Sem.lookupAssoc "select" mappings).getD "select"

/-- `AssertMatcher::compute_result` (`Arguments::to_expressions` is the argument list in this AST) -/
def computeResult (_kind : ArgKind) (args : List Expr) (mappings : List (String × String)) : Option Expr :=
  match args with
  | [] => some .nil
  | [e] => some e
  | es => some (.call (.var (selectName mappings)) none .tuple (.num oneBits :: es))

/-- `AssertMatcher::matches` -/
def matchesPrefix (used : String → Bool) (prefix_ : Expr) : Bool :=
  if used "assert" then false
  else
    match prefix_ with
    | .var n => n == "assert"
    | _ => false

def matcher : Matcher where
  matchesPrefix := matchesPrefix
  computeResult := computeResult
  reserve := ["select"]
  hasResult := true
  watched := ["assert", "select"]

/-- `RemoveAssertions::flawless_process`; the flag says `has_side_effects` left the modelled fragment -/
def apply (preserve : Bool) (b : Block) : Block × Bool := RemoveCallMatch.apply matcher preserve b

end DarkluaModel.Rules.RemoveAssertions
