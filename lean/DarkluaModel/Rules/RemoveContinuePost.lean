import DarkluaModel.Rules.RemoveContinue
import DarkluaModel.Shared.VisitorSound.Heap.Refs
/-!
# `remove_continue`, a second model: the same rewrite described loop by loop (post-order)

`Rules/RemoveContinue.lean` mirrors the Rust hooks: `process_block` turns a block ending in `continue`
into `…; flag = true; break` as soon as it is visited, and `process_after_<loop>` adds the wrapper much
later — neither hook preserves the meaning of the node it is given by itself. This model keeps the SAME
state machine (loop frames, identifiers) but does all the rewriting when a loop is LEFT: the body (whose
nested loops are already rewritten) is converted (`convB`: every block of this loop level — through `if` and
`do`, not through nested loops or functions — that ends in `continue` gets `flag = true; break`) and, if
anything was converted, wrapped (`RemoveContinue.wrapBlock`). Each hook is then a meaning-preserving
rewrite of one statement, provable by the generic lifting. Two deliberate differences, both outside
the region where the theorem is claimed: a `repeat` loop is left alone (finding F9), and a loop whose
text already mentions its flag is left alone (the Rust rule would capture it).

The two models are compared with the REAL rule by the harness on every generated program inside
`postHyp` (`continue`s inside loops, no `repeat` loop that owns a `continue`; the harness also requires
that no identifier starts with `__DARKLUA_CONTINUE`); `C06.continue_models_agree` states their equality.
-/
namespace DarkluaModel.Rules.RemoveContinuePost
open DarkluaModel.Rules DarkluaModel.Rules.RemoveContinue

mutual
  /-- convert the blocks of this loop level that end in `continue`; the flag says whether any did -/
  def convB (id : Nat) : Block → Block × Bool
    | .mk ss (some .cont) => (.mk ((convSs id ss).1 ++ [setFlag id]) (some .brk), true)
    | .mk ss last => (.mk (convSs id ss).1 last, (convSs id ss).2)
  def convSs (id : Nat) : List Stmt → List Stmt × Bool
    | [] => ([], false)
    | s :: rest => ((convS id s).1 :: (convSs id rest).1, (convS id s).2 || (convSs id rest).2)
  def convS (id : Nat) : Stmt → Stmt × Bool
    | .doBlock b => (.doBlock (convB id b).1, (convB id b).2)
    | .ifs brs none => (.ifs (convBrs id brs).1 none, (convBrs id brs).2)
    | .ifs brs (some b) => (.ifs (convBrs id brs).1 (some (convB id b).1), (convBrs id brs).2 || (convB id b).2)
    | st => (st, false)
  def convBrs (id : Nat) : List (Expr × Block) → List (Expr × Block) × Bool
    | [] => ([], false)
    | (c, b) :: rest => ((c, (convB id b).1) :: (convBrs id rest).1, (convB id b).2 || (convBrs id rest).2)
end

/-- the loop neither references nor declares / assigns its flag -/
def flagFree (id : Nat) (loop : Stmt) : Bool :=
  !loop.refs (.ref (identifier id)) && !loop.refs (.wat (identifier id))

/-- the new body of a loop that is being left -/
def newBody (ld : LoopData) (loop : Stmt) (body : Block) : Block :=
  if (convB ld.id body).2 && flagFree ld.id loop then wrapBlock ⟨true, ld.id⟩ (convB ld.id body).1 else body

/-- `process_<loop>_statement` / `process_function_statement`: as in the Rust -/
def stmtNode : Stmt → State → Stmt × State := RemoveContinue.stmtNode

/-- leaving a statement: pop the frame; a `for` / `while` loop gets its new body -/
def afterStmtNode : Stmt → State → Stmt × State
  | .gfor names vs body, s =>
    match s.stack with
    | some ld :: rest => (.gfor names vs (newBody ld (.gfor names vs body) body), { s with stack := rest })
    | _ => (.gfor names vs body, popOnly s)
  | .nfor n a b step body, s =>
    match s.stack with
    | some ld :: rest => (.nfor n a b step (newBody ld (.nfor n a b step body) body), { s with stack := rest })
    | _ => (.nfor n a b step body, popOnly s)
  | .while_ c body, s =>
    match s.stack with
    | some ld :: rest => (.while_ c (newBody ld (.while_ c body) body), { s with stack := rest })
    | _ => (.while_ c body, popOnly s)
  | st@(.repeat_ ..), s => (st, popOnly s)
  | st@(.function ..), s => (st, popOnly s)
  | st, s => (st, s)

def processor : Processor State where
  stmtNode := stmtNode
  afterStmtNode := afterStmtNode
  node := RemoveContinue.node
  afterNode := RemoveContinue.afterNode

def apply (b : Block) : Block := (Visitor.runDefault processor b {}).1

/-! ### where the two models are claimed to agree -/

mutual
  /-- does a block of this loop level end in `continue`? (what `convB` would convert) -/
  def ownsB : Block → Bool
    | .mk ss (some .cont) => true
    | .mk ss _ => ownsSs ss
  def ownsSs : List Stmt → Bool
    | [] => false
    | s :: rest => ownsS s || ownsSs rest
  def ownsS : Stmt → Bool
    | .doBlock b => ownsB b
    | .ifs brs none => ownsBrs brs
    | .ifs brs (some b) => ownsBrs brs || ownsB b
    | _ => false
  def ownsBrs : List (Expr × Block) → Bool
    | [] => false
    | (_, b) :: rest => ownsB b || ownsBrs rest
end

mutual
  /-- no `repeat` loop owns a `continue` -/
  def nrcE : Expr → Bool
    | .paren e => nrcE e
    | .un _ e => nrcE e
    | .bin _ l r => nrcE l && nrcE r
    | .call f _ _ args => nrcE f && nrcEs args
    | .field e _ => nrcE e
    | .index e k => nrcE e && nrcE k
    | .fn body => nrcF body
    | .table es => nrcEntries es
    | .ifx c t elifs e => nrcE c && nrcE t && nrcPairs elifs && nrcE e
    | .interp segs => nrcSegs segs
    | .cast e _ => nrcE e
    | .inst e _ => nrcE e
    | .nil | .true | .false | .vararg | .num _ | .str _ | .var _ => true
  def nrcEs : List Expr → Bool
    | [] => true
    | e :: es => nrcE e && nrcEs es
  def nrcOE : Option Expr → Bool
    | none => true
    | some e => nrcE e
  def nrcPairs : List (Expr × Expr) → Bool
    | [] => true
    | (a, b) :: rest => nrcE a && nrcE b && nrcPairs rest
  def nrcEntries : List Entry → Bool
    | [] => true
    | .pos v :: es => nrcE v && nrcEntries es
    | .named _ v :: es => nrcE v && nrcEntries es
    | .keyed k v :: es => nrcE k && nrcE v && nrcEntries es
  def nrcSegs : List Seg → Bool
    | [] => true
    | .s _ :: es => nrcSegs es
    | .v e :: es => nrcE e && nrcSegs es
  def nrcF : FnBody → Bool
    | .mk _ _ _ _ _ _ body => nrcB body
  def nrcS : Stmt → Bool
    | .assign ts vs => nrcEs ts && nrcEs vs
    | .cassign _ t v => nrcE t && nrcE v
    | .callStmt c => nrcE c
    | .doBlock b => nrcB b
    | .function _ _ body => nrcF body
    | .gfor _ vs body => nrcEs vs && nrcB body
    | .nfor _ a b step body => nrcE a && nrcE b && nrcOE step && nrcB body
    | .ifs brs none => nrcBrs brs
    | .ifs brs (some b) => nrcBrs brs && nrcB b
    | .localAssign _ _ vs => nrcEs vs
    | .localFn _ _ body => nrcF body
    | .repeat_ b c => !ownsB b && nrcB b && nrcE c
    | .while_ c b => nrcE c && nrcB b
    | .typeDecl _ _ _ => true
    | .typeFn _ _ body => nrcF body
  def nrcBrs : List (Expr × Block) → Bool
    | [] => true
    | (c, b) :: rest => nrcE c && nrcB b && nrcBrs rest
  def nrcSs : List Stmt → Bool
    | [] => true
    | s :: ss => nrcS s && nrcSs ss
  def nrcL : Last → Bool
    | .ret es => nrcEs es
    | _ => true
  def nrcB : Block → Bool
    | .mk stmts none => nrcSs stmts
    | .mk stmts (some l) => nrcSs stmts && nrcL l
end

end DarkluaModel.Rules.RemoveContinuePost
