import DarkluaModel.Rules.Evaluator
import DarkluaModel.Shared.FloatOps
/-!
The executable `EvalOps` instance over IEEE doubles: what the Rust code really computes
(`f64::to_string`, `str::parse::<NumberExpression>` with Rust's
`f64`/`i64`/`u32`/`u64` parsers). Driver code only: no theorem mentions it (the theorems
quantify over every `NumOps` and every `EvalOps`). Tied to the Rust by the C08 correspondence.
-/
namespace DarkluaModel.Evaluator

/-! ### `f64::to_string`: shortest digits that round-trip, positional notation -/

/-- `⌊log₁₀ (num/den)⌋` for a positive rational -/
def floorLog10 (num den : Nat) : Int :=
  let approx : Int := ((Nat.log2 num : Int) - (Nat.log2 den : Int)) * 30103 / 100000
  let ge (x : Int) : Bool :=
    if x ≥ 0 then num ≥ den * 10 ^ x.toNat else num * 10 ^ (-x).toNat ≥ den
  (List.range 6).foldl (fun x _ => if ge (x + 1) then x + 1 else x) (approx - 2)

/-- the double nearest to `q · 10^scale` -/
def decToFloat (q : Nat) (scale : Int) : Float :=
  if scale ≥ 0 then ratToFloat (q * 10 ^ scale.toNat) 1 else ratToFloat q (10 ^ (-scale).toNat)

/-- shortest `(q, scale)` with `q · 10^scale` reading back as `x` (closest to `x` among the
shortest), for finite positive `x` -/
def shortestDigits (x : Float) : Nat × Int :=
  let (m, e) := floatDecompose x
  let (num, den) : Nat × Nat := if e ≥ 0 then (m * 2 ^ e.toNat, 1) else (m, 2 ^ (-e).toNat)
  let lg := floorLog10 num den
  let try_ (p : Nat) : Option (Nat × Int) :=
    let scale : Int := lg - ((p : Int) - 1)
    let (n2, d2) := if scale ≥ 0 then (num, den * 10 ^ scale.toNat) else (num * 10 ^ (-scale).toNat, den)
    let q0 := n2 / d2
    let r := n2 % d2
    let lowOk := q0 != 0 && (decToFloat q0 scale).toBits == x.toBits
    let highOk := (decToFloat (q0 + 1) scale).toBits == x.toBits
    if r == 0 && lowOk then some (q0, scale)
    else if lowOk && highOk then
      if 2 * r < d2 then some (q0, scale)
      else if 2 * r > d2 then some (q0 + 1, scale)
      else some (if q0 % 2 == 0 then q0 else q0 + 1, scale)
    else if lowOk then some (q0, scale)
    else if highOk then some (q0 + 1, scale)
    else none
  ((List.range 17).findSome? fun i => try_ (i + 1)).getD (m, e)

def stripZeros : Nat → Nat → Int → Nat × Int
  | 0, q, s => (q, s)
  | fuel + 1, q, s => if q != 0 && q % 10 == 0 then stripZeros fuel (q / 10) (s + 1) else (q, s)

/-- Rust `f64::to_string` (`Display`, no precision) -/
def fmtRustFloat (x : Float) : List UInt8 :=
  if x.isNaN then "NaN".toUTF8.toList
  else
    let neg := x.toBits ≥ 2 ^ 63
    let ax := if neg then -x else x
    let body : List UInt8 :=
      if ax.isInf then "inf".toUTF8.toList
      else if ax == 0.0 then [48]
      else
        let (q0, s0) := shortestDigits ax
        let (q, s) := stripZeros 400 q0 s0
        let ds := natDigits q
        if s ≥ 0 then ds ++ List.replicate s.toNat 48
        else
          let k := (-s).toNat
          if ds.length > k then ds.take (ds.length - k) ++ [46] ++ ds.drop (ds.length - k)
          else [48, 46] ++ List.replicate (k - ds.length) 48 ++ ds
    if neg then 45 :: body else body

/-! ### `impl FromStr for NumberExpression` and the Rust number parsers it calls -/

def lowerB (b : UInt8) : UInt8 := if 65 ≤ b && b ≤ 90 then b + 32 else b

def digitsVal (ds : List UInt8) : Nat := ds.foldl (fun acc b => acc * 10 + (b.toNat - 48)) 0

/-- `<f64 as FromStr>::from_str` (dec2flt): sign, `inf`/`infinity`/`nan` (any case), or
`digits [. digits] [e sign digits]` with at least one digit in the mantissa; correctly rounded -/
def rustParseF64 (s : List UInt8) : Option Float :=
  let (neg, s) := match s with
    | 45 :: r => (true, r)
    | 43 :: r => (false, r)
    | r => (false, r)
  let sign (f : Float) : Float := if neg then -f else f
  let lower := s.map lowerB
  if lower == "inf".toUTF8.toList || lower == "infinity".toUTF8.toList then some (sign (1.0 / 0.0))
  else if lower == "nan".toUTF8.toList then some (sign (Float.ofBits 0x7FF8000000000000))
  else
    let intDs := s.takeWhile isDigitB
    let r1 := s.dropWhile isDigitB
    let (fracDs, r2) := match r1 with
      | 46 :: r => (r.takeWhile isDigitB, r.dropWhile isDigitB)
      | r => ([], r)
    if intDs.isEmpty && fracDs.isEmpty then none else
    let expPart : Option Int := match r2 with
      | [] => some 0
      | c :: r =>
        if c == 101 || c == 69 then
          let (eneg, r) := match r with
            | 45 :: r' => (true, r')
            | 43 :: r' => (false, r')
            | r' => (false, r')
          if r.isEmpty || !r.all isDigitB then none
          else some (if eneg then -(digitsVal r : Int) else (digitsVal r : Int))
        else none
    match expPart with
    | none => none
    | some ex =>
      let digits := digitsVal (intDs ++ fracDs)
      let e10 : Int := ex - (fracDs.length : Int)
      -- magnitude ≈ 10^(number of digits + e10): clamp what is certainly 0 or inf
      let mag : Int := ((intDs ++ fracDs).dropWhile (· == 48)).length + e10
      if digits == 0 then some (sign 0.0)
      else if mag > 400 then some (sign (1.0 / 0.0))
      else if mag < -400 then some (sign 0.0)
      else some (sign (decToFloat digits e10))

/-- `<i64 as FromStr>` -/
def rustParseI64 (s : List UInt8) : Option Int :=
  let (neg, ds) := match s with
    | 45 :: r => (true, r)
    | 43 :: r => (false, r)
    | r => (false, r)
  if ds.isEmpty || !ds.all isDigitB then none
  else
    let v := digitsVal ds
    if neg then (if v ≤ 2 ^ 63 then some (-(v : Int)) else none)
    else (if v < 2 ^ 63 then some (v : Int) else none)

/-- `<u32 as FromStr>` -/
def rustParseU32 (s : List UInt8) : Option Nat :=
  let ds := match s with
    | 43 :: r => r
    | r => r
  if ds.isEmpty || !ds.all isDigitB then none
  else
    let v := digitsVal ds
    if v < 2 ^ 32 then some v else none

/-- `u64::from_str_radix(s, radix)` for radix 2 and 16 -/
def rustU64Radix (radix : Nat) (s : List UInt8) : Option Nat :=
  let ds := match s with
    | 43 :: r => r
    | r => r
  if ds.isEmpty then none
  else
    match ds.foldlM (fun acc b => (hexValB? b).bind fun d => if d < radix then some (acc * radix + d) else none) 0 with
    | some v => if v < 2 ^ 64 then some v else none
    | none => none

def filterUnderscore (s : List UInt8) : List UInt8 := s.filter (· != 95)

def findByte (b : UInt8) : List UInt8 → Option Nat
  | [] => none
  | c :: rest => if c == b then some 0 else (findByte b rest).map (· + 1)

def containsSub (pat : List UInt8) : List UInt8 → Bool
  | [] => pat.isEmpty
  | c :: rest => pat.isPrefixOf (c :: rest) || containsSub pat rest

/-- position and value of the second byte that is not `_` -/
def secondNonUnderscore (s : List UInt8) : Option (Nat × UInt8) :=
  let idx := (s.zipIdx.filter fun (c, _) => c != 95)
  match idx with
  | _ :: (c, i) :: _ => some (i, c)
  | _ => none

/-- `text.parse::<NumberExpression>().ok().map(|n| n.compute_value())`. -/
def parseLitFloat (value : List UInt8) : Option Float :=
  let startsWithZero := value.head? == some 48
  let second := secondNonUnderscore value
  let isNotation (c : UInt8) : Bool := c == 120 || c == 88 || c == 98 || c == 66
  match startsWithZero, second with
  | true, some (position, c) =>
    if isNotation c then
      if c == 120 || c == 88 then
        match (findByte 112 value).orElse (fun _ => findByte 80 value) with
        | some index =>
          match rustParseU32 (value.drop (index + 1)), rustU64Radix 16 ((value.take index).drop (position + 1)) with
          | some ex, some n =>
            -- `HexNumber::compute_value`: `if integer == 0 { 0.0 } else { integer as f64 * 2_f64.powf(exponent as f64) }`
            some (if n == 0 then 0.0 else ratToFloat n 1 * Float.pow 2.0 (Float.ofNat ex))
          | _, _ => none
        | none => (rustU64Radix 16 (filterUnderscore (value.drop (position + 1)))).map fun n => ratToFloat n 1
      else (rustU64Radix 2 (filterUnderscore (value.drop (position + 1)))).map fun n => ratToFloat n 1
    else decimal value
  | _, _ => decimal value
where
  decimal (value : List UInt8) : Option Float :=
    if [46, 95].isPrefixOf value then none
    else
      match (findByte 101 value).orElse (fun _ => findByte 69 value) with
      | some index =>
        if containsSub [95, 45] value || containsSub [95, 43] value then none
        else
          match rustParseI64 (filterUnderscore (value.drop (index + 1))),
                rustParseF64 (filterUnderscore (value.take index)) with
          | some _, some _ => rustParseF64 (filterUnderscore value)
          | _, _ => none
      | none => rustParseF64 (filterUnderscore value)

/-- what darklua computes, over doubles -/
def floatEvalOps : EvalOps floatOps where
  fmtRust := fmtRustFloat
  parseLit := parseLitFloat

end DarkluaModel.Evaluator
