import DarkluaModel.Rules.UnusedVariableHeapV4
/-!
# `remove_unused_variable` — unused declarations with several values, kept NON-call values included

`local a, b, c = t.k, f(), t[1]` (all names unused; `t.k`, `t[1]` effectful for the evaluator) becomes
`do local _ = t.k  f()  local _ = t[1] end` (after the fixes 43be447 / F25): calls become call statements,
consecutive kept non-call values are collected in one `local _ = …`, a kept non-call value that a LATER kept
value could see through `_` gets its own `do local _ = v end`, values without side effects are dropped.
`mkStmts` builds that statement list; `mk_rel` relates the evaluation of ALL values on the left with its execution
on the right (`_` dead, the cells bound to `_` garbage); `localToStmts_sound` is the leaf.
Guard: dropped values allocation-only, no value references `_`, the declared names are not `_`.
-/
namespace DarkluaModel.Sem.HeapV
open Heap (refNames tailRefs)
open DarkluaModel.Rules.UnusedVariable (getInner usedInExpr)
open DarkluaModel.Rules.UnusedVariable.GuardedV2 (isCall)

variable {Q : QRel} {D : List DName}

/-- the control result of the right side is `next` (the left side's is ignored) -/
def ANext {N : NumOps} : ARel (Ctl N) := fun _ _ c' => ∃ e, c' = .next e

/-- `local _ = g` -/
def discardLocal (g : List Expr) : Stmt := .localAssign .loc [.mk "_" none] g

def flushL : List Expr → List Stmt
  | [] => []
  | x :: xs => [discardLocal (x :: xs)]

/-- the statements for the values `vs` (`keep` = has side effects for the evaluator), `g` = the inner values of the
open `local _` group -/
def mkStmts (keep : Expr → Bool) : List Expr → List Expr → List Stmt
  | [], g => flushL g
  | v :: rest, g =>
    if keep v then
      if isCall (getInner v) then flushL g ++ .callStmt (getInner v) :: mkStmts keep rest []
      else if (rest.filter keep).any (usedInExpr "_") then flushL g ++ doDiscard (getInner v) :: mkStmts keep rest []
      else mkStmts keep rest (g ++ [getInner v])
    else mkStmts keep rest g

/-- dropped values are allocation-only -/
def dropsOK (keep : Expr → Bool) : List Expr → Bool
  | [] => true
  | v :: vs => (keep v || v.allocPure) && dropsOK keep vs

theorem runU_append {N : NumOps} (call : CallFn N) (ρ : ExtOracle N) (k : Nat) (env : Env N) :
    ∀ (a b : List Expr) (σ : State N),
      runU call ρ k env (a ++ b) σ = (runU call ρ k env a σ).bind fun _ s => runU call ρ k env b s
  | [], b, σ => by simp [runU, Res.bind]
  | x :: a, b, σ => by
    simp only [List.cons_append, runU]
    cases evalE call ρ k env x σ with
    | timeout => rfl
    | err v s => rfl
    | ok vs σ1 => simp only [Res.bind]; exact runU_append call ρ k env a b σ1

/-- the values `gl` evaluated on the left have the effects of `g` evaluated on the right (`_` dead) -/
def GOK (Q : QRel) (D : List DName) (gl g : List Expr) : Prop :=
  ∀ (N : NumOps) (call : CallFn N) (ρ : ExtOracle N) (k : Nat) (env env' : Env N) (σ σ' : State N) (β : Inj),
    POK Q call ρ → SRel Q β σ σ' → EnvOK β D env env' →
      RRel Q β (ATrue (α := Unit)) (runU call ρ k env gl σ) (runU call ρ k env' g σ')

theorem GOK.nil : GOK Q D [] [] := fun N call ρ k env env' σ σ' β _ hs _ => by
  simp only [runU]; exact RRel.ok (A := ATrue) trivial hs

theorem GOK.snocKept {gl g : List Expr} {v w : Expr} (h : GOK Q D gl g) (hv : EffE Q D v w) :
    GOK Q D (gl ++ [v]) (g ++ [w]) := fun N call ρ k env env' σ σ' β hp hs he => by
  rw [runU_append, runU_append]
  refine RRel.bind (h N call ρ k env env' σ σ' β hp hs he) fun β1 hle _ _ _ s s' hs1 => ?_
  simp only [runU]
  exact RRel.bind (hv N call ρ k env env' s s' β1 hp hs1 (he.mono hle)) fun _ _ _ _ _ _ _ hs2 =>
    RRel.ok (A := ATrue) trivial hs2

theorem GOK.snocDropped {gl g : List Expr} {v : Expr} (h : GOK Q D gl g) (hv : v.allocPure = true) :
    GOK Q D (gl ++ [v]) g := fun N call ρ k env env' σ σ' β hp hs he => by
  rw [runU_append]
  have hr : runU call ρ k env' g σ' = (runU call ρ k env' g σ').bind fun _ s => Res.ok () s := by
    cases runU call ρ k env' g σ' <;> rfl
  rw [hr]
  refine RRel.bind (h N call ρ k env env' σ σ' β hp hs he) fun β1 _ _ _ _ s s' hs1 => ?_
  obtain ⟨ws, s1, hw, hx⟩ := allocPure_sound v hv N call ρ k env s
  simp only [runU, hw, Res.bind]
  exact RRel.ok (A := ATrue) trivial (hs1.extLeft hx)

section
variable {N : NumOps} (call : CallFn N) (ρ : ExtOracle N) (k : Nat)

theorem execSs_discardLocal (env : Env N) (x : Expr) (xs : List Expr) (tail : List Stmt) (σ : State N) :
    execSs call ρ k env (discardLocal (x :: xs) :: tail) σ =
      (evalEs call ρ k env (x :: xs) σ).bind fun vals s1 =>
        execSs call ρ k { env with locals := (bindLocals ["_"] vals env.locals s1).1 } tail
          (bindLocals ["_"] vals env.locals s1).2 := by
  simp only [execSs, execS, discardLocal]
  cases evalEs call ρ k env (x :: xs) σ <;> simp [Res.bind, TName.name]

theorem execSs_callStmt (env : Env N) (c : Expr) (tail : List Stmt) (σ : State N) :
    execSs call ρ k env (.callStmt c :: tail) σ =
      (evalE call ρ k env c σ).bind fun _ s1 => execSs call ρ k env tail s1 := by
  simp only [execSs, execS]
  cases evalE call ρ k env c σ <;> simp [Res.bind]

theorem execSs_doDiscard (env : Env N) (w : Expr) (tail : List Stmt) (σ : State N) :
    execSs call ρ k env (doDiscard w :: tail) σ =
      (evalE call ρ k env w σ).bind fun ws s1 =>
        execSs call ρ k env tail (bindLocals ["_"] ws env.locals s1).2 := by
  simp only [execSs, execS_doDiscard]
  cases evalE call ρ k env w σ <;> simp [Res.bind]

/-- a block of statements, then `rest` -/
theorem execSs_doBlock (env : Env N) (ss rest : List Stmt) (σ : State N) :
    execSs call ρ k env (.doBlock (.mk ss none) :: rest) σ =
      (execSs call ρ k env ss σ).bind fun c s =>
        match c with
        | .next _ => execSs call ρ k env rest s
        | .cont _ => .ok (.cont env) s
        | other => .ok other s := by
  simp only [execSs, execS, execB]
  cases execSs call ρ k env ss σ with
  | timeout => rfl
  | err v s => rfl
  | ok c s => cases c <;> simp [Res.bind]
end

/-- the dead set inside the block: `_` is dead -/
abbrev withDiscard (D : List DName) : List DName := DName.ref "_" :: D

/-- **flush**: the open group (evaluated on the left) against its `local _ = …` on the right, then related
continuations -/
theorem flush_rel {gl g : List Expr} (hG : GOK Q (withDiscard D) gl g) (tail : List Stmt)
    {N : NumOps} {call : CallFn N} {ρ : ExtOracle N} {k : Nat} {env env' : Env N} {σ σ' : State N} {β : Inj}
    (hp : POK Q call ρ) (hs : SRel Q β σ σ') (he : EnvOK β (withDiscard D) env env')
    (KL : State N → Res N (Ctl N))
    (hK : ∀ β1, β.le β1 → ∀ (env'' : Env N) (s s' : State N), SRel Q β1 s s' → EnvOK β1 (withDiscard D) env env'' →
      RRel Q β1 ANext (KL s) (execSs call ρ k env'' tail s')) :
    RRel Q β ANext ((runU call ρ k env gl σ).bind fun _ s => KL s) (execSs call ρ k env' (flushL g ++ tail) σ') := by
  have h0 := hG N call ρ k env env' σ σ' β hp hs he
  cases g with
  | nil =>
    simp only [flushL, List.nil_append]
    simp only [runU] at h0
    show RRel Q β ANext _ ((Res.ok () σ').bind fun _ s' => execSs call ρ k env' tail s')
    exact RRel.bind h0 fun β1 hle _ _ _ s s' hs1 => hK β1 hle env' s s' hs1 (he.mono hle)
  | cons x xs =>
    simp only [flushL, List.cons_append, List.nil_append, execSs_discardLocal]
    rw [← evalEs_runU call ρ k env' (x :: xs) σ'] at h0
    revert h0
    generalize runU call ρ k env gl σ = r
    generalize evalEs call ρ k env' (x :: xs) σ' = r'
    intro h0
    cases r <;> cases r' <;> simp only [RRel, Res.bind] at h0 ⊢
    all_goals try (first | exact h0 | trivial)
    · rename_i u s1 vals s1'
      obtain ⟨β1, h1, _, h3⟩ := h0
      have he1 := he.mono h1
      have hr := h3.bindLocalsRight (D := withDiscard D) ["_"]
        (fun n hn => by simp only [List.mem_singleton] at hn; subst hn; exact List.mem_cons_self) vals he1.loc
      exact RRel.mono h1 (hK β1 h1 _ s1 _ hr.1 ⟨he1.va, hr.2⟩)

/-- **relational core**: all values evaluated on the left, the statements of `mkStmts` executed on the right -/
theorem mk_rel (hq : QRefl Q) (keep : Expr → Bool) : ∀ (vs gl g : List Expr), dropsOK keep vs = true →
    NoRefEs (withDiscard D) vs → GOK Q (withDiscard D) gl g →
    ∀ (N : NumOps) (call : CallFn N) (ρ : ExtOracle N) (k : Nat) (env env' : Env N) (σ σ' : State N) (β : Inj),
      POK Q call ρ → SRel Q β σ σ' → EnvOK β (withDiscard D) env env' →
        RRel Q β ANext ((runU call ρ k env (gl ++ vs) σ).bind fun _ s => Res.ok (Ctl.next env) s)
          (execSs call ρ k env' (mkStmts keep vs g) σ')
  | [], gl, g, _, _, hG => fun N call ρ k env env' σ σ' β hp hs he => by
    simp only [List.append_nil, mkStmts]
    have := flush_rel (D := D) (k := k) hG [] hp hs he (fun s => Res.ok (Ctl.next env) s) (fun β1 _ env'' s s' hs1 _ => by
      simp only [execSs]; exact RRel.ok (A := ANext) ⟨env'', rfl⟩ hs1)
    simpa using this
  | v :: rest, gl, g, hok, hn, hG => fun N call ρ k env env' σ σ' β hp hs he => by
    simp only [dropsOK, Bool.and_eq_true, Bool.or_eq_true] at hok
    have hn2 := NoRefEs.cons.mp hn
    have hassoc : gl ++ v :: rest = (gl ++ [v]) ++ rest := by simp
    -- the left side: the group, then `v`, then the rest
    have hleft : (runU call ρ k env (gl ++ v :: rest) σ).bind (fun _ s => Res.ok (Ctl.next env) s) =
        (runU call ρ k env gl σ).bind fun _ s =>
          (evalE call ρ k env v s).bind fun _ s2 =>
            (runU call ρ k env rest s2).bind fun _ s3 => Res.ok (Ctl.next env) s3 := by
      rw [runU_append]
      cases runU call ρ k env gl σ with
      | timeout => rfl
      | err x s => rfl
      | ok u s =>
        simp only [Res.bind, runU]
        cases evalE call ρ k env v s <;> rfl
    by_cases hk : keep v = true
    · have heff := effE_inner (D := withDiscard D) hq v hn2.1
      by_cases hc : isCall (getInner v) = true
      · simp only [mkStmts, hk, hc, if_true]
        rw [hleft]
        refine flush_rel (D := D) (k := k) hG _ hp hs he _ fun β1 hle env'' s s' hs1 he1 => ?_
        rw [execSs_callStmt]
        refine RRel.bind (heff N call ρ k env env'' s s' β1 hp hs1 he1) fun β2 hle2 _ _ _ s2 s2' hs2 => ?_
        have := mk_rel hq keep rest [] [] hok.2 hn2.2 GOK.nil N call ρ k env env'' s2 s2' β2 hp hs2 (he1.mono hle2)
        simpa using this
      · have hc' : isCall (getInner v) = false := by simpa using hc
        by_cases hl : (rest.filter keep).any (usedInExpr "_") = true
        · simp only [mkStmts, hk, hc', hl, if_true, Bool.false_eq_true, if_false]
          rw [hleft]
          refine flush_rel (D := D) (k := k) hG _ hp hs he _ fun β1 hle env'' s s' hs1 he1 => ?_
          rw [execSs_doDiscard]
          refine RRel.bind (heff N call ρ k env env'' s s' β1 hp hs1 he1) fun β2 hle2 _ ws' _ s2 s2' hs2 => ?_
          have he2 := he1.mono hle2
          have hr := hs2.bindLocalsRight (D := withDiscard D) ["_"]
            (fun n hn => by simp only [List.mem_singleton] at hn; subst hn; exact List.mem_cons_self) ws' he2.loc
          have := mk_rel hq keep rest [] [] hok.2 hn2.2 GOK.nil N call ρ k env env'' s2 _ β2 hp hr.1 he2
          simpa using this
        · have hl' : (rest.filter keep).any (usedInExpr "_") = false := by simpa using hl
          simp only [mkStmts, hk, hc', hl', if_true, Bool.false_eq_true, if_false]
          rw [hassoc]
          exact mk_rel hq keep rest (gl ++ [v]) (g ++ [getInner v]) hok.2 hn2.2 (hG.snocKept heff)
            N call ρ k env env' σ σ' β hp hs he
    · have hk' : keep v = false := by simpa using hk
      have hap : v.allocPure = true := by
        rcases hok.1 with h | h
        · rw [hk'] at h; cases h
        · exact h
      simp only [mkStmts, hk', Bool.false_eq_true, if_false]
      rw [hassoc]
      exact mk_rel hq keep rest (gl ++ [v]) g hok.2 hn2.2 (hG.snocDropped hap) N call ρ k env env' σ σ' β hp hs he

/-- **leaf**: `local ns = vs; rest` against `do <mkStmts vs> end; rest'` when the names are dead in the rest -/
theorem localToStmts_sound (hq : QRefl Q) (keep : Expr → Bool) {D' : List DName} {kind : LocalKind} {ns : List TName}
    {vs : List Expr} {rest rest' : List Stmt} (hok : dropsOK keep vs = true) (hn : NoRefEs (withDiscard D) vs)
    (hrest : SoundSs Q (refNames ns ++ D) rest rest' D') :
    SoundSs Q D (.localAssign kind ns vs :: rest) (.doBlock (.mk (mkStmts keep vs []) none) :: rest') D' :=
  ⟨(DSub.refs _ D).trans hrest.1, fun N call ρ k env env' σ σ' β hp hs he => by
    have he_ : EnvOK β (withDiscard D) env env' := he.weaken fun x hx => List.mem_cons_of_mem _ hx
    have hrel := mk_rel hq keep vs [] [] hok hn GOK.nil N call ρ k env env' σ σ' β hp hs he_
    simp only [List.nil_append] at hrel
    rw [execSs_doBlock]
    rw [← evalEs_runU] at hrel
    simp only [execSs, execS]
    revert hrel
    generalize evalEs call ρ k env vs σ = r
    generalize execSs call ρ k env' (mkStmts keep vs []) σ' = r'
    intro hrel
    cases r <;> cases r' <;> simp only [RRel, Res.bind] at hrel ⊢
    all_goals try (first | exact hrel | trivial)
    · rename_i ws σ1 c' σ1'
      obtain ⟨β1, h1, ⟨e, hc⟩, h3⟩ := hrel
      subst hc
      have he1 := he.mono h1
      have hb := h3.bindLocalsLeft (D := refNames ns ++ D) (ns.map TName.name) refNames_mem ws
        (he1.loc.weaken (DSub.refs _ D))
      exact RRel.mono h1 (hrest.2 N call ρ k _ _ _ _ _ hp hb.1 ⟨he1.va, hb.2⟩)⟩

/-! ### the statement introduces no reference -/

theorem noRefSs_flushL {g : List Expr} (hw : WOK D) (h : NoRefEs D g) : NoRefSs D (flushL g) := by
  cases g with
  | nil => exact fun _ _ => rfl
  | cons x xs =>
    exact NoRefSs.cons.mpr ⟨NoRefS.localAssign.mpr ⟨NoWat.cons.mpr ⟨hw "_", fun _ _ => rfl⟩, h⟩, fun _ _ => rfl⟩

theorem noRefEs_snoc {g : List Expr} {w : Expr} (hg : NoRefEs D g) (hw : NoRefE D w) : NoRefEs D (g ++ [w]) := by
  induction g with
  | nil => exact NoRefEs.cons.mpr ⟨hw, fun _ _ => rfl⟩
  | cons x xs ih =>
    have h2 := NoRefEs.cons.mp hg
    exact NoRefEs.cons.mpr ⟨h2.1, ih h2.2⟩

theorem noRefSs_mkStmts (hw : WOK D) (keep : Expr → Bool) : ∀ (vs g : List Expr), NoRefEs D vs → NoRefEs D g →
    NoRefSs D (mkStmts keep vs g)
  | [], g, _, hg => by simp only [mkStmts]; exact noRefSs_flushL hw hg
  | v :: rest, g, hv, hg => by
    have h2 := NoRefEs.cons.mp hv
    have hi := noRefE_inner v h2.1
    have hnil : NoRefEs D ([] : List Expr) := fun _ _ => rfl
    simp only [mkStmts]
    split
    · split
      · exact Heap.NoRefSs.append.mpr ⟨noRefSs_flushL hw hg,
          NoRefSs.cons.mpr ⟨NoRefS.callStmt.mpr hi, noRefSs_mkStmts hw keep rest [] h2.2 hnil⟩⟩
      · split
        · exact Heap.NoRefSs.append.mpr ⟨noRefSs_flushL hw hg,
            NoRefSs.cons.mpr ⟨noRefS_doDiscard hw hi, noRefSs_mkStmts hw keep rest [] h2.2 hnil⟩⟩
        · exact noRefSs_mkStmts hw keep rest (g ++ [getInner v]) h2.2 (noRefEs_snoc hg hi)
    · exact noRefSs_mkStmts hw keep rest g h2.2 hg

/-- the replacement statement -/
def stmtsBlock (keep : Expr → Bool) (vs : List Expr) : Stmt := .doBlock (.mk (mkStmts keep vs []) none)

theorem noRefS_stmtsBlock (hw : WOK D) (keep : Expr → Bool) {vs : List Expr} (h : NoRefEs D vs) :
    NoRefS D (stmtsBlock keep vs) :=
  NoRefS.doBlock.mpr (NoRefB.none.mpr (noRefSs_mkStmts hw keep vs [] h fun _ _ => rfl))

/-- no value references `_` -/
def noDiscardRefs : List Expr → Bool
  | [] => true
  | v :: vs => !v.refs (.ref "_") && noDiscardRefs vs

theorem noRefEs_withDiscard : ∀ (vs : List Expr), noDiscardRefs vs = true → NoRefEs D vs → NoRefEs (withDiscard D) vs
  | [], _, _ => fun _ _ => rfl
  | v :: vs, h, hn => by
    simp only [noDiscardRefs, Bool.and_eq_true, Bool.not_eq_true'] at h
    have h2 := NoRefEs.cons.mp hn
    refine NoRefEs.cons.mpr ⟨fun x hx => ?_, noRefEs_withDiscard vs h.2 h2.2⟩
    rcases List.mem_cons.mp hx with rfl | hx
    · exact h.1
    · exact h2.1 x hx

theorem VkB.localToStmts (keep : Expr → Bool) {pre rest : List Stmt} {last : Option Last} {kind : LocalKind}
    {ns : List TName} {vs : List Expr} (hok : dropsOK keep vs = true) (hnd : noDiscardRefs vs = true)
    (hx : ∀ n ∈ ns.map TName.name, tailRefs n rest last = false) :
    VkB (.mk (pre ++ .localAssign kind ns vs :: rest) last) (.mk (pre ++ stmtsBlock keep vs :: rest) last) := by
  intro D hw hn
  have hx1 : ∀ n ∈ ns.map TName.name, Stmt.refsList (.ref n) rest = false := fun n h => by
    have := hx n h; simp only [tailRefs, Bool.or_eq_false_iff] at this; exact this.1
  cases last with
  | none =>
    have h1 := Heap.NoRefSs.append.mp (NoRefB.none.mp hn)
    have h2 := NoRefSs.cons.mp h1.2
    have he : NoRefEs D vs := (NoRefS.localAssign.mp h2.1).2
    exact ⟨⟨_, .blockNone (.ssPrefix pre h1.1 (.genSs fun Q hq =>
        localToStmts_sound hq keep hok (noRefEs_withDiscard vs hnd he)
          (reflSs hq rest _ (Heap.NoRefSs.consName h2.2 hx1))))⟩,
      NoRefB.none.mpr (Heap.NoRefSs.append.mpr ⟨h1.1, NoRefSs.cons.mpr ⟨noRefS_stmtsBlock hw keep he, h2.2⟩⟩)⟩
  | some l =>
    have h0 := NoRefB.some.mp hn
    have h1 := Heap.NoRefSs.append.mp h0.1
    have h2 := NoRefSs.cons.mp h1.2
    have he : NoRefEs D vs := (NoRefS.localAssign.mp h2.1).2
    have hx2 : ∀ n ∈ ns.map TName.name, l.refs (.ref n) = false := fun n h => by
      have := hx n h; simp only [tailRefs, Bool.or_eq_false_iff] at this; exact this.2
    exact ⟨⟨_, .blockSome (.ssPrefix pre h1.1 (.genSs fun Q hq =>
        localToStmts_sound hq keep hok (noRefEs_withDiscard vs hnd he)
          (reflSs hq rest _ (Heap.NoRefSs.consName h2.2 hx1))))
        (.reflL (Heap.NoRefL.consName h0.2 hx2))⟩,
      NoRefB.some.mpr ⟨Heap.NoRefSs.append.mpr ⟨h1.1, NoRefSs.cons.mpr ⟨noRefS_stmtsBlock hw keep he, h2.2⟩⟩, h0.2⟩⟩

theorem VkRep.localToStmts (keep : Expr → Bool) {pre rest : List Stmt} {last : Option Last} {kind : LocalKind}
    {ns : List TName} {vs : List Expr} {c : Expr} (hok : dropsOK keep vs = true) (hnd : noDiscardRefs vs = true)
    (hx : ∀ n ∈ ns.map TName.name, tailRefs n rest last = false)
    (hc : ∀ n ∈ ns.map TName.name, c.refs (.ref n) = false) :
    VkRep (.mk (pre ++ .localAssign kind ns vs :: rest) last, c) (.mk (pre ++ stmtsBlock keep vs :: rest) last, c) := by
  intro D hw hnb hnc
  have hx1 : ∀ n ∈ ns.map TName.name, Stmt.refsList (.ref n) rest = false := fun n h => by
    have := hx n h; simp only [tailRefs, Bool.or_eq_false_iff] at this; exact this.1
  cases last with
  | none =>
    have h1 := Heap.NoRefSs.append.mp (NoRefB.none.mp hnb)
    have h2 := NoRefSs.cons.mp h1.2
    have he : NoRefEs D vs := (NoRefS.localAssign.mp h2.1).2
    exact ⟨.rep (.blockNone (.ssPrefix pre h1.1 (.genSs fun Q hq =>
        localToStmts_sound hq keep hok (noRefEs_withDiscard vs hnd he)
          (reflSs hq rest _ (Heap.NoRefSs.consName h2.2 hx1)))))
        (.reflE (Heap.NoRefE.consName hnc hc)),
      NoRefB.none.mpr (Heap.NoRefSs.append.mpr ⟨h1.1, NoRefSs.cons.mpr ⟨noRefS_stmtsBlock hw keep he, h2.2⟩⟩), hnc⟩
  | some l =>
    have h0 := NoRefB.some.mp hnb
    have h1 := Heap.NoRefSs.append.mp h0.1
    have h2 := NoRefSs.cons.mp h1.2
    have he : NoRefEs D vs := (NoRefS.localAssign.mp h2.1).2
    have hx2 : ∀ n ∈ ns.map TName.name, l.refs (.ref n) = false := fun n h => by
      have := hx n h; simp only [tailRefs, Bool.or_eq_false_iff] at this; exact this.2
    exact ⟨.rep (.blockSome (.ssPrefix pre h1.1 (.genSs fun Q hq =>
        localToStmts_sound hq keep hok (noRefEs_withDiscard vs hnd he)
          (reflSs hq rest _ (Heap.NoRefSs.consName h2.2 hx1))))
          (.reflL (Heap.NoRefL.consName h0.2 hx2))) (.reflE (Heap.NoRefE.consName hnc hc)),
      NoRefB.some.mpr ⟨Heap.NoRefSs.append.mpr ⟨h1.1, NoRefSs.cons.mpr ⟨noRefS_stmtsBlock hw keep he, h2.2⟩⟩, h0.2⟩, hnc⟩

end DarkluaModel.Sem.HeapV

namespace DarkluaModel.Rules.UnusedVariable.GuardedV5
open DarkluaModel.Sem DarkluaModel.Sem.HeapV DarkluaModel.Rules DarkluaModel.Rules.UnusedVariable
open DarkluaModel.Sem.Heap (tailRefs)

/-- the statement list is neither empty nor a single call / block (those the rule does not wrap) -/
def wrapOK : List Stmt → Bool
  | [] => false
  | [.callStmt _] => false
  | [.doBlock _] => false
  | _ => true

/-- an unused declaration with several values, kept non-call values included: dropped values allocation-only, no
value mentions `_`, the names are not `_` and not referenced afterwards -/
def stmtsOK (api : EvalApi) (last : Option Last) (inExtra : List String) (cr : String → Bool) (s : Stmt)
    (rest : List Stmt) : Bool :=
  match s with
  | .localAssign _ ns vs =>
    !ns.isEmpty &&
    ((tnames ns).map fun id => isUsedAfter id rest last inExtra).all (!·) &&
    dropsOK api.hasSideEffects vs && noDiscardRefs vs && !(tnames ns).contains "_" &&
    wrapOK (mkStmts api.hasSideEffects vs []) &&
    (ns.map TName.name).all (fun n => !tailRefs n rest last && !cr n)
  | _ => false

def stmtsOf (api : EvalApi) : Stmt → Stmt
  | .localAssign _ _ vs => stmtsBlock api.hasSideEffects vs
  | s => s

/-- the rewrites of `GuardedV4` plus the general several-values replacement -/
def rewriteG (api : EvalApi) (last : Option Last) (inExtra : List String) (cr : String → Bool) :
    List Stmt → Bool → List Stmt × Bool
  | [], m => ([], m)
  | s :: rest, m =>
    if GuardedV.dropOK api last inExtra cr s rest then rewriteG api last inExtra cr rest true
    else
      let (r, m') := rewriteG api last inExtra cr rest m
      if GuardedV4.callsOK api last inExtra cr s rest then (GuardedV4.callsOf s :: r, m')
      else if GuardedV3.doOK api last inExtra cr s rest then (GuardedV3.doOf s :: r, m')
      else if stmtsOK api last inExtra cr s rest then (stmtsOf api s :: r, m')
      else (s :: r, m')

theorem drop_chain (api : EvalApi) (last : Option Last) (inExtra : List String)
    (ss : List Stmt) (m : Bool) (pre : List Stmt) :
    Chain VkB (.mk (pre ++ ss) last) (.mk (pre ++ (rewriteG api last inExtra (fun _ => false) ss m).1) last) := by
  induction ss generalizing pre m with
  | nil => exact .refl _
  | cons s rest ih =>
    by_cases hd : GuardedV.dropOK api last inExtra (fun _ => false) s rest = true
    · simp only [rewriteG, hd, if_true]
      cases s with
      | localAssign kind ns vs =>
        simp only [GuardedV.dropOK, Bool.and_eq_true, List.all_eq_true, Bool.not_eq_true'] at hd
        obtain ⟨⟨_, hatoms⟩, hrefs⟩ := hd
        refine .cons (VkB.dropLocal (allocPureAll_sound vs hatoms) fun n hn => ?_) (ih true pre)
        have := hrefs n hn
        first | exact this.1 | exact this | (simp at this; exact this)
      | localFn kind name f =>
        simp only [GuardedV.dropOK, Bool.and_eq_true, Bool.not_eq_true'] at hd
        exact .cons (VkB.dropLocalFn hd.1.2) (ih true pre)
      | _ => simp [GuardedV.dropOK] at hd
    · simp only [rewriteG, hd, Bool.false_eq_true, if_false]
      by_cases hc : GuardedV4.callsOK api last inExtra (fun _ => false) s rest = true
      · simp only [hc, if_true]
        match s, hc with
        | .localAssign kind ns vs, hc =>
          simp only [GuardedV4.callsOK, Bool.and_eq_true, List.all_eq_true, Bool.not_eq_true'] at hc
          obtain ⟨⟨⟨⟨_, hvok⟩, _⟩, _⟩, hrefs⟩ := hc
          have hx : ∀ n ∈ ns.map TName.name, tailRefs n rest last = false := fun n hn => by
            have := hrefs n hn
            first | exact this.1 | exact this | (simp at this; exact this)
          have := ih m (pre ++ [callsStmt (innerCalls vs)])
          simp only [List.append_assoc, List.singleton_append] at this
          exact .cons (VkB.localToCalls hvok hx) this
      · simp only [hc, Bool.false_eq_true, if_false]
        by_cases hdo : GuardedV3.doOK api last inExtra (fun _ => false) s rest = true
        · simp only [hdo, if_true]
          match s, hdo with
          | .localAssign kind ns [e], hdo =>
            simp only [GuardedV3.doOK, Bool.and_eq_true, List.all_eq_true, Bool.not_eq_true'] at hdo
            obtain ⟨_, hrefs⟩ := hdo
            have hx : ∀ n ∈ ns.map TName.name, tailRefs n rest last = false := fun n hn => by
              have := hrefs n hn
              first | exact this.1 | exact this | (simp at this; exact this)
            have := ih m (pre ++ [doDiscard (getInner e)])
            simp only [List.append_assoc, List.singleton_append] at this
            exact .cons (VkB.localToDo hx) this
        · simp only [hdo, Bool.false_eq_true, if_false]
          by_cases hst : stmtsOK api last inExtra (fun _ => false) s rest = true
          · simp only [hst, if_true]
            match s, hst with
            | .localAssign kind ns vs, hst =>
              simp only [stmtsOK, Bool.and_eq_true, List.all_eq_true, Bool.not_eq_true'] at hst
              obtain ⟨⟨⟨⟨⟨_, hdrops⟩, hnd⟩, _⟩, _⟩, hrefs⟩ := hst
              have hx : ∀ n ∈ ns.map TName.name, tailRefs n rest last = false := fun n hn => by
                have := hrefs n hn
                first | exact this.1 | exact this | (simp at this; exact this)
              have := ih m (pre ++ [stmtsBlock api.hasSideEffects vs])
              simp only [List.append_assoc, List.singleton_append] at this
              exact .cons (VkB.localToStmts api.hasSideEffects hdrops hnd hx) this
          · simp only [hst, Bool.false_eq_true, if_false]
            have := ih m (pre ++ [s])
            simpa [List.append_assoc] using this

theorem drop_chain_rep (api : EvalApi) (last : Option Last) (inExtra : List String) (c : Expr)
    (ss : List Stmt) (m : Bool) (pre : List Stmt) :
    Chain VkRep (.mk (pre ++ ss) last, c)
      (.mk (pre ++ (rewriteG api last inExtra (fun n => c.refs (.ref n)) ss m).1) last, c) := by
  induction ss generalizing pre m with
  | nil => exact .refl _
  | cons s rest ih =>
    by_cases hd : GuardedV.dropOK api last inExtra (fun n => c.refs (.ref n)) s rest = true
    · simp only [rewriteG, hd, if_true]
      cases s with
      | localAssign kind ns vs =>
        simp only [GuardedV.dropOK, Bool.and_eq_true, List.all_eq_true, Bool.not_eq_true'] at hd
        obtain ⟨⟨_, hatoms⟩, hrefs⟩ := hd
        have h2 : ∀ n ∈ ns.map TName.name, tailRefs n rest last = false ∧ c.refs (.ref n) = false := fun n hn => by
          have := hrefs n hn
          simpa only [Bool.and_eq_true, Bool.not_eq_true'] using this
        exact .cons (VkRep.dropLocal (allocPureAll_sound vs hatoms) (fun n hn => (h2 n hn).1) (fun n hn => (h2 n hn).2))
          (ih true pre)
      | localFn kind name f =>
        simp only [GuardedV.dropOK, Bool.and_eq_true, Bool.not_eq_true'] at hd
        exact .cons (VkRep.dropLocalFn hd.1.2 hd.2) (ih true pre)
      | _ => simp [GuardedV.dropOK] at hd
    · simp only [rewriteG, hd, Bool.false_eq_true, if_false]
      by_cases hc : GuardedV4.callsOK api last inExtra (fun n => c.refs (.ref n)) s rest = true
      · simp only [hc, if_true]
        match s, hc with
        | .localAssign kind ns vs, hc =>
          simp only [GuardedV4.callsOK, Bool.and_eq_true, List.all_eq_true, Bool.not_eq_true'] at hc
          obtain ⟨⟨⟨⟨_, hvok⟩, _⟩, _⟩, hrefs⟩ := hc
          have h2 : ∀ n ∈ ns.map TName.name, tailRefs n rest last = false ∧ c.refs (.ref n) = false := fun n hn => by
            have := hrefs n hn
            simpa only [Bool.and_eq_true, Bool.not_eq_true'] using this
          have := ih m (pre ++ [callsStmt (innerCalls vs)])
          simp only [List.append_assoc, List.singleton_append] at this
          exact .cons (VkRep.localToCalls hvok (fun n hn => (h2 n hn).1) (fun n hn => (h2 n hn).2)) this
      · simp only [hc, Bool.false_eq_true, if_false]
        by_cases hdo : GuardedV3.doOK api last inExtra (fun n => c.refs (.ref n)) s rest = true
        · simp only [hdo, if_true]
          match s, hdo with
          | .localAssign kind ns [e], hdo =>
            simp only [GuardedV3.doOK, Bool.and_eq_true, List.all_eq_true, Bool.not_eq_true'] at hdo
            obtain ⟨_, hrefs⟩ := hdo
            have h2 : ∀ n ∈ ns.map TName.name, tailRefs n rest last = false ∧ c.refs (.ref n) = false := fun n hn => by
              have := hrefs n hn
              simpa only [Bool.and_eq_true, Bool.not_eq_true'] using this
            have := ih m (pre ++ [doDiscard (getInner e)])
            simp only [List.append_assoc, List.singleton_append] at this
            exact .cons (VkRep.localToDo (fun n hn => (h2 n hn).1) (fun n hn => (h2 n hn).2)) this
        · simp only [hdo, Bool.false_eq_true, if_false]
          by_cases hst : stmtsOK api last inExtra (fun n => c.refs (.ref n)) s rest = true
          · simp only [hst, if_true]
            match s, hst with
            | .localAssign kind ns vs, hst =>
              simp only [stmtsOK, Bool.and_eq_true, List.all_eq_true, Bool.not_eq_true'] at hst
              obtain ⟨⟨⟨⟨⟨_, hdrops⟩, hnd⟩, _⟩, _⟩, hrefs⟩ := hst
              have h2 : ∀ n ∈ ns.map TName.name, tailRefs n rest last = false ∧ c.refs (.ref n) = false := fun n hn => by
                have := hrefs n hn
                simpa only [Bool.and_eq_true, Bool.not_eq_true'] using this
              have := ih m (pre ++ [stmtsBlock api.hasSideEffects vs])
              simp only [List.append_assoc, List.singleton_append] at this
              exact .cons (VkRep.localToStmts api.hasSideEffects hdrops hnd (fun n hn => (h2 n hn).1) (fun n hn => (h2 n hn).2)) this
          · simp only [hst, Bool.false_eq_true, if_false]
            have := ih m (pre ++ [s])
            simpa [List.append_assoc] using this

/-- the guarded `process_scope` -/
def scopeG (api : EvalApi) : Block → Option Expr → Bool → (Block × Option Expr) × Bool
  | .mk stmts last, extra, m =>
    let (stmts', m') := rewriteG api last (usagesInExtra stmts extra) (GuardedV.condRefs extra) stmts m
    ((.mk stmts' last, extra), m')

def processorG (api : EvalApi) : Processor Bool := { scope := scopeG api }

theorem scopeG_none_chain (api : EvalApi) (b : Block) (m : Bool) :
    Chain VkB b (scopeG api b none m).1.1 := by
  cases b with
  | mk ss last =>
    simp only [scopeG, GuardedV.condRefs]
    simpa using drop_chain api last (usagesInExtra ss none) ss m []

theorem hooksV (api : EvalApi) : HooksV (processorG api) where
  scopeB := fun b s => scopeG_none_chain api b s
  scopeR := fun b c s => by
    cases b with
    | mk ss last =>
      simp only [processorG, scopeG, GuardedV.condRefs, Option.getD]
      simpa using drop_chain_rep api last (usagesInExtra ss (some c)) c ss s []

def passG (api : EvalApi) (b : Block) : Block × Bool :=
  let ((b1, _), m1) := scopeG api b none false
  Visitor.runDefault (processorG api) b1 m1

def loopG (api : EvalApi) : Nat → Block → Block
  | 0, b => b
  | n + 1, b =>
    let (b', mutated) := passG api b
    if mutated then loopG api n b' else b'

/-- the rule restricted to the (still larger) fragment -/
def applyG (api : EvalApi) (b : Block) : Block := loopG api (b.size + 1) b

theorem passG_refines (api : EvalApi) (b : Block) {N : NumOps} (ρ : ExtOracle N) (hρ : OracleFlat ρ) (n : Nat)
    (externs : List String) : runProgram ρ n externs (passG api b).1 = runProgram ρ n externs b := by
  simp only [passG]
  have h1 := chain_runProgram (scopeG_none_chain api b false) ρ hρ n externs
  have h2 := Visitor.runDefault_v (hooksV api) (scopeG api b none false).1.1 (scopeG api b none false).2 ρ hρ n externs
  exact h2.trans h1

theorem loopG_refines (api : EvalApi) : ∀ (k : Nat) (b : Block) {N : NumOps} (ρ : ExtOracle N) (_ : OracleFlat ρ)
    (n : Nat) (externs : List String), runProgram ρ n externs (loopG api k b) = runProgram ρ n externs b
  | 0, _, _, _, _, _, _ => rfl
  | k + 1, b, N, ρ, hρ, n, externs => by
    simp only [loopG]
    split
    · exact (loopG_refines api k _ ρ hρ n externs).trans (passG_refines api b ρ hρ n externs)
    · exact passG_refines api b ρ hρ n externs

/-- **whole rule, every program**: the guarded rule preserves the observable outcome -/
theorem applyG_refines (api : EvalApi) (b : Block) {N : NumOps} (ρ : ExtOracle N) (hρ : OracleFlat ρ) (n : Nat)
    (externs : List String) : runProgram ρ n externs (applyG api b) = runProgram ρ n externs b :=
  loopG_refines api _ b ρ hρ n externs

theorem apply_refines_of_agree (api : EvalApi) (b : Block) (h : applyG api b = apply api b)
    {N : NumOps} (ρ : ExtOracle N) (hρ : OracleFlat ρ) (n : Nat) (externs : List String) :
    runProgram ρ n externs (apply api b) = runProgram ρ n externs b := by
  rw [← h]; exact applyG_refines api b ρ hρ n externs

end DarkluaModel.Rules.UnusedVariable.GuardedV5
