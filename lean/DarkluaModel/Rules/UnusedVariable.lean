import DarkluaModel.Shared.Visitor
import DarkluaModel.Rules.EvalApi
/-!
# `remove_unused_variable` (`src/rules/remove_unused_variable.rs`)

`RemoveUnusedVariableProcessor::process_scope(block, extra)` — for every `local` declaration
and `local function` of the block, `FindUsage` (`src/process/processors/find_usage.rs`, an
`IdentifierTracker` walked by `ScopeVisitor`) decides for each declared name whether the
statements after it, the block's last statement, or `extra` (the `until` condition of a
`repeat`) use it; then unused declarations are removed, reduced to their effectful values
(`utils/expressions_as_statement.rs`) or regrouped. The rule repeats
`process_scope(root)` + one `DefaultVisitor` pass while a statement was removed.

`process_type_field` of `FindUsage` (a type namespace `M.T` counts as a use of `M`) is not
modelled: the semantic AST keeps types opaque; typed Luau programs are outside the tie.
-/
namespace DarkluaModel.Rules.UnusedVariable
open DarkluaModel.Rules

/-! ### `FindUsage` -/

structure FU where
  found : Bool := false
  /-- `IdentifierTracker.identifiers`, innermost first -/
  scopes : List (List String) := []

/-- `insert_identifier` -/
def FU.insert (id : String) (s : FU) : FU :=
  match s.scopes with
  | [] => { s with scopes := [[id]] }
  | top :: rest => { s with scopes := (id :: top) :: rest }

/-- `is_identifier_used` -/
def FU.isUsed (id : String) (s : FU) : Bool := s.scopes.any (·.contains id)

/-- `verify_identifier` -/
def FU.verify (target : String) (name : String) (s : FU) : FU :=
  if !s.found && name == target then { s with found := !s.isUsed target } else s

def findUsage (target : String) : Processor FU where
  node := fun e s => match e with
    | .var n => (e, s.verify target n)
    | _ => (e, s)
  push := fun s => { s with scopes := [] :: s.scopes }
  pop := fun s => { s with scopes := s.scopes.drop 1 }
  insert := fun n s => (n, s.insert n)
  insertSelf := fun s => s.insert "self"
  insertLocal := fun n e s => ((n, e), s.insert n)
  insertLocalFn := fun n s => (n, s.insert n)

/-- one `FindUsage` threaded through `ScopeVisitor::visit_statement` of each statement
(`found` is sticky, so `any`'s short-circuit does not matter) -/
def usedInStmts (target : String) : List Stmt → FU → FU
  | [], s => s
  | st :: rest, s => usedInStmts target rest (Visitor.visitStmt (findUsage target) true (8 * st.size + 64) st s).2

def usedInLast (target : String) (last : Option Last) (s : FU) : FU :=
  match last with
  | some l => if s.found then s else (Visitor.visitLast (findUsage target) true (8 * l.size + 64) l s).2
  | none => s

def usedInExpr (target : String) (e : Expr) : Bool :=
  (Visitor.visitExpr (findUsage target) true (8 * e.size + 64) e {}).2.found

/-- the `usages` entry of one declared name -/
def isUsedAfter (target : String) (after : List Stmt) (last : Option Last) (inExtra : List String) : Bool :=
  (usedInLast target last (usedInStmts target after {})).found || inExtra.contains target

/-! ### `expressions_as_statement` -/

/-- `get_inner_expression` -/
def getInner : Expr → Expr
  | .paren e => getInner e
  | .cast e _ => getInner e
  | e => e

/-- `used_later[i]` (fix 43be447): some LATER expression mentions a variable named `_`
(`uses_discard_variable`: `FindVariables` through `DefaultVisitor::visit_expression`) -/
def usedLaterFlags : List Expr → List Bool
  | [] => []
  | _ :: rest => rest.any (usedInExpr "_") :: usedLaterFlags rest

def pushValue (acc : List Stmt) (p : Expr × Bool) : List Stmt :=
  -- `acc` is kept reversed: its head is `statements.last_mut()`
  match getInner p.1 with
  | .call f m k args => .callStmt (.call f m k args) :: acc
  | value =>
    -- (fix 43be447: a value that a later expression could see through `_` gets its own block)
    if p.2 then .doBlock (.mk [.localAssign .loc [.mk "_" none] [value]] none) :: acc
    else
      match acc with
      | .localAssign kind ns vs :: rest => .localAssign kind ns (vs ++ [value]) :: rest
      | _ => .localAssign .loc [.mk "_" none] [value] :: acc

/-- `expressions_as_statement` (`src/utils/expressions_as_statement.rs`) -/
def exprsAsStatement (values : List Expr) : Stmt :=
  match ((values.zip (usedLaterFlags values)).foldl pushValue []).reverse with
  | [s] => s
  | stmts => .doBlock (.mk stmts none)

/-- `discarded_values_as_statement` (fix of F25): a bare `local _ = …` would shadow a variable named `_` in the
statements that follow, so it gets its own block — unless the declaration it replaces already declared `_`
(then nothing after it can mean another `_`; this also keeps the rule from wrapping its own output again when
the visitor descends into the new block) -/
def discardedAsStatement (values : List Expr) (declaresDiscard : Bool) : Stmt :=
  match exprsAsStatement values, declaresDiscard with
  | .localAssign kind ns vs, false => .doBlock (.mk [.localAssign kind ns vs] none)
  | s, _ => s

/-! ### rewriting one declaration -/

/-- `while identifiers.last().filter(|(_, used)| !*used).is_some() { last_popped = identifiers.pop() }` -/
def dropUnusedEnd (ids : List (TName × Bool)) : List (TName × Bool) :=
  (ids.reverse.dropWhile (fun p => !p.2)).reverse

/-- the loop `for (mut identifiers, value) in assignments` -/
def regroup (api : EvalApi) : List (List (TName × Bool) × Expr) → List TName × List Expr → List TName × List Expr
  | [], acc => acc
  | (ids, value) :: rest, (variables, values) =>
    let kept := dropUnusedEnd ids
    if !kept.isEmpty then regroup api rest (variables ++ kept.map (·.1), values ++ [value])
    else if api.hasSideEffects value then
      match ids with
      | first :: _ => regroup api rest (variables ++ [first.1], values ++ [value])
      | [] => regroup api rest (variables, values)
    else regroup api rest (variables, values)

def tnames (ns : List TName) : List String := ns.map fun | .mk n _ => n

def distinctNames : List String → Bool
  | [] => true
  | n :: rest => !rest.contains n && distinctNames rest

/-- what stands in place of `local ns = vs` given the usage flags; `none` = removed -/
def rewriteLocal (api : EvalApi) (kind : LocalKind) (ns : List TName) (vs : List Expr) (usages : List Bool) : Option Stmt :=
  if usages.all (!·) then
    let values := vs.filter api.hasSideEffects
    if values.isEmpty then none else some (discardedAsStatement values ((tnames ns).contains "_"))
  else if usages.any (!·) && distinctNames (tnames ns) then
    -- (fix of F27: a declaration with a repeated name is not regrouped)
    let pairs := ns.zip usages
    let assignments : List (List (TName × Bool) × Expr) := (pairs.map fun p => [p]).zip vs
    let length := assignments.length
    let remaining := pairs.drop length
    let (assignments', unassigned) : List (List (TName × Bool) × Expr) × List TName :=
      match assignments.getLast? with
      | none => (assignments, (pairs.filter (·.2)).map (·.1))   -- (fix of F26: no value at all)
      | some (last, value) =>
        if api.canReturnMultiple value then (assignments.dropLast ++ [(last ++ remaining, value)], [])
        else (assignments, (remaining.filter (·.2)).map (·.1))
    let (variables, values) := regroup api assignments' (unassigned, unassigned.map fun _ => Expr.nil)
    if variables.isEmpty then
      let extra := vs.drop length
      if extra.isEmpty then none else some (discardedAsStatement extra ((tnames ns).contains "_"))
    else some (.localAssign .loc variables (values ++ vs.drop length))
  else some (.localAssign kind ns vs)

/-- names declared by a statement that `process_scope` looks at -/
def declared : Stmt → List String
  | .localAssign _ ns _ => tnames ns
  | .localFn _ name _ => [name]
  | _ => []

/-- `usages_in_extra` -/
def usagesInExtra (stmts : List Stmt) (extra : Option Expr) : List String :=
  match extra with
  | some e => (stmts.reverse.flatMap declared).filter fun id => usedInExpr id e
  | none => []

/-- the `filter_mut_statements` closure over the statements, left to right; usages are those
computed on the ORIGINAL block (`after` = original following statements) -/
def rewriteStmts (api : EvalApi) (last : Option Last) (inExtra : List String) : List Stmt → Bool → List Stmt × Bool
  | [], m => ([], m)
  | s :: rest, m =>
    let result : Option Stmt :=
      match s with
      | .localAssign kind ns vs =>
        rewriteLocal api kind ns vs ((tnames ns).map fun id => isUsedAfter id rest last inExtra)
      | .localFn _ name _ => if isUsedAfter name rest last inExtra then some s else none
      | _ => some s
    match result with
    | some s' => let (r, m') := rewriteStmts api last inExtra rest m; (s' :: r, m')
    | none => rewriteStmts api last inExtra rest true

/-- `process_scope` -/
def processScope (api : EvalApi) : Block → Option Expr → Bool → (Block × Option Expr) × Bool
  | .mk stmts last, extra, m =>
    let (stmts', m') := rewriteStmts api last (usagesInExtra stmts extra) stmts m
    ((.mk stmts' last, extra), m')

def processor (api : EvalApi) : Processor Bool := { scope := processScope api }

/-- one iteration of the loop in `flawless_process` -/
def pass (api : EvalApi) (b : Block) : Block × Bool :=
  let ((b1, _), m1) := processScope api b none false
  Visitor.runDefault (processor api) b1 m1

def loop (api : EvalApi) : Nat → Block → Block
  | 0, b => b
  | n + 1, b =>
    let (b', mutated) := pass api b
    if mutated then loop api n b' else b'

/-- `flawless_process` -/
def apply (api : EvalApi) (b : Block) : Block := loop api (b.size + 1) b

/-! ### the defect regions — all FIXED

* F25 (fixed): an unused declaration with an effectful non-call value used to be replaced by a bare
  `local _ = value` in the SAME scope — later reads of a global or outer `_` were captured. The replacement now
  gets its own block (`discardedAsStatement`), and `expressions_as_statement` itself isolates a value from a
  later expression that mentions `_` (fix 43be447).
* F26 (fixed): `local a, b` WITHOUT values, with some but not all names used, used to be removed
  entirely; the used names are now re-declared.
* F27 (fixed): regrouping a partially used declaration puts the trailing value-less variables
  FIRST; with a repeated name that changed the visible binding — such declarations are now kept.
No region of the rule is excluded from the oracle any more. -/

/-- `none`: inside `H` — every program, since the fixes -/
def outsideH (_api : EvalApi) (_b : Block) : Option String := none

end DarkluaModel.Rules.UnusedVariable
