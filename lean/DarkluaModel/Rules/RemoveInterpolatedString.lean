import DarkluaModel.Rules.LuauCommon
/-!
# `remove_interpolated_string` (`src/rules/remove_interpolated_string.rs`)

`process_expression` (with `ScopeVisitor`) replaces an interpolated string by `""` / a plain
string / `tostring(v)` / `string.format("…%s…", tostring(v), …)`; literal `%` are doubled. When
`tostring` / `string` is a declared local at that point (`IdentifierTracker::is_identifier_used`)
the rule uses `__DARKLUA_TO_STR` / `__DARKLUA_STR_FMT` and afterwards declares them at the top
of the file.
-/
namespace DarkluaModel.Rules.RemoveInterpolatedString
open DarkluaModel.Rules

inductive Strategy where
  | string    -- `%s` with `tostring(v)` (default)
  | tostring  -- `%*` with `v`
  deriving DecidableEq, Repr

structure State where
  tracker : Tracker := {}
  defineFormat : Bool := false
  defineTostring : Bool := false
  deriving Repr

def fmtName : String := "__DARKLUA_STR_FMT"
def tostrName : String := "__DARKLUA_TO_STR"

/-- `replace(b"%", b"%%")` -/
def escapePercent : List UInt8 → List UInt8
  | [] => []
  | 37 :: rest => 37 :: 37 :: escapePercent rest
  | c :: rest => c :: escapePercent rest

/-- `InterpolatedStringExpression::is_empty` -/
def isEmpty (segs : List Seg) : Bool :=
  segs.all fun | .s b => b.isEmpty | .v _ => false

def formatString (strategy : Strategy) : List Seg → List UInt8
  | [] => []
  | .s b :: rest => escapePercent b ++ formatString strategy rest
  | .v _ :: rest =>
    (match strategy with | .string => [37, 115] | .tostring => [37, 42]) ++ formatString strategy rest

/-- the name to call for `tostring` at this point -/
def tostringCallee (s : State) : String × State :=
  if s.tracker.isUsed "tostring" then (tostrName, { s with defineTostring := true }) else ("tostring", s)

def tostringCall (v : Expr) (s : State) : Expr × State :=
  let (name, s') := tostringCallee s
  (.call (.var name) none .tuple [v], s')

def values (strategy : Strategy) : List Seg → State → List Expr × State
  | [], s => ([], s)
  | .s _ :: rest, s => values strategy rest s
  | .v e :: rest, s =>
    match strategy with
    | .tostring => let (r, s') := values strategy rest s; (e :: r, s')
    | .string =>
      let (c, s1) := tostringCall e s
      let (r, s2) := values strategy rest s1
      (c :: r, s2)

/-- `replace_with` -/
def replaceWith (strategy : Strategy) (segs : List Seg) (s : State) : Expr × State :=
  if isEmpty segs then (.str [], s)
  else
    match segs with
    | [.s b] => (.str b, s)
    | [.v e] => tostringCall e s
    | _ =>
      let (vals, s1) := values strategy segs s
      let (callee, s2) : Expr × State :=
        if s1.tracker.isUsed "string" then (.var fmtName, { s1 with defineFormat := true })
        else (.field (.var "string") "format", s1)
      (.call callee none .tuple (.str (formatString strategy segs) :: vals), s2)

/-- `process_expression` -/
def processExpression (strategy : Strategy) : Expr → State → Expr × State
  | .interp segs, s => replaceWith strategy segs s
  | e, s => (e, s)

def onTracker (f : Tracker → Tracker) (s : State) : State := { s with tracker := f s.tracker }

def processor (strategy : Strategy) : Processor State where
  expr := processExpression strategy
  push := onTracker Tracker.push
  pop := onTracker Tracker.pop
  insert := fun n s => (n, onTracker (·.insertIdentifier n) s)
  insertSelf := onTracker (·.insertIdentifier "self")
  insertLocal := fun n e s => ((n, e), onTracker (·.insertIdentifier n) s)
  insertLocalFn := fun n s => (n, onTracker (·.insertIdentifier n) s)

/-- the `local __DARKLUA_STR_FMT, __DARKLUA_TO_STR = string.format, tostring` declaration -/
def definitions (s : State) : Option Stmt :=
  if s.defineFormat || s.defineTostring then
    let names := (if s.defineFormat then [TName.mk fmtName none] else []) ++
                 (if s.defineTostring then [TName.mk tostrName none] else [])
    let vals := (if s.defineFormat then [Expr.field (.var "string") "format"] else []) ++
                (if s.defineTostring then [Expr.var "tostring"] else [])
    some (.localAssign .loc names vals)
  else none

/-- `flawless_process` -/
def applyWith (strategy : Strategy) (b : Block) : Block :=
  let (b1, s) := Visitor.runScoped (processor strategy) b {}
  match definitions s with
  | some d => insertFirst d b1
  | none => b1

def apply (b : Block) : Block := applyWith .string b

end DarkluaModel.Rules.RemoveInterpolatedString
