import DarkluaModel.C15.Model
/-! Helper lemmas for C15 (core only). -/
namespace DarkluaModel.C15

/-! ### normalize: shape of the stack -/

def AllParent : List Comp → Prop
  | [] => True
  | .parent :: t => AllParent t
  | _ :: _ => False

/-- shape of `ret` (reversed): `..`s only at the bottom, `.` only as the single bottom element
(and only when `keep`) -/
def OkStack (k : Bool) : List Comp → Prop
  | [] => True
  | [.cur] => k = true
  | .cur :: _ :: _ => False
  | .parent :: t => AllParent t
  | .root :: t => OkStack k t
  | .normal _ :: t => OkStack k t

theorem AllParent.ok {k : Bool} : ∀ {t : List Comp}, AllParent t → OkStack k t
  | [], _ => trivial
  | .parent :: t, h => by simpa [OkStack, AllParent] using h
  | .root :: _, h => by simp [AllParent] at h
  | .cur :: _, h => by simp [AllParent] at h
  | .normal _ :: _, h => by simp [AllParent] at h

theorem okStack_step (k : Bool) (st : List Comp) (c : Comp) (h : OkStack k st) :
    OkStack k (normStep k st c) := by
  cases c with
  | root => simpa [normStep, OkStack] using h
  | normal s => simpa [normStep, OkStack] using h
  | cur =>
    cases st with
    | nil => cases k <;> simp [normStep, OkStack]
    | cons a t => simpa [normStep] using h
  | parent =>
    cases st with
    | nil => simp [normStep, OkStack, AllParent]
    | cons a t =>
      cases a with
      | root => simpa [normStep, OkStack] using h
      | normal s => simpa [normStep, OkStack] using h
      | parent => simpa [normStep, OkStack, AllParent] using h
      | cur =>
        cases t with
        | nil => simp [normStep, OkStack, AllParent]
        | cons b u => simp [OkStack] at h

theorem okStack_foldl (k : Bool) (p : Path) : ∀ st, OkStack k st → OkStack k (p.foldl (normStep k) st) := by
  induction p with
  | nil => intro st h; simpa using h
  | cons c cs ih => intro st h; simpa using ih _ (okStack_step k st c h)

/-- re-running the loop on an already well-shaped `ret` rebuilds it unchanged -/
theorem foldl_rebuild (k : Bool) : ∀ st, OkStack k st → st.reverse.foldl (normStep k) [] = st := by
  intro st
  induction st with
  | nil => intro _; rfl
  | cons c t ih =>
    intro h
    rw [List.reverse_cons, List.foldl_append]
    cases c with
    | root => have := ih (by simpa [OkStack] using h); simp [this, normStep]
    | normal s => have := ih (by simpa [OkStack] using h); simp [this, normStep]
    | cur =>
      cases t with
      | nil => simp [OkStack] at h; simp [normStep, h]
      | cons b u => simp [OkStack] at h
    | parent =>
      have hp : AllParent t := by simpa [OkStack] using h
      have := ih hp.ok
      cases t with
      | nil => simp [normStep]
      | cons b u =>
        cases b with
        | parent => rw [this]; simp [normStep]
        | root => simp [AllParent] at hp
        | cur => simp [AllParent] at hp
        | normal s => simp [AllParent] at hp

/-! ### normalize: denotation -/

theorem resolve_append (cwd : List Name) (p q : Path) :
    resolve cwd (p ++ q) = resolve (resolve cwd p) q := by
  simp [resolve, List.foldl_append]

theorem resolve_snoc (cwd : List Name) (p : Path) (c : Comp) :
    resolve cwd (p ++ [c]) = resolveStep (resolve cwd p) c := by
  simp [resolve, List.foldl_append]

/-- one loop iteration keeps the denotation of `ret` in step with the prefix read so far -/
theorem resolve_step (k : Bool) (cwd : List Name) (st : List Comp) (c : Comp) :
    resolve cwd (normStep k st c).reverse = resolveStep (resolve cwd st.reverse) c := by
  cases c with
  | root => simp [normStep, resolve_snoc]
  | normal s => simp [normStep, resolve_snoc]
  | cur =>
    cases st with
    | nil => cases k <;> simp [normStep, resolve, resolveStep]
    | cons a t => simp [normStep, resolveStep]
  | parent =>
    cases st with
    | nil => simp [normStep, resolve, resolveStep]
    | cons a t =>
      cases a with
      | root => simp [normStep, resolve_snoc, resolveStep]
      | normal s => simp [normStep, resolve_snoc, resolveStep]
      | parent => simp [normStep, resolve, List.foldl_append]
      | cur => simp [normStep, resolve_snoc, resolveStep]

theorem resolve_foldl (k : Bool) (cwd : List Name) (p : Path) :
    ∀ st, resolve cwd (p.foldl (normStep k) st).reverse = resolve (resolve cwd st.reverse) p := by
  induction p with
  | nil => intro st; simp [resolve]
  | cons c cs ih =>
    intro st
    rw [List.foldl_cons, ih, resolve_step k cwd st c]
    simp [resolve]

/-! ### normalize: the root survives -/

theorem last_root_step (k : Bool) (st : List Comp) (c : Comp) (hl : st.getLast? = some .root) :
    (normStep k st c).getLast? = some .root := by
  cases st with
  | nil => simp at hl
  | cons a t =>
    cases c with
    | root => simpa [normStep, List.getLast?_cons_cons] using hl
    | normal s => simpa [normStep, List.getLast?_cons_cons] using hl
    | cur => simpa [normStep] using hl
    | parent =>
      cases a with
      | root => simpa [normStep] using hl
      | parent => simpa [normStep, List.getLast?_cons_cons] using hl
      | normal s =>
        cases t with
        | nil => simp at hl
        | cons b u => simpa [normStep, List.getLast?_cons_cons] using hl
      | cur =>
        cases t with
        | nil => simp at hl
        | cons b u => simpa [normStep, List.getLast?_cons_cons] using hl

theorem last_root_foldl (k : Bool) (p : Path) :
    ∀ st, st.getLast? = some .root → (p.foldl (normStep k) st).getLast? = some .root := by
  induction p with
  | nil => intro st hl; simpa using hl
  | cons c cs ih => intro st hl; exact ih _ (last_root_step k st c hl)

/-! ### diff_paths on plain paths (names only) -/

def isPlain (p : Path) : Bool := p.all fun c => match c with | .normal _ => true | _ => false

def namesOf : Path → List Name
  | [] => []
  | .normal s :: t => s :: namesOf t
  | _ :: t => namesOf t

theorem resolve_plain : ∀ (p : Path) (loc : List Name), isPlain p = true →
    resolve loc p = (namesOf p).reverse ++ loc := by
  intro p
  induction p with
  | nil => intro loc _; simp [resolve, namesOf]
  | cons c cs ih =>
    intro loc h
    cases c with
    | normal s =>
      have hcs : isPlain cs = true := by simpa [isPlain] using h
      have := ih (s :: loc) hcs
      simpa [resolve, resolveStep, namesOf] using this
    | root => simp [isPlain] at h
    | cur => simp [isPlain] at h
    | parent => simp [isPlain] at h

theorem namesOf_length : ∀ (p : Path), isPlain p = true → (namesOf p).length = p.length := by
  intro p
  induction p with
  | nil => intro _; rfl
  | cons c cs ih =>
    intro h
    cases c with
    | normal s =>
      have hcs : isPlain cs = true := by simpa [isPlain] using h
      simp [namesOf, ih hcs]
    | root => simp [isPlain] at h
    | cur => simp [isPlain] at h
    | parent => simp [isPlain] at h

theorem resolve_pops : ∀ (L loc : List Name) (r : Path),
    resolve (L ++ loc) (List.replicate L.length .parent ++ r) = resolve loc r := by
  intro L
  induction L with
  | nil => intro loc r; simp
  | cons x L ih =>
    intro loc r
    have := ih loc r
    simpa [List.replicate_succ, resolve, resolveStep] using this

/-- walking `n` plain components and then `n` times `..` leads back -/
theorem resolve_plain_pops (loc : List Name) (base r : Path) (hb : isPlain base = true) :
    resolve (resolve loc base) (List.replicate base.length .parent ++ r) = resolve loc r := by
  rw [resolve_plain base loc hb]
  have := resolve_pops (namesOf base).reverse loc r
  simpa [namesOf_length base hb] using this

theorem diffLoop_nil_left : ∀ (bs comps : Path),
    diffLoop [] bs comps = some (comps ++ List.replicate bs.length .parent) := by
  intro bs
  induction bs with
  | nil => intro comps; simp [diffLoop]
  | cons b bs ih => intro comps; simp [diffLoop, ih, List.replicate_succ]

def noRootCur (p : Path) : Bool := p.all fun c => c != .root && c != .cur

theorem isPlain_noRootCur : ∀ (p : Path), isPlain p = true → noRootCur p = true := by
  intro p
  induction p with
  | nil => intro _; rfl
  | cons c cs ih =>
    intro h
    cases c with
    | normal s =>
      have hcs : isPlain cs = true := by simpa [isPlain] using h
      have := ih hcs
      simpa [noRootCur] using this
    | root => simp [isPlain] at h
    | cur => simp [isPlain] at h
    | parent => simp [isPlain] at h

theorem noRootCur_append (p q : Path) : noRootCur (p ++ q) = (noRootCur p && noRootCur q) := by
  simp [noRootCur]

theorem noRootCur_parents (n : Nat) : noRootCur (List.replicate n .parent) = true := by
  induction n with
  | zero => rfl
  | succ n ih => simpa [noRootCur, List.replicate_succ] using ih

/-- `diff_paths` between plain paths: from the base, the difference leads to the path -/
theorem diffLoop_plain : ∀ (base path : Path), isPlain base = true → isPlain path = true →
    ∃ r, diffLoop path base [] = some r ∧ noRootCur r = true ∧
      ∀ loc, resolve (resolve loc base) r = resolve loc path := by
  intro base
  induction base with
  | nil =>
    intro path _ hp
    cases path with
    | nil => exact ⟨[], by simp [diffLoop], rfl, fun _ => rfl⟩
    | cons a as => exact ⟨a :: as, by simp [diffLoop], isPlain_noRootCur _ hp, fun _ => rfl⟩
  | cons b bs ih =>
    intro path hb hp
    cases b with
    | root => simp [isPlain] at hb
    | cur => simp [isPlain] at hb
    | parent => simp [isPlain] at hb
    | normal sb =>
      have hbs : isPlain bs = true := by simpa [isPlain] using hb
      cases path with
      | nil =>
        refine ⟨List.replicate (bs.length + 1) .parent, ?_, noRootCur_parents _, ?_⟩
        · simp [diffLoop, diffLoop_nil_left, List.replicate_succ]
        · intro loc
          have := resolve_plain_pops loc (.normal sb :: bs) [] hb
          simpa using this
      | cons a as =>
        cases a with
        | root => simp [isPlain] at hp
        | cur => simp [isPlain] at hp
        | parent => simp [isPlain] at hp
        | normal sa =>
          have has : isPlain as = true := by simpa [isPlain] using hp
          by_cases e : sa = sb
          · subst e
            obtain ⟨r, h1, h2, h3⟩ := ih as hbs has
            refine ⟨r, by simpa [diffLoop] using h1, h2, ?_⟩
            intro loc
            have := h3 (sa :: loc)
            simpa [resolve, resolveStep] using this
          · refine ⟨List.replicate (bs.length + 1) .parent ++ .normal sa :: as, ?_, ?_, ?_⟩
            · have hm : ∀ (l : List Comp), l.map (fun _ => Comp.parent) = List.replicate l.length .parent := by
                intro l; induction l with
                | nil => rfl
                | cons x xs ihx => simp [List.replicate_succ, ihx]
              simp [diffLoop, e, List.replicate_succ, hm]
            · rw [noRootCur_append, noRootCur_parents]
              simpa using isPlain_noRootCur _ hp
            · intro loc
              have := resolve_plain_pops loc (.normal sb :: bs) (.normal sa :: as) hb
              simpa using this

theorem dropCur_noRootCur : ∀ (p : Path), noRootCur p = true → dropCur p = p := by
  intro p h
  simp only [dropCur, List.filter_eq_self]
  intro c hc
  have := (List.all_eq_true.mp h) c hc
  simp at this
  simpa using this.2

theorem reparse_noRootCur (p : Path) (h : noRootCur p = true) : reparse p = p := by
  cases p with
  | nil => rfl
  | cons c cs =>
    have : noRootCur cs = true := by
      simp only [noRootCur, List.all_cons, Bool.and_eq_true] at h
      exact h.2
    simp [reparse, dropCur_noRootCur cs this]

end DarkluaModel.C15
