import DarkluaModel.C15.Model
/-! Helper lemmas for C15 (core only). -/
namespace DarkluaModel.C15

/-! ### normalize: shape of the stack -/

def AllParent : List Comp → Prop
  | [] => True
  | .parent :: t => AllParent t
  | _ :: _ => False

/-- shape of `ret` (reversed): `..`s only at the bottom, `.` only as the single bottom element
(and only when `keep`) -/
def OkStack (k : Bool) : List Comp → Prop
  | [] => True
  | [.cur] => k = true
  | .cur :: _ :: _ => False
  | .parent :: t => AllParent t
  | .root :: t => OkStack k t
  | .normal _ :: t => OkStack k t

theorem AllParent.ok {k : Bool} : ∀ {t : List Comp}, AllParent t → OkStack k t
  | [], _ => trivial
  | .parent :: t, h => by simpa [OkStack, AllParent] using h
  | .root :: _, h => by simp [AllParent] at h
  | .cur :: _, h => by simp [AllParent] at h
  | .normal _ :: _, h => by simp [AllParent] at h

theorem okStack_step (k : Bool) (st : List Comp) (c : Comp) (h : OkStack k st) :
    OkStack k (normStep k st c) := by
  cases c with
  | root => simpa [normStep, OkStack] using h
  | normal s => simpa [normStep, OkStack] using h
  | cur =>
    cases st with
    | nil => cases k <;> simp [normStep, OkStack]
    | cons a t => simpa [normStep] using h
  | parent =>
    cases st with
    | nil => simp [normStep, OkStack, AllParent]
    | cons a t =>
      cases a with
      | root => simpa [normStep, OkStack] using h
      | normal s => simpa [normStep, OkStack] using h
      | parent => simpa [normStep, OkStack, AllParent] using h
      | cur =>
        cases t with
        | nil => simp [normStep, OkStack, AllParent]
        | cons b u => simp [OkStack] at h

theorem okStack_foldl (k : Bool) (p : Path) : ∀ st, OkStack k st → OkStack k (p.foldl (normStep k) st) := by
  induction p with
  | nil => intro st h; simpa using h
  | cons c cs ih => intro st h; simpa using ih _ (okStack_step k st c h)

/-- re-running the loop on an already well-shaped `ret` rebuilds it unchanged -/
theorem foldl_rebuild (k : Bool) : ∀ st, OkStack k st → st.reverse.foldl (normStep k) [] = st := by
  intro st
  induction st with
  | nil => intro _; rfl
  | cons c t ih =>
    intro h
    rw [List.reverse_cons, List.foldl_append]
    cases c with
    | root => have := ih (by simpa [OkStack] using h); simp [this, normStep]
    | normal s => have := ih (by simpa [OkStack] using h); simp [this, normStep]
    | cur =>
      cases t with
      | nil => simp [OkStack] at h; simp [normStep, h]
      | cons b u => simp [OkStack] at h
    | parent =>
      have hp : AllParent t := by simpa [OkStack] using h
      have := ih hp.ok
      cases t with
      | nil => simp [normStep]
      | cons b u =>
        cases b with
        | parent => rw [this]; simp [normStep]
        | root => simp [AllParent] at hp
        | cur => simp [AllParent] at hp
        | normal s => simp [AllParent] at hp

/-! ### normalize: denotation -/

theorem resolve_append (cwd : List Name) (p q : Path) :
    resolve cwd (p ++ q) = resolve (resolve cwd p) q := by
  simp [resolve, List.foldl_append]

theorem resolve_snoc (cwd : List Name) (p : Path) (c : Comp) :
    resolve cwd (p ++ [c]) = resolveStep (resolve cwd p) c := by
  simp [resolve, List.foldl_append]

/-- one loop iteration keeps the denotation of `ret` in step with the prefix read so far,
unless it pops a root -/
theorem resolve_step (k : Bool) (cwd : List Name) (st : List Comp) (c : Comp)
    (h : ¬ (c = .parent ∧ st.head? = some .root)) :
    resolve cwd (normStep k st c).reverse = resolveStep (resolve cwd st.reverse) c := by
  cases c with
  | root => simp [normStep, resolve_snoc]
  | normal s => simp [normStep, resolve_snoc]
  | cur =>
    cases st with
    | nil => cases k <;> simp [normStep, resolve, resolveStep]
    | cons a t => simp [normStep, resolveStep]
  | parent =>
    cases st with
    | nil => simp [normStep, resolve, resolveStep]
    | cons a t =>
      cases a with
      | root => simp at h
      | normal s => simp [normStep, resolve_snoc, resolveStep]
      | parent => simp [normStep, resolve, List.foldl_append]
      | cur => simp [normStep, resolve_snoc, resolveStep]

theorem resolve_foldl (k : Bool) (cwd : List Name) (p : Path) :
    ∀ st, rootPopFree k st p = true →
      resolve cwd (p.foldl (normStep k) st).reverse = resolve (resolve cwd st.reverse) p := by
  induction p with
  | nil => intro st _; simp [resolve]
  | cons c cs ih =>
    intro st h
    simp only [rootPopFree, Bool.and_eq_true, Bool.not_eq_eq_eq_not, Bool.not_true,
      Bool.and_eq_false_imp, beq_iff_eq] at h
    have h1 : ¬ (c = .parent ∧ st.head? = some .root) := by
      intro ⟨a, b⟩
      have := h.1 a
      simp [b] at this
    rw [List.foldl_cons, ih _ h.2, resolve_step k cwd st c h1]
    simp [resolve]

/-! ### normalize: the root survives unless popped -/

theorem last_root_step (k : Bool) (st : List Comp) (c : Comp)
    (h : ¬ (c = .parent ∧ st.head? = some .root)) (hl : st.getLast? = some .root) :
    (normStep k st c).getLast? = some .root := by
  cases st with
  | nil => simp at hl
  | cons a t =>
    cases c with
    | root => simpa [normStep, List.getLast?_cons_cons] using hl
    | normal s => simpa [normStep, List.getLast?_cons_cons] using hl
    | cur => simpa [normStep] using hl
    | parent =>
      cases a with
      | root => simp at h
      | parent => simpa [normStep, List.getLast?_cons_cons] using hl
      | normal s =>
        cases t with
        | nil => simp at hl
        | cons b u => simpa [normStep, List.getLast?_cons_cons] using hl
      | cur =>
        cases t with
        | nil => simp at hl
        | cons b u => simpa [normStep, List.getLast?_cons_cons] using hl

theorem last_root_foldl (k : Bool) (p : Path) :
    ∀ st, rootPopFree k st p = true → st.getLast? = some .root →
      (p.foldl (normStep k) st).getLast? = some .root := by
  induction p with
  | nil => intro st _ hl; simpa using hl
  | cons c cs ih =>
    intro st h hl
    simp only [rootPopFree, Bool.and_eq_true, Bool.not_eq_eq_eq_not, Bool.not_true,
      Bool.and_eq_false_imp, beq_iff_eq] at h
    have h1 : ¬ (c = .parent ∧ st.head? = some .root) := by
      intro ⟨a, b⟩
      have := h.1 a
      simp [b] at this
    exact ih _ h.2 (last_root_step k st c h1 hl)

end DarkluaModel.C15
