import DarkluaModel.Util.Sexp
/-! Line-protocol handlers for property C15 (stub: nothing modelled yet). -/
namespace DarkluaModel.C15

def handle (op : String) (_args : List String) : String :=
  "unknown-op " ++ op

end DarkluaModel.C15
