import DarkluaModel.Util.Sexp
import DarkluaModel.C15.Model
/-! Line-protocol handlers for property C15.

Wire format. A path/name argument is the hex of its bytes (`x2e2f61` = `./a`); the driver
parses it with the model's `components`. A path answer is structured: components separated
by `,` — `R` root, `C` `.`, `P` `..`, `N<hex>` a normal name — or `-` for the empty path.
Maps are `-` (empty) or `name=path,…` (hex both); `none` for an absent `.luaurc`.
File systems are `-` or a `,`-separated list of hex paths (the files that exist).
-/
namespace DarkluaModel.C15

def hexToChars? (s : String) : Option (List Char) :=
  (hexToBytes? s).map (·.map fun b => Char.ofNat b.toNat)

def charsToHex (cs : List Char) : String :=
  bytesToHex (cs.map fun c => UInt8.ofNat c.toNat)

def compWire : Comp → String
  | .root => "R"
  | .cur => "C"
  | .parent => "P"
  | .normal s => "N" ++ (charsToHex s).drop 1

def pathWire (p : Path) : String :=
  if p.isEmpty then "-" else ",".intercalate (p.map compWire)

def path? (s : String) : Option Path := (hexToChars? s).map components

def list? {α} (f : String → Option α) (s : String) : Option (List α) :=
  if s == "-" then some [] else (s.splitOn ",").mapM f

def entry? (s : String) : Option (Name × Path) :=
  match s.splitOn "=" with
  | [k, v] => do
    let k ← hexToChars? k
    let v ← path? v
    pure (k, v)
  | _ => none

def rc? (s : String) : Option (Option (List (Name × Path))) :=
  if s == "none" then some none else (list? entry? s).map some

def bool? (s : String) : Option Bool :=
  if s == "1" then some true else if s == "0" then some false else none

def findWire : Except FindErr Path → String
  | .ok p => "ok " ++ pathWire p
  | .error .emptyPath => "err empty"
  | .error (.unknownSource n) => "err unknown " ++ charsToHex n
  | .error (.notFound p) => "err notfound " ++ pathWire p

def mode? (kind folder map : String) : Option Mode :=
  match kind, hexToChars? folder, list? entry? map with
  | "path", some folder, some map => some (.path ⟨folder, map, none⟩)
  | "luau", some _, some map => some (.luau ⟨map, none⟩)
  | _, _, _ => none

/-- `.luaurc` argument: `none` | `<hex dir>/<map>` (the nearest `.luaurc`: its directory and its
raw `aliases`, keys without `@`) -/
def rcArg? (s : String) : Option (Option (List (Name × Path))) :=
  if s == "none" then some none
  else match s.splitOn "/" with
    | [dir, map] => do
      let dir ← path? dir
      let entries ← list? entry? map
      pure (some (luauRcAliases dir entries))
    | _ => none

def modeRc? (kind folder map rc : String) : Option Mode :=
  match kind, hexToChars? folder, list? entry? map, rcArg? rc with
  | "path", some folder, some map, some rc => some (.path ⟨folder, map, rc⟩)
  | "luau", some _, some map, some rc => some (.luau ⟨map, rc⟩)
  | _, _, _, _ => none

def handle (op : String) (args : List String) : String :=
  match op, args with
  | "comps", [p] =>
    match path? p with
    | some p => pathWire p
    | none => "bad-args"
  | "norm", [k, p] =>
    match bool? k, path? p with
    | some k, some p => pathWire (normalize k p)
    | _, _ => "bad-args"
  | "genp", [folder, sources, proj, found, current] =>
    match hexToChars? folder, list? entry? sources, path? proj, path? found, path? current with
    | some folder, some sources, some proj, some found, some current =>
      charsToHex (generateRequirePath ⟨folder, sources, none⟩ proj found current)
    | _, _, _, _, _ => "bad-args"
  | "genl", [aliases, proj, found, current] =>
    match list? entry? aliases, path? proj, path? found, path? current with
    | some aliases, some proj, some found, some current =>
      charsToHex (generateRequireLuau ⟨aliases, none⟩ proj found current)
    | _, _, _, _ => "bad-args"
  | "convrc", [cur, curFolder, curMap, curRc, tgt, tgtFolder, tgtMap, proj, fs, source, req] =>
    match modeRc? cur curFolder curMap curRc, mode? tgt tgtFolder tgtMap, path? proj, list? path? fs, path? source, path? req with
    | some c, some t, some proj, some fs, some source, some req =>
      match convertRequire c t proj (memIsFile fs) req source with
      | none => "none " ++ findWire (c.findCall proj (memIsFile fs) req source)
      | some arg =>
        "arg " ++ charsToHex arg ++ " found " ++ findWire (c.findCall proj (memIsFile fs) req source)
    | _, _, _, _, _, _ => "bad-args"
  | "conv", [cur, curFolder, curMap, tgt, tgtFolder, tgtMap, proj, fs, source, req] =>
    match mode? cur curFolder curMap, mode? tgt tgtFolder tgtMap, path? proj, list? path? fs, path? source, path? req with
    | some c, some t, some proj, some fs, some source, some req =>
      match convertRequire c t proj (memIsFile fs) req source with
      | none => "none"
      | some arg =>
        "arg " ++ charsToHex arg ++ " found " ++ findWire (c.findCall proj (memIsFile fs) req source) ++
          " again " ++ findWire (t.findCall proj (memIsFile fs) (components arg) source)
    | _, _, _, _, _, _ => "bad-args"
  | "hist", [kind, folder, map, proj, fs, calls] =>
    match mode? kind folder map, path? proj, list? path? fs, list? entry? calls with
    | some md, some proj, some fs, some calls =>
      -- a call is `<require>=<source>` (hex both); here the require is parsed as a path too
      match calls.mapM (fun (c : Name × Path) => some (components c.1, c.2)) with
      | some cs => "|".intercalate ((md.findHistory proj (memIsFile fs) cs).map findWire)
      | none => "bad-args"
    | _, _, _, _ => "bad-args"
  | "cands", [p, folder] =>
    match path? p, hexToChars? folder with
    | some p, some folder => ";".intercalate ((findRequirePaths p folder).map pathWire)
    | _, _ => "bad-args"
  | "findp", [folder, sources, rc, proj, fs, source, req] =>
    match hexToChars? folder, list? entry? sources, rc? rc, path? proj, list? path? fs, path? source, path? req with
    | some folder, some sources, some rc, some proj, some fs, some source, some req =>
      findWire (pathLocatorFind ⟨folder, sources, rc⟩ proj (memIsFile fs) req source)
    | _, _, _, _, _, _, _ => "bad-args"
  | "findl", [aliases, rc, proj, fs, source, req] =>
    match list? entry? aliases, rc? rc, path? proj, list? path? fs, path? source, path? req with
    | some aliases, some rc, some proj, some fs, some source, some req =>
      findWire (luauLocatorFind ⟨aliases, rc⟩ proj (memIsFile fs) req source)
    | _, _, _, _, _, _ => "bad-args"
  | _, _ => "unknown-op " ++ op

end DarkluaModel.C15
