import DarkluaModel.C15.Lemmas
/-!
Property C15 — requires resolve as documented and conversions keep the target.
All statements are about the model functions of `Model.lean` that the driver executes.
-/
namespace DarkluaModel.C15

/-! ## The candidate iterator yields the documented list -/

/-- The documented candidate order (site/content/docs/path-require-mode), as a plain list:
the path, the path with `.luau` / `.lua` appended to its file name, then the module-folder
file and (only when the folder name has no extension) the same with `.luau` / `.lua`.
Special cases: a path already ending in `.lua`/`.luau` is the only candidate; a path
without a file name (`.`, `..`, `/`, empty) has no `.luau`/`.lua` siblings. -/
def documented (p : Path) (folder : List Char) : List Path :=
  let own :=
    match fileName p with
    | some name => [p, withFileName p (name ++ '.' :: luauExt), withFileName p (name ++ '.' :: luaExt)]
    | none => [p]
  let d := joinFolder p folder
  let dir := if (pathExtension d).isSome then [d] else [d, setExtension d luauExt, setExtension d luaExt]
  if isLuaExt (pathExtension p) then [p] else own ++ dir

/-- The index-driven state machine, drained with any fuel ≥ 7, yields exactly the documented
list. -/
theorem iterator_is_documented_list (p : Path) (folder : List Char) (n : Nat) :
    iterFrom p folder (n + 7) 0 = documented p folder := by
  unfold documented
  cases hl : isLuaExt (pathExtension p) <;> cases hf : fileName p <;>
    cases hd : (pathExtension (joinFolder p folder)).isSome <;>
    simp [iterFrom, iterNext, folderWithExt, hl, hf, hd]

theorem findRequirePaths_eq_documented (p : Path) (folder : List Char) :
    findRequirePaths p folder = documented p folder :=
  iterator_is_documented_list p folder 1

/-- the ordinary case spelled out: six candidates in the documented order -/
theorem iterator_six (p : Path) (folder : List Char) (name : Name)
    (hname : fileName p = some name) (hlua : isLuaExt (pathExtension p) = false)
    (hfolder : pathExtension (joinFolder p folder) = none) :
    findRequirePaths p folder =
      [p,
       p.dropLast ++ [.normal (name ++ ['.', 'l', 'u', 'a', 'u'])],
       p.dropLast ++ [.normal (name ++ ['.', 'l', 'u', 'a'])],
       joinFolder p folder,
       setExtension (joinFolder p folder) ['l', 'u', 'a', 'u'],
       setExtension (joinFolder p folder) ['l', 'u', 'a']] := by
  rw [findRequirePaths_eq_documented]
  simp [documented, hname, hlua, hfolder, withFileName, luauExt, luaExt]

/-- a path that already ends in `.lua` / `.luau` is its own only candidate -/
theorem iterator_lua_extension (p : Path) (folder : List Char)
    (hlua : isLuaExt (pathExtension p) = true) : findRequirePaths p folder = [p] := by
  rw [findRequirePaths_eq_documented]; simp [documented, hlua]

/-- a module folder name with an extension (`init.luau`) is tried once, as it is -/
theorem iterator_folder_with_extension (p : Path) (folder : List Char) (name : Name)
    (hname : fileName p = some name) (hlua : isLuaExt (pathExtension p) = false)
    (hfolder : (pathExtension (joinFolder p folder)).isSome = true) :
    findRequirePaths p folder =
      [p, p.dropLast ++ [.normal (name ++ ['.', 'l', 'u', 'a', 'u'])],
       p.dropLast ++ [.normal (name ++ ['.', 'l', 'u', 'a'])], joinFolder p folder] := by
  rw [findRequirePaths_eq_documented]
  simp [documented, hname, hlua, hfolder, withFileName, luauExt, luaExt]

/-- a path without a file name (`.`, `..`, `/`) only has the module-folder candidates -/
theorem iterator_no_file_name (p : Path) (folder : List Char)
    (hname : fileName p = none) (hfolder : pathExtension (joinFolder p folder) = none) :
    findRequirePaths p folder =
      [p, joinFolder p folder, setExtension (joinFolder p folder) ['l', 'u', 'a', 'u'],
       setExtension (joinFolder p folder) ['l', 'u', 'a']] := by
  rw [findRequirePaths_eq_documented]
  have : isLuaExt (pathExtension p) = false := by simp [pathExtension, hname, isLuaExt]
  simp [documented, hname, this, hfolder, luauExt, luaExt]

example : findRequirePaths [.cur, .normal ['e', 'x']] ['i', 'n', 'i', 't'] =
    [[.cur, .normal ['e', 'x']],
     [.cur, .normal ['e', 'x', '.', 'l', 'u', 'a', 'u']],
     [.cur, .normal ['e', 'x', '.', 'l', 'u', 'a']],
     [.cur, .normal ['e', 'x'], .normal ['i', 'n', 'i', 't']],
     [.cur, .normal ['e', 'x'], .normal ['i', 'n', 'i', 't', '.', 'l', 'u', 'a', 'u']],
     [.cur, .normal ['e', 'x'], .normal ['i', 'n', 'i', 't', '.', 'l', 'u', 'a']]] := by decide

example : fileName [.cur, .normal ['e', 'x']] = some ['e', 'x'] ∧
    isLuaExt (pathExtension [.cur, .normal ['e', 'x']]) = false ∧
    pathExtension (joinFolder [.cur, .normal ['e', 'x']] ['i', 'n', 'i', 't']) = none := by decide

example : isLuaExt (pathExtension [.normal ['a', '.', 'l', 'u', 'a']]) = true := by decide

example : (pathExtension (joinFolder [.normal ['a']] ['i', '.', 'd'])).isSome = true := by decide

example : fileName [.parent] = none ∧ pathExtension (joinFolder [.parent] ['i', 'n', 'i', 't']) = none := by
  decide

/-! ## The locators return the first existing candidate -/

theorem locateLoop_eq_find (isFile : Path → Bool) (np : Path) (folder : List Char) :
    ∀ fuel index, locateLoop isFile np folder fuel index =
      ((iterFrom np folder fuel index).find? isFile).map (normalize true) := by
  intro fuel
  induction fuel with
  | zero => intro index; simp [locateLoop, iterFrom]
  | succ f ih =>
    intro index
    unfold locateLoop iterFrom
    cases h : iterNext np folder index with
    | none => simp
    | some ci =>
      obtain ⟨c, i⟩ := ci
      cases hc : isFile c <;> simp [List.find?, hc, ih]

/-- For any file-system predicate: the result of the common tail of both locators is the
first element of the documented list (of the normalised path) that is a file — normalised —
and "not found" exactly when none is. -/
theorem find_is_first_existing (isFile : Path → Bool) (folder : List Char) (path : Path) :
    locate isFile folder path =
      match (documented (normalize true path) folder).find? isFile with
      | some c => .ok (normalize true c)
      | none => .error (.notFound (normalize true path)) := by
  unfold locate
  simp only [locateLoop_eq_find]
  rw [show iterFrom (normalize true path) folder 8 0 = documented (normalize true path) folder from
    iterator_is_documented_list _ _ 1]
  cases (documented (normalize true path) folder).find? isFile <;> rfl

/-- path mode: a found require is the first existing documented candidate below the head -/
theorem path_find_is_first_existing (m : PathMode) (proj : Path) (isFile : Path → Bool)
    (req source h : Path) (hh : pathHead m proj req source = .ok h) :
    pathLocatorFind m proj isFile req source =
      match (documented (normalize true h) m.folder).find? isFile with
      | some c => .ok (normalize true c)
      | none => .error (.notFound (normalize true h)) := by
  simp only [pathLocatorFind, hh]; exact find_is_first_existing isFile m.folder h

/-- luau mode: the same, with the fixed module folder name `init` -/
theorem luau_find_is_first_existing (m : LuauMode) (proj : Path) (isFile : Path → Bool)
    (req source h : Path) (hh : luauHead m proj req source = .ok h) :
    luauLocatorFind m proj isFile req source =
      match (documented (normalize true h) initName).find? isFile with
      | some c => .ok (normalize true c)
      | none => .error (.notFound (normalize true h)) := by
  simp only [luauLocatorFind, hh]; exact find_is_first_existing isFile initName h

example :
    (pathLocatorFind ⟨['i', 'n', 'i', 't'], [], none⟩ [.cur]
      (memIsFile [[.normal ['a', '.', 'l', 'u', 'a']], [.normal ['a'], .normal ['i', 'n', 'i', 't', '.', 'l', 'u', 'a']]])
      [.cur, .normal ['a']] [.normal ['m', '.', 'l', 'u', 'a']]).toOption
      = some [.cur, .normal ['a', '.', 'l', 'u', 'a']] := by decide

/-! ## Resolution is a function of (file system, mode, requiring file, require) -/

/-- However many calls one locator has answered before and will answer after, the answer to a
call is the answer a fresh locator gives: no history can change where a require resolves. -/
theorem find_history_independent (md : Mode) (proj : Path) (isFile : Path → Bool)
    (before after : List (Path × Path)) (req source : Path) :
    (md.findHistory proj isFile (before ++ (req, source) :: after))[before.length]? =
      some (md.find proj isFile req source) := by
  simp [Mode.findHistory]

/-- the same, as a whole: a history is answered call by call -/
theorem find_history_pointwise (md : Mode) (proj : Path) (isFile : Path → Bool)
    (calls : List (Path × Path)) (i : Nat) :
    (md.findHistory proj isFile calls)[i]? = (calls[i]?).map fun c => md.find proj isFile c.1 c.2 := by
  simp [Mode.findHistory]

example :
    ((Mode.luau ⟨[], none⟩).findHistory [.cur]
      (memIsFile [[.normal ['a'], .normal ['u', '.', 'l', 'u', 'a', 'u']],
                  [.normal ['b'], .normal ['u', '.', 'l', 'u', 'a', 'u']]])
      [([.normal selfName, .normal ['u']], [.normal ['a'], .normal ['i', 'n', 'i', 't', '.', 'l', 'u', 'a', 'u']]),
       ([.normal selfName, .normal ['u']], [.normal ['b'], .normal ['i', 'n', 'i', 't', '.', 'l', 'u', 'a', 'u']])]).map
      Except.toOption =
    [some [.normal ['a'], .normal ['u', '.', 'l', 'u', 'a', 'u']],
     some [.normal ['b'], .normal ['u', '.', 'l', 'u', 'a', 'u']]] := by decide

/-! ## `.luaurc` aliases -/

/-- luau mode: an alias defined by the governing `.luaurc` is used as that file gives it (already
joined to the `.luaurc`'s own directory by `luauRcAliases`): neither the darklua configuration's
location nor its own `aliases` change it. -/
theorem luau_rc_alias_ignores_project_location (m : LuauMode) (name : Name) (a rel rel' : Path)
    (h : m.rc.bind (lookup · name) = some a) :
    getSourceLuau m name rel = some a ∧ getSourceLuau m name rel' = some a := by
  simp [getSourceLuau, h]

/-- path mode: the `.luaurc` is consulted only for names `sources` does not define, and then as
it is. -/
theorem path_rc_alias_is_fallback (m : PathMode) (name : Name) (a rel : Path)
    (hs : lookup m.sources name = none) (h : m.rc.bind (lookup · name) = some a) :
    getSourcePath m name rel = some a := by
  simp [getSourcePath, hs, h]

example : luauRcAliases [.normal ['p', 'k', 'g']] [(['l', 'i', 'b'], [.cur, .normal ['l', 'i', 'b']])] =
    [(['@', 'l', 'i', 'b'], [.normal ['p', 'k', 'g'], .normal ['l', 'i', 'b']])] := by decide

/-! ## Heads: relative requires start at the requiring file's directory -/

theorem resolve_dropCur (cwd : List Name) (p : Path) : resolve cwd (dropCur p) = resolve cwd p := by
  induction p generalizing cwd with
  | nil => rfl
  | cons c cs ih =>
    cases c <;> simp_all [dropCur, resolve, resolveStep, List.filter]

theorem resolve_reparse (cwd : List Name) (p : Path) : resolve cwd (reparse p) = resolve cwd p := by
  cases p with
  | nil => rfl
  | cons c cs =>
    have := resolve_dropCur (resolveStep cwd c) cs
    simpa [reparse, resolve] using this

/-- path mode, `./` and `../` requires: the head denotes the require walked from the
directory of the requiring file (`source` with its last component removed) -/
theorem path_head_relative (m : PathMode) (proj req source : Path) (cwd : List Name)
    (hrel : isRequireRelative req = true) :
    ∃ h, pathHead m proj req source = .ok h ∧
      resolve cwd h = resolve (resolve cwd (pop source)) req := by
  refine ⟨push (pop source) req, by simp [pathHead, hrel], ?_⟩
  have hr : hasRoot req = false := by
    cases req with
    | nil => rfl
    | cons c cs => cases c <;> simp_all [isRequireRelative, hasRoot]
  simp [push, hr, resolve_reparse, resolve_append]

/-- path mode, other requires: the first component selects the source, the rest is walked
from the source location (joined to the project location) -/
theorem path_head_source (m : PathMode) (proj source rest loc : Path) (name : Name) (cwd : List Name)
    (hsrc : lookup m.sources name = some loc) (hrest : hasRoot rest = false) :
    ∃ h, pathHead m proj (.normal name :: rest) source = .ok h ∧
      resolve cwd h = resolve (resolve cwd (push proj loc)) rest := by
  refine ⟨push (push proj loc) rest, by simp [pathHead, isRequireRelative, hasRoot, getSourcePath, compStr, hsrc], ?_⟩
  simp [push, hrest, resolve_reparse, resolve_append]

example : isRequireRelative [.parent, .normal ['a']] = true := by decide

example : lookup [(['p', 'k', 'g'], [.cur, .normal ['P']])] ['p', 'k', 'g'] = some [.cur, .normal ['P']] ∧
    hasRoot [.normal ['x']] = false := by decide

/-! ## luau mode heads -/

theorem parent?_snoc_name (q : Path) (a : Name) : parent? (q ++ [.normal a]) = some q := by
  simp [parent?]

theorem relParent_snoc_name (q : Path) (a : Name) :
    relParent (q ++ [.normal a]) = if q = [] then [.cur] else q := by
  unfold relParent
  rw [parent?_snoc_name]
  cases q <;> simp

theorem resolve_relParent_of_name (cwd : List Name) (q : Path) (a : Name) :
    resolve cwd (relParent (q ++ [.normal a])) = (resolve cwd (q ++ [.normal a])).tail := by
  rw [resolve_snoc, relParent_snoc_name]
  cases q with
  | nil => simp [resolve, resolveStep]
  | cons c cs => simp [resolveStep]

theorem endsInName_decompose {p : Path} (h : endsInName p = true) : ∃ q a, p = q ++ [.normal a] := by
  unfold endsInName at h
  split at h
  · rename_i a t heq
    exact ⟨t.reverse, a, by simpa using congrArg List.reverse heq⟩
  · simp at h

theorem hasRoot_of_relative {req : Path} (h : isRequireRelative req = true) : hasRoot req = false := by
  cases req with
  | nil => rfl
  | cons c cs => cases c <;> simp_all [isRequireRelative, hasRoot]

/-- luau mode, ordinary requiring file: `./`/`../` requires start at the file's directory -/
theorem luau_head_relative (m : LuauMode) (proj req source : Path) (cwd : List Name)
    (hrel : isRequireRelative req = true) (hmod : isModuleFolderName initName source = false)
    (hname : endsInName source = true) :
    ∃ h, luauHead m proj req source = .ok h ∧
      resolve cwd h = resolve (resolve cwd source).tail req := by
  obtain ⟨q, a, rfl⟩ := endsInName_decompose hname
  refine ⟨push (relParent (q ++ [.normal a])) req, by simp [luauHead, hrel, hmod], ?_⟩
  simp only [push, hasRoot_of_relative hrel, Bool.false_eq_true, if_false, resolve_reparse,
    resolve_append, resolve_relParent_of_name]

theorem resolve_parentDirectory (cwd : List Name) (d : Path) :
    resolve cwd (parentDirectory d) = (resolve cwd d).tail := by
  rcases List.eq_nil_or_concat d with rfl | ⟨q, c, rfl⟩
  · simp [parentDirectory, push, hasRoot, reparse, resolve, resolveStep, dropCur]
  · rw [List.concat_eq_append]
    cases c with
    | normal a =>
      have : parentDirectory (q ++ [.normal a]) = relParent (q ++ [.normal a]) := by
        simp [parentDirectory]
      rw [this, resolve_relParent_of_name]
    | root => simp [parentDirectory, resolve_snoc, resolveStep]
    | cur =>
      have : parentDirectory (q ++ [.cur]) = push (q ++ [.cur]) [.parent] := by simp [parentDirectory]
      rw [this]
      have hr : hasRoot [Comp.parent] = false := rfl
      simp only [push, hr, Bool.false_eq_true, if_false]
      rw [resolve_reparse]
      simp [resolve, List.foldl_append, resolveStep]
    | parent =>
      have : parentDirectory (q ++ [.parent]) = push (q ++ [.parent]) [.parent] := by simp [parentDirectory]
      rw [this]
      have hr : hasRoot [Comp.parent] = false := rfl
      simp only [push, hr, Bool.false_eq_true, if_false]
      rw [resolve_reparse]
      simp [resolve, List.foldl_append, resolveStep]

theorem endsInName_of_module {folder : Name} {p : Path} (h : isModuleFolderName folder p = true) :
    endsInName p = true := by
  unfold isModuleFolderName fileName at h
  unfold endsInName
  rw [List.getLast?_eq_head?_reverse] at h
  cases hr : p.reverse with
  | nil => simp [hr] at h
  | cons c t => cases c <;> simp_all

/-- The property's luau clause in full: from a module-folder file, `./`/`../` requires are
walked from the *parent* of the file's directory — wherever the file is (it was false before
the fix of F25 for `init.luau`, `../init.luau`, `/init.luau`, whose directory has no name). -/
theorem luau_head_module (m : LuauMode) (proj req source : Path) (cwd : List Name)
    (hrel : isRequireRelative req = true) (hmod : isModuleFolderName initName source = true) :
    ∃ h, luauHead m proj req source = .ok h ∧
      resolve cwd h = resolve (resolve cwd source).tail.tail req := by
  obtain ⟨q, a, rfl⟩ := endsInName_decompose (endsInName_of_module hmod)
  refine ⟨push (parentDirectory (relParent (q ++ [.normal a]))) req, by simp [luauHead, hrel, hmod], ?_⟩
  simp only [push, hasRoot_of_relative hrel, Bool.false_eq_true, if_false, resolve_reparse,
    resolve_append, resolve_parentDirectory, resolve_relParent_of_name]

/-- regression (former F25 witness): from `init.luau`, `./x` is walked from `..` -/
example : (luauHead ⟨[], none⟩ [.cur] [.cur, .normal ['x']]
      [.normal ['i', 'n', 'i', 't', '.', 'l', 'u', 'a', 'u']]).toOption.map (normalize true) =
    some [.parent, .normal ['x']] := by decide

/-- `@self/…` starts at the requiring file's own directory -/
theorem luau_head_self (m : LuauMode) (proj rest source : Path) (cwd : List Name)
    (hrest : hasRoot rest = false) (hname : endsInName source = true) :
    ∃ h, luauHead m proj (.normal selfName :: rest) source = .ok h ∧
      resolve cwd h = resolve (resolve cwd source).tail rest := by
  obtain ⟨q, a, rfl⟩ := endsInName_decompose hname
  refine ⟨push (relParent (q ++ [.normal a])) rest, by simp [luauHead, isRequireRelative, hasRoot, compStr], ?_⟩
  simp only [push, hrest, Bool.false_eq_true, if_false, resolve_reparse, resolve_append,
    resolve_relParent_of_name]

example : isRequireRelative [.cur, .normal ['x']] = true ∧
    isModuleFolderName initName [.normal ['s'], .normal ['i', 'n', 'i', 't', '.', 'l', 'u', 'a']] = true ∧
    isModuleFolderName initName [.normal ['m', '.', 'l', 'u', 'a']] = false ∧
    endsInName [.normal ['m', '.', 'l', 'u', 'a']] = true := by decide

/-! ## normalize -/

theorem normalize_idem (k : Bool) (p : Path) : normalize k (normalize k p) = normalize k p := by
  by_cases hp : p = []
  · simp [normalize, hp]
  · have hok := okStack_foldl k p [] trivial
    unfold normalize
    simp only [hp, if_false]
    by_cases hst : p.foldl (normStep k) [] = []
    · simp only [hst, if_true]
      cases k <;> simp [normStep]
    · simp only [hst, if_false]
      have hne : (p.foldl (normStep k) []).reverse ≠ [] := by simpa using hst
      simp only [hne, if_false]
      rw [foldl_rebuild k _ hok]
      simp [hst]

example : normalize true (normalize true [.normal ['a'], .parent, .cur, .normal ['b']]) =
    [.cur, .normal ['b']] := by decide

/-- Normalisation never changes where a path leads: from any working directory, in a tree
without symlinks whose walked directories exist (full statement; it was false before the fix
of F16 because `..` popped `RootDir`). -/
theorem normalize_lexical (k : Bool) (cwd : List Name) (p : Path) :
    resolve cwd (normalize k p) = resolve cwd p := by
  by_cases hp : p = []
  · simp [normalize, hp]
  · have := resolve_foldl k cwd p []
    unfold normalize
    simp only [hp, if_false]
    by_cases hst : p.foldl (normStep k) [] = []
    · simp only [hst, if_true]
      rw [hst] at this
      simpa [resolve, resolveStep] using this
    · simp only [hst, if_false]
      simpa [resolve] using this

example : normalize false [.normal ['a'], .parent, .parent, .cur, .normal ['b']] = [.parent, .normal ['b']] := by
  decide

/-- regression (former F16 witness): `/../a.lua` is `/a.lua`, and leads to the same place -/
example : normalize true [.root, .parent, .normal ['a', '.', 'l', 'u', 'a']] =
      [.root, .normal ['a', '.', 'l', 'u', 'a']] ∧
    resolve [['w']] (normalize true [.root, .parent, .normal ['a', '.', 'l', 'u', 'a']]) =
      resolve [['w']] [.root, .parent, .normal ['a', '.', 'l', 'u', 'a']] := by decide

/-- An absolute path stays absolute (full statement; false before the fix of F16). -/
theorem normalize_keeps_root (k : Bool) (p : Path) (hroot : hasRoot p = true) :
    hasRoot (normalize k p) = true := by
  cases p with
  | nil => simp [hasRoot] at hroot
  | cons c cs =>
    have hc : c = .root := by simpa [hasRoot] using hroot
    subst hc
    have hl := last_root_foldl k cs [.root] rfl
    unfold normalize
    simp only [List.cons_ne_nil, if_false, List.foldl_cons, normStep]
    have hne : cs.foldl (normStep k) [.root] ≠ [] := by
      intro e; rw [e] at hl; simp at hl
    simp only [hne, if_false, hasRoot]
    rw [List.head?_reverse, hl]
    rfl

example : hasRoot [.root, .parent, .parent, .normal ['b']] = true ∧
    normalize true [.root, .parent, .parent, .normal ['b']] = [.root, .normal ['b']] := by
  decide

/-! ## The literal of a require call is normalised without changing what it means -/

theorem last_rel_step (st : List Comp) (c : Comp)
    (hl : st.getLast? = some .cur ∨ st.getLast? = some .parent) :
    (normStep true st c).getLast? = some .cur ∨ (normStep true st c).getLast? = some .parent := by
  cases st with
  | nil => simp at hl
  | cons a t =>
    cases c with
    | root => simpa [normStep, List.getLast?_cons_cons] using hl
    | normal s => simpa [normStep, List.getLast?_cons_cons] using hl
    | cur => simpa [normStep] using hl
    | parent =>
      cases t with
      | nil => cases a <;> simp_all [normStep]
      | cons b u => cases a <;> simp_all [normStep, List.getLast?_cons_cons]

theorem last_rel_foldl (p : Path) : ∀ st,
    (st.getLast? = some .cur ∨ st.getLast? = some .parent) →
    ((p.foldl (normStep true) st).getLast? = some .cur ∨
      (p.foldl (normStep true) st).getLast? = some .parent) := by
  induction p with
  | nil => intro st hl; simpa using hl
  | cons c cs ih => intro st hl; exact ih _ (last_rel_step st c hl)

/-- a `./` or `../` literal is still one after normalisation -/
theorem normalize_relative (p : Path) (h : isRequireRelative p = true) :
    isRequireRelative (normalize true p) = true := by
  cases p with
  | nil => simp [isRequireRelative] at h
  | cons c cs =>
    have h0 : (normStep true [] c).getLast? = some .cur ∨ (normStep true [] c).getLast? = some .parent := by
      cases c <;> simp_all [isRequireRelative, normStep]
    have hl := last_rel_foldl cs _ h0
    unfold normalize
    simp only [List.cons_ne_nil, if_false, List.foldl_cons]
    by_cases hst : cs.foldl (normStep true) (normStep true [] c) = []
    · simp [hst, isRequireRelative]
    · simp only [hst, if_false, isRequireRelative, List.head?_reverse]
      rcases hl with hl | hl <;> simp [hl]

/-- joining and then walking = walking the base, then the joined path (a rooted `q` resets both) -/
theorem resolve_push (loc : List Name) (base q : Path) :
    resolve loc (push base q) = resolve (resolve loc base) q := by
  cases q with
  | nil =>
    have : resolve (resolve loc base) [] = resolve loc base := rfl
    simp [push, hasRoot, resolve_reparse, this]
  | cons c t =>
    cases c with
    | root => simp [push, hasRoot, resolve, resolveStep]
    | cur => simp [push, hasRoot, resolve_reparse, resolve_append]
    | parent => simp [push, hasRoot, resolve_reparse, resolve_append]
    | normal s => simp [push, hasRoot, resolve_reparse, resolve_append]

theorem root_mem_normStep (k : Bool) (st : List Comp) (c : Comp)
    (h : Comp.root ∈ normStep k st c) : Comp.root ∈ st ∨ c = .root := by
  cases c with
  | root => exact Or.inr rfl
  | normal s => left; simpa [normStep] using h
  | cur =>
    left
    cases st with
    | nil => cases k <;> simp [normStep] at h
    | cons a t => simpa [normStep] using h
  | parent =>
    left
    cases st with
    | nil => simp [normStep] at h
    | cons a t => cases a <;> simp_all [normStep]

theorem root_mem_foldl (k : Bool) (p : Path) : ∀ st,
    Comp.root ∈ p.foldl (normStep k) st → Comp.root ∈ st ∨ Comp.root ∈ p := by
  induction p with
  | nil => intro st h; exact Or.inl (by simpa using h)
  | cons c cs ih =>
    intro st h
    rcases ih _ (by simpa using h) with h1 | h1
    · rcases root_mem_normStep k st c h1 with h2 | h2
      · exact Or.inl h2
      · exact Or.inr (by simp [h2])
    · exact Or.inr (by simp [h1])

/-- normalisation does not invent a root -/
theorem root_mem_normalize (k : Bool) (p : Path) (h : Comp.root ∈ normalize k p) : Comp.root ∈ p := by
  unfold normalize at h
  by_cases hp : p = []
  · simp [hp] at h
  · simp only [hp, if_false] at h
    by_cases hst : p.foldl (normStep k) [] = []
    · simp [hst] at h
    · simp only [hst, if_false, List.mem_reverse] at h
      rcases root_mem_foldl k p [] h with h1 | h1
      · simp at h1
      · exact h1

/-- What `match_path_require_call` makes of a source-prefixed literal: the source name stays
first, and what follows leads where the written tail leads. -/
theorem matchCall_normal (n : Name) (rest : Path) (hwf : Comp.root ∉ rest) :
    ∃ t', matchPathRequireCall (.normal n :: rest) = .normal n :: t' ∧ hasRoot t' = false ∧
      ∀ X, resolve X t' = resolve X rest := by
  have hlex := fun X => normalize_lexical false X rest
  by_cases ht : normalize false rest = [] ∨ normalize false rest = [.cur]
  · refine ⟨[], by simp [matchPathRequireCall, ht], rfl, ?_⟩
    intro X
    have := hlex X
    rcases ht with ht | ht <;> rw [ht] at this <;> simpa [resolve, resolveStep] using this
  · have hnr : Comp.root ∉ normalize false rest := fun h => hwf (root_mem_normalize false rest h)
    have hroot : hasRoot (normalize false rest) = false := by
      cases hn : normalize false rest with
      | nil => rfl
      | cons c t =>
        cases c with
        | root => rw [hn] at hnr; simp at hnr
        | cur => rfl
        | parent => rfl
        | normal s => rfl
    refine ⟨dropCur (normalize false rest), ?_, ?_, ?_⟩
    · simp [matchPathRequireCall, ht, push, hroot, reparse]
    · cases hd : dropCur (normalize false rest) with
      | nil => rfl
      | cons c t =>
        cases c with
        | root =>
          have : Comp.root ∈ dropCur (normalize false rest) := by rw [hd]; simp
          simp only [dropCur, List.mem_filter] at this
          exact absurd this.1 hnr
        | cur => rfl
        | parent => rfl
        | normal s => rfl
    · intro X; rw [resolve_dropCur]; exact hlex X

def denote (cwd : List Name) : Except FindErr Path → Except FindErr (List Name)
  | .ok p => .ok (resolve cwd p)
  | .error e => .error e

theorem pathHead_relative_eq (m : PathMode) (proj r source : Path) (h : isRequireRelative r = true) :
    pathHead m proj r source = .ok (push (pop source) r) := by
  simp [pathHead, h]

theorem pathHead_root_eq (m : PathMode) (proj r source : Path) (h : isRequireRelative r = false)
    (hk : hasRoot r = true) : pathHead m proj r source = .ok r := by
  simp [pathHead, h, hk]

theorem luauHead_relative_eq (m : LuauMode) (proj r source : Path) (h : isRequireRelative r = true) :
    luauHead m proj r source =
      .ok (push (if isModuleFolderName initName source then parentDirectory (relParent source)
        else relParent source) r) := by
  by_cases hm : isModuleFolderName initName source = true <;> simp [luauHead, h, hm]

theorem luauHead_root_eq (m : LuauMode) (proj r source : Path) (h : isRequireRelative r = false)
    (hk : hasRoot r = true) : luauHead m proj r source = .ok r := by
  simp [luauHead, h, hk]

theorem not_relative_of_root {r : Path} (hk : hasRoot r = true) : isRequireRelative r = false := by
  cases r with
  | nil => rfl
  | cons c t => cases c <;> simp_all [hasRoot, isRequireRelative]

/-- Path mode: normalising the literal of a require call first (as every rule does) never
changes where the head of the resolution leads, nor the error — in particular `pkg/../m` keeps
its source name (this was false before the fix of F30). `hwf`: as in every parsed path, a root
can only be the first component. -/
theorem path_head_matchCall (m : PathMode) (proj lit source : Path) (cwd : List Name)
    (hwf : Comp.root ∉ lit.tail) :
    denote cwd (pathHead m proj (matchPathRequireCall lit) source) =
      denote cwd (pathHead m proj lit source) := by
  cases lit with
  | nil => simp [matchPathRequireCall, normalize]
  | cons c rest =>
    cases c with
    | normal n =>
      obtain ⟨t', h1, h2, h3⟩ := matchCall_normal n rest (by simpa using hwf)
      rw [h1]
      simp only [pathHead, isRequireRelative, hasRoot, List.head?_cons, compStr]
      cases getSourcePath m n proj with
      | none => simp [denote]
      | some loc => simp [denote, resolve_push, h3]
    | root =>
      have hk := normalize_keeps_root true (.root :: rest) rfl
      have e : matchPathRequireCall (.root :: rest) = normalize true (.root :: rest) := rfl
      rw [e, pathHead_root_eq _ _ _ _ (not_relative_of_root hk) hk,
        pathHead_root_eq _ _ _ _ (not_relative_of_root rfl) rfl]
      simp [denote, normalize_lexical]
    | cur =>
      have e : matchPathRequireCall (.cur :: rest) = normalize true (.cur :: rest) := rfl
      rw [e, pathHead_relative_eq _ _ _ _ (normalize_relative (.cur :: rest) rfl),
        pathHead_relative_eq _ _ _ _ rfl]
      simp [denote, resolve_push, normalize_lexical]
    | parent =>
      have e : matchPathRequireCall (.parent :: rest) = normalize true (.parent :: rest) := rfl
      rw [e, pathHead_relative_eq _ _ _ _ (normalize_relative (.parent :: rest) rfl),
        pathHead_relative_eq _ _ _ _ rfl]
      simp [denote, resolve_push, normalize_lexical]

/-- Luau mode: the same. -/
theorem luau_head_matchCall (m : LuauMode) (proj lit source : Path) (cwd : List Name)
    (hwf : Comp.root ∉ lit.tail) :
    denote cwd (luauHead m proj (matchPathRequireCall lit) source) =
      denote cwd (luauHead m proj lit source) := by
  cases lit with
  | nil => simp [matchPathRequireCall, normalize]
  | cons c rest =>
    cases c with
    | normal n =>
      obtain ⟨t', h1, h2, h3⟩ := matchCall_normal n rest (by simpa using hwf)
      rw [h1]
      simp only [luauHead, isRequireRelative, hasRoot, List.head?_cons, compStr]
      by_cases hs : n = selfName
      · simp [hs, denote, resolve_push, h3]
      · by_cases ha : n.head? = some '@'
        · simp only [hs, ha, if_true, if_false]
          cases getSourceLuau m n proj with
          | none => simp [denote]
          | some loc => simp [denote, resolve_push, h3]
        · have := h3 (n :: cwd)
          simp [hs, ha, denote]
          simpa [resolve, resolveStep] using this
    | root =>
      have hk := normalize_keeps_root true (.root :: rest) rfl
      have e : matchPathRequireCall (.root :: rest) = normalize true (.root :: rest) := rfl
      rw [e, luauHead_root_eq _ _ _ _ (not_relative_of_root hk) hk,
        luauHead_root_eq _ _ _ _ (not_relative_of_root rfl) rfl]
      simp [denote, normalize_lexical]
    | cur =>
      have e : matchPathRequireCall (.cur :: rest) = normalize true (.cur :: rest) := rfl
      rw [e, luauHead_relative_eq _ _ _ _ (normalize_relative (.cur :: rest) rfl),
        luauHead_relative_eq _ _ _ _ rfl]
      simp [denote, resolve_push, normalize_lexical]
    | parent =>
      have e : matchPathRequireCall (.parent :: rest) = normalize true (.parent :: rest) := rfl
      rw [e, luauHead_relative_eq _ _ _ _ (normalize_relative (.parent :: rest) rfl),
        luauHead_relative_eq _ _ _ _ rfl]
      simp [denote, resolve_push, normalize_lexical]

/-- regression (former F30 witness): `pkg/../m` keeps its source name -/
example : matchPathRequireCall [.normal ['p', 'k', 'g'], .parent, .normal ['m']] =
    [.normal ['p', 'k', 'g'], .parent, .normal ['m']] ∧
    matchPathRequireCall [.normal ['p', 'k', 'g'], .normal ['x'], .parent, .cur] = [.normal ['p', 'k', 'g']] ∧
    Comp.root ∉ [Comp.parent, Comp.normal ['m']] := by decide

/-! ## What counts as the module-folder file -/

theorem splitLastDot_eq {n b a : Name} (h : splitLastDot n = some (b, a)) : n = b ++ '.' :: a := by
  unfold splitLastDot at h
  split at h
  · rename_i beforeRev heq
    simp only [Option.some.injEq, Prod.mk.injEq] at h
    obtain ⟨rfl, rfl⟩ := h
    have h2 := List.takeWhile_append_dropWhile (p := fun c => decide (c ≠ '.')) (l := n.reverse)
    rw [heq] at h2
    have := congrArg List.reverse h2
    simpa using this.symm
  · simp at h

/-- `generate_require` drops the last component as "the module-folder file" only for a file
whose name is exactly the module folder name or, when that name has no extension, the name
followed by `.luau` / `.lua` — the documented module-folder candidates, nothing else (full
statement; before the fix of C15-F32 `init.json` qualified). -/
theorem module_file_is_documented (folder n : Name) (d : Path)
    (h : isModuleFolderName folder (d ++ [.normal n]) = true) :
    n = folder ∨ ((pathExtension (components folder)).isNone = true ∧
      (n = folder ++ '.' :: luauExt ∨ n = folder ++ '.' :: luaExt)) := by
  have hf : fileName (d ++ [.normal n]) = some n := by simp [fileName]
  simp only [isModuleFolderName, hf, Bool.or_eq_true, Bool.and_eq_true, beq_iff_eq] at h
  rcases h with h | ⟨⟨h1, h2⟩, h3⟩
  · exact Or.inl h
  · right
    refine ⟨h1, ?_⟩
    unfold extension at h2
    unfold fileStem at h3
    by_cases hdd : n = ['.', '.']
    · simp [hdd, isLuaExt] at h2
    · simp only [hdd, if_false] at h2 h3
      cases hs : splitLastDot n with
      | none => simp [hs, isLuaExt] at h2
      | some ba =>
        obtain ⟨b, a⟩ := ba
        have hn := splitLastDot_eq hs
        simp only [hs] at h2 h3
        by_cases hb : b = []
        · simp [hb, isLuaExt] at h2
        · simp only [hb, if_false] at h2 h3
          subst h3
          simp only [isLuaExt, Bool.or_eq_true, beq_iff_eq, Option.some.injEq] at h2
          rcases h2 with h2 | h2
          · left; rw [hn, h2]
          · right; rw [hn, h2]

example : isModuleFolderName initName [.normal ['m'], .normal ['i', 'n', 'i', 't', '.', 'l', 'u', 'a']] = true ∧
    isModuleFolderName initName [.normal ['m'], .normal ['i', 'n', 'i', 't', '.', 'd']] = false ∧
    isModuleFolderName ['i', 'n', 'i', 't', '.', 'l', 'u', 'a'] [.normal ['m'], .normal ['i', 'n', 'i', 't', '.', 'l', 'u', 'a']] = true ∧
    isModuleFolderName ['i', 'n', 'i', 't', '.', 'l', 'u', 'a'] [.normal ['m'], .normal ['i', 'n', 'i', 't', '.', 'l', 'u', 'a', '.', 'l', 'u', 'a']] = false := by
  decide

/-! ## convert_require keeps the target -/

instance instDecEqExcept {ε α : Type} [DecidableEq ε] [DecidableEq α] : DecidableEq (Except ε α)
  | .ok a, .ok b => if h : a = b then isTrue (by rw [h]) else isFalse (by intro e; cases e; exact h rfl)
  | .error a, .error b => if h : a = b then isTrue (by rw [h]) else isFalse (by intro e; cases e; exact h rfl)
  | .ok _, .error _ => isFalse (by intro e; cases e)
  | .error _, .ok _ => isFalse (by intro e; cases e)

/-- Full statement: whenever a call resolves under the current mode and is rewritten, the new
argument resolves under the target mode to a path leading to the same place. -/
def convert_keeps_target_full : Prop :=
  ∀ (current target : Mode) (proj : Path) (isFile : Path → Bool) (req source found : Path)
    (arg : List Char),
    current.findCall proj isFile req source = .ok found →
    convertRequire current target proj isFile req source = some arg →
    ∃ found', target.findCall proj isFile (components arg) source = .ok found' ∧
      ∀ cwd, resolve cwd found' = resolve cwd found

/-- False (F29): `./m.lua`, required from `src/main.lua` while `src/m.luau` exists as well, is
found as `src/m.lua`; `generate_require` drops the extension and writes `./m`, whose first
existing candidate under the target mode is `src/m.luau`. -/
theorem convert_keeps_target_full_false : ¬ convert_keeps_target_full := by
  intro h
  let cur : Mode := .path ⟨['i', 'n', 'i', 't'], [], none⟩
  let tgt : Mode := .luau ⟨[], none⟩
  let fs : List Path := [[.normal ['s', 'r', 'c'], .normal ['m', '.', 'l', 'u', 'a']],
    [.normal ['s', 'r', 'c'], .normal ['m', '.', 'l', 'u', 'a', 'u']]]
  let req : Path := [.cur, .normal ['m', '.', 'l', 'u', 'a']]
  let src : Path := [.normal ['s', 'r', 'c'], .normal ['m', 'a', 'i', 'n', '.', 'l', 'u', 'a']]
  obtain ⟨f', hf, hden⟩ := h cur tgt [.cur] (memIsFile fs) req src
    [.normal ['s', 'r', 'c'], .normal ['m', '.', 'l', 'u', 'a']] ['.', '/', 'm']
    (by decide +kernel) (by decide +kernel)
  have : tgt.findCall [.cur] (memIsFile fs) (components ['.', '/', 'm']) src =
      .ok [.normal ['s', 'r', 'c'], .normal ['m', '.', 'l', 'u', 'a', 'u']] := by decide +kernel
  rw [this] at hf
  cases hf
  have := hden []
  revert this; decide

/-- The written require depends on the found file only through its normal form: however the
locator spelled the path (`./lib/m.lua`, `lib/m.lua`, `src/../lib/m.lua`), the same argument is
generated (full statement; false before the fix of F28, when a leading `.`/`..` of the found
path was taken for "relative to the requiring file"). -/
theorem generate_path_ignores_spelling (m : PathMode) (proj found current : Path) :
    generateRequirePath m proj (normalize false found) current = generateRequirePath m proj found current := by
  simp [generateRequirePath, normalize_idem]

theorem generate_luau_ignores_spelling (m : LuauMode) (proj found current : Path) :
    generateRequireLuau m proj (normalize false found) current = generateRequireLuau m proj found current := by
  simp [generateRequireLuau, normalize_idem]

/-- regression (former F28 witness): `pkg/m` with `pkg → ./lib`, required from `src/main.lua`
and found as `./lib/m.lua`, is rewritten to `../lib/m`, which the luau mode resolves to the
same file -/
example :
    convertRequire (.path ⟨['i', 'n', 'i', 't'], [(['p', 'k', 'g'], [.cur, .normal ['l', 'i', 'b']])], none⟩)
      (.luau ⟨[], none⟩) [.cur]
      (memIsFile [[.normal ['l', 'i', 'b'], .normal ['m', '.', 'l', 'u', 'a']]])
      [.normal ['p', 'k', 'g'], .normal ['m']]
      [.normal ['s', 'r', 'c'], .normal ['m', 'a', 'i', 'n', '.', 'l', 'u', 'a']] =
    some ['.', '.', '/', 'l', 'i', 'b', '/', 'm'] ∧
    ((Mode.luau ⟨[], none⟩).findCall [.cur]
      (memIsFile [[.normal ['l', 'i', 'b'], .normal ['m', '.', 'l', 'u', 'a']]])
      (components ['.', '.', '/', 'l', 'i', 'b', '/', 'm'])
      [.normal ['s', 'r', 'c'], .normal ['m', 'a', 'i', 'n', '.', 'l', 'u', 'a']]).toOption =
    some [.normal ['l', 'i', 'b'], .normal ['m', '.', 'l', 'u', 'a']] := by decide +kernel

/-- Partial (the core of the non-defective region): when the found file and the requiring
file are plain paths (names only) and the requiring file lies
in a named directory `q`, `get_relative_path` succeeds and the relative path it returns
leads, from `q`, exactly to the found file. Together with `path_head_relative` /
`luau_head_relative` (the head of a relative require is walked from `q`) and
`find_is_first_existing` this is the proved part of "the converted require reaches the same
file"; dropping the extension / module-folder name and the candidate order on re-resolution
(F29) are covered by the tie only. -/
theorem convert_relative_denotes_partial (found q : Path) (s : Name)
    (hf : isPlain found = true) (hq : isPlain q = true) (hne : q ≠ []) :
    ∃ rel, getRelativePath found (q ++ [.normal s]) = some rel ∧
      ∀ cwd, resolve (resolve cwd q) rel = resolve cwd found := by
  obtain ⟨r, h1, h2, h3⟩ := diffLoop_plain q found hq hf
  have hsp : relParent (q ++ [.normal s]) = q := by
    rw [relParent_snoc_name]; simp [hne]
  have hrootf : hasRoot found = false := by
    cases found with
    | nil => rfl
    | cons c cs => cases c <;> simp_all [isPlain, hasRoot]
  have hrootq : hasRoot q = false := by
    cases q with
    | nil => rfl
    | cons c cs => cases c <;> simp_all [isPlain, hasRoot]
  have hr : reparse r = r := reparse_noRootCur r h2
  refine ⟨normalize true (if !startsDot r then push [.cur] r else r), ?_, ?_⟩
  · simp [getRelativePath, hsp, hrootf, hrootq, diffPaths, h1, hr]
  · intro cwd
    have key : ∀ (x : Path), resolve (resolve cwd q) (normalize true x) = resolve (resolve cwd q) x :=
      fun x => normalize_lexical true _ x
    by_cases hd : startsDot r = true
    · simp only [hd, Bool.not_true, Bool.false_eq_true, if_false]
      rw [key r, h3]
    · have hd' : startsDot r = false := by simpa using hd
      have hpr : hasRoot r = false := by
        cases r with
        | nil => rfl
        | cons c cs =>
          cases c <;> simp_all [hasRoot, noRootCur]
      have hpush : push [.cur] r = .cur :: r := by
        have : dropCur r = r := dropCur_noRootCur r h2
        simp [push, hpr, reparse, this]
      simp only [hd', Bool.not_false, if_true]
      rw [hpush, key (.cur :: r)]
      simpa [resolve, resolveStep] using h3 cwd

example : isPlain [.normal ['l', 'i', 'b'], .normal ['m', '.', 'l', 'u', 'a']] = true ∧
    isPlain [.normal ['s', 'r', 'c']] = true ∧
    getRelativePath [.normal ['l', 'i', 'b'], .normal ['m', '.', 'l', 'u', 'a']]
      [.normal ['s', 'r', 'c'], .normal ['m', 'a', 'i', 'n', '.', 'l', 'u', 'a']] =
      some [.parent, .normal ['l', 'i', 'b'], .normal ['m', '.', 'l', 'u', 'a']] := by decide

end DarkluaModel.C15
