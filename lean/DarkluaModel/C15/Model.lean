/-
Model of darklua's require resolution (property C15). Core only.

Rust sources mirrored (bugs included):
  std::path::Path::components (Unix)            → `components`, `reparse`
  src/utils/mod.rs: normalize                   → `normStep`, `normalize`
  src/rules/require/path_iterator.rs            → `iterNext`, `findRequirePaths`
  src/rules/require/path_locator.rs             → `pathHead`, `pathLocatorFind`
  src/rules/require/luau_path_locator.rs        → `luauHead`, `luauLocatorFind`
  src/rules/require/path_utils.rs               → `relParent`, `isRequireRelative`, `getRelativePath`, `writeRequirePath`
  src/rules/require/{path,luau}_require_mode.rs → `getSource*`, `isModuleFolderName`, `generateRequire*`
  src/frontend/resources.rs (memory is_file)    → `memIsFile`

A path is the list of components that `Path::components()` yields on Unix. Names are byte
strings (one `Char` per byte); the only bytes with a meaning are `/` and `.`.
-/
namespace DarkluaModel.C15

abbrev Name := List Char

inductive Comp where
  | root
  | cur
  | parent
  | normal (s : Name)
  deriving DecidableEq, Repr, Inhabited

abbrev Path := List Comp

/-! ### `Path::new(s).components()` on Unix -/

/-- split on `/` (always at least one segment) -/
def splitSlash : List Char → List Name
  | [] => [[]]
  | c :: cs =>
    match splitSlash cs with
    | [] => [[]]
    | seg :: segs => if c = '/' then [] :: seg :: segs else (c :: seg) :: segs

/-- one body segment: empty segments (`//`, trailing `/`) and `.` vanish -/
def segComp (seg : Name) : Option Comp :=
  if seg = [] then none
  else if seg = ['.'] then none
  else if seg = ['.', '.'] then some .parent
  else some (.normal seg)

/-- `Path::components()`: a leading `/` is `RootDir`; a leading `.` segment (no root) is
`CurDir`; every other `.` and every empty segment is skipped. -/
def components (s : List Char) : Path :=
  match s with
  | '/' :: _ => .root :: (splitSlash s).filterMap segComp
  | _ =>
    match splitSlash s with
    | ['.'] :: rest => .cur :: rest.filterMap segComp
    | segs => segs.filterMap segComp

def dropCur (p : Path) : Path := p.filter (· ≠ .cur)

/-- What `components()` makes of a string assembled from components with `/` between them:
a `.` survives only in first position. (`PathBuf::push`, `join`, `extend`, `from_iter`
all build such strings and the Rust code re-reads them through `components()`.) -/
def reparse : Path → Path
  | [] => []
  | c :: rest => c :: dropCur rest

def compStr : Comp → Name
  | .root => ['/']
  | .cur => ['.']
  | .parent => ['.', '.']
  | .normal s => s

/-- canonical text of a component list (`/` between components, root written once) -/
def render : Path → List Char
  | [] => []
  | [.root] => ['/']
  | .root :: rest => '/' :: (List.intercalate ['/'] (rest.map compStr))
  | p => List.intercalate ['/'] (p.map compStr)

def hasRoot (p : Path) : Bool := p.head? == some .root

/-- `Path::file_name` -/
def fileName (p : Path) : Option Name :=
  match p.getLast? with
  | some (.normal s) => some s
  | _ => none

/-- `rsplit_file_at_dot` core: text before and after the last `.` -/
def splitLastDot (name : Name) : Option (Name × Name) :=
  match name.reverse.dropWhile (· ≠ '.') with
  | '.' :: beforeRev => some (beforeRev.reverse, (name.reverse.takeWhile (· ≠ '.')).reverse)
  | _ => none

/-- `Path::extension` on a file name -/
def extension (name : Name) : Option Name :=
  if name = ['.', '.'] then none
  else match splitLastDot name with
    | none => none
    | some (before, after) => if before = [] then none else some after

/-- `Path::file_stem` on a file name -/
def fileStem (name : Name) : Name :=
  if name = ['.', '.'] then name
  else match splitLastDot name with
    | none => name
    | some (before, _) => if before = [] then name else before

def pathExtension (p : Path) : Option Name := (fileName p).bind extension

/-- `Path::parent` -/
def parent? (p : Path) : Option Path :=
  match p.getLast? with
  | some (.normal _) => some p.dropLast
  | some .cur => some p.dropLast
  | some .parent => some p.dropLast
  | _ => none

/-- `PathBuf::pop` -/
def pop (p : Path) : Path :=
  match parent? p with
  | some q => q
  | none => p

/-- `PathBuf::push` / `Path::join` / `PathBuf::extend` with an already parsed argument -/
def push (p q : Path) : Path :=
  if hasRoot q then q else reparse (p ++ q)

/-- `Path::with_file_name`: replace the file name if there is one, else append -/
def withFileName (p : Path) (n : Name) : Path :=
  match fileName p with
  | some _ => p.dropLast ++ [.normal n]
  | none => p ++ [.normal n]

/-- `PathBuf::set_extension` with a non-empty extension -/
def setExtension (p : Path) (ext : Name) : Path :=
  match fileName p with
  | none => p
  | some n => p.dropLast ++ [.normal (fileStem n ++ '.' :: ext)]

/-! ### src/utils/mod.rs: normalize -/

/-- one iteration of the `for component in components` loop; the stack `st` is `ret` reversed
(head = last pushed). `..` on top of `RootDir` leaves the root in place (the parent of the
root is the root; this was F16 before the fix), otherwise it pops a name. -/
def normStep (keep : Bool) (st : List Comp) (c : Comp) : List Comp :=
  match c with
  | .root => .root :: st
  | .cur => if keep && st.isEmpty then .cur :: st else st
  | .normal s => .normal s :: st
  | .parent =>
    match st with
    | [] => [.parent]
    | .cur :: t => .parent :: t
    | .parent :: t => .parent :: .parent :: t
    | .root :: t => .root :: t
    | .normal _ :: t => t

def normalize (keep : Bool) (p : Path) : Path :=
  if p = [] then []
  else
    let st := p.foldl (normStep keep) []
    if st = [] then [.cur] else st.reverse

/-! ### src/rules/require/path_iterator.rs -/

def luauExt : Name := ['l', 'u', 'a', 'u']
def luaExt : Name := ['l', 'u', 'a']

def isLuaExt (e : Option Name) : Bool := e == some luauExt || e == some luaExt

/-- `self.path.join(self.module_folder_name)` -/
def joinFolder (p : Path) (folder : List Char) : Path := push p (components folder)

/-- `4 | 5` / `2 | 3` arms -/
def folderWithExt (p : Path) (folder : List Char) (ext : Name) : Option Path :=
  let np := joinFolder p folder
  if (pathExtension np).isSome then none else some (setExtension np ext)

/-- `PathIterator::next` as a function of the index; returns the item and the next index -/
def iterNext (p : Path) (folder : List Char) (index : Nat) : Option (Path × Nat) :=
  if index = 0 then some (p, 1)
  else if isLuaExt (pathExtension p) then none
  else
    match fileName p with
    | some name =>
      match index with
      | 1 => some (withFileName p (name ++ '.' :: luauExt), 2)
      | 2 => some (withFileName p (name ++ '.' :: luaExt), 3)
      | 3 => some (joinFolder p folder, 4)
      | 4 => (folderWithExt p folder luauExt).map (·, 5)
      | 5 => (folderWithExt p folder luaExt).map (·, 6)
      | _ => none
    | none =>
      match index with
      | 1 => some (joinFolder p folder, 2)
      | 2 => (folderWithExt p folder luauExt).map (·, 3)
      | 3 => (folderWithExt p folder luaExt).map (·, 4)
      | _ => none

/-- drain the iterator from `index` (`collect`) -/
def iterFrom (p : Path) (folder : List Char) : Nat → Nat → List Path
  | 0, _ => []
  | fuel + 1, index =>
    match iterNext p folder index with
    | none => []
    | some (c, index') => c :: iterFrom p folder fuel index'

/-- `find_require_paths(path, folder).collect()` (the index never exceeds 6) -/
def findRequirePaths (p : Path) (folder : List Char) : List Path := iterFrom p folder 8 0

/-! ### the locators -/

inductive FindErr where
  | emptyPath
  | unknownSource (name : Name)
  | notFound (normalized : Path)
  deriving DecidableEq, Repr

/-- the `for potential_path in find_require_paths(..) { if is_file {return ..} }` loop, driven
by the iterator state machine -/
def locateLoop (isFile : Path → Bool) (np : Path) (folder : List Char) : Nat → Nat → Option Path
  | 0, _ => none
  | fuel + 1, index =>
    match iterNext np folder index with
    | none => none
    | some (c, index') =>
      if isFile c then some (normalize true c) else locateLoop isFile np folder fuel index'

/-- tail of both `find_require_path`s: normalise, try the candidates, normalise the hit -/
def locate (isFile : Path → Bool) (folder : List Char) (path : Path) : Except FindErr Path :=
  let np := normalize true path
  match locateLoop isFile np folder 8 0 with
  | some r => .ok r
  | none => .error (.notFound np)

/-- path_utils.rs: is_require_relative -/
def isRequireRelative (p : Path) : Bool := p.head? == some .cur || p.head? == some .parent

def lookup (m : List (Name × Path)) (name : Name) : Option Path :=
  (m.find? (·.1 == name)).map (·.2)

structure PathMode where
  folder : List Char
  sources : List (Name × Path)
  rc : Option (List (Name × Path))

structure LuauMode where
  aliases : List (Name × Path)
  rc : Option (List (Name × Path))

/-- utils/luau_config.rs: find_luau_configuration_private, the alias map read from the
`.luaurc` of directory `dir`: every key gets its `@`, every value is joined to the directory of
that `.luaurc` (NOT to the darklua configuration's location) and normalised -/
def luauRcAliases (dir : Path) (entries : List (Name × Path)) : List (Name × Path) :=
  entries.map fun e => ('@' :: e.1, normalize false (push dir e.2))

/-- PathRequireMode::get_source: `sources` joined to the project location, else `.luaurc` -/
def getSourcePath (m : PathMode) (name : Name) (rel : Path) : Option Path :=
  match lookup m.sources name with
  | some a => some (push rel a)
  | none => m.rc.bind (lookup · name)

/-- LuauRequireMode::get_source: `.luaurc` first, else `aliases` joined to the project location -/
def getSourceLuau (m : LuauMode) (name : Name) (rel : Path) : Option Path :=
  match m.rc.bind (lookup · name) with
  | some a => some a
  | none => (lookup m.aliases name).map (push rel)

/-- head of RequirePathLocator::find_require_path -/
def pathHead (m : PathMode) (proj : Path) (req source : Path) : Except FindErr Path :=
  if isRequireRelative req then .ok (push (pop source) req)
  else if !hasRoot req then
    match req with
    | [] => .error .emptyPath
    | c :: rest =>
      match getSourcePath m (compStr c) proj with
      | none => .error (.unknownSource (compStr c))
      | some loc => .ok (push loc rest)
  else .ok req

def pathLocatorFind (m : PathMode) (proj : Path) (isFile : Path → Bool) (req source : Path) :
    Except FindErr Path :=
  match pathHead m proj req source with
  | .error e => .error e
  | .ok h => locate isFile m.folder h

/-- path_utils.rs: get_relative_parent_path -/
def relParent (p : Path) : Path :=
  match parent? p with
  | some [] => [.cur]
  | some q => q
  | none => [.parent]

/-- path_utils.rs: get_parent_directory — the parent of a *directory*: `..` is appended to a
directory written `.`/`..`/empty, the root is its own parent, otherwise the last name is dropped -/
def parentDirectory (d : Path) : Path :=
  match d.getLast? with
  | some (.normal _) => relParent d
  | some .root => d
  | _ => push d [.parent]

def initName : Name := ['i', 'n', 'i', 't']

/-- {Luau,Path}RequireMode::is_module_folder_name: the file is the module-folder file of the
mode — its name is the module folder name, or (when that name has no extension of its own) the
name followed by `.lua` / `.luau`. (Before the fix of C15-F32 any file with the name as its stem
qualified: `init.json`.) -/
def isModuleFolderName (folder : Name) (p : Path) : Bool :=
  match fileName p with
  | none => false
  | some n =>
    n == folder ||
      ((pathExtension (components folder)).isNone && isLuaExt (extension n) && fileStem n == folder)

def selfName : Name := ['@', 's', 'e', 'l', 'f']

/-- head of LuauPathLocator::find_require_path -/
def luauHead (m : LuauMode) (proj : Path) (req source : Path) : Except FindErr Path :=
  if isRequireRelative req then
    if isModuleFolderName initName source then .ok (push (parentDirectory (relParent source)) req)
    else .ok (push (relParent source) req)
  else if !hasRoot req then
    match req with
    | [] => .error .emptyPath
    | c :: rest =>
      let name := compStr c
      if name = selfName then .ok (push (relParent source) rest)
      else if name.head? = some '@' then
        match getSourceLuau m name proj with
        | none => .error (.unknownSource name)
        | some loc => .ok (push loc rest)
      else .ok req
  else .ok req

def luauLocatorFind (m : LuauMode) (proj : Path) (isFile : Path → Bool) (req source : Path) :
    Except FindErr Path :=
  match luauHead m proj req source with
  | .error e => .error e
  | .ok h => locate isFile initName h

/-- src/frontend/resources.rs, `Source::Memory`: `is_file` looks the `normalize_path`d location
up among the (normalised on write) keys -/
def memIsFile (files : List Path) (p : Path) : Bool :=
  (files.map (normalize false)).contains (normalize false p)

/-! ### generate_require (convert_require) -/

/-- pathdiff 0.2.3 `diff_paths`, the component loop (`comps` in push order) -/
def diffLoop : Path → Path → List Comp → Option Path
  | [], [], comps => some comps
  | a :: as, [], comps => some (comps ++ a :: as)
  | [], _ :: bs, comps => diffLoop [] bs (comps ++ [.parent])
  | a :: as, b :: bs, comps =>
    if comps.isEmpty && a == b then diffLoop as bs comps
    else if b == .cur then diffLoop as bs (comps ++ [a])
    else if b == .parent then none
    else some (comps ++ [.parent] ++ bs.map (fun _ => .parent) ++ a :: as)

def diffPaths (path base : Path) : Option Path :=
  if hasRoot path != hasRoot base then (if hasRoot path then some path else none)
  else (diffLoop path base []).map reparse

def startsDot (p : Path) : Bool := p.head? == some .cur || p.head? == some .parent

/-- path_utils.rs: get_relative_path with `use_current_dir_prefix = true` -/
def getRelativePath (requirePath sourcePath : Path) : Option Path :=
  let sp := relParent sourcePath
  if hasRoot requirePath && !hasRoot sp then none
  else (diffPaths requirePath sp).map fun path =>
    normalize true (if !startsDot path then push [.cur] path else path)

/-- `set_extension("")` -/
def dropExtension (p : Path) : Path :=
  match fileName p with
  | none => p
  | some n => p.dropLast ++ [.normal (fileStem n)]

/-- common tail of both `generate_require`s: drop the module folder file name or the Lua extension -/
def stripForRequire (folder : Name) (g : Path) : Path :=
  if isModuleFolderName folder g then pop g
  else if isLuaExt (pathExtension g) then dropExtension g
  else g

/-- path_utils.rs: write_require_path -/
def writeRequirePath (p : Path) : List Char :=
  p.foldl (fun (result : List Char) c =>
    let result := if !(result.isEmpty || result.getLast? == some '/') then result ++ ['/'] else result
    match c with
    | .cur => result ++ ['.']
    | .parent => result ++ ['.', '.']
    | .normal n => result ++ n
    | .root => if result.isEmpty then result ++ ['/'] else result) []

/-- the alias whose (normalised, project-relative) location is the longest prefix of the
required file; among equally long ones the last in iteration order (`sort_by_cached_key` is
stable, `next_back`) — the real iteration order of a `HashMap` is unspecified -/
def bestAlias (aliases : List (Name × Path)) (proj nrp : Path) : Option (Name × Path) :=
  let cands := (aliases.map fun (n, a) => (n, normalize false (push proj a))).filter
    fun (_, ap) => ap.isPrefixOf nrp
  cands.foldl (fun best c =>
    match best with
    | none => some c
    | some b => if c.2.length >= b.2.length then some c else some b) none

def aliasPath (alias : Name × Path) (nrp : Path) : Path :=
  push (components alias.1) (nrp.drop alias.2.length)

/-- PathRequireMode::generate_require (the string written as the new argument). The found file
path is normalised first, however it is spelled (before the fix of F28 a leading `.`/`..` was
taken for "relative to the requiring file"). -/
def generateRequirePath (m : PathMode) (proj requirePath current : Path) : List Char :=
  let source := normalize false current
  let nrp := normalize false requirePath
  let g :=
    match bestAlias m.sources proj nrp with
    | some al => aliasPath al nrp
    | none =>
      match getRelativePath nrp source with
      | some rel => if !startsDot rel then push [.cur] rel else rel
      | none => nrp
  writeRequirePath (stripForRequire m.folder g)

/-- LuauRequireMode::generate_require -/
def generateRequireLuau (m : LuauMode) (proj requirePath current : Path) : List Char :=
  let source := normalize false current
  let nrp := normalize false requirePath
  let g :=
    match bestAlias m.aliases proj nrp with
    | some al => aliasPath al nrp
    | none =>
      match getRelativePath nrp source with
      | some rel =>
        if isModuleFolderName initName source then
          if rel.head? == some .cur then push [.normal selfName] (rel.drop 1)
          else if [Comp.parent, Comp.parent].isPrefixOf rel then reparse (rel.drop 1)
          else if rel.head? == some .parent then push [.cur] (rel.drop 1)
          else rel
        else if !startsDot rel then push [.cur] rel else rel
      | none => nrp
  writeRequirePath (stripForRequire initName g)

inductive Mode where
  | path (m : PathMode)
  | luau (m : LuauMode)

def Mode.find (md : Mode) (proj : Path) (isFile : Path → Bool) (req source : Path) : Except FindErr Path :=
  match md with
  | .path m => pathLocatorFind m proj isFile req source
  | .luau m => luauLocatorFind m proj isFile req source

def Mode.generate (md : Mode) (proj requirePath current : Path) : List Char :=
  match md with
  | .path m => generateRequirePath m proj requirePath current
  | .luau m => generateRequireLuau m proj requirePath current

/-- One locator instance answering a history of calls `(require, requiring file)`, in order,
as bundling uses it. The locators hold no state: every answer is computed from the call alone. -/
def Mode.findHistory (md : Mode) (proj : Path) (isFile : Path → Bool) (calls : List (Path × Path)) :
    List (Except FindErr Path) :=
  calls.map fun c => md.find proj isFile c.1 c.2

/-- match_require.rs: match_path_require_call / normalize_require_literal — the string literal
of a require call is normalised before any locator sees it: a relative or absolute literal as
a whole (keeping a leading `.`); otherwise the first component (a source / alias name) is kept
and only what follows is normalised (before the fix of F30 the whole literal was normalised
and `pkg/../m` lost its source name) -/
def matchPathRequireCall (literal : Path) : Path :=
  match literal with
  | .normal n :: rest =>
    let tail := normalize false rest
    if tail = [] ∨ tail = [.cur] then [.normal n] else push [.normal n] tail
  | _ => normalize true literal

/-- `RequireMode::find_require` on a call `require("<literal>")` -/
def Mode.findCall (md : Mode) (proj : Path) (isFile : Path → Bool) (literal source : Path) :
    Except FindErr Path :=
  md.find proj isFile (matchPathRequireCall literal) source

/-- convert_require/mod.rs: try_require_conversion — the new argument text, if the require
resolves under the current mode -/
def convertRequire (current target : Mode) (proj : Path) (isFile : Path → Bool) (req source : Path) :
    Option (List Char) :=
  match current.findCall proj isFile req source with
  | .ok found => some (target.generate proj found source)
  | .error _ => none



/-- the requiring file path ends in a name -/
def endsInName (source : Path) : Bool :=
  match source.reverse with
  | .normal _ :: _ => true
  | _ => false

/-! ### lexical denotation (used by the theorems only)

Where a path leads from a working directory `cwd` (names from the root, innermost first) in
a tree without symlinks in which every directory walked through exists: POSIX resolution. -/

def resolveStep (loc : List Name) : Comp → List Name
  | .root => []
  | .cur => loc
  | .parent => loc.tail
  | .normal s => s :: loc

def resolve (cwd : List Name) (p : Path) : List Name := p.foldl resolveStep cwd

end DarkluaModel.C15
