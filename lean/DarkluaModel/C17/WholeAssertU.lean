import DarkluaModel.Shared.VisitorSoundHeapU
import DarkluaModel.C17.WholeAssert
/-!
# C17 — whole-rule theorem for remove_assertions in `Sem.HeapU` (stage 4 unified: call facts + renumbering)

Same rounds as `WholeAssert.lean` (stage 3), plus: a statement-position call may DROP arguments that allocate
(function expressions, table constructors of allocation-pure values): the left side's extra tables / closures
are garbage of the relation (`SRel.extLeft`). One relational lemma covers every shape:
`discardRel` (evaluate all arguments / evaluate the kept ones, values discarded) and `dropCallStmt`.
-/
namespace DarkluaModel.C17.WholeAssertU
open Sem Sem.HeapU Rules Rules.RemoveCallMatch
open Sem.Heap (idBody callClosure_idBody)
open Demo.DropAssertU (acx idGlobal)
open Demo.DropAssert (env0)
open WholeAssert (processExpressionLoopW exprRoundOK matches_assert noRefEs_mem noRefEs_of_mem noRef_getInner noRef_wrap)

mutual
  theorem allocPureM_eq : ∀ e : Expr, allocPureM e = e.allocPure
    | .nil | .true | .false | .vararg => rfl
    | .num _ | .str _ | .var _ | .fn _ => rfl
    | .paren e => by simp only [allocPureM, Expr.allocPure, allocPureM_eq e]
    | .table es => by simp only [allocPureM, Expr.allocPure, allocPureListM_eq es]
    | .un _ _ | .bin _ _ _ | .call _ _ _ _ | .field _ _ | .index _ _ | .ifx _ _ _ _ | .interp _ | .cast _ _
    | .inst _ _ => rfl
  theorem allocPureListM_eq : ∀ es : List Entry, allocPureListM es = Entry.allocPureList es
    | [] => rfl
    | .pos v :: rest => by simp only [allocPureListM, Entry.allocPureList, allocPureM_eq v, allocPureListM_eq rest]
    | .named _ v :: rest => by simp only [allocPureListM, Entry.allocPureList, allocPureM_eq v, allocPureListM_eq rest]
    | .keyed _ _ :: _ => rfl
end

def AUnit {N : NumOps} : ARel N Unit := fun _ _ _ => True

/-- evaluating ALL arguments (left) against evaluating the kept ones (right), values discarded: kept arguments
are related to themselves, dropped ones only allocate on the left -/
theorem discardRel {cx : Cx} {Q : QRel} (hq : QRefl Q) {D : List DName} (keep : Expr → Bool) :
    ∀ (args : List Expr), (∀ e ∈ args, keep e = true → NoRefE D e) → (∀ e ∈ args, keep e = false → AllocPureE e) →
    ∀ (N : NumOps) (call : CallFn N) (ρ : ExtOracle N) (k : Nat) (env env' : Env N) (σ σ' : State N) (β : Inj N),
      POK Q cx call ρ k → SRel Q cx β σ σ' → EnvOK cx β D env env' →
      RRel Q cx β AUnit (evalDiscard call ρ k env args σ) (evalDiscard call ρ k env' (args.filter keep) σ')
  | [], _, _ => fun N call ρ k env env' σ σ' β _ hs _ => by
    simp only [List.filter_nil, evalDiscard]
    exact RRel.ok (A := AUnit) trivial hs
  | e :: rest, hk, hd => fun N call ρ k env env' σ σ' β hc hs he => by
    have ih := discardRel (cx := cx) hq keep rest (fun x hx => hk x (List.mem_cons_of_mem _ hx))
      (fun x hx => hd x (List.mem_cons_of_mem _ hx))
    by_cases hke : keep e = true
    · simp only [List.filter_cons, hke, if_true, evalDiscard]
      refine RRel.bind (reflE hq e D (hk e List.mem_cons_self hke) N call ρ k env env' σ σ' β hc hs he)
        fun β1 hle _ _ _ s s' hs1 => ?_
      exact ih N call ρ k env env' s s' β1 hc hs1 (he.mono hle)
    · have hke' : keep e = false := by simpa using hke
      obtain ⟨ws, σ1, h1, hx⟩ := hd e List.mem_cons_self hke' N call ρ k env σ
      simp only [List.filter_cons, hke', evalDiscard, h1, Res.bind]
      exact ih N call ρ k env env' σ1 σ' β hc (hs.extLeft hx) he

/-- the state after evaluating an argument list = the state after evaluating it for effect -/
theorem evalEs_as_discard {N : NumOps} (call : CallFn N) (ρ : ExtOracle N) (k : Nat) (env : Env N) (es : List Expr)
    (σ : State N) :
    (evalEs call ρ k env es σ).bind (fun _ s => Res.ok () s) = evalDiscard call ρ k env es σ := by
  rw [evalEs_discard call ρ k env es σ (fun s => Res.ok () s)]
  exact bind_ok_id _

/-- what the statement on the right does, relative to "evaluate `kept`, discard": the same, possibly followed by the
allocation of one cell (the `local _` of a `do` block) -/
structure StepsLike (X : Stmt) (kept : List Expr) : Prop where
  ok : ∀ {N : NumOps} (call : CallFn N) (ρ : ExtOracle N) (k : Nat) (env : Env N) (σ s : State N),
    evalDiscard call ρ k env kept σ = .ok () s →
      execS call ρ k env X σ = .ok (.next env) s ∨ ∃ v, execS call ρ k env X σ = .ok (.next env) (s.allocCell v).2
  err : ∀ {N : NumOps} (call : CallFn N) (ρ : ExtOracle N) (k : Nat) (env : Env N) (σ s : State N) (v : Val N),
    evalDiscard call ρ k env kept σ = .err v s → execS call ρ k env X σ = .err v s
  timeout : ∀ {N : NumOps} (call : CallFn N) (ρ : ExtOracle N) (k : Nat) (env : Env N) (σ : State N),
    evalDiscard call ρ k env kept σ = .timeout → execS call ρ k env X σ = .timeout

/-- **the statement step**: `name(args)` for a watched global that acts as the identity, against a statement that
evaluates the kept arguments (dropped ones only allocate) and possibly allocates a cell -/
theorem dropCallStmt {cx : Cx} {Q : QRel} (hq : QRefl Q) {D : List DName} {name : String} {id : Nat} {body : FnBody}
    {kd : ArgKind} {args : List Expr} {X : Stmt} (keep : Expr → Bool) (hI : IdGlobal cx name id body)
    (hk : ∀ e ∈ args, keep e = true → NoRefE D e) (hd : ∀ e ∈ args, keep e = false → AllocPureE e)
    (hX : StepsLike X (args.filter keep)) :
    SoundS Q cx D (.callStmt (.call (.var name) none kd args)) X := by
  intro N call ρ k env env' σ σ' β hc hs he
  have hl : lookupVar env name σ = .fn id :=
    (hs.readGlobal he hI.watched hI.unboundL hI.unboundR (hI.isFn N)).1
  have h1 := discardRel hq keep args hk hd N call ρ k env env' σ σ' β hc hs he
  rw [← evalEs_as_discard call ρ k env args σ] at h1
  simp only [execS, evalE, Res.bind, first, List.headD, hl]
  revert h1
  generalize evalEs call ρ k env args σ = r
  intro h1
  cases r with
  | ok avs σ2 =>
    simp only [Res.bind] at h1
    cases hr : evalDiscard call ρ k env' (args.filter keep) σ' with
    | ok u s' =>
      rw [hr] at h1
      obtain ⟨β1, hle, _, hs1⟩ := h1
      simp only []
      cases k with
      | zero => simp only [callVal]; exact RRel.timeout_left hI.upto _
      | succ k =>
        obtain ⟨id2, clo, hg, hclo, hb, henv⟩ := (hs1.finv _ hI.hasBody).1
        have hid : id2 = id := by
          have := (hs1.ginv _ (hI.isFn N)).1
          simp only [] at this
          rw [this] at hg
          injection hg with hg; exact hg.symm
        subst hid
        simp only [callVal, hclo]
        rcases hI.runs N ρ (k + 1) call hc.cf clo avs σ2 hb henv with h2 | h2
        · rw [h2]
          rcases hX.ok call ρ (k + 1) env' σ' s' hr with h3 | ⟨v, h3⟩
          · rw [h3]; exact ⟨β1, hle, he.mono hle, hs1⟩
          · rw [h3]; exact ⟨β1, hle, he.mono hle, hs1.allocCellRight v⟩
        · rw [h2]; exact RRel.timeout_left hI.upto _
    | err v s' => rw [hr] at h1; exact absurd h1 (by simp [HeapU.RRel])
    | timeout =>
      rw [hr] at h1
      rw [hX.timeout call ρ k env' σ' hr]
      exact RRel.timeout_right h1 _
  | err v σ2 =>
    simp only [Res.bind] at h1
    cases hr : evalDiscard call ρ k env' (args.filter keep) σ' with
    | ok u s' => rw [hr] at h1; exact absurd h1 (by simp [HeapU.RRel])
    | err v' s' =>
      rw [hr] at h1
      rw [hX.err call ρ k env' σ' s' v' hr]
      exact h1
    | timeout =>
      rw [hr] at h1
      rw [hX.timeout call ρ k env' σ' hr]
      exact RRel.timeout_right h1 _
  | timeout =>
    simp only [Res.bind] at h1
    cases hr : evalDiscard call ρ k env' (args.filter keep) σ' with
    | ok u s' => rw [hr] at h1; exact RRel.timeout_left (by simpa [HeapU.RRel] using h1) _
    | err v' s' => rw [hr] at h1; exact RRel.timeout_left (by simpa [HeapU.RRel] using h1) _
    | timeout => rw [hX.timeout call ρ k env' σ' hr]; trivial

/-! ### the two shapes the rule builds -/

theorem stepsLike_calls (kept : List Expr) (hA : ∀ e ∈ kept, isCall (getInner e) = true) :
    StepsLike (wrapLocal (expressionsAsStatement kept)) kept := by
  have hx : ∀ {N : NumOps} (call : CallFn N) (ρ : ExtOracle N) (k : Nat) (env : Env N) (σ : State N),
      execS call ρ k env (wrapLocal (expressionsAsStatement kept)) σ
        = (evalDiscard call ρ k env kept σ).bind fun _ s => .ok (.next env) s := by
    intro N call ρ k env σ
    rw [wrapLocal_calls _ hA, execS_expressionsAsStatement_calls call ρ k env _ hA]
  exact
    { ok := fun call ρ k env σ s h => .inl (by rw [hx, h]; rfl)
      err := fun call ρ k env σ s v h => by rw [hx, h]; rfl
      timeout := fun call ρ k env σ h => by rw [hx, h]; rfl }

theorem stepsLike_local (kept : List Expr) :
    StepsLike (.doBlock (.mk [.localAssign .loc [.mk "_" none] (kept.map getInner)] none)) kept := by
  have hx : ∀ {N : NumOps} (call : CallFn N) (ρ : ExtOracle N) (k : Nat) (env : Env N) (σ : State N),
      execS call ρ k env (.doBlock (.mk [.localAssign .loc [.mk "_" none] (kept.map getInner)] none)) σ
        = (evalEs call ρ k env (kept.map getInner) σ).bind fun vs s => .ok (.next env) (s.allocCell (first vs)).2 := by
    intro N call ρ k env σ
    simp only [execS, execB, execSs, bind_assoc]
    apply bind_congr
    intro vs s
    simp [List.map, TName.name, bindLocals, Res.bind]
  have hd : ∀ {N : NumOps} (call : CallFn N) (ρ : ExtOracle N) (k : Nat) (env : Env N) (σ : State N),
      (evalEs call ρ k env (kept.map getInner) σ).bind (fun _ s => Res.ok () s) = evalDiscard call ρ k env kept σ := by
    intro N call ρ k env σ
    rw [evalEs_as_discard, evalDiscard_map_getInner]
  refine { ok := ?_, err := ?_, timeout := ?_ }
  · intro N call ρ k env σ s h
    rw [← hd] at h
    rw [hx]
    cases hr : evalEs call ρ k env (kept.map getInner) σ with
    | ok vs s1 =>
      rw [hr] at h
      simp only [Res.bind] at h
      cases h
      exact .inr ⟨first vs, rfl⟩
    | err v s1 => rw [hr] at h; cases h
    | timeout => rw [hr] at h; cases h
  · intro N call ρ k env σ s v h
    rw [← hd] at h
    rw [hx]
    cases hr : evalEs call ρ k env (kept.map getInner) σ with
    | ok vs s1 => rw [hr] at h; cases h
    | err v1 s1 => rw [hr] at h; simp only [Res.bind] at h; cases h; rfl
    | timeout => rw [hr] at h; cases h
  · intro N call ρ k env σ h
    rw [← hd] at h
    rw [hx]
    cases hr : evalEs call ρ k env (kept.map getInner) σ with
    | ok vs s1 => rw [hr] at h; cases h
    | err v1 s1 => rw [hr] at h; cases h
    | timeout => rfl

theorem stmtOK_drop {args : List Expr} (hok : stmtOK args = true) : ∀ e ∈ args, keeps e = false → AllocPureE e := by
  intro e he hk
  simp only [stmtOK, Bool.and_eq_true] at hok
  have := List.all_eq_true.mp hok.1 e he
  simp only [hk, Bool.false_or] at this
  exact allocPure_sound e (by rw [← allocPureM_eq]; exact this)

/-! ### links, hooks, theorem — for any context in which `assert` is an identity global and `_` is not watched -/

section generic
variable {cx : Cx} (hI : IdGlobal cx "assert" 0 idBody) (hU : ¬ cx.watched "_")
include hI hU

theorem lkS_round (s : Stmt) (st : St) (hm : stmtMatched RemoveAssertions.matcher st s = true)
    (hok : stmtRoundOK s = true) :
    VkS cx s (processStatementOnce RemoveAssertions.matcher true s st).1 := by
  match s, hm, hok with
  | .callStmt (.call f none .tuple args), hm, hok =>
    simp only [stmtMatched] at hm
    simp only [stmtRoundOK] at hok
    have hf := matches_assert hm
    subst hf
    simp only [processStatementOnce, hm, if_true]
    have hkeptArgs : ∀ e ∈ preserveArgumentsSideEffects .tuple args, e ∈ args ∧ keeps e = true := by
      intro e he
      simpa only [preserveArgumentsSideEffects, argCandidates, List.mem_filter] using he
    intro D hd hn
    have hargs : NoRefEs D args := (NoRefE.call.mp (NoRefS.callStmt.mp hn)).2
    have hkr : ∀ e ∈ args, keeps e = true → NoRefE D e := fun e he _ => noRefEs_mem hargs e he
    by_cases hA : ∀ e ∈ preserveArgumentsSideEffects .tuple args, isCall (getInner e) = true
    · refine ⟨.genS fun _ hq => dropCallStmt hq keeps hI hkr (stmtOK_drop hok) (stepsLike_calls _ hA), ?_⟩
      rw [wrapLocal_calls _ hA, expressionsAsStatement_eq_wrap, asStatements_calls _ hA]
      apply noRef_wrap
      intro c hc
      obtain ⟨e, he, rfl⟩ := List.mem_map.mp hc
      exact noRef_getInner e (noRefEs_mem hargs e (hkeptArgs e he).1)
    · have hB : ∀ e ∈ preserveArgumentsSideEffects .tuple args,
          isCall (getInner e) = false ∧ usesDiscard e = false := by
        simp only [stmtOK, Bool.and_eq_true, Bool.or_eq_true] at hok
        rcases hok.2 with h1 | h1
        · exfalso
          apply hA
          intro e he
          have := List.all_eq_true.mp h1 e (hkeptArgs e he).1
          simpa [(hkeptArgs e he).2] using this
        · intro e he
          have := List.all_eq_true.mp h1 e (hkeptArgs e he).1
          simpa [(hkeptArgs e he).2] using this
      match hkept : preserveArgumentsSideEffects .tuple args with
      | [] => rw [hkept] at hA; exact absurd (fun e he => by cases he) hA
      | e0 :: rest =>
        rw [hkept] at hB
        have hout : wrapLocal (expressionsAsStatement (e0 :: rest))
            = .doBlock (.mk [.localAssign .loc [.mk "_" none] ((e0 :: rest).map getInner)] none) := by
          simp only [expressionsAsStatement, WholeAssert.asStatements_noncalls e0 rest hB, wrapLocal]
        rw [hout]
        have hX := stepsLike_local (e0 :: rest)
        rw [← hkept] at hX
        refine ⟨.genS fun _ hq => ?_, ?_⟩
        · have := dropCallStmt (cx := cx) (kd := .tuple) hq keeps hI hkr (stmtOK_drop hok) hX
          rw [hkept] at this
          exact this
        · apply NoRefS.doBlock.mpr
          intro x hx
          have hvs : NoRefEs D ((e0 :: rest).map getInner) := by
            apply noRefEs_of_mem
            intro c hc
            obtain ⟨e, he, rfl⟩ := List.mem_map.mp hc
            exact noRef_getInner e (noRefEs_mem hargs e (hkeptArgs e (hkept ▸ he)).1)
          have h1 := hvs x hx
          have h2 : watNames x [TName.mk "_" none] = false := by
            cases x with
            | ref n => simp [watNames]
            | wat n =>
              have hw := hd.wat n hx
              have hne : n ≠ "_" := fun h => hU (h ▸ hw)
              simp [watNames, hne]
          simp only [Block.refs, Stmt.refsList, Stmt.refs, h1, h2, Bool.or_false]

theorem lkE_round (e : Expr) (st : St) (hm : exprMatched RemoveAssertions.matcher st e = true)
    (hok : exprRoundOK e = true) :
    VkE cx e (processExpressionOnce RemoveAssertions.matcher true e st).1 := by
  match e, hm, hok with
  | .call f none kd [a], hm, _ =>
    simp only [exprMatched] at hm
    have hf := matches_assert hm
    subst hf
    have hc : ∀ ms, RemoveAssertions.matcher.computeResult kd [a] ms = some a := fun _ => rfl
    simp only [processExpressionOnce, hm, if_true, hc]
    exact VkE.dropIdCall hI

theorem chain_stmtLoop (n : Nat) : ∀ (s : Stmt) (st : St),
    Chain (VkS cx) s (processStatementLoopW RemoveAssertions.matcher n s st).1 := by
  induction n with
  | zero => intro s st; exact .refl _
  | succ n ih =>
    intro s st
    unfold processStatementLoopW
    by_cases hc : (stmtMatched RemoveAssertions.matcher st s && stmtRoundOK s) = true
    · simp only [hc, if_true]
      simp only [Bool.and_eq_true] at hc
      exact .cons (lkS_round hI hU s st hc.1 hc.2) (ih _ _)
    · simp only [hc]
      exact .refl _

theorem chain_exprLoop (n : Nat) : ∀ (e : Expr) (st : St),
    Chain (VkE cx) e (processExpressionLoopW RemoveAssertions.matcher n e st).1 := by
  induction n with
  | zero => intro e st; exact .refl _
  | succ n ih =>
    intro e st
    unfold processExpressionLoopW
    by_cases hc : (exprMatched RemoveAssertions.matcher st e && exprRoundOK e) = true
    · simp only [hc, if_true]
      simp only [Bool.and_eq_true] at hc
      exact .cons (lkE_round hI hU e st hc.1 hc.2) (ih _ _)
    · simp only [hc]
      exact .refl _

theorem hooksU : HooksU cx (processorW RemoveAssertions.matcher) where
  stmt := fun s st => chain_stmtLoop hI hU _ s st
  expr := fun e st => chain_exprLoop hI hU _ e st
  node := fun e s => ⟨.refl _, .refl _⟩
  last := fun l s => .refl _
  target := fun e s => .refl _
  stmtNode := fun x s => .refl _
  insert := fun n s => rfl
  insertLocalName := fun n v s => rfl
  insertLocalVal := fun n v s => .refl _
  insertLocalFn := fun n s => rfl

end generic

theorem acx_no_underscore : ¬ acx.watched "_" := by
  simp [Cx.watched, acx, lookupAssoc]

/-- **Whole-rule theorem (restricted rounds, `Sem.HeapU`).** In the modified environment `env0`, for every program
that never declares or assigns `assert`, every number system, every FLAT oracle (external functions return no heap
references) and every level: same observable outcome as the input, unless the input exhausts its budget. -/
theorem applyW_refines (b : Block) (hb : NoRefB [.wat "assert"] b) {N : NumOps} (ρ : ExtOracle N)
    (hρ : OracleFlat ρ) (n : Nat) (externs : List String) :
    observe (runChunk ρ n b (env0 externs : State N)) = .timeout ∨
      observe (runChunk ρ n (applyW b) (env0 externs)) = observe (runChunk ρ n b (env0 externs)) := by
  have hwf : State.WF (env0 externs : State N) :=
    State.WF.presetFn (State.WF.init externs) "assert" idBody
  rcases chain_runChunk_wf (cx := acx) (Visitor.visit_chain_u (hooksU idGlobal acx_no_underscore) true _ true b {}) ρ hρ
      (fun n clo args σ hb henv => callClosure_idBody ρ n clo args σ hb henv) n hwf trivial rfl hb trivial
      (fun _ _ => ⟨rfl, rfl⟩)
      (fun p hp => by
        simp only [acx, List.mem_singleton] at hp; subst hp
        simp [env0, State.getGlobal, lookupAssoc])
      (fun p hp => by
        simp only [acx, List.mem_singleton] at hp; subst hp
        exact ⟨0, ⟨idBody, [], []⟩, by simp [env0, State.getGlobal, lookupAssoc], rfl, rfl, rfl⟩)
      (fun c hc => by
        simp only [env0, List.mem_singleton] at hc; subst hc
        exact ⟨NoRefF.mk.mpr ⟨fun _ _ => rfl, NoRefB.ofBool rfl⟩, fun _ _ => ⟨rfl, rfl⟩⟩) with h | h
  · exact .inl h.2
  · exact .inr h

end DarkluaModel.C17.WholeAssertU
