import DarkluaModel.C17.Model
/-!
# C17 — semantic lemmas (reference semantics `Shared/Sem.lean`)

`evalDiscard es` evaluates expressions left to right for their effects only; the rewrites of
`expressions_as_statement` / `expressions_as_expression` are characterised through it, which is
what "each argument with side effects is evaluated once, in order" means formally.
-/
namespace DarkluaModel.C17
open Sem Rules Rules.RemoveCallMatch

variable {N : NumOps}

theorem bind_assoc {α β γ : Type} (r : Res N α) (f : α → State N → Res N β) (g : β → State N → Res N γ) :
    (r.bind f).bind g = r.bind fun a σ => (f a σ).bind g := by
  cases r <;> rfl

theorem bind_ok {α β : Type} (a : α) (σ : State N) (f : α → State N → Res N β) :
    (Res.ok a σ : Res N α).bind f = f a σ := rfl

theorem bind_congr {α β : Type} (r : Res N α) (f g : α → State N → Res N β) (h : ∀ a σ, f a σ = g a σ) :
    r.bind f = r.bind g := by
  cases r <;> simp [Res.bind, h]

section level
variable (call : CallFn N) (ρ : ExtOracle N) (k : Nat) (env : Env N)

/-- evaluate expressions in order, for their effects only -/
def evalDiscard : List Expr → State N → Res N Unit
  | [], σ => .ok () σ
  | e :: es, σ => (evalE call ρ k env e σ).bind fun _ σ' => evalDiscard es σ'

/-- `e` evaluates to some values without failing and without touching the state, in every state -/
def PureAt (e : Expr) : Prop := ∀ σ : State N, ∃ vs, evalE call ρ k env e σ = .ok vs σ

/-- discarding the values of an argument list = discarding them one by one -/
theorem evalEs_discard_cons {β : Type} (e : Expr) (es : List Expr) (σ : State N) (K : State N → Res N β) :
    (evalEs call ρ k env (e :: es) σ).bind (fun _ σ2 => K σ2)
      = (evalE call ρ k env e σ).bind fun _ σ1 => (evalEs call ρ k env es σ1).bind fun _ σ2 => K σ2 := by
  cases es with
  | nil =>
    simp only [evalEs]
    apply bind_congr
    intro a σ'
    rfl
  | cons e2 rest =>
    simp only [evalEs, bind_assoc]
    apply bind_congr
    intro a σ'
    apply bind_congr
    intro b σ''
    rfl

theorem evalEs_discard {β : Type} (es : List Expr) (σ : State N) (K : State N → Res N β) :
    (evalEs call ρ k env es σ).bind (fun _ σ2 => K σ2)
      = (evalDiscard call ρ k env es σ).bind fun _ σ2 => K σ2 := by
  induction es generalizing σ with
  | nil => simp [evalEs, evalDiscard, Res.bind]
  | cons e rest ih =>
    rw [evalEs_discard_cons]
    simp only [evalDiscard, bind_assoc]
    apply bind_congr
    intro a σ'
    exact ih σ'

/-- dropping expressions that evaluate purely does not change the effects -/
theorem evalDiscard_filter (keep : Expr → Bool) (es : List Expr)
    (hdrop : ∀ e ∈ es, keep e = false → PureAt call ρ k env e) (σ : State N) :
    evalDiscard call ρ k env (es.filter keep) σ = evalDiscard call ρ k env es σ := by
  induction es generalizing σ with
  | nil => rfl
  | cons e rest ih =>
    have ihr := ih (fun x hx => hdrop x (List.mem_cons_of_mem _ hx))
    by_cases hk : keep e = true
    · simp only [List.filter_cons, hk, if_true, evalDiscard]
      apply bind_congr
      intro a σ'
      exact ihr σ'
    · have hk' : keep e = false := by simpa using hk
      obtain ⟨vs, hvs⟩ := hdrop e (List.mem_cons_self) hk' σ
      simp only [List.filter_cons, hk', evalDiscard, hvs, bind_ok]
      simpa using ihr σ

/-- parentheses and casts only truncate the value list -/
theorem evalE_getInner_discard {β : Type} (e : Expr) (σ : State N) (K : State N → Res N β) :
    (evalE call ρ k env (getInner e) σ).bind (fun _ σ' => K σ')
      = (evalE call ρ k env e σ).bind fun _ σ' => K σ' := by
  fun_induction getInner e with
  | case1 e ih =>
    rw [ih]
    simp only [evalE, bind_assoc]
    rfl
  | case2 e ty ih =>
    rw [ih]
    simp only [evalE, bind_assoc]
    rfl
  | case3 e h1 h2 => rfl

theorem evalDiscard_map_getInner (es : List Expr) (σ : State N) :
    evalDiscard call ρ k env (es.map getInner) σ = evalDiscard call ρ k env es σ := by
  induction es generalizing σ with
  | nil => rfl
  | cons e rest ih =>
    simp only [List.map_cons, evalDiscard]
    rw [evalE_getInner_discard call ρ k env e σ (fun σ' => evalDiscard call ρ k env (rest.map getInner) σ')]
    apply bind_congr
    intro a σ'
    exact ih σ'

/-! ### `expressions_as_statement` -/

/-- `expressions_as_statement` only ever builds call statements, `local` statements and (F36 fix) `do` blocks -/
def isCallOrLocal : Stmt → Bool
  | .callStmt _ => true
  | .localAssign _ _ _ => true
  | .doBlock _ => true
  | _ => false

theorem mem_of_mem_dropLast' {α : Type} (a : α) : ∀ (l : List α), a ∈ l.dropLast → a ∈ l
  | [], h => by simp at h
  | [_], h => by simp at h
  | x :: y :: rest, h => by
    simp only [List.dropLast_cons_cons, List.mem_cons] at h
    rcases h with h | h
    · exact h ▸ List.mem_cons_self
    · exact List.mem_cons_of_mem _ (mem_of_mem_dropLast' a (y :: rest) h)

theorem pushValue_shape (acc : List Stmt) (v : Expr) (later : Bool) (h : ∀ t ∈ acc, isCallOrLocal t = true) :
    ∀ t ∈ pushValue acc v later, isCallOrLocal t = true := by
  intro t ht
  unfold pushValue at ht
  split at ht
  · rcases List.mem_append.mp ht with h1 | h1
    · exact h t h1
    · simp only [List.mem_singleton] at h1; subst h1; rfl
  · split at ht
    · rcases List.mem_append.mp ht with h1 | h1
      · exact h t h1
      · simp only [List.mem_singleton] at h1; subst h1; rfl
    · split at ht
      · rcases List.mem_append.mp ht with h1 | h1
        · exact h t (mem_of_mem_dropLast' t _ h1)
        · simp only [List.mem_singleton] at h1; subst h1; rfl
      · rcases List.mem_append.mp ht with h1 | h1
        · exact h t h1
        · simp only [List.mem_singleton] at h1; subst h1; rfl

theorem foldl_pushValue_shape (ps : List (Expr × Bool)) (acc : List Stmt) (h : ∀ t ∈ acc, isCallOrLocal t = true) :
    ∀ t ∈ ps.foldl (fun acc p => pushValue acc (getInner p.1) p.2) acc, isCallOrLocal t = true := by
  induction ps generalizing acc with
  | nil => simpa using h
  | cons p rest ih =>
    rw [List.foldl_cons]
    exact ih _ (pushValue_shape acc (getInner p.1) p.2 h)

theorem asStatements_shape (es : List Expr) : ∀ t ∈ asStatements es, isCallOrLocal t = true :=
  foldl_pushValue_shape _ [] (by simp)

theorem usedLaterFlags_length (es : List Expr) : (usedLaterFlags es).length = es.length := by
  induction es with
  | nil => rfl
  | cons e rest ih => simp [usedLaterFlags, ih]

theorem foldl_pushValue_calls (ps : List (Expr × Bool)) (acc : List Stmt)
    (h : ∀ p ∈ ps, isCall (getInner p.1) = true) :
    ps.foldl (fun acc p => pushValue acc (getInner p.1) p.2) acc
      = acc ++ (ps.map fun p => Stmt.callStmt (getInner p.1)) := by
  induction ps generalizing acc with
  | nil => simp
  | cons p rest ih =>
    have he : isCall (getInner p.1) = true := h p List.mem_cons_self
    have hp : pushValue acc (getInner p.1) p.2 = acc ++ [Stmt.callStmt (getInner p.1)] := by
      simp [pushValue, he]
    rw [List.foldl_cons, hp, ih _ (fun x hx => h x (List.mem_cons_of_mem _ hx))]
    simp

theorem zip_flags_fst (es : List Expr) : (es.zip (usedLaterFlags es)).map Prod.fst = es :=
  List.map_fst_zip (by rw [usedLaterFlags_length]; exact Nat.le_refl _)

theorem asStatements_calls (es : List Expr) (h : ∀ e ∈ es, isCall (getInner e) = true) :
    asStatements es = (es.map getInner).map Stmt.callStmt := by
  have hp : ∀ p ∈ es.zip (usedLaterFlags es), isCall (getInner p.1) = true := by
    intro p hp
    exact h p.1 (List.of_mem_zip hp).1
  simp only [asStatements, foldl_pushValue_calls _ [] hp, List.nil_append]
  have := congrArg (List.map fun e => Stmt.callStmt (getInner e)) (zip_flags_fst es)
  simpa [List.map_map, Function.comp_def] using this

/-- a sequence of call statements = its calls evaluated in order, values discarded -/
theorem execSs_callStmts (cs : List Expr) (σ : State N) :
    execSs call ρ k env (cs.map Stmt.callStmt) σ
      = (evalDiscard call ρ k env cs σ).bind fun _ σ' => .ok (.next env) σ' := by
  induction cs generalizing σ with
  | nil => simp [execSs, evalDiscard, Res.bind]
  | cons c rest ih =>
    simp only [List.map_cons, execSs, execS, evalDiscard, bind_assoc]
    apply bind_congr
    intro a σ'
    simp only [bind_ok]
    exact ih σ'

/-- what `expressions_as_statement` builds from call statements: the statement itself when there is
exactly one, a `do` block otherwise -/
def wrapStmts : List Stmt → Stmt
  | [s] => s
  | stmts => .doBlock (.mk stmts none)

theorem execS_wrap_callStmts (cs : List Expr) (σ : State N) :
    execS call ρ k env (wrapStmts (cs.map Stmt.callStmt)) σ
      = (evalDiscard call ρ k env cs σ).bind fun _ σ' => .ok (.next env) σ' := by
  match cs with
  | [] => simp [wrapStmts, execS, execB, execSs, evalDiscard, Res.bind]
  | [c] =>
    simp only [List.map_cons, List.map_nil, wrapStmts, execS, evalDiscard, bind_assoc]
    apply bind_congr
    intro a σ'
    rfl
  | c1 :: c2 :: rest =>
    have h := execSs_callStmts call ρ k env (c1 :: c2 :: rest) σ
    simp only [List.map_cons] at h
    simp only [List.map_cons, wrapStmts, execS, execB, h, bind_assoc]
    apply bind_congr
    intro a σ'
    rfl

theorem expressionsAsStatement_eq_wrap (es : List Expr) :
    expressionsAsStatement es = wrapStmts (asStatements es) := by
  unfold expressionsAsStatement wrapStmts
  split <;> simp_all

/-- `expressions_as_statement` of expressions that are all calls (under parentheses / casts):
the calls are evaluated once each, in order, and nothing else happens -/
theorem execS_expressionsAsStatement_calls (es : List Expr) (h : ∀ e ∈ es, isCall (getInner e) = true)
    (σ : State N) :
    execS call ρ k env (expressionsAsStatement es) σ
      = (evalDiscard call ρ k env es σ).bind fun _ σ' => .ok (.next env) σ' := by
  rw [expressionsAsStatement_eq_wrap, asStatements_calls es h, execS_wrap_callStmts,
    evalDiscard_map_getInner]

/-! ### `expressions_as_expression` -/

theorem first_cons (v : Val N) (l : List (Val N)) : first (v :: l) = v := rfl

/-- `(e1 or true) and ((e2 or true) and … nil)`: every `ei` evaluated once, in order; the value is `nil` -/
theorem evalE_orTrueChain (es : List Expr) (σ : State N) :
    evalE call ρ k env (orTrueChain es) σ
      = (evalDiscard call ρ k env es σ).bind fun _ σ' => .ok [.nil] σ' := by
  induction es generalizing σ with
  | nil => simp [orTrueChain, evalE, evalDiscard, Res.bind]
  | cons v rest ih =>
    simp only [orTrueChain, evalE, evalDiscard, bind_assoc]
    apply bind_congr
    intro vs σ'
    by_cases ht : (first vs).truthy = true
    · simp only [ht, if_true, bind_ok, first_cons]
      rw [ih σ', bind_assoc]
      apply bind_congr
      intro a σ''
      rfl
    · have hf : (first vs).truthy = false := by simpa using ht
      have htt : (Val.bool true : Val N).truthy = true := rfl
      simp only [hf, Bool.false_eq_true, if_false, bind_ok, first_cons]
      simp only [htt, if_true]
      rw [ih σ', bind_assoc]
      apply bind_congr
      intro a σ''
      rfl

/-! ### calls whose callee hands back something computed from the arguments -/

theorem bind_ok_id {α : Type} (r : Res N α) : (r.bind fun a σ => .ok a σ) = r := by
  cases r <;> rfl

/-- a call whose callee evaluates purely to `fv`, and `fv` called with the evaluated arguments
returns `ret args` and leaves the state alone -/
theorem evalE_call_of_ret (f : Expr) (kind : ArgKind) (args : List Expr) (fv : Val N)
    (ret : List (Val N) → List (Val N)) (σ : State N)
    (hf : evalE call ρ k env f σ = .ok [fv] σ)
    (hret : ∀ avs σ', evalEs call ρ k env args σ = .ok avs σ' → callVal call ρ k fv avs σ' = .ok (ret avs) σ') :
    evalE call ρ k env (.call f none kind args) σ
      = (evalEs call ρ k env args σ).bind fun avs σ' => .ok (ret avs) σ' := by
  simp only [evalE, hf, bind_ok, first_cons]
  cases h : evalEs call ρ k env args σ with
  | ok avs σ' => simp only [bind_ok]; exact hret avs σ' h
  | err v σ' => rfl
  | timeout => rfl

/-- STATEMENT position, the rewrite of `process_statement` with side effects preserved: the call
`f(args)` — whose callee evaluates purely to a value that, called, leaves the state alone — equals
the statement built from the kept arguments, provided the dropped arguments evaluate purely and the
kept ones are calls (under parentheses / casts). Exact equality of control outcome, state and trace. -/
theorem execS_removed_call (f : Expr) (args : List Expr) (fv : Val N) (ret : List (Val N) → List (Val N))
    (σ : State N)
    (hf : evalE call ρ k env f σ = .ok [fv] σ)
    (hret : ∀ avs σ', evalEs call ρ k env args σ = .ok avs σ' → callVal call ρ k fv avs σ' = .ok (ret avs) σ')
    (hdrop : ∀ e ∈ args, keeps e = false → PureAt call ρ k env e)
    (hcalls : ∀ e ∈ args, keeps e = true → isCall (getInner e) = true) :
    execS call ρ k env (expressionsAsStatement (preserveArgumentsSideEffects .tuple args)) σ
      = execS call ρ k env (.callStmt (.call f none .tuple args)) σ := by
  have hk : ∀ e ∈ args.filter keeps, isCall (getInner e) = true := by
    intro e he
    rw [List.mem_filter] at he
    exact hcalls e he.1 he.2
  have hl : execS call ρ k env (expressionsAsStatement (preserveArgumentsSideEffects .tuple args)) σ
      = (evalDiscard call ρ k env args σ).bind fun _ σ' => .ok (.next env) σ' := by
    simp only [preserveArgumentsSideEffects, argCandidates]
    rw [execS_expressionsAsStatement_calls call ρ k env _ hk, evalDiscard_filter call ρ k env keeps args hdrop]
  rw [hl]
  simp only [execS]
  rw [evalE_call_of_ret call ρ k env f .tuple args fv ret σ hf hret, bind_assoc]
  simp only [bind_ok]
  exact (evalEs_discard call ρ k env args σ (fun σ' => Res.ok (Ctl.next env) σ')).symm

theorem expressionsAsExpression_eq_chain (es : List Expr) : expressionsAsExpression es = orTrueChain es := by
  cases es <;> rfl

/-- the wrapping of a lone `local _ = …` (F31 fix) does not apply to call statements -/
theorem wrapLocal_calls (es : List Expr) (h : ∀ e ∈ es, isCall (getInner e) = true) :
    wrapLocal (expressionsAsStatement es) = expressionsAsStatement es := by
  rw [expressionsAsStatement_eq_wrap, asStatements_calls es h]
  match es.map getInner with
  | [] => rfl
  | [_] => rfl
  | _ :: _ :: _ => rfl

/-- EXPRESSION position without `compute_result`, in a single-value context (here: parentheses):
the kept arguments are evaluated once each, in order, and the value is `nil`, as for a callee
that returns nothing. -/
theorem evalE_paren_removed_call (f : Expr) (args : List Expr) (fv : Val N) (σ : State N)
    (hf : evalE call ρ k env f σ = .ok [fv] σ)
    (hret : ∀ avs σ', evalEs call ρ k env args σ = .ok avs σ' → callVal call ρ k fv avs σ' = .ok [] σ')
    (hdrop : ∀ e ∈ args, keeps e = false → PureAt call ρ k env e) :
    evalE call ρ k env (.paren (expressionsAsExpression (preserveArgumentsSideEffects .tuple args))) σ
      = evalE call ρ k env (.paren (.call f none .tuple args)) σ := by
  rw [expressionsAsExpression_eq_chain]
  simp only [preserveArgumentsSideEffects, argCandidates]
  simp only [evalE]
  rw [evalE_orTrueChain, evalDiscard_filter call ρ k env keeps args hdrop, bind_assoc]
  have h2 := evalE_call_of_ret call ρ k env f .tuple args fv (fun _ => []) σ hf hret
  simp only [evalE] at h2
  rw [h2, bind_assoc]
  simp only [bind_ok, first_cons]
  exact (evalEs_discard call ρ k env args σ (fun σ' => Res.ok [first ([] : List (Val N))] σ')).symm

end level

/-- the `select` case of `libCall`, by unfolding -/
theorem libCall_select (call : CallFn N) (ρ : ExtOracle N) (d : Nat) (args : List (Val N)) (σ : State N) :
    libCall call ρ (d + 1) "select" args σ =
      (match first args with
       | .str [35] => .ok [.num (N.ofNat (args.length - 1))] σ
       | v =>
         match (toNumber? v).bind N.toNat? with
         | some (n + 1) => .ok (dropN n (args.drop 1)) σ
         | _ => errS "bad argument #1 to 'select'" σ) := by
  rfl

/-- `select(1, …)` hands back its remaining arguments -/
theorem callVal_select_one (call : CallFn N) (ρ : ExtOracle N) (k : Nat) (b : UInt64) (ws : List (Val N)) (σ : State N)
    (hone : N.toNat? (N.ofBits b) = some 1) :
    callVal call ρ (k + 2) (.builtin "select") (.num (N.ofBits b) :: ws) σ = .ok ws σ := by
  have hc : libNames.contains "select" = true := by decide
  have h1 : callVal call ρ (k + 2) (.builtin "select") (.num (N.ofBits b) :: ws) σ
      = libCall call ρ (k + 1) "select" (.num (N.ofBits b) :: ws) σ := by
    simp only [callVal, hc, if_true]
  rw [h1, libCall_select]
  simp only [first_cons, toNumber?, Option.bind_some, hone, List.drop_succ_cons, List.drop_zero, dropN]

theorem evalE_select_one (call : CallFn N) (ρ : ExtOracle N) (k : Nat) (env : Env N) (sel : String) (b : UInt64)
    (args : List Expr) (σ : State N)
    (hsel : lookupVar env sel σ = .builtin "select")
    (hone : N.toNat? (N.ofBits b) = some 1) :
    evalE call ρ (k + 2) env (.call (.var sel) none .tuple (.num b :: args)) σ
      = evalEs call ρ (k + 2) env args σ := by
  simp only [evalE, hsel, bind_ok, first_cons]
  cases args with
  | nil =>
    simp only [evalEs, evalE, bind_ok]
    exact callVal_select_one call ρ k b [] σ hone
  | cons a rest =>
    simp only [evalEs, evalE, bind_ok, bind_assoc, first_cons]
    conv => rhs; rw [← bind_ok_id (evalEs call ρ (k + 2) env (a :: rest) σ)]
    apply bind_congr
    intro ws σ'
    exact callVal_select_one call ρ k b ws σ' hone

end DarkluaModel.C17
