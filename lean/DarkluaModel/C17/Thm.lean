import DarkluaModel.C17.Lemmas
/-!
# C17 — removal and injection rules change exactly what they name: property theorems

All statements are about the model functions the driver executes (`Rules/RemoveCallMatch.lean`,
`Rules/RemoveAssertions.lean`, `Rules/RemoveDebugProfiling.lean`, `Rules/InjectValue.lean`), on the
reference semantics `Shared/Sem.lean`, for every number system `N`, call handler, oracle, bound `k`,
environment and state. They are LOCAL (per hook) statements in the BETWEEN-ENVIRONMENTS form: the
left side runs the rewritten node, the right side runs the original node in an environment where
the targeted name holds the replacement (`assert` ↦ a value that, called, hands its arguments
back; `debug.profilebegin` ↦ a value that, called, returns nothing; `NAME` ↦ the configured value).
The "modified environment" is a hypothesis on what the variable lookup yields, so the theorems hold
for any way of installing it (the harness installs it with a Lua prelude).

What is assumed rather than proved: arguments that darklua's `has_side_effects` declares free of
side effects evaluate purely (`PureAt`; property C08's subject), and the identifier tracker agrees
with the environment (`isUsed … = false` ↔ the name is not a local) — the visitor-level scope
invariant, to be discharged by the generic lifting theorem.
-/
namespace DarkluaModel.C17
open Sem Rules Rules.RemoveCallMatch

variable {N : NumOps}

theorem keeps_call (f : Expr) (m : Option String) (kd : ArgKind) (a : List Expr) : keeps (.call f m kd a) = true := by
  simp [keeps, hasSideEffects]
theorem keeps_true : keeps .true = false := by simp [keeps, hasSideEffects]
theorem keeps_str (b : List UInt8) : keeps (.str b) = false := by simp [keeps, hasSideEffects]
theorem keeps_paren (e : Expr) : keeps (.paren e) = keeps e := by simp [keeps, hasSideEffects]

/-! ## remove_assertions -/

/-- STATEMENT position. `assert(args)` with `assert` not shadowed, when the variable `assert` holds a
value that returns its arguments: the rewritten statement is exactly the original call — the kept
arguments are evaluated once each, in order (`execS_removed_call`, via `evalDiscard`). Hypotheses:
dropped arguments are pure; kept arguments are calls under parentheses/casts (otherwise the rule
emits `local _ = …`, see `underscore_leak`). -/
theorem assert_refines (call : CallFn N) (ρ : ExtOracle N) (k : Nat) (env : Env N) (st : St)
    (args : List Expr) (σ : State N)
    (hns : isUsed st.scopes "assert" = false)
    (hret : ∀ avs σ', evalEs call ρ k env args σ = .ok avs σ' →
      callVal call ρ k (lookupVar env "assert" σ) avs σ' = .ok avs σ')
    (hdrop : ∀ e ∈ args, keeps e = false → PureAt call ρ k env e)
    (hcalls : ∀ e ∈ args, keeps e = true → isCall (getInner e) = true) :
    execS call ρ k env
        (processStatement RemoveAssertions.matcher true (.callStmt (.call (.var "assert") none .tuple args)) st).1 σ
      = execS call ρ k env (.callStmt (.call (.var "assert") none .tuple args)) σ := by
  have hm : RemoveAssertions.matcher.matchesPrefix (isUsed st.scopes) (.var "assert") = true := by
    simp [RemoveAssertions.matcher, RemoveAssertions.matchesPrefix, hns]
  simp only [processStatement, hm, if_true]
  exact execS_removed_call call ρ k env (.var "assert") args (lookupVar env "assert" σ) id σ
    (by simp [evalE]) hret hdrop hcalls

/-- EXPRESSION position, one argument: `assert(e)` becomes `e` — all values of `e` are kept. -/
theorem assert_refines_expr_one (call : CallFn N) (ρ : ExtOracle N) (k : Nat) (env : Env N) (st : St)
    (preserve : Bool) (kind : ArgKind) (e : Expr) (σ : State N)
    (hns : isUsed st.scopes "assert" = false)
    (hret : ∀ avs σ', evalEs call ρ k env [e] σ = .ok avs σ' →
      callVal call ρ k (lookupVar env "assert" σ) avs σ' = .ok avs σ') :
    evalE call ρ k env (processExpression RemoveAssertions.matcher preserve (.call (.var "assert") none kind [e]) st).1 σ
      = evalE call ρ k env (.call (.var "assert") none kind [e]) σ := by
  have hm : RemoveAssertions.matcher.matchesPrefix (isUsed st.scopes) (.var "assert") = true := by
    simp [RemoveAssertions.matcher, RemoveAssertions.matchesPrefix, hns]
  simp only [processExpression, hm, if_true]
  have hc : RemoveAssertions.matcher.computeResult kind [e] (reserveGlobals RemoveAssertions.matcher st).mappings
      = some e := rfl
  simp only [hc]
  rw [evalE_call_of_ret call ρ k env (.var "assert") kind [e] (lookupVar env "assert" σ) id σ (by simp [evalE]) hret]
  simp only [evalEs, id]
  exact (bind_ok_id _).symm

/-- EXPRESSION position, two or more arguments: `assert(a, b, …)` becomes `select(1, a, b, …)` where
`select` is the name the processor chose (the reserved alias when `select` is shadowed); when that
name resolves to the builtin `select`, every argument is evaluated once, in order, and all values
are handed back. (`hone`: the number system reads the literal `1` as the integer one.) -/
theorem assert_refines_expr_many (call : CallFn N) (ρ : ExtOracle N) (k : Nat) (env : Env N) (st : St)
    (preserve : Bool) (a b : Expr) (rest : List Expr) (σ : State N)
    (hns : isUsed st.scopes "assert" = false)
    (hret : ∀ avs σ', evalEs call ρ (k + 2) env (a :: b :: rest) σ = .ok avs σ' →
      callVal call ρ (k + 2) (lookupVar env "assert" σ) avs σ' = .ok avs σ')
    (hsel : lookupVar env (RemoveAssertions.selectName (reserveGlobals RemoveAssertions.matcher st).mappings) σ
      = .builtin "select")
    (hone : N.toNat? (N.ofBits RemoveAssertions.oneBits) = some 1) :
    evalE call ρ (k + 2) env
        (processExpression RemoveAssertions.matcher preserve (.call (.var "assert") none .tuple (a :: b :: rest)) st).1 σ
      = evalE call ρ (k + 2) env (.call (.var "assert") none .tuple (a :: b :: rest)) σ := by
  have hm : RemoveAssertions.matcher.matchesPrefix (isUsed st.scopes) (.var "assert") = true := by
    simp [RemoveAssertions.matcher, RemoveAssertions.matchesPrefix, hns]
  simp only [processExpression, hm, if_true]
  have hc : RemoveAssertions.matcher.computeResult .tuple (a :: b :: rest)
      (reserveGlobals RemoveAssertions.matcher st).mappings
      = some (.call (.var (RemoveAssertions.selectName (reserveGlobals RemoveAssertions.matcher st).mappings)) none .tuple
          (.num RemoveAssertions.oneBits :: a :: b :: rest)) := rfl
  simp only [hc]
  rw [evalE_select_one call ρ k env _ RemoveAssertions.oneBits (a :: b :: rest) σ hsel hone]
  rw [evalE_call_of_ret call ρ (k + 2) env (.var "assert") .tuple (a :: b :: rest) (lookupVar env "assert" σ) id σ
    (by simp [evalE]) hret]
  exact (bind_ok_id _).symm

/-! ### F18: zero arguments in expression position -/

/-- a number system for witnesses -/
def unitOps : NumOps where
  F := Unit
  ofBits := fun _ => ()
  toBits := fun _ => 0
  add := fun _ _ => ()
  sub := fun _ _ => ()
  mul := fun _ _ => ()
  div := fun _ _ => ()
  mod := fun _ _ => ()
  pow := fun _ _ => ()
  idiv := fun _ _ => ()
  neg := fun _ => ()
  lt := fun _ _ => false
  le := fun _ _ => true
  eq := fun _ _ => true
  isNaN := fun _ => false
  ofNat := fun _ => ()
  toNat? := fun _ => some 1
  toStr := fun _ => []
  ofStr := fun _ => none
  floor := fun _ => ()
  sqrt := fun _ => ()

/-- the full-strength expression-position statement: ANY argument list -/
def assert_expr_full : Prop :=
  ∀ (N : NumOps) (call : CallFn N) (ρ : ExtOracle N) (k : Nat) (env : Env N) (st : St) (args : List Expr) (σ : State N),
    isUsed st.scopes "assert" = false →
    (∀ avs σ', evalEs call ρ (k + 2) env args σ = .ok avs σ' →
      callVal call ρ (k + 2) (lookupVar env "assert" σ) avs σ' = .ok avs σ') →
    evalE call ρ (k + 2) env (processExpression RemoveAssertions.matcher true (.call (.var "assert") none .tuple args) st).1 σ
      = evalE call ρ (k + 2) env (.call (.var "assert") none .tuple args) σ

/-- the state of the F18 witness: one closure; the call handler hands the arguments back -/
def witnessState : State unitOps :=
  { globals := [], cells := [.fn 0], tables := [], closures := [⟨.mk [] true none none [] [] (.mk [] none), [], []⟩], trace := [] }

/-- F18: `assert()` becomes `nil` — one value where the argument-returning function yields none. -/
theorem assert_expr_full_false : ¬ assert_expr_full := by
  intro h
  have h0 := h unitOps (fun _ args σ => .ok args σ) (fun _ _ _ => []) 0 ⟨[("assert", 0)], []⟩ {} [] witnessState
    (by simp [isUsed])
    (by
      intro avs σ' he
      simp only [evalEs] at he
      cases he
      rfl)
  have hm : RemoveAssertions.matcher.matchesPrefix (isUsed ({} : St).scopes) (.var "assert") = true := by
    simp [RemoveAssertions.matcher, RemoveAssertions.matchesPrefix, isUsed]
  have hc : RemoveAssertions.matcher.computeResult .tuple [] (reserveGlobals RemoveAssertions.matcher ({} : St)).mappings
      = some .nil := rfl
  simp only [processExpression, hm, if_true] at h0
  simp only [hc] at h0
  revert h0
  simp [evalE, evalEs, Res.bind, lookupVar, lookupAssoc, witnessState, State.getCell, callVal, first]

/-- the partial statement: at least one argument (hypothesis `args ≠ []`, decidable; the driver's
flag `zero-arg-expr`) -/
theorem assert_refines_expr_partial (call : CallFn N) (ρ : ExtOracle N) (k : Nat) (env : Env N) (st : St)
    (args : List Expr) (σ : State N)
    (H : args ≠ [])
    (hns : isUsed st.scopes "assert" = false)
    (hret : ∀ avs σ', evalEs call ρ (k + 2) env args σ = .ok avs σ' →
      callVal call ρ (k + 2) (lookupVar env "assert" σ) avs σ' = .ok avs σ')
    (hsel : lookupVar env (RemoveAssertions.selectName (reserveGlobals RemoveAssertions.matcher st).mappings) σ
      = .builtin "select")
    (hone : N.toNat? (N.ofBits RemoveAssertions.oneBits) = some 1) :
    evalE call ρ (k + 2) env (processExpression RemoveAssertions.matcher true (.call (.var "assert") none .tuple args) st).1 σ
      = evalE call ρ (k + 2) env (.call (.var "assert") none .tuple args) σ := by
  match args, H with
  | [e], _ => exact assert_refines_expr_one call ρ (k + 2) env st true .tuple e σ hns hret
  | a :: b :: rest, _ => exact assert_refines_expr_many call ρ k env st true a b rest σ hns hret hsel hone

-- non-vacuity: the hook fires and produces the three shapes
example : (processExpression RemoveAssertions.matcher true (.call (.var "assert") none .tuple []) {}).1 = .nil := by
  simp [processExpression, RemoveAssertions.matcher, RemoveAssertions.matchesPrefix, RemoveAssertions.computeResult, isUsed]
example : (processExpression RemoveAssertions.matcher true (.call (.var "assert") none .tuple [.var "x"]) {}).1 = .var "x" := by
  simp [processExpression, RemoveAssertions.matcher, RemoveAssertions.matchesPrefix, RemoveAssertions.computeResult, isUsed]
-- `select` shadowed: the reserved alias is used
example : (processExpression RemoveAssertions.matcher true (.call (.var "assert") none .tuple [.var "x", .var "y"])
      { scopes := [["select"]] }).1
    = .call (.var (reservedName 1)) none .tuple [.num RemoveAssertions.oneBits, .var "x", .var "y"] := by
  simp [processExpression, RemoveAssertions.matcher, RemoveAssertions.matchesPrefix, RemoveAssertions.computeResult,
    RemoveAssertions.selectName, reserveGlobals, isUsed, lookupAssoc]
-- statement position: a pure argument is dropped, two calls are kept in order inside `do … end`
example : (processStatement RemoveAssertions.matcher true
      (.callStmt (.call (.var "assert") none .tuple
        [.call (.var "f") none .tuple [], .true, .paren (.call (.var "g") none .tuple [])])) {}).1
    = .doBlock (.mk [.callStmt (.call (.var "f") none .tuple []), .callStmt (.call (.var "g") none .tuple [])] none) := by
  simp [processStatement, RemoveAssertions.matcher, RemoveAssertions.matchesPrefix, isUsed, preserveArgumentsSideEffects,
    argCandidates, List.filter, keeps_call, keeps_true, keeps_paren, expressionsAsStatement, asStatements, pushValue,
    getInner, isCall]
-- the hypotheses of `assert_refines` are met by a concrete instance: `assert` is a global holding a
-- closure, the call handler hands the arguments back, one argument is an external call, one is pure
example :
    let call : CallFn unitOps := fun _ args σ => .ok args σ
    let σ0 : State unitOps := { witnessState with globals := [("assert", .fn 0), ("f", .builtin "f")] }
    let args : List Expr := [.call (.var "f") none .tuple [], .true]
    execS call (fun _ _ _ => []) 2 ⟨[], []⟩
        (processStatement RemoveAssertions.matcher true (.callStmt (.call (.var "assert") none .tuple args)) {}).1 σ0
      = execS call (fun _ _ _ => []) 2 ⟨[], []⟩ (.callStmt (.call (.var "assert") none .tuple args)) σ0 := by
  intro call σ0 args
  apply assert_refines
  · simp [isUsed]
  · intro avs σ' he
    have hl : libNames.contains "f" = false := by decide
    simp [args, σ0, evalEs, evalE, Res.bind, lookupVar, lookupAssoc, State.getGlobal, callVal, hl, first,
      witnessState] at he
    obtain ⟨_, rfl⟩ := he
    simp [σ0, call, lookupVar, lookupAssoc, State.getGlobal, witnessState, callVal]
  · intro e he hk
    simp only [args, List.mem_cons, List.mem_nil_iff, or_false] at he
    rcases he with rfl | rfl
    · simp [keeps_call] at hk
    · exact fun σ => ⟨_, rfl⟩
  · intro e he hk
    simp only [args, List.mem_cons, List.mem_nil_iff, or_false] at he
    rcases he with rfl | rfl
    · simp [getInner, isCall]
    · simp [keeps_true] at hk

/-! ### F31: a single kept non-call argument becomes a bare `local _ = …` -/

/-- full-strength statement-position claim without the `hcalls` hypothesis -/
def assert_stmt_full : Prop :=
  ∀ (N : NumOps) (call : CallFn N) (ρ : ExtOracle N) (k : Nat) (env : Env N) (st : St) (args : List Expr) (σ : State N),
    isUsed st.scopes "assert" = false →
    (∀ avs σ', evalEs call ρ k env args σ = .ok avs σ' → callVal call ρ k (lookupVar env "assert" σ) avs σ' = .ok avs σ') →
    (∀ e ∈ args, keeps e = false → PureAt call ρ k env e) →
    execS call ρ k env
        (processStatement RemoveAssertions.matcher true (.callStmt (.call (.var "assert") none .tuple args)) st).1 σ
      = execS call ρ k env (.callStmt (.call (.var "assert") none .tuple args)) σ

/-- F31 (`underscore_leak`): `assert(t.x)` becomes `local _ = t.x`, which changes the environment of
the statements that follow (and allocates a cell): not the same denotation. -/
theorem assert_stmt_full_false : ¬ assert_stmt_full := by
  intro h
  have h0 := h unitOps (fun _ args σ => .ok args σ) (fun _ _ _ => []) 1 ⟨[("assert", 0)], []⟩ {}
    [.un .len (.var "s")]
    { witnessState with globals := [("s", .str [])] }
    (by simp [isUsed])
    (by
      intro avs σ' he
      simp [evalEs, evalE, Res.bind, lookupVar, lookupAssoc, State.getGlobal, unopVal, first, witnessState] at he
      obtain ⟨_, rfl⟩ := he
      simp [lookupVar, lookupAssoc, witnessState, State.getCell, callVal])
    (by
      intro e he hk
      simp only [List.mem_singleton] at he
      subst he
      simp [keeps, hasSideEffects, evaluate, LuaValue.isUnknown] at hk)
  have hm : RemoveAssertions.matcher.matchesPrefix (isUsed ({} : St).scopes) (.var "assert") = true := by
    simp [RemoveAssertions.matcher, RemoveAssertions.matchesPrefix, isUsed]
  simp only [processStatement, hm, if_true] at h0
  revert h0
  simp [preserveArgumentsSideEffects, argCandidates, keeps, hasSideEffects, evaluate, evalUnary, LuaValue.isUnknown,
    expressionsAsStatement, asStatements, pushValue, getInner, isCall, execS, evalEs, evalE, Res.bind, lookupVar,
    lookupAssoc, witnessState, State.getCell, State.getGlobal, callVal, first, unopVal, bindLocals, State.allocCell,
    TName.name]

/-! ## remove_debug_profiling -/

/-- STATEMENT position: `debug.profilebegin(args)` / `debug.profileend(args)` with `debug` not shadowed,
when the callee evaluates purely to a value that, called, returns (anything) without touching the state. -/
theorem profiling_refines (call : CallFn N) (ρ : ExtOracle N) (k : Nat) (env : Env N) (st : St)
    (fname : String) (hname : fname = "profilebegin" ∨ fname = "profileend")
    (args : List Expr) (fv : Val N) (ret : List (Val N) → List (Val N)) (σ : State N)
    (hns : isUsed st.scopes "debug" = false)
    (hf : evalE call ρ k env (.field (.var "debug") fname) σ = .ok [fv] σ)
    (hret : ∀ avs σ', evalEs call ρ k env args σ = .ok avs σ' → callVal call ρ k fv avs σ' = .ok (ret avs) σ')
    (hdrop : ∀ e ∈ args, keeps e = false → PureAt call ρ k env e)
    (hcalls : ∀ e ∈ args, keeps e = true → isCall (getInner e) = true) :
    execS call ρ k env
        (processStatement RemoveDebugProfiling.matcher true
          (.callStmt (.call (.field (.var "debug") fname) none .tuple args)) st).1 σ
      = execS call ρ k env (.callStmt (.call (.field (.var "debug") fname) none .tuple args)) σ := by
  have hm : RemoveDebugProfiling.matcher.matchesPrefix (isUsed st.scopes) (.field (.var "debug") fname) = true := by
    rcases hname with h | h <;> simp [RemoveDebugProfiling.matcher, RemoveDebugProfiling.matchesPrefix, hns, h]
  simp only [processStatement, hm, if_true]
  exact execS_removed_call call ρ k env _ args fv ret σ hf hret hdrop hcalls

/-- the full-strength claim about `expressions_as_expression`: the expressions are evaluated once
each, in order, and the value is `nil` (what a call returning nothing yields in a single-value context) -/
def expressions_as_expression_full : Prop :=
  ∀ (N : NumOps) (call : CallFn N) (ρ : ExtOracle N) (k : Nat) (env : Env N) (es : List Expr) (σ : State N),
    evalE call ρ k env (.paren (expressionsAsExpression es)) σ
      = (evalDiscard call ρ k env es σ).bind fun _ σ' => .ok [.nil] σ'

/-- F32: with exactly one expression the encoding is `e and nil`, which is `false` when `e` is `false`. -/
theorem expressions_as_expression_full_false : ¬ expressions_as_expression_full := by
  intro h
  have h0 := h unitOps (fun _ args σ => .ok args σ) (fun _ _ _ => []) 0 ⟨[], []⟩ [.false] witnessState
  revert h0
  simp [expressionsAsExpression, evalE, evalDiscard, Res.bind, first, Val.truthy]

/-- partial: any number of expressions but one (decidable; the driver's flag `single-kept-expr`) -/
theorem expressions_as_expression_partial (call : CallFn N) (ρ : ExtOracle N) (k : Nat) (env : Env N)
    (es : List Expr) (σ : State N) (H : es.length ≠ 1) :
    evalE call ρ k env (.paren (expressionsAsExpression es)) σ
      = (evalDiscard call ρ k env es σ).bind fun _ σ' => .ok [.nil] σ' := by
  rw [expressionsAsExpression_of_length_ne_one es H]
  simp only [evalE]
  rw [evalE_orTrueChain, bind_assoc]
  rfl

/-- EXPRESSION position in a single-value context: the profiling call becomes the `(e or true) and …`
chain — kept arguments evaluated once each, in order, value `nil` — when the callee returns nothing
and the number of kept arguments is not one (F32). In a multi-value context the rewrite yields one
`nil` where the call yields no value (F33, the F18 shape). -/
theorem profiling_refines_expr_partial (call : CallFn N) (ρ : ExtOracle N) (k : Nat) (env : Env N) (st : St)
    (fname : String) (hname : fname = "profilebegin" ∨ fname = "profileend")
    (args : List Expr) (fv : Val N) (σ : State N)
    (H : (preserveArgumentsSideEffects .tuple args).length ≠ 1)
    (hns : isUsed st.scopes "debug" = false)
    (hf : evalE call ρ k env (.field (.var "debug") fname) σ = .ok [fv] σ)
    (hret : ∀ avs σ', evalEs call ρ k env args σ = .ok avs σ' → callVal call ρ k fv avs σ' = .ok [] σ')
    (hdrop : ∀ e ∈ args, keeps e = false → PureAt call ρ k env e) :
    evalE call ρ k env (.paren (processExpression RemoveDebugProfiling.matcher true
        (.call (.field (.var "debug") fname) none .tuple args) st).1) σ
      = evalE call ρ k env (.paren (.call (.field (.var "debug") fname) none .tuple args)) σ := by
  have hm : RemoveDebugProfiling.matcher.matchesPrefix (isUsed st.scopes) (.field (.var "debug") fname) = true := by
    rcases hname with h | h <;> simp [RemoveDebugProfiling.matcher, RemoveDebugProfiling.matchesPrefix, hns, h]
  have hc : RemoveDebugProfiling.matcher.computeResult .tuple args (reserveGlobals RemoveDebugProfiling.matcher st).mappings
      = none := rfl
  simp only [processExpression, hm, if_true, hc]
  exact evalE_paren_removed_call call ρ k env _ args fv σ hf hret hdrop H

-- non-vacuity: two kept arguments give the chain, in order
example : (processExpression RemoveDebugProfiling.matcher true
      (.call (.field (.var "debug") "profilebegin") none .tuple
        [.call (.var "f") none .tuple [], .str [], .call (.var "g") none .tuple []]) {}).1
    = .bin .and (.bin .or (.call (.var "f") none .tuple []) .true)
        (.bin .and (.bin .or (.call (.var "g") none .tuple []) .true) .nil) := by
  simp [processExpression, RemoveDebugProfiling.matcher, RemoveDebugProfiling.matchesPrefix, isUsed,
    preserveArgumentsSideEffects, argCandidates, List.filter, keeps_call, keeps_str, expressionsAsExpression, orTrueChain]
example : (preserveArgumentsSideEffects .tuple [.call (.var "f") none .tuple [], .str [], .call (.var "g") none .tuple []]).length ≠ 1 := by
  simp [preserveArgumentsSideEffects, argCandidates, List.filter, keeps_call, keeps_str]

/-! ## inject_global_value -/
open Rules.InjectValue in
/-- EXPRESSION position. The identifier `NAME` (not tracked as a local), `_G.NAME` and `_G["NAME"]`
(`_G` not tracked) are replaced by the value expression; when the value expression evaluates purely
to what the original expression reads (the global preset to the configured value, `_G` mirroring it),
the replacement is exact. -/
theorem inject_refines (call : CallFn N) (ρ : ExtOracle N) (k : Nat) (env : Env N) (st : InjectValue.St)
    (ident : String) (value : Expr) (e : Expr) (v : Val N) (σ : State N)
    (hshape : e = .var ident ∨ e = .field (.var "_G") ident ∨ e = .index (.var "_G") (.str ident.toUTF8.toList))
    (hval : evalE call ρ k env value σ = .ok [v] σ)
    (horig : evalE call ρ k env e σ = .ok [v] σ) :
    evalE call ρ k env (processExpression ident value e st).1 σ = evalE call ρ k env e σ := by
  unfold InjectValue.processExpression
  split
  · rw [hval, horig]
  · rfl

open Rules.InjectValue in
/-- the full-strength PREFIX-position claim: under the scope invariant (the tracker knows exactly the
locals), a global preset to `v` and a value expression evaluating to `v` -/
def inject_prefix_full : Prop :=
  ∀ (N : NumOps) (call : CallFn N) (ρ : ExtOracle N) (k : Nat) (env : Env N) (st : InjectValue.St)
    (ident : String) (value : Expr) (v : Val N) (σ : State N),
    isUsed st.scopes ident = (lookupAssoc ident env.locals).isSome →
    σ.getGlobal ident = v →
    evalE call ρ k env value σ = .ok [v] σ →
    evalE call ρ k env (processPrefix ident value (.var ident) st).1 σ = evalE call ρ k env (.var ident) σ

open Rules.InjectValue in
/-- F19: the prefix hook does not consult the tracker — a shadowing local is replaced too. -/
theorem inject_prefix_full_false : ¬ inject_prefix_full := by
  intro h
  have h0 := h unitOps (fun _ args σ => .ok args σ) (fun _ _ _ => []) 0 ⟨[("DEBUG", 0)], []⟩
    { scopes := [["DEBUG"]] } "DEBUG" .nil .nil witnessState
    (by simp [isUsed, lookupAssoc])
    (by simp [State.getGlobal, lookupAssoc, witnessState])
    (by simp [evalE])
  revert h0
  simp [processPrefix, evalE, Res.bind, lookupVar, lookupAssoc, witnessState, State.getCell, first]

open Rules.InjectValue in
/-- partial: the identifier is not tracked (decidable; the driver's flag `shadowed-prefix`) -/
theorem inject_prefix_partial (call : CallFn N) (ρ : ExtOracle N) (k : Nat) (env : Env N) (st : InjectValue.St)
    (ident : String) (value : Expr) (v : Val N) (σ : State N)
    (H : isUsed st.scopes ident = false)
    (hinv : isUsed st.scopes ident = (lookupAssoc ident env.locals).isSome)
    (hglobal : σ.getGlobal ident = v)
    (hval : evalE call ρ k env value σ = .ok [v] σ) :
    evalE call ρ k env (processPrefix ident value (.var ident) st).1 σ = evalE call ρ k env (.var ident) σ := by
  have hl : lookupAssoc ident env.locals = none := by
    rw [H] at hinv
    cases h : lookupAssoc ident env.locals with
    | none => rfl
    | some c => rw [h] at hinv; simp at hinv
  simp [processPrefix, evalE, hval, Res.bind, lookupVar, hl, hglobal, first]

-- non-vacuity: the three expression shapes are replaced, and a literal value meets `hval`
example : (InjectValue.processExpression "DEBUG" .true (.var "DEBUG") {}).1 = .true := by
  simp [InjectValue.processExpression, InjectValue.shouldReplace, isUsed]
example : (InjectValue.processExpression "DEBUG" .true (.field (.var "_G") "DEBUG") {}).1 = .true := by
  simp [InjectValue.processExpression, InjectValue.shouldReplace, InjectValue.isVarNamed, isUsed]
example : (InjectValue.processExpression "DEBUG" .true (.index (.var "_G") (.str "DEBUG".toUTF8.toList)) {}).1 = .true := by
  simp [InjectValue.processExpression, InjectValue.shouldReplace, InjectValue.isVarNamed, isUsed]
example : (InjectValue.processPrefix "DEBUG" .true (.var "DEBUG") { scopes := [["DEBUG"]] }).1 = .paren .true := by
  simp [InjectValue.processPrefix]
example (call : CallFn N) (ρ : ExtOracle N) (k : Nat) (env : Env N) (σ : State N) :
    evalE call ρ k env .true σ = .ok [.bool true] σ := rfl

/-! ## occurrences that refer to a local, a parameter or a field of another table are left alone -/

/-- `shadowed_untouched` (syntactic, over the tracker's scope stack, for EVERY processor state):
* remove_assertions / remove_debug_profiling leave every statement and expression alone while
  `assert` / `debug` is tracked; calls through a field of another table (`t.assert(…)`,
  `t.debug.profilebegin(…)`) and method calls are never matched;
* inject_global_value leaves the identifier alone in expression position while it is tracked,
  `_G.NAME` / `_G["NAME"]` while `_G` is tracked, and never touches a field `t.NAME` of another table. -/
theorem shadowed_untouched (st : St) (ist : InjectValue.St) (preserve : Bool) (ident : String) (value : Expr) :
    (isUsed st.scopes "assert" = true →
      (∀ s, (processStatement RemoveAssertions.matcher preserve s st).1 = s) ∧
      (∀ e, (processExpression RemoveAssertions.matcher preserve e st).1 = e)) ∧
    (isUsed st.scopes "debug" = true →
      (∀ s, (processStatement RemoveDebugProfiling.matcher preserve s st).1 = s) ∧
      (∀ e, (processExpression RemoveDebugProfiling.matcher preserve e st).1 = e)) ∧
    (∀ t name kind args m,
      (processExpression RemoveAssertions.matcher preserve (.call (.field t name) m kind args) st).1
        = .call (.field t name) m kind args ∧
      (processStatement RemoveAssertions.matcher preserve (.callStmt (.call (.field t name) m kind args)) st).1
        = .callStmt (.call (.field t name) m kind args)) ∧
    (∀ t name kind args m, t ≠ .var "debug" →
      (processExpression RemoveDebugProfiling.matcher preserve (.call (.field t name) m kind args) st).1
        = .call (.field t name) m kind args) ∧
    (∀ f kind args m,
      (processExpression RemoveAssertions.matcher preserve (.call f (some m) kind args) st).1 = .call f (some m) kind args ∧
      (processExpression RemoveDebugProfiling.matcher preserve (.call f (some m) kind args) st).1 = .call f (some m) kind args) ∧
    (isUsed ist.scopes ident = true → (InjectValue.processExpression ident value (.var ident) ist).1 = .var ident) ∧
    (isUsed ist.scopes "_G" = true → ∀ p x y,
      (InjectValue.processExpression ident value (.field p x) ist).1 = .field p x ∧
      (InjectValue.processExpression ident value (.index p y) ist).1 = .index p y) ∧
    (∀ p x, p ≠ .var "_G" → (InjectValue.processExpression ident value (.field p x) ist).1 = .field p x) := by
  refine ⟨?_, ?_, ?_, ?_, ?_, ?_, ?_, ?_⟩
  · intro hu
    have hm : ∀ f, RemoveAssertions.matcher.matchesPrefix (isUsed st.scopes) f = false := by
      intro f; simp [RemoveAssertions.matcher, RemoveAssertions.matchesPrefix, hu]
    constructor
    · intro s
      unfold processStatement
      split <;> simp [hm]
    · intro e
      unfold processExpression
      split <;> simp [hm]
  · intro hu
    have hm : ∀ f, RemoveDebugProfiling.matcher.matchesPrefix (isUsed st.scopes) f = false := by
      intro f; simp [RemoveDebugProfiling.matcher, RemoveDebugProfiling.matchesPrefix, hu]
    constructor
    · intro s
      unfold processStatement
      split <;> simp [hm]
    · intro e
      unfold processExpression
      split <;> simp [hm]
  · intro t name kind args m
    have hm : RemoveAssertions.matcher.matchesPrefix (isUsed st.scopes) (.field t name) = false := by
      simp only [RemoveAssertions.matcher, RemoveAssertions.matchesPrefix]
      split <;> rfl
    cases m <;> simp [processExpression, processStatement, hm]
  · intro t name kind args m ht
    have hm : RemoveDebugProfiling.matcher.matchesPrefix (isUsed st.scopes) (.field t name) = false := by
      simp only [RemoveDebugProfiling.matcher, RemoveDebugProfiling.matchesPrefix]
      split
      · rfl
      · cases t <;> simp_all
    cases m <;> simp [processExpression, hm]
  · intro f kind args m
    simp [processExpression]
  · intro hu
    simp [InjectValue.processExpression, InjectValue.shouldReplace, hu]
  · intro hu p x y
    constructor
    · simp [InjectValue.processExpression, InjectValue.shouldReplace, hu]
    · have : InjectValue.shouldReplace ident ist (.index p y) = false := by
        unfold InjectValue.shouldReplace
        split <;> simp_all
      simp [InjectValue.processExpression, this]
  · intro p x hp
    have : InjectValue.isVarNamed "_G" p = false := by
      cases p <;> simp_all [InjectValue.isVarNamed]
    simp [InjectValue.processExpression, InjectValue.shouldReplace, this]

-- non-vacuity: a tracked name really blocks a rewrite that would otherwise happen
example : (processStatement RemoveAssertions.matcher true (.callStmt (.call (.var "assert") none .tuple [])) { scopes := [[], ["assert"]] }).1
    = .callStmt (.call (.var "assert") none .tuple []) := by
  simp [processStatement, RemoveAssertions.matcher, RemoveAssertions.matchesPrefix, isUsed]
example : (processStatement RemoveAssertions.matcher true (.callStmt (.call (.var "assert") none .tuple [])) { scopes := [[], ["other"]] }).1
    = .doBlock (.mk [] none) := by
  simp [processStatement, RemoveAssertions.matcher, RemoveAssertions.matchesPrefix, isUsed, preserveArgumentsSideEffects,
    argCandidates, expressionsAsStatement, asStatements]

/-! ## whole-rule examples, evaluated by the kernel on the models the driver runs

`a` = the statement `assert()`, `gone` = what it becomes (`do end`). At every scope kind the
occurrence under the shadowing binder is kept and the one after the scope is removed. -/
section whole
private abbrev a : Stmt := .callStmt (.call (.var "assert") none .tuple [])
private abbrev gone : Stmt := .doBlock (.mk [] none)
private abbrev shadow : Stmt := .localAssign .loc [.mk "assert" none] [.var "f"]
private abbrev run (ss : List Stmt) : Block := (RemoveAssertions.apply true (.mk ss none)).1

-- do
example : run [.doBlock (.mk [shadow, a] none), a] = .mk [.doBlock (.mk [shadow, a] none), gone] none := by rfl
-- a `local` after a use in the same block
example : run [a, shadow, a] = .mk [gone, shadow, a] none := by rfl
-- while
example : run [.while_ .true (.mk [shadow, a] none), a] = .mk [.while_ .true (.mk [shadow, a] none), gone] none := by rfl
-- repeat: the condition is inside the scope
example : run [.repeat_ (.mk [shadow] none) (.call (.var "assert") none .tuple [.true]), a]
    = .mk [.repeat_ (.mk [shadow] none) (.call (.var "assert") none .tuple [.true]), gone] none := by rfl
-- numeric for / generic for
example : run [.nfor (.mk "assert" none) (.num 0) (.num 0) none (.mk [a] none), a]
    = .mk [.nfor (.mk "assert" none) (.num 0) (.num 0) none (.mk [a] none), gone] none := by rfl
example : run [.gfor [.mk "k" none, .mk "assert" none] [.var "it"] (.mk [a] none), a]
    = .mk [.gfor [.mk "k" none, .mk "assert" none] [.var "it"] (.mk [a] none), gone] none := by rfl
-- if branch
example : run [.ifs [(.true, .mk [shadow, a] none)] (some (.mk [a] none))]
    = .mk [.ifs [(.true, .mk [shadow, a] none)] (some (.mk [gone] none))] none := by rfl
-- function parameter, local function (its own name is in scope inside the body), method parameter
example : run [.localFn .loc "g" (.mk [.mk "assert" none] false none none [] [] (.mk [a] none)), a]
    = .mk [.localFn .loc "g" (.mk [.mk "assert" none] false none none [] [] (.mk [a] none)), gone] none := by rfl
example : run [.doBlock (.mk [.localFn .loc "assert" (.mk [] false none none [] [] (.mk [a] none)), a] none), a]
    = .mk [.doBlock (.mk [.localFn .loc "assert" (.mk [] false none none [] [] (.mk [a] none)), a] none), gone] none := by rfl
example : run [.function ["obj", "m"] (some "m") (.mk [.mk "assert" none] false none none [] [] (.mk [a] none)), a]
    = .mk [.function ["obj", "m"] (some "m") (.mk [.mk "assert" none] false none none [] [] (.mk [a] none)), gone] none := by rfl
-- `local assert = assert(x)`: the initialiser still refers to the global
example : run [.localAssign .loc [.mk "assert" none] [.call (.var "assert") none .tuple [.var "x"]], a]
    = .mk [.localAssign .loc [.mk "assert" none] [.var "x"], a] none := by rfl
-- field / method of another table
example : run [.callStmt (.call (.field (.var "t") "assert") none .tuple []), .callStmt (.call (.var "o") (some "assert") .tuple [])]
    = .mk [.callStmt (.call (.field (.var "t") "assert") none .tuple []), .callStmt (.call (.var "o") (some "assert") .tuple [])] none := by rfl
-- the reserved `select` alias is declared in front of the chunk
example : (RemoveAssertions.apply true (.mk [.localAssign .loc [.mk "select" none] [.nil]]
      (some (.ret [.call (.var "assert") none .tuple [.var "x", .var "y"]])))).1
    = .mk [.localAssign .loc [.mk (reservedName 1) none] [.var "select"], .localAssign .loc [.mk "select" none] [.nil]]
      (some (.ret [.call (.var (reservedName 1)) none .tuple [.num RemoveAssertions.oneBits, .var "x", .var "y"]])) := by rfl
-- F18 on the whole rule: `return f(assert())` becomes `return f(nil)`
example : (RemoveAssertions.apply true (.mk [] (some (.ret [.call (.var "f") none .tuple [.call (.var "assert") none .tuple []]])))).1
    = .mk [] (some (.ret [.call (.var "f") none .tuple [.nil]])) := by rfl
-- F30 on the whole rule: `assert(assert(false))` keeps a real assertion
example : run [.callStmt (.call (.var "assert") none .tuple [.call (.var "assert") none .tuple [.false]])]
    = .mk [.callStmt (.call (.var "assert") none .tuple [.false])] none := by rfl
-- F19 on the whole rule: `local DEBUG = {} DEBUG.x()` becomes `local DEBUG = {} (true).x()`
example : InjectValue.apply "DEBUG" .true
      (.mk [.localAssign .loc [.mk "DEBUG" none] [.table []], .callStmt (.call (.field (.var "DEBUG") "x") none .tuple [])] none)
    = .mk [.localAssign .loc [.mk "DEBUG" none] [.table []], .callStmt (.call (.field (.paren .true) "x") none .tuple [])] none := by rfl
-- … while in expression position the shadowed occurrence is left alone and the global one replaced
example : InjectValue.apply "DEBUG" .true
      (.mk [.callStmt (.call (.var "emit") none .tuple [.var "DEBUG"]), .localAssign .loc [.mk "DEBUG" none] [.nil],
            .callStmt (.call (.var "emit") none .tuple [.var "DEBUG"])] none)
    = .mk [.callStmt (.call (.var "emit") none .tuple [.true]), .localAssign .loc [.mk "DEBUG" none] [.nil],
           .callStmt (.call (.var "emit") none .tuple [.var "DEBUG"])] none := by rfl
-- the defect flags the driver reports for the two witnesses
example : defects (.removeAssertions true) (.mk [] (some (.ret [.call (.var "f") none .tuple [.call (.var "assert") none .tuple []]])))
    = ["zero-arg-expr"] := by rfl
example : defects (.injectGlobalValue "DEBUG" .true)
      (.mk [.localAssign .loc [.mk "DEBUG" none] [.table []], .callStmt (.call (.field (.var "DEBUG") "x") none .tuple [])] none)
    = ["shadowed-prefix"] := by rfl
end whole

end DarkluaModel.C17
