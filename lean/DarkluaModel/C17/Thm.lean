import DarkluaModel.C17.Lemmas
import DarkluaModel.C17.Whole
import DarkluaModel.C17.WholeAssert
import DarkluaModel.C17.WholeAssertU
/-!
# C17 — removal and injection rules change exactly what they name: property theorems

All statements are about the model functions the driver executes (`Rules/RemoveCallMatch.lean`,
`Rules/RemoveAssertions.lean`, `Rules/RemoveDebugProfiling.lean`, `Rules/InjectValue.lean`), on the
reference semantics `Shared/Sem.lean`, for every number system `N`, call handler, oracle, bound `k`,
environment and state. They are LOCAL (per hook) statements in the BETWEEN-ENVIRONMENTS form: the
left side runs the rewritten node, the right side runs the original node in an environment where
the targeted name holds the replacement (`assert` ↦ a value that, called, hands its arguments
back; `debug.profilebegin` ↦ a value that, called, returns nothing; `NAME` ↦ the configured value).
The "modified environment" is a hypothesis on what the variable lookup yields, so the theorems hold
for any way of installing it (the harness installs it with a Lua prelude).

After the `fix:` commits for F19 F30 F31 F32 the model follows the fixed code: `process_statement` /
`process_expression` are loops (`processStatementLoop` / `processExpressionLoop`) over one round
(`processStatementOnce` / `processExpressionOnce`); the per-round theorems below lift to the loops by
`processStatementLoop_sound` / `processExpressionLoop_sound`.

What is assumed rather than proved: arguments that darklua's `has_side_effects` declares free of
side effects evaluate purely (`PureAt`; property C08's subject), and the identifier tracker agrees
with the environment (`isUsed … = false` ↔ the name is not a local) — the visitor-level scope
invariant, to be discharged by the generic lifting theorem.
-/
namespace DarkluaModel.C17
open Sem Rules Rules.RemoveCallMatch

variable {N : NumOps}

theorem keeps_call (f : Expr) (m : Option String) (kd : ArgKind) (a : List Expr) : keeps (.call f m kd a) = true := by
  simp [keeps, hasSideEffects]
theorem keeps_true : keeps .true = false := by simp [keeps, hasSideEffects]
theorem keeps_str (b : List UInt8) : keeps (.str b) = false := by simp [keeps, hasSideEffects]
theorem keeps_paren (e : Expr) : keeps (.paren e) = keeps e := by simp [keeps, hasSideEffects]

theorem flagIf_mappings (st : St) (c : Bool) (f : String) : (st.flagIf c f).mappings = st.mappings := by
  unfold St.flagIf St.flag
  split
  · split <;> rfl
  · rfl

theorem flagIf_scopes (st : St) (c : Bool) (f : String) : (st.flagIf c f).scopes = st.scopes := by
  unfold St.flagIf St.flag
  split
  · split <;> rfl
  · rfl

/-! ## the loops of `process_statement` / `process_expression` (F30 fix)

A round that is sound on every node of a class `Good` closed under rounds makes the whole loop sound. -/

theorem processStatementLoop_sound (call : CallFn N) (ρ : ExtOracle N) (k : Nat) (env : Env N) (σ : State N)
    (M : Matcher) (preserve : Bool) (Good : Stmt → Prop)
    (hstep : ∀ s st, Good s → stmtMatched M st s = true →
      execS call ρ k env (processStatementOnce M preserve s st).1 σ = execS call ρ k env s σ ∧
      Good (processStatementOnce M preserve s st).1) :
    ∀ n s st, Good s → execS call ρ k env (processStatementLoop M preserve n s st).1 σ = execS call ρ k env s σ := by
  intro n
  induction n with
  | zero => intro s st _; rfl
  | succ n ih =>
    intro s st hg
    unfold processStatementLoop
    by_cases hm : stmtMatched M st s = true
    · simp only [hm, if_true]
      obtain ⟨h1, h2⟩ := hstep s st hg hm
      rw [ih _ _ h2, h1]
    · simp only [hm]
      rfl

theorem processExpressionLoop_sound (call : CallFn N) (ρ : ExtOracle N) (k : Nat) (env : Env N) (σ : State N)
    (M : Matcher) (preserve : Bool) (Good : Expr → Prop)
    (hstep : ∀ e st, Good e → exprMatched M st e = true →
      evalE call ρ k env (processExpressionOnce M preserve e st).1 σ = evalE call ρ k env e σ ∧
      Good (processExpressionOnce M preserve e st).1) :
    ∀ n e st, Good e → evalE call ρ k env (processExpressionLoop M preserve n e st).1 σ = evalE call ρ k env e σ := by
  intro n
  induction n with
  | zero => intro e st _; rfl
  | succ n ih =>
    intro e st hg
    unfold processExpressionLoop
    by_cases hm : exprMatched M st e = true
    · simp only [hm, if_true]
      obtain ⟨h1, h2⟩ := hstep e st hg hm
      rw [ih _ _ h2, h1]
    · simp only [hm]
      rfl

/-- a node that is not a matched call is left alone by the loops -/
theorem processStatement_of_not_matched (M : Matcher) (preserve : Bool) (s : Stmt) (st : St)
    (h : stmtMatched M st s = false) : processStatement M preserve s st = (s, st) := by
  simp [processStatement, processStatementLoop, h]

theorem processExpression_of_not_matched (M : Matcher) (preserve : Bool) (e : Expr) (st : St)
    (h : exprMatched M st e = false) : processExpression M preserve e st = (e, st) := by
  simp [processExpression, processExpressionLoop, h]

/-- F31 fix: the statement a round produces never changes the environment of the statements that
follow — it is a call statement or a `do` block, never a bare `local` -/
theorem removed_call_keeps_env (call : CallFn N) (ρ : ExtOracle N) (k : Nat) (env env' : Env N) (σ σ' : State N)
    (M : Matcher) (preserve : Bool) (s : Stmt) (st : St) (hm : stmtMatched M st s = true)
    (h : execS call ρ k env (processStatementOnce M preserve s st).1 σ = .ok (.next env') σ') : env' = env := by
  have key : ∀ t : Stmt, ((∃ c, t = .callStmt c) ∨ (∃ b, t = .doBlock b)) →
      execS call ρ k env t σ = .ok (.next env') σ' → env' = env := by
    intro t ht he
    rcases ht with ⟨c, rfl⟩ | ⟨b, rfl⟩
    · simp only [execS] at he
      cases hc : evalE call ρ k env c σ with
      | ok a σ1 => rw [hc] at he; simp only [bind_ok] at he; cases he; rfl
      | err v σ1 => rw [hc] at he; cases he
      | timeout => rw [hc] at he; cases he
    · simp only [execS] at he
      cases hc : execB call ρ k env b σ with
      | ok a σ1 =>
        rw [hc] at he
        simp only [bind_ok] at he
        cases a <;> simp at he <;> (try cases he) <;> simp_all
      | err v σ1 => rw [hc] at he; cases he
      | timeout => rw [hc] at he; cases he
  apply key _ _ h
  match s, hm with
  | .callStmt (.call f none kind args), hm =>
    simp only [stmtMatched] at hm
    simp only [processStatementOnce, hm, if_true]
    cases preserve
    · exact Or.inr ⟨_, rfl⟩
    · simp only [if_true]
      rw [expressionsAsStatement_eq_wrap]
      have hs := asStatements_shape (preserveArgumentsSideEffects kind args)
      generalize asStatements (preserveArgumentsSideEffects kind args) = ss at hs
      match ss, hs with
      | [], _ => exact Or.inr ⟨_, rfl⟩
      | [t], hs =>
        have ht := hs t (List.mem_singleton.mpr rfl)
        simp only [wrapStmts]
        cases t <;> simp [isCallOrLocal] at ht
        all_goals first | exact Or.inl ⟨_, rfl⟩ | exact Or.inr ⟨_, rfl⟩
      | _ :: _ :: _, _ => exact Or.inr ⟨_, rfl⟩

/-! ## remove_assertions -/

/-- STATEMENT position. `assert(args)` with `assert` not shadowed, when the variable `assert` holds a
value that returns its arguments: the rewritten statement is exactly the original call — the kept
arguments are evaluated once each, in order (`execS_removed_call`, via `evalDiscard`). Hypotheses:
dropped arguments are pure; kept arguments are calls under parentheses/casts (otherwise the rule
emits `do local _ = … end`). -/
theorem assert_refines (call : CallFn N) (ρ : ExtOracle N) (k : Nat) (env : Env N) (st : St)
    (args : List Expr) (σ : State N)
    (hns : isUsed st.scopes "assert" = false)
    (hret : ∀ avs σ', evalEs call ρ k env args σ = .ok avs σ' →
      callVal call ρ k (lookupVar env "assert" σ) avs σ' = .ok avs σ')
    (hdrop : ∀ e ∈ args, keeps e = false → PureAt call ρ k env e)
    (hcalls : ∀ e ∈ args, keeps e = true → isCall (getInner e) = true) :
    execS call ρ k env
        (processStatementOnce RemoveAssertions.matcher true (.callStmt (.call (.var "assert") none .tuple args)) st).1 σ
      = execS call ρ k env (.callStmt (.call (.var "assert") none .tuple args)) σ := by
  have hm : RemoveAssertions.matcher.matchesPrefix (isUsed st.scopes) (.var "assert") = true := by
    simp [RemoveAssertions.matcher, RemoveAssertions.matchesPrefix, hns]
  have hk : ∀ e ∈ preserveArgumentsSideEffects .tuple args, isCall (getInner e) = true := by
    intro e he
    simp only [preserveArgumentsSideEffects, argCandidates, List.mem_filter] at he
    exact hcalls e he.1 he.2
  simp only [processStatementOnce, hm, if_true]
  rw [wrapLocal_calls _ hk]
  exact execS_removed_call call ρ k env (.var "assert") args (lookupVar env "assert" σ) id σ
    (by simp [evalE]) hret hdrop hcalls

/-- EXPRESSION position, one argument: `assert(e)` becomes `e` — all values of `e` are kept. -/
theorem assert_refines_expr_one (call : CallFn N) (ρ : ExtOracle N) (k : Nat) (env : Env N) (st : St)
    (preserve : Bool) (kind : ArgKind) (e : Expr) (σ : State N)
    (hns : isUsed st.scopes "assert" = false)
    (hret : ∀ avs σ', evalEs call ρ k env [e] σ = .ok avs σ' →
      callVal call ρ k (lookupVar env "assert" σ) avs σ' = .ok avs σ') :
    evalE call ρ k env (processExpressionOnce RemoveAssertions.matcher preserve (.call (.var "assert") none kind [e]) st).1 σ
      = evalE call ρ k env (.call (.var "assert") none kind [e]) σ := by
  have hm : RemoveAssertions.matcher.matchesPrefix (isUsed st.scopes) (.var "assert") = true := by
    simp [RemoveAssertions.matcher, RemoveAssertions.matchesPrefix, hns]
  simp only [processExpressionOnce, hm, if_true]
  have hc : ∀ ms, RemoveAssertions.matcher.computeResult kind [e] ms = some e := fun _ => rfl
  simp only [hc]
  rw [evalE_call_of_ret call ρ k env (.var "assert") kind [e] (lookupVar env "assert" σ) id σ (by simp [evalE]) hret]
  simp only [evalEs, id]
  exact (bind_ok_id _).symm

/-- EXPRESSION position, two or more arguments: `assert(a, b, …)` becomes `select(1, a, b, …)` where
`select` is the name the processor chose (the reserved alias when `select` is shadowed); when that
name resolves to the builtin `select`, every argument is evaluated once, in order, and all values
are handed back. (`hone`: the number system reads the literal `1` as the integer one.) -/
theorem assert_refines_expr_many (call : CallFn N) (ρ : ExtOracle N) (k : Nat) (env : Env N) (st : St)
    (preserve : Bool) (a b : Expr) (rest : List Expr) (σ : State N)
    (hns : isUsed st.scopes "assert" = false)
    (hret : ∀ avs σ', evalEs call ρ (k + 2) env (a :: b :: rest) σ = .ok avs σ' →
      callVal call ρ (k + 2) (lookupVar env "assert" σ) avs σ' = .ok avs σ')
    (hsel : lookupVar env (RemoveAssertions.selectName (reserveGlobals RemoveAssertions.matcher st).mappings) σ
      = .builtin "select")
    (hone : N.toNat? (N.ofBits RemoveAssertions.oneBits) = some 1) :
    evalE call ρ (k + 2) env
        (processExpressionOnce RemoveAssertions.matcher preserve (.call (.var "assert") none .tuple (a :: b :: rest)) st).1 σ
      = evalE call ρ (k + 2) env (.call (.var "assert") none .tuple (a :: b :: rest)) σ := by
  have hm : RemoveAssertions.matcher.matchesPrefix (isUsed st.scopes) (.var "assert") = true := by
    simp [RemoveAssertions.matcher, RemoveAssertions.matchesPrefix, hns]
  simp only [processExpressionOnce, hm, if_true]
  have hc : ∀ ms, RemoveAssertions.matcher.computeResult .tuple (a :: b :: rest) ms
      = some (.call (.var (RemoveAssertions.selectName ms)) none .tuple
          (.num RemoveAssertions.oneBits :: a :: b :: rest)) := fun _ => rfl
  simp only [hc, flagIf_mappings]
  rw [evalE_select_one call ρ k env _ RemoveAssertions.oneBits (a :: b :: rest) σ hsel hone]
  rw [evalE_call_of_ret call ρ (k + 2) env (.var "assert") .tuple (a :: b :: rest) (lookupVar env "assert" σ) id σ
    (by simp [evalE]) hret]
  exact (bind_ok_id _).symm

/-! ### F18: zero arguments in expression position -/

/-- a number system for witnesses -/
def unitOps : NumOps where
  F := Unit
  ofBits := fun _ => ()
  toBits := fun _ => 0
  add := fun _ _ => ()
  sub := fun _ _ => ()
  mul := fun _ _ => ()
  div := fun _ _ => ()
  mod := fun _ _ => ()
  pow := fun _ _ => ()
  idiv := fun _ _ => ()
  neg := fun _ => ()
  lt := fun _ _ => false
  le := fun _ _ => true
  eq := fun _ _ => true
  isNaN := fun _ => false
  ofNat := fun _ => ()
  toNat? := fun _ => some 1
  toStr := fun _ => []
  ofStr := fun _ => none
  floor := fun _ => ()
  sqrt := fun _ => ()

/-- the full-strength expression-position statement: ANY argument list -/
def assert_expr_full : Prop :=
  ∀ (N : NumOps) (call : CallFn N) (ρ : ExtOracle N) (k : Nat) (env : Env N) (st : St) (args : List Expr) (σ : State N),
    isUsed st.scopes "assert" = false →
    (∀ avs σ', evalEs call ρ (k + 2) env args σ = .ok avs σ' →
      callVal call ρ (k + 2) (lookupVar env "assert" σ) avs σ' = .ok avs σ') →
    evalE call ρ (k + 2) env (processExpressionOnce RemoveAssertions.matcher true (.call (.var "assert") none .tuple args) st).1 σ
      = evalE call ρ (k + 2) env (.call (.var "assert") none .tuple args) σ

/-- the state of the F18 witness: one closure; the call handler hands the arguments back -/
def witnessState : State unitOps :=
  { globals := [], cells := [.fn 0], tables := [], closures := [⟨.mk [] true none none [] [] (.mk [] none), [], []⟩], trace := [] }

/-- F18: `assert()` becomes `nil` — one value where the argument-returning function yields none. -/
theorem assert_expr_full_false : ¬ assert_expr_full := by
  intro h
  have h0 := h unitOps (fun _ args σ => .ok args σ) (fun _ _ _ => []) 0 ⟨[("assert", 0)], []⟩ {} [] witnessState
    (by simp [isUsed])
    (by
      intro avs σ' he
      simp only [evalEs] at he
      cases he
      rfl)
  have hm : RemoveAssertions.matcher.matchesPrefix (isUsed ({} : St).scopes) (.var "assert") = true := by
    simp [RemoveAssertions.matcher, RemoveAssertions.matchesPrefix, isUsed]
  have hc : ∀ ms, RemoveAssertions.matcher.computeResult .tuple [] ms = some .nil := fun _ => rfl
  simp only [processExpressionOnce, hm, if_true] at h0
  simp only [hc] at h0
  revert h0
  simp [evalE, evalEs, Res.bind, lookupVar, lookupAssoc, witnessState, State.getCell, callVal, first]

/-- the partial statement: at least one argument (hypothesis `args ≠ []`, decidable; the driver's
flag `zero-arg-expr`) -/
theorem assert_refines_expr_partial (call : CallFn N) (ρ : ExtOracle N) (k : Nat) (env : Env N) (st : St)
    (args : List Expr) (σ : State N)
    (H : args ≠ [])
    (hns : isUsed st.scopes "assert" = false)
    (hret : ∀ avs σ', evalEs call ρ (k + 2) env args σ = .ok avs σ' →
      callVal call ρ (k + 2) (lookupVar env "assert" σ) avs σ' = .ok avs σ')
    (hsel : lookupVar env (RemoveAssertions.selectName (reserveGlobals RemoveAssertions.matcher st).mappings) σ
      = .builtin "select")
    (hone : N.toNat? (N.ofBits RemoveAssertions.oneBits) = some 1) :
    evalE call ρ (k + 2) env (processExpressionOnce RemoveAssertions.matcher true (.call (.var "assert") none .tuple args) st).1 σ
      = evalE call ρ (k + 2) env (.call (.var "assert") none .tuple args) σ := by
  match args, H with
  | [e], _ => exact assert_refines_expr_one call ρ (k + 2) env st true .tuple e σ hns hret
  | a :: b :: rest, _ => exact assert_refines_expr_many call ρ k env st true a b rest σ hns hret hsel hone

-- non-vacuity: the hook fires and produces the three shapes
example : (processExpression RemoveAssertions.matcher true (.call (.var "assert") none .tuple []) {}).1 = .nil := by rfl
example : (processExpression RemoveAssertions.matcher true (.call (.var "assert") none .tuple [.var "x"]) {}).1 = .var "x" := by rfl
-- `select` shadowed: the reserved alias is used
example : (processExpression RemoveAssertions.matcher true (.call (.var "assert") none .tuple [.var "x", .var "y"])
      { scopes := [["select"]] }).1
    = .call (.var (reservedName 1)) none .tuple [.num RemoveAssertions.oneBits, .var "x", .var "y"] := by rfl
-- statement position: a pure argument is dropped, two calls are kept in order inside `do … end`
example : (processStatement RemoveAssertions.matcher true
      (.callStmt (.call (.var "assert") none .tuple
        [.call (.var "f") none .tuple [], .true, .paren (.call (.var "g") none .tuple [])])) {}).1
    = .doBlock (.mk [.callStmt (.call (.var "f") none .tuple []), .callStmt (.call (.var "g") none .tuple [])] none) := by rfl
-- F30 regression: the loop removes a matched call that replaces a removed call (statement and expression)
example : (processStatement RemoveAssertions.matcher true
      (.callStmt (.call (.var "assert") none .tuple [.call (.var "assert") none .tuple [.false, .str []]])) {}).1
    = .doBlock (.mk [] none) := by rfl
example : (processExpression RemoveAssertions.matcher true
      (.call (.var "assert") none .tuple [.call (.var "assert") none .tuple [.var "x"]]) {}).1 = .var "x" := by rfl
-- F36 regression: a kept non-call argument that a LATER kept argument could see through `_` gets its own block
example : (processStatement RemoveAssertions.matcher true
      (.callStmt (.call (.var "assert") none .tuple
        [.field (.var "t") "x", .call (.var "emit") none .tuple [.var "_"]])) {}).1
    = .doBlock (.mk [.doBlock (.mk [.localAssign .loc [.mk "_" none] [.field (.var "t") "x"]] none),
                     .callStmt (.call (.var "emit") none .tuple [.var "_"])] none) := by rfl
-- … and the common shape (no `_` in the arguments) is unchanged
example : (processStatement RemoveAssertions.matcher true
      (.callStmt (.call (.var "assert") none .tuple
        [.field (.var "t") "x", .call (.var "emit") none .tuple [.var "y"]])) {}).1
    = .doBlock (.mk [.localAssign .loc [.mk "_" none] [.field (.var "t") "x"],
                     .callStmt (.call (.var "emit") none .tuple [.var "y"])] none) := by rfl
-- F31 regression: a lone kept non-call argument is wrapped in `do … end`
example : (processStatement RemoveAssertions.matcher true
      (.callStmt (.call (.var "assert") none .tuple [.field (.var "t") "x"])) {}).1
    = .doBlock (.mk [.localAssign .loc [.mk "_" none] [.field (.var "t") "x"]] none) := by rfl
-- the hypotheses of `assert_refines` are met by a concrete instance: `assert` is a global holding a
-- closure, the call handler hands the arguments back, one argument is an external call, one is pure
example :
    let call : CallFn unitOps := fun _ args σ => .ok args σ
    let σ0 : State unitOps := { witnessState with globals := [("assert", .fn 0), ("f", .builtin "f")] }
    let args : List Expr := [.call (.var "f") none .tuple [], .true]
    execS call (fun _ _ _ => []) 2 ⟨[], []⟩
        (processStatementOnce RemoveAssertions.matcher true (.callStmt (.call (.var "assert") none .tuple args)) {}).1 σ0
      = execS call (fun _ _ _ => []) 2 ⟨[], []⟩ (.callStmt (.call (.var "assert") none .tuple args)) σ0 := by
  intro call σ0 args
  apply assert_refines
  · simp [isUsed]
  · intro avs σ' he
    have hl : libNames.contains "f" = false := by decide
    simp [args, σ0, evalEs, evalE, Res.bind, lookupVar, lookupAssoc, State.getGlobal, callVal, hl, first,
      witnessState] at he
    obtain ⟨_, rfl⟩ := he
    simp [σ0, call, lookupVar, lookupAssoc, State.getGlobal, witnessState, callVal]
  · intro e he hk
    simp only [args, List.mem_cons, List.mem_nil_iff, or_false] at he
    rcases he with rfl | rfl
    · simp [keeps_call] at hk
    · exact fun σ => ⟨_, rfl⟩
  · intro e he hk
    simp only [args, List.mem_cons, List.mem_nil_iff, or_false] at he
    rcases he with rfl | rfl
    · simp [getInner, isCall]
    · simp [keeps_true] at hk

/-! ### kept arguments that are not calls: `do local _ = … end`

F31 (the bare `local _ = …` leaking into the enclosing block) is fixed: `removed_call_keeps_env` above.
Exact equality of states is still not available for this shape, for a harmless reason: the `local`
allocates a cell that the original call does not (invisible to the observable outcome; the harness
checks these programs through the oracle). -/

/-- statement-position claim without the `hcalls` hypothesis, as EXACT equality of states -/
def assert_stmt_exact : Prop :=
  ∀ (N : NumOps) (call : CallFn N) (ρ : ExtOracle N) (k : Nat) (env : Env N) (st : St) (args : List Expr) (σ : State N),
    isUsed st.scopes "assert" = false →
    (∀ avs σ', evalEs call ρ k env args σ = .ok avs σ' → callVal call ρ k (lookupVar env "assert" σ) avs σ' = .ok avs σ') →
    (∀ e ∈ args, keeps e = false → PureAt call ρ k env e) →
    execS call ρ k env
        (processStatementOnce RemoveAssertions.matcher true (.callStmt (.call (.var "assert") none .tuple args)) st).1 σ
      = execS call ρ k env (.callStmt (.call (.var "assert") none .tuple args)) σ

/-- not exact, only because of the allocated cell (the control outcome `.next env` is the same) -/
theorem assert_stmt_exact_false_by_allocation : ¬ assert_stmt_exact := by
  intro h
  have h0 := h unitOps (fun _ args σ => .ok args σ) (fun _ _ _ => []) 1 ⟨[("assert", 0)], []⟩ {}
    [.un .len (.var "s")]
    { witnessState with globals := [("s", .str [])] }
    (by simp [isUsed])
    (by
      intro avs σ' he
      simp [evalEs, evalE, Res.bind, lookupVar, lookupAssoc, State.getGlobal, unopVal, first, witnessState] at he
      obtain ⟨_, rfl⟩ := he
      simp [lookupVar, lookupAssoc, witnessState, State.getCell, callVal])
    (by
      intro e he hk
      simp only [List.mem_singleton] at he
      subst he
      simp [keeps, hasSideEffects, evaluate, LuaValue.isUnknown] at hk)
  have hm : RemoveAssertions.matcher.matchesPrefix (isUsed ({} : St).scopes) (.var "assert") = true := by
    simp [RemoveAssertions.matcher, RemoveAssertions.matchesPrefix, isUsed]
  simp only [processStatementOnce, hm, if_true] at h0
  revert h0
  simp [preserveArgumentsSideEffects, argCandidates, keeps, hasSideEffects, evaluate, evalUnary, LuaValue.isUnknown,
    expressionsAsStatement, asStatements, usedLaterFlags, usesDiscard, pushValue, getInner, isCall, wrapLocal, execS, execB, execSs, evalEs, evalE, Res.bind,
    lookupVar, lookupAssoc, witnessState, State.getCell, State.getGlobal, callVal, first, unopVal, bindLocals,
    State.allocCell, TName.name]

/-! ## remove_debug_profiling -/

/-- STATEMENT position: `debug.profilebegin(args)` / `debug.profileend(args)` with `debug` not shadowed,
when the callee evaluates purely to a value that, called, returns (anything) without touching the state. -/
theorem profiling_refines (call : CallFn N) (ρ : ExtOracle N) (k : Nat) (env : Env N) (st : St)
    (fname : String) (hname : fname = "profilebegin" ∨ fname = "profileend")
    (args : List Expr) (fv : Val N) (ret : List (Val N) → List (Val N)) (σ : State N)
    (hns : isUsed st.scopes "debug" = false)
    (hf : evalE call ρ k env (.field (.var "debug") fname) σ = .ok [fv] σ)
    (hret : ∀ avs σ', evalEs call ρ k env args σ = .ok avs σ' → callVal call ρ k fv avs σ' = .ok (ret avs) σ')
    (hdrop : ∀ e ∈ args, keeps e = false → PureAt call ρ k env e)
    (hcalls : ∀ e ∈ args, keeps e = true → isCall (getInner e) = true) :
    execS call ρ k env
        (processStatementOnce RemoveDebugProfiling.matcher true
          (.callStmt (.call (.field (.var "debug") fname) none .tuple args)) st).1 σ
      = execS call ρ k env (.callStmt (.call (.field (.var "debug") fname) none .tuple args)) σ := by
  have hm : RemoveDebugProfiling.matcher.matchesPrefix (isUsed st.scopes) (.field (.var "debug") fname) = true := by
    rcases hname with h | h <;> simp [RemoveDebugProfiling.matcher, RemoveDebugProfiling.matchesPrefix, hns, h]
  have hk : ∀ e ∈ preserveArgumentsSideEffects .tuple args, isCall (getInner e) = true := by
    intro e he
    simp only [preserveArgumentsSideEffects, argCandidates, List.mem_filter] at he
    exact hcalls e he.1 he.2
  simp only [processStatementOnce, hm, if_true]
  rw [wrapLocal_calls _ hk]
  exact execS_removed_call call ρ k env _ args fv ret σ hf hret hdrop hcalls

/-- `expressions_as_expression` (full strength after the F32 fix): the expressions are evaluated once
each, in order, and the value is `nil` (what a call returning nothing yields in a single-value context) -/
theorem expressions_as_expression_exact (call : CallFn N) (ρ : ExtOracle N) (k : Nat) (env : Env N)
    (es : List Expr) (σ : State N) :
    evalE call ρ k env (.paren (expressionsAsExpression es)) σ
      = (evalDiscard call ρ k env es σ).bind fun _ σ' => .ok [.nil] σ' := by
  rw [expressionsAsExpression_eq_chain]
  simp only [evalE]
  rw [evalE_orTrueChain, bind_assoc]
  rfl

-- F32 regression: the old witness `[false]` now yields `nil`
example (call : CallFn N) (ρ : ExtOracle N) (k : Nat) (env : Env N) (σ : State N) :
    evalE call ρ k env (.paren (expressionsAsExpression [.false])) σ = .ok [.nil] σ := by
  rw [expressions_as_expression_exact]
  simp [evalDiscard, evalE, Res.bind]

/-- EXPRESSION position in a single-value context: the profiling call becomes the `(e or true) and …`
chain — kept arguments evaluated once each, in order, value `nil` — when the callee returns nothing
(any number of kept arguments, after the F32 fix). In a multi-value context the rewrite yields one
`nil` where the call yields no value (F33, the F18 shape): hence the parentheses on both sides. -/
theorem profiling_refines_expr (call : CallFn N) (ρ : ExtOracle N) (k : Nat) (env : Env N) (st : St)
    (fname : String) (hname : fname = "profilebegin" ∨ fname = "profileend")
    (args : List Expr) (fv : Val N) (σ : State N)
    (hns : isUsed st.scopes "debug" = false)
    (hf : evalE call ρ k env (.field (.var "debug") fname) σ = .ok [fv] σ)
    (hret : ∀ avs σ', evalEs call ρ k env args σ = .ok avs σ' → callVal call ρ k fv avs σ' = .ok [] σ')
    (hdrop : ∀ e ∈ args, keeps e = false → PureAt call ρ k env e) :
    evalE call ρ k env (.paren (processExpressionOnce RemoveDebugProfiling.matcher true
        (.call (.field (.var "debug") fname) none .tuple args) st).1) σ
      = evalE call ρ k env (.paren (.call (.field (.var "debug") fname) none .tuple args)) σ := by
  have hm : RemoveDebugProfiling.matcher.matchesPrefix (isUsed st.scopes) (.field (.var "debug") fname) = true := by
    rcases hname with h | h <;> simp [RemoveDebugProfiling.matcher, RemoveDebugProfiling.matchesPrefix, hns, h]
  have hc : ∀ ms, RemoveDebugProfiling.matcher.computeResult .tuple args ms = none := fun _ => rfl
  simp only [processExpressionOnce, hm, if_true, hc]
  exact evalE_paren_removed_call call ρ k env _ args fv σ hf hret hdrop

-- non-vacuity: two kept arguments give the chain, in order; one kept argument gives `(e or true) and nil`
example : (processExpression RemoveDebugProfiling.matcher true
      (.call (.field (.var "debug") "profilebegin") none .tuple
        [.call (.var "f") none .tuple [], .str [], .call (.var "g") none .tuple []]) {}).1
    = .bin .and (.bin .or (.call (.var "f") none .tuple []) .true)
        (.bin .and (.bin .or (.call (.var "g") none .tuple []) .true) .nil) := by rfl
example : (processExpression RemoveDebugProfiling.matcher true
      (.call (.field (.var "debug") "profilebegin") none .tuple [.call (.var "f") none .tuple []]) {}).1
    = .bin .and (.bin .or (.call (.var "f") none .tuple []) .true) .nil := by rfl

/-! ## inject_global_value -/
open Rules.InjectValue in
/-- EXPRESSION position. The identifier `NAME` (not tracked as a local), `_G.NAME` and `_G["NAME"]`
(`_G` not tracked) are replaced by the value expression; when the value expression evaluates purely
to what the original expression reads (the global preset to the configured value, `_G` mirroring it),
the replacement is exact. -/
theorem inject_refines (call : CallFn N) (ρ : ExtOracle N) (k : Nat) (env : Env N) (st : InjectValue.St)
    (ident : String) (value : Expr) (e : Expr) (v : Val N) (σ : State N)
    (hshape : e = .var ident ∨ e = .field (.var "_G") ident ∨ e = .index (.var "_G") (.str ident.toUTF8.toList))
    (hval : evalE call ρ k env value σ = .ok [v] σ)
    (horig : evalE call ρ k env e σ = .ok [v] σ) :
    evalE call ρ k env (processExpression ident value e st).1 σ = evalE call ρ k env e σ := by
  unfold InjectValue.processExpression
  split
  · rw [hval, horig]
  · rfl

open Rules.InjectValue in
/-- PREFIX position (full strength after the F19 fix): under the scope invariant (the tracker knows
exactly the locals), a global preset to `v` and a value expression evaluating to `v`, the node the
prefix hook returns evaluates like the identifier — whether or not a local shadows it. -/
theorem inject_prefix_refines (call : CallFn N) (ρ : ExtOracle N) (k : Nat) (env : Env N) (st : InjectValue.St)
    (ident : String) (value : Expr) (v : Val N) (σ : State N)
    (hinv : isUsed st.scopes ident = (lookupAssoc ident env.locals).isSome)
    (hglobal : σ.getGlobal ident = v)
    (hval : evalE call ρ k env value σ = .ok [v] σ) :
    evalE call ρ k env (processPrefix ident value (.var ident) st).1 σ = evalE call ρ k env (.var ident) σ := by
  by_cases H : isUsed st.scopes ident = true
  · simp [processPrefix, H]
  · have H' : isUsed st.scopes ident = false := by simpa using H
    have hl : lookupAssoc ident env.locals = none := by
      rw [H'] at hinv
      cases h : lookupAssoc ident env.locals with
      | none => rfl
      | some c => rw [h] at hinv; simp at hinv
    simp [processPrefix, H', evalE, hval, Res.bind, lookupVar, hl, hglobal, first]

-- F19 regression: the old witness (a shadowing local in prefix position) is left alone
example : (InjectValue.processPrefix "DEBUG" .nil (.var "DEBUG") { scopes := [["DEBUG"]] }).1 = .var "DEBUG" := by rfl
example : (InjectValue.processPrefix "DEBUG" .true (.var "DEBUG") { scopes := [["other"]] }).1 = .paren .true := by rfl

-- non-vacuity: the three expression shapes are replaced, and a literal value meets `hval`
example : (InjectValue.processExpression "DEBUG" .true (.var "DEBUG") {}).1 = .true := by
  simp [InjectValue.processExpression, InjectValue.shouldReplace, isUsed]
example : (InjectValue.processExpression "DEBUG" .true (.field (.var "_G") "DEBUG") {}).1 = .true := by
  simp [InjectValue.processExpression, InjectValue.shouldReplace, InjectValue.isVarNamed, isUsed]
example : (InjectValue.processExpression "DEBUG" .true (.index (.var "_G") (.str "DEBUG".toUTF8.toList)) {}).1 = .true := by
  simp [InjectValue.processExpression, InjectValue.shouldReplace, InjectValue.isVarNamed, isUsed]
example (call : CallFn N) (ρ : ExtOracle N) (k : Nat) (env : Env N) (σ : State N) :
    evalE call ρ k env .true σ = .ok [.bool true] σ := rfl

/-! ## occurrences that refer to a local, a parameter or a field of another table are left alone -/

/-- `shadowed_untouched` (syntactic, over the tracker's scope stack, for EVERY processor state):
* remove_assertions / remove_debug_profiling leave every statement and expression alone while
  `assert` / `debug` is tracked; calls through a field of another table (`t.assert(…)`,
  `t.debug.profilebegin(…)`) and method calls are never matched;
* inject_global_value leaves the identifier alone in expression AND prefix position while it is tracked,
  `_G.NAME` / `_G["NAME"]` while `_G` is tracked, and never touches a field `t.NAME` of another table. -/
theorem shadowed_untouched (st : St) (ist : InjectValue.St) (preserve : Bool) (ident : String) (value : Expr) :
    (isUsed st.scopes "assert" = true →
      (∀ s, (processStatement RemoveAssertions.matcher preserve s st).1 = s) ∧
      (∀ e, (processExpression RemoveAssertions.matcher preserve e st).1 = e)) ∧
    (isUsed st.scopes "debug" = true →
      (∀ s, (processStatement RemoveDebugProfiling.matcher preserve s st).1 = s) ∧
      (∀ e, (processExpression RemoveDebugProfiling.matcher preserve e st).1 = e)) ∧
    (∀ t name kind args m,
      (processExpression RemoveAssertions.matcher preserve (.call (.field t name) m kind args) st).1
        = .call (.field t name) m kind args ∧
      (processStatement RemoveAssertions.matcher preserve (.callStmt (.call (.field t name) m kind args)) st).1
        = .callStmt (.call (.field t name) m kind args)) ∧
    (∀ t name kind args m, t ≠ .var "debug" →
      (processExpression RemoveDebugProfiling.matcher preserve (.call (.field t name) m kind args) st).1
        = .call (.field t name) m kind args) ∧
    (∀ f kind args m,
      (processExpression RemoveAssertions.matcher preserve (.call f (some m) kind args) st).1 = .call f (some m) kind args ∧
      (processExpression RemoveDebugProfiling.matcher preserve (.call f (some m) kind args) st).1 = .call f (some m) kind args) ∧
    (isUsed ist.scopes ident = true → (InjectValue.processExpression ident value (.var ident) ist).1 = .var ident) ∧
    (isUsed ist.scopes ident = true → (InjectValue.processPrefix ident value (.var ident) ist).1 = .var ident) ∧
    (isUsed ist.scopes "_G" = true → ∀ p x y,
      (InjectValue.processExpression ident value (.field p x) ist).1 = .field p x ∧
      (InjectValue.processExpression ident value (.index p y) ist).1 = .index p y) ∧
    (∀ p x, p ≠ .var "_G" → (InjectValue.processExpression ident value (.field p x) ist).1 = .field p x) := by
  have notS : ∀ (M : Matcher), (∀ f, M.matchesPrefix (isUsed st.scopes) f = false) → ∀ s, stmtMatched M st s = false := by
    intro M hm s
    unfold stmtMatched
    split <;> simp [hm]
  have notE : ∀ (M : Matcher), (∀ f, M.matchesPrefix (isUsed st.scopes) f = false) → ∀ e, exprMatched M st e = false := by
    intro M hm e
    unfold exprMatched
    split <;> simp [hm]
  refine ⟨?_, ?_, ?_, ?_, ?_, ?_, ?_, ?_, ?_⟩
  · intro hu
    have hm : ∀ f, RemoveAssertions.matcher.matchesPrefix (isUsed st.scopes) f = false := by
      intro f; simp [RemoveAssertions.matcher, RemoveAssertions.matchesPrefix, hu]
    exact ⟨fun s => by rw [processStatement_of_not_matched _ _ _ _ (notS _ hm s)],
      fun e => by rw [processExpression_of_not_matched _ _ _ _ (notE _ hm e)]⟩
  · intro hu
    have hm : ∀ f, RemoveDebugProfiling.matcher.matchesPrefix (isUsed st.scopes) f = false := by
      intro f; simp [RemoveDebugProfiling.matcher, RemoveDebugProfiling.matchesPrefix, hu]
    exact ⟨fun s => by rw [processStatement_of_not_matched _ _ _ _ (notS _ hm s)],
      fun e => by rw [processExpression_of_not_matched _ _ _ _ (notE _ hm e)]⟩
  · intro t name kind args m
    have hm : RemoveAssertions.matcher.matchesPrefix (isUsed st.scopes) (.field t name) = false := by
      simp only [RemoveAssertions.matcher, RemoveAssertions.matchesPrefix]
      split <;> rfl
    have h1 : exprMatched RemoveAssertions.matcher st (.call (.field t name) m kind args) = false := by
      cases m <;> simp [exprMatched, hm]
    have h2 : stmtMatched RemoveAssertions.matcher st (.callStmt (.call (.field t name) m kind args)) = false := by
      cases m <;> simp [stmtMatched, hm]
    exact ⟨by rw [processExpression_of_not_matched _ _ _ _ h1], by rw [processStatement_of_not_matched _ _ _ _ h2]⟩
  · intro t name kind args m ht
    have hm : RemoveDebugProfiling.matcher.matchesPrefix (isUsed st.scopes) (.field t name) = false := by
      simp only [RemoveDebugProfiling.matcher, RemoveDebugProfiling.matchesPrefix]
      split
      · rfl
      · cases t <;> simp_all
    have h1 : exprMatched RemoveDebugProfiling.matcher st (.call (.field t name) m kind args) = false := by
      cases m <;> simp [exprMatched, hm]
    rw [processExpression_of_not_matched _ _ _ _ h1]
  · intro f kind args m
    exact ⟨by rw [processExpression_of_not_matched _ _ _ _ (by simp [exprMatched])],
      by rw [processExpression_of_not_matched _ _ _ _ (by simp [exprMatched])]⟩
  · intro hu
    simp [InjectValue.processExpression, InjectValue.shouldReplace, hu]
  · intro hu
    simp [InjectValue.processPrefix, hu]
  · intro hu p x y
    constructor
    · simp [InjectValue.processExpression, InjectValue.shouldReplace, hu]
    · have : InjectValue.shouldReplace ident ist (.index p y) = false := by
        unfold InjectValue.shouldReplace
        split <;> simp_all
      simp [InjectValue.processExpression, this]
  · intro p x hp
    have : InjectValue.isVarNamed "_G" p = false := by
      cases p <;> simp_all [InjectValue.isVarNamed]
    simp [InjectValue.processExpression, InjectValue.shouldReplace, this]

-- non-vacuity: a tracked name really blocks a rewrite that would otherwise happen
example : (processStatement RemoveAssertions.matcher true (.callStmt (.call (.var "assert") none .tuple [])) { scopes := [[], ["assert"]] }).1
    = .callStmt (.call (.var "assert") none .tuple []) := by rfl
example : (processStatement RemoveAssertions.matcher true (.callStmt (.call (.var "assert") none .tuple [])) { scopes := [[], ["other"]] }).1
    = .doBlock (.mk [] none) := by rfl

/-! ## whole-rule examples, evaluated by the kernel on the models the driver runs

`a` = the statement `assert()`, `gone` = what it becomes (`do end`). At every scope kind the
occurrence under the shadowing binder is kept and the one after the scope is removed. -/
section whole
private abbrev a : Stmt := .callStmt (.call (.var "assert") none .tuple [])
private abbrev gone : Stmt := .doBlock (.mk [] none)
private abbrev shadow : Stmt := .localAssign .loc [.mk "assert" none] [.var "f"]
private abbrev run (ss : List Stmt) : Block := (RemoveAssertions.apply true (.mk ss none)).1

-- do
example : run [.doBlock (.mk [shadow, a] none), a] = .mk [.doBlock (.mk [shadow, a] none), gone] none := by rfl
-- a `local` after a use in the same block
example : run [a, shadow, a] = .mk [gone, shadow, a] none := by rfl
-- while
example : run [.while_ .true (.mk [shadow, a] none), a] = .mk [.while_ .true (.mk [shadow, a] none), gone] none := by rfl
-- repeat: the condition is inside the scope
example : run [.repeat_ (.mk [shadow] none) (.call (.var "assert") none .tuple [.true]), a]
    = .mk [.repeat_ (.mk [shadow] none) (.call (.var "assert") none .tuple [.true]), gone] none := by rfl
-- numeric for / generic for
example : run [.nfor (.mk "assert" none) (.num 0) (.num 0) none (.mk [a] none), a]
    = .mk [.nfor (.mk "assert" none) (.num 0) (.num 0) none (.mk [a] none), gone] none := by rfl
example : run [.gfor [.mk "k" none, .mk "assert" none] [.var "it"] (.mk [a] none), a]
    = .mk [.gfor [.mk "k" none, .mk "assert" none] [.var "it"] (.mk [a] none), gone] none := by rfl
-- if branch
example : run [.ifs [(.true, .mk [shadow, a] none)] (some (.mk [a] none))]
    = .mk [.ifs [(.true, .mk [shadow, a] none)] (some (.mk [gone] none))] none := by rfl
-- function parameter, local function (its own name is in scope inside the body), method parameter
example : run [.localFn .loc "g" (.mk [.mk "assert" none] false none none [] [] (.mk [a] none)), a]
    = .mk [.localFn .loc "g" (.mk [.mk "assert" none] false none none [] [] (.mk [a] none)), gone] none := by rfl
example : run [.doBlock (.mk [.localFn .loc "assert" (.mk [] false none none [] [] (.mk [a] none)), a] none), a]
    = .mk [.doBlock (.mk [.localFn .loc "assert" (.mk [] false none none [] [] (.mk [a] none)), a] none), gone] none := by rfl
example : run [.function ["obj", "m"] (some "m") (.mk [.mk "assert" none] false none none [] [] (.mk [a] none)), a]
    = .mk [.function ["obj", "m"] (some "m") (.mk [.mk "assert" none] false none none [] [] (.mk [a] none)), gone] none := by rfl
-- `local assert = assert(x)`: the initialiser still refers to the global
example : run [.localAssign .loc [.mk "assert" none] [.call (.var "assert") none .tuple [.var "x"]], a]
    = .mk [.localAssign .loc [.mk "assert" none] [.var "x"], a] none := by rfl
-- field / method of another table
example : run [.callStmt (.call (.field (.var "t") "assert") none .tuple []), .callStmt (.call (.var "o") (some "assert") .tuple [])]
    = .mk [.callStmt (.call (.field (.var "t") "assert") none .tuple []), .callStmt (.call (.var "o") (some "assert") .tuple [])] none := by rfl
-- the reserved `select` alias is declared in front of the chunk
example : (RemoveAssertions.apply true (.mk [.localAssign .loc [.mk "select" none] [.nil]]
      (some (.ret [.call (.var "assert") none .tuple [.var "x", .var "y"]])))).1
    = .mk [.localAssign .loc [.mk (reservedName 1) none] [.var "select"], .localAssign .loc [.mk "select" none] [.nil]]
      (some (.ret [.call (.var (reservedName 1)) none .tuple [.num RemoveAssertions.oneBits, .var "x", .var "y"]])) := by rfl
-- F18 on the whole rule: `return f(assert())` becomes `return f(nil)`
example : (RemoveAssertions.apply true (.mk [] (some (.ret [.call (.var "f") none .tuple [.call (.var "assert") none .tuple []]])))).1
    = .mk [] (some (.ret [.call (.var "f") none .tuple [.nil]])) := by rfl
-- F30 regression on the whole rule: `assert(assert(false))` is removed entirely
example : run [.callStmt (.call (.var "assert") none .tuple [.call (.var "assert") none .tuple [.false]])]
    = .mk [gone] none := by rfl
-- F19 regression on the whole rule: `local DEBUG = {} DEBUG.x()` is left alone, a global prefix occurrence is replaced
example : InjectValue.apply "DEBUG" .true
      (.mk [.callStmt (.call (.field (.var "DEBUG") "x") none .tuple []), .localAssign .loc [.mk "DEBUG" none] [.table []],
            .callStmt (.call (.field (.var "DEBUG") "x") none .tuple [])] none)
    = .mk [.callStmt (.call (.field (.paren .true) "x") none .tuple []), .localAssign .loc [.mk "DEBUG" none] [.table []],
           .callStmt (.call (.field (.var "DEBUG") "x") none .tuple [])] none := by rfl
-- … while in expression position the shadowed occurrence is left alone and the global one replaced
example : InjectValue.apply "DEBUG" .true
      (.mk [.callStmt (.call (.var "emit") none .tuple [.var "DEBUG"]), .localAssign .loc [.mk "DEBUG" none] [.nil],
            .callStmt (.call (.var "emit") none .tuple [.var "DEBUG"])] none)
    = .mk [.callStmt (.call (.var "emit") none .tuple [.true]), .localAssign .loc [.mk "DEBUG" none] [.nil],
           .callStmt (.call (.var "emit") none .tuple [.var "DEBUG"])] none := by rfl
-- the flags the driver reports: F18 still listed, the fixed F19 no longer, a write to the global
example : defects (.removeAssertions true) (.mk [] (some (.ret [.call (.var "f") none .tuple [.call (.var "assert") none .tuple []]])))
    = ["zero-arg-expr"] := by rfl
example : defects (.injectGlobalValue "DEBUG" .true)
      (.mk [.localAssign .loc [.mk "DEBUG" none] [.table []], .callStmt (.call (.field (.var "DEBUG") "x") none .tuple [])] none)
    = [] := by rfl
example : defects (.injectGlobalValue "DEBUG" .true) (.mk [.assign [.var "DEBUG"] [.nil]] none) = ["global-write"] := by rfl
end whole

/-! ## whole-rule theorem through the stage-3 lifting theorem (`Shared/VisitorSoundHeap.lean`)

`inject_refines_whole`: for every program that never declares or assigns the injected name (decidable
`NoRefB [.wat ident] b`; closures, loops, any other shadowing allowed), a literal value, every number
system, oracle and call level — the output of the rule's own `apply` has the same observable outcome
as the input, started in a state where the global is preset to the value. Side condition `hsame`: on
this program the rule's run coincides with the run of the identifier-only processor
(`Whole.processorVar`), i.e. no unshadowed `_G.NAME` / `_G["NAME"]` is rewritten — those shapes are
outside stage 3: the original spends `indexVal` fuel and reads a table that no context fact describes.

`assert_refines_whole` (below, stage 3 with call facts, up to budget exhaustion of the input): see its section.
NOT obtained: `profiling_refines_whole` (the callee `debug.profilebegin` is a FIELD of the watched global: the
context has facts about the value of a global and about closures held by a global, none about the contents
of a table), the `_G.NAME` shapes of injection (same reason), the `select(1, …)` form of remove_assertions
(the OUTPUT spends library fuel the input does not: at `k = 1` the input succeeds and the output times out,
and the up-to-timeout relation only excuses timeouts of the input), arguments whose dropping removes a
table / closure allocation (stage 4 renumbers tables and closures but has no context). These are listed in
`meta/C17.json` under `proof_gaps`. -/

open Whole in
theorem inject_refines_whole (ident : String) (value : Expr) (hl : isLit value = true) (b : Block)
    (hb : NoRefB [.wat ident] b)
    (hsame : InjectValue.apply ident value b = applyVar ident value b)
    {N : NumOps} (ρ : ExtOracle N) (n : Nat) (σ : State N)
    (hd : σ.getGlobal ident = litVal N value) (hc : σ.cells = []) (hcl : σ.closures = []) :
    observe (runChunk ρ n (InjectValue.apply ident value b) σ) = observe (runChunk ρ n b σ) := by
  rw [hsame]
  exact applyVar_refines ident value hl b hb ρ n σ hd hc hcl

open Whole in
/-- the same with the modified environment installed on the initial state of a run: the global is preset -/
theorem inject_refines_whole_preset (ident : String) (value : Expr) (hl : isLit value = true) (b : Block)
    (hb : NoRefB [.wat ident] b)
    (hsame : InjectValue.apply ident value b = applyVar ident value b)
    {N : NumOps} (ρ : ExtOracle N) (n : Nat) (externs : List String) :
    observe (runChunk ρ n (InjectValue.apply ident value b) ((initState externs).setGlobal ident (litVal N value)))
      = observe (runChunk ρ n b ((initState externs).setGlobal ident (litVal N value))) :=
  inject_refines_whole ident value hl b hb hsame ρ n _
    (by simp [State.getGlobal, State.setGlobal, lookupAssoc_setAssoc_self]) rfl rfl

section wholeExamples
open Whole
/-- `local function f(x) if DEBUG then emit(x, DEBUG) end end; f(1); emit(DEBUG.y); do local other = DEBUG end` -/
private def sample : Block :=
  .mk [.localFn .loc "f" (.mk [.mk "x" none] false none none [] []
         (.mk [.ifs [(.var "DEBUG", .mk [.callStmt (.call (.var "emit") none .tuple [.var "x", .var "DEBUG"])] none)] none] none)),
       .callStmt (.call (.var "f") none .tuple [.num 1]),
       .callStmt (.call (.var "emit") none .tuple [.field (.var "DEBUG") "y"]),
       .doBlock (.mk [.localAssign .loc [.mk "other" none] [.var "DEBUG"]] none)] none

-- non-vacuity: the hypotheses hold for the sample and the rule really rewrites it (expression and prefix position)
example : isLit (.str [100]) = true := rfl
example : NoRefB [.wat "DEBUG"] sample := NoRefB.ofBool rfl
example : InjectValue.apply "DEBUG" (.str [100]) sample = applyVar "DEBUG" (.str [100]) sample := by rfl
example : InjectValue.apply "DEBUG" (.str [100]) sample =
    .mk [.localFn .loc "f" (.mk [.mk "x" none] false none none [] []
           (.mk [.ifs [(.str [100], .mk [.callStmt (.call (.var "emit") none .tuple [.var "x", .str [100]])] none)] none] none)),
         .callStmt (.call (.var "f") none .tuple [.num 1]),
         .callStmt (.call (.var "emit") none .tuple [.field (.paren (.str [100])) "y"]),
         .doBlock (.mk [.localAssign .loc [.mk "other" none] [.str [100]]] none)] none := by rfl
-- a program that declares the name is outside the theorem (the local theorems cover it)
example : ¬ NoRefB [.wat "DEBUG"] (.mk [.localAssign .loc [.mk "DEBUG" none] [.nil]] none) := by
  intro h
  have := h (.wat "DEBUG") (by simp)
  revert this
  decide
end wholeExamples

/-! ## whole-rule theorem for remove_assertions (stage 3 with call facts; up to budget exhaustion)

In the modified environment `Demo.DropAssert.env0` (`assert` is closure 0 = `function(...) return ... end`),
for EVERY program that never declares or assigns `assert` (closures, loops, any other shadowing allowed),
every number system, oracle and call level: the output of the rule's own `apply` has the same observable
outcome as the input, unless the input exhausts its budget. Side condition `hsame`: on this program the
rule's run coincides with the run restricted to the rounds that have links (`WholeAssert.processorW`):
expression position with exactly one argument (`assert(e)` → `e`, all values kept), statement position when
every dropped argument is an atom and the kept ones are all calls (`assert(check(x), "msg")` → `check(x)`,
`assert(ok)` → `do end`, nested calls through the F30 loop) or all non-calls (`assert(x == 1, "msg")` →
`do local _ = x == 1 end`: the cell the output allocates is matched by nothing on the input side).
Outside: zero arguments (F18), the `select` form, a MIX of kept calls and non-calls (a sequence inside one
`do` block: no link yet), kept non-calls mentioning `_`, dropped allocations (`assert(x, {})`). `c17.wholeassert` reports the two hypotheses per generated program. -/

open WholeAssert Demo.DropAssert in
theorem assert_refines_whole (b : Block) (hb : NoRefB [.wat "assert"] b)
    (hsame : (RemoveAssertions.apply true b).1 = applyW b)
    {N : NumOps} (ρ : ExtOracle N) (n : Nat) (externs : List String) :
    observe (runChunk ρ n b (env0 externs : State N)) = .timeout ∨
      observe (runChunk ρ n (RemoveAssertions.apply true b).1 (env0 externs))
        = observe (runChunk ρ n b (env0 externs)) := by
  rw [hsame]
  exact applyW_refines b hb ρ n externs

section wholeAssertExamples
open WholeAssert
/-- `local function chk(x) assert(x, "msg"); assert(valid(x), fmt(x)); return assert(x) end;
    assert(assert(chk(1))); emit(assert(get()))` -/
def asample : Block :=
  .mk [.localFn .loc "chk" (.mk [.mk "x" none] false none none [] []
         (.mk [.callStmt (.call (.var "assert") none .tuple [.var "x", .str [109]]),
               .callStmt (.call (.var "assert") none .tuple
                 [.call (.var "valid") none .tuple [.var "x"], .call (.var "fmt") none .tuple [.var "x"]])]
              (some (.ret [.call (.var "assert") none .tuple [.var "x"]])))),
       .callStmt (.call (.var "assert") none .tuple
         [.call (.var "assert") none .tuple [.call (.var "chk") none .tuple [.num 1]]]),
       .callStmt (.call (.var "emit") none .tuple
         [.call (.var "assert") none .tuple [.call (.var "get") none .tuple []]])] none

-- non-vacuity: the hypotheses hold and every targeted call is rewritten
example : NoRefB [.wat "assert"] asample := NoRefB.ofBool rfl
def asampleOut : Block :=
  .mk [.localFn .loc "chk" (.mk [.mk "x" none] false none none [] []
         (.mk [.doBlock (.mk [] none),
               .doBlock (.mk [.callStmt (.call (.var "valid") none .tuple [.var "x"]),
                              .callStmt (.call (.var "fmt") none .tuple [.var "x"])] none)]
              (some (.ret [.var "x"])))),
       .callStmt (.call (.var "chk") none .tuple [.num 1]),
       .callStmt (.call (.var "emit") none .tuple [.call (.var "get") none .tuple []])] none
theorem asample_apply : (RemoveAssertions.apply true asample).1 = asampleOut := by rfl
theorem asample_applyW : applyW asample = asampleOut := by rfl
example : (RemoveAssertions.apply true asample).1 = applyW asample := asample_apply.trans asample_applyW.symm
-- the kept-non-call shape: `assert(t.x, "m")` → `do local _ = t.x end`, inside the side condition
example : applyW (.mk [.callStmt (.call (.var "assert") none .tuple [.field (.var "t") "x", .str [109]])] none)
    = .mk [.doBlock (.mk [.localAssign .loc [.mk "_" none] [.field (.var "t") "x"]] none)] none := by rfl
example : (RemoveAssertions.apply true (.mk [.callStmt (.call (.var "assert") none .tuple [.field (.var "t") "x", .str [109]])] none)).1
    = .mk [.doBlock (.mk [.localAssign .loc [.mk "_" none] [.field (.var "t") "x"]] none)] none := by rfl
-- outside the side condition: the `select` form is left alone by the restricted run
example : applyW (.mk [] (some (.ret [.call (.var "assert") none .tuple [.var "a", .var "b"]])))
    = .mk [] (some (.ret [.call (.var "assert") none .tuple [.var "a", .var "b"]])) := by rfl
example : (RemoveAssertions.apply true (.mk [] (some (.ret [.call (.var "assert") none .tuple [.var "a", .var "b"]])))).1
    = .mk [] (some (.ret [.call (.var "select") none .tuple [.num RemoveAssertions.oneBits, .var "a", .var "b"]])) := by rfl
end wholeAssertExamples

/-! ## the same in `Sem.HeapU` (stage 4 unified): dropped arguments may allocate

`assert_refines_whole_u` enlarges the fragment of `assert_refines_whole`: in statement position the dropped
arguments may be function expressions and table constructors of allocation-pure values (`assert(ok, {})`,
`assert(x, function() end)`) — their tables / closures are garbage of the relation. Extra hypothesis of this
relation: the oracle is FLAT (external functions return no heap references, `HeapU.OracleFlat`). -/

open WholeAssertU Demo.DropAssert in
theorem assert_refines_whole_u (b : Block) (hb : NoRefB [.wat "assert"] b)
    (hsame : (RemoveAssertions.apply true b).1 = WholeAssertU.applyW b)
    {N : NumOps} (ρ : ExtOracle N) (hρ : Sem.HeapU.OracleFlat ρ) (n : Nat) (externs : List String) :
    observe (runChunk ρ n b (env0 externs : State N)) = .timeout ∨
      observe (runChunk ρ n (RemoveAssertions.apply true b).1 (env0 externs))
        = observe (runChunk ρ n b (env0 externs)) := by
  rw [hsame]
  exact WholeAssertU.applyW_refines b hb ρ hρ n externs

section wholeAssertUExamples
-- `assert(ok, {}, function() end)` / `assert(check(x), { 1, "m" })`: inside the new fragment, outside the old one
private def usample : Block :=
  .mk [.callStmt (.call (.var "assert") none .tuple [.var "ok", .table [], .fn (.mk [] false none none [] [] (.mk [] none))]),
       .callStmt (.call (.var "assert") none .tuple
         [.call (.var "check") none .tuple [.var "x"], .table [.pos (.num 0), .pos (.str [109])]])] none
theorem usample_apply : (RemoveAssertions.apply true usample).1
    = .mk [.doBlock (.mk [] none), .callStmt (.call (.var "check") none .tuple [.var "x"])] none := by rfl
theorem usample_applyU : WholeAssertU.applyW usample
    = .mk [.doBlock (.mk [] none), .callStmt (.call (.var "check") none .tuple [.var "x"])] none := by rfl
example : (RemoveAssertions.apply true usample).1 = WholeAssertU.applyW usample := usample_apply.trans usample_applyU.symm
example : NoRefB [.wat "assert"] usample := NoRefB.ofBool rfl
-- the stage-3 fragment leaves these statements alone (dropped arguments are not atoms)
example : WholeAssert.applyW usample = usample := by rfl
end wholeAssertUExamples

end DarkluaModel.C17
