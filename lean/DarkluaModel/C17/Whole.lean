import DarkluaModel.Shared.VisitorSoundHeap
import DarkluaModel.C17.Model
/-!
# C17 — whole-rule theorem for inject_global_value through the stage-3 lifting theorem

`Shared/VisitorSoundHeap.lean`: hooks that rewrite by contextual links (`LkE.injectGlobal`) preserve the
observable outcome of every program that neither declares nor assigns the watched global. This covers
the IDENTIFIER shapes of `inject_global_value` (expression position → `value`, prefix position →
`(value)`) for literal values (`nil`, booleans, numbers, negated numbers, strings). The `_G.NAME` /
`_G["NAME"]` shapes are outside stage 3 (the original consumes `indexVal` fuel and reads a table, the
literal does not; the reference semantics has no `_G`), so the theorem is about `processorVar` — the
rule's processor with the expression hook restricted to identifiers — and transfers to the rule's own
`apply` on every program on which the two runs coincide (`hsame`, checkable by evaluation; true when the
program has no unshadowed `_G.NAME` / `_G["NAME"]`).
-/
namespace DarkluaModel.C17.Whole
open Sem Sem.Heap Rules Rules.InjectValue
open Rules.RemoveCallMatch (isUsed)

/-- the value a literal denotes -/
def litVal (N : NumOps) : Expr → Val N
  | .true => .bool true
  | .false => .bool false
  | .num b => .num (N.ofBits b)
  | .str s => .str s
  | .un .neg (.num b) => .num (N.neg (N.ofBits b))
  | _ => .nil

theorem evalE_lit {N : NumOps} (call : CallFn N) (ρ : ExtOracle N) (k : Nat) (env : Env N) (σ : State N)
    (value : Expr) (h : isLit value = true) : evalE call ρ k env value σ = .ok [litVal N value] σ := by
  unfold isLit at h
  split at h
  all_goals first
    | rfl
    | (simp at h; done)
    | (simp [evalE, litVal, unopVal, toNumber?, Res.bind, first])

theorem noRef_lit (value : Expr) (h : isLit value = true) (D : List DName) : NoRefE D value := by
  intro x _
  unfold isLit at h
  split at h
  all_goals first
    | rfl
    | (simp at h; done)
    | (simp [Expr.refs])

/-- context: the injected identifier is a watched global holding the literal's value -/
def icx (ident : String) (value : Expr) : Cx where
  W := [ident]
  G := fun N => [(ident, litVal N value)]
  sub := fun _ p hp => by simp only [List.mem_singleton] at hp; subst hp; simp

theorem hooksHeap (ident : String) (value : Expr) (hl : isLit value = true) :
    HooksHeap (icx ident value) (processorVar ident value) where
  expr := fun e s => by
    simp only [processorVar, processExpressionVar]
    split
    · rename_i n
      simp only [processExpression, shouldReplace]
      by_cases hr : (ident == n && !isUsed s.scopes ident) = true
      · have hn : ident = n := by
          simp only [Bool.and_eq_true, beq_iff_eq] at hr
          exact hr.1
        subst hn
        simp only [hr, if_true]
        exact .single (LkE.injectGlobal (by simp [icx])
          (fun N call ρ k env σ => ⟨litVal N value, by simp [icx], evalE_lit call ρ k env σ value hl⟩)
          (noRef_lit value hl))
      · simp only [hr]
        exact .refl _
    · exact .refl _
  pref := fun p s => by
    simp only [processorVar, processor, processPrefix]
    split
    · rename_i n
      by_cases hr : (ident == n && !isUsed s.scopes ident) = true
      · have hn : ident = n := by
          simp only [Bool.and_eq_true, beq_iff_eq] at hr
          exact hr.1
        subst hn
        simp only [hr, if_true]
        exact .single (LkE.injectGlobal (by simp [icx])
          (fun N call ρ k env σ => ⟨litVal N value, by simp [icx], by
            simp [evalE, evalE_lit call ρ k env σ value hl, Res.bind, first]⟩)
          (fun D => NoRefE.paren.mpr (noRef_lit value hl D)))
      · simp only [hr]
        exact .refl _
    · exact .refl _
  target := fun e s => .refl _
  stmtNode := fun x s => .refl _
  insert := fun n s => rfl
  insertLocalName := fun n v s => rfl
  insertLocalVal := fun n v s => .refl _
  insertLocalFn := fun n s => rfl

theorem watD_icx (ident : String) (value : Expr) : watD (icx ident value) = [.wat ident] := rfl

/-- **Whole-rule theorem (identifier shapes).** For EVERY program (closures, loops, shadowing locals
inside are all allowed as long as the program never declares or assigns the name `ident` itself), every
number system, oracle and level: the rewritten program has the same observable outcome as the input,
from every initial state in which the global `ident` holds the literal's value. -/
theorem applyVar_refines (ident : String) (value : Expr) (hl : isLit value = true) (b : Block)
    (hb : NoRefB [.wat ident] b) {N : NumOps} (ρ : ExtOracle N) (n : Nat) (σ : State N)
    (hd : σ.getGlobal ident = litVal N value) (hc : σ.cells = []) (hcl : σ.closures = []) :
    observe (runChunk ρ n (applyVar ident value b) σ) = observe (runChunk ρ n b σ) :=
  chain_runChunk (cx := icx ident value) (Visitor.visit_chain (hooksHeap ident value hl) true _ true b {})
    (by rw [watD_icx]; exact hb) ρ n σ
    (fun p hp => by simp only [icx, List.mem_singleton] at hp; subst hp; exact hd) hc hcl

theorem lookupAssoc_setAssoc_self {α : Type} (name : String) (v : α) (l : List (String × α)) :
    lookupAssoc name (setAssoc name v l) = some v := by
  induction l with
  | nil => simp [setAssoc, lookupAssoc]
  | cons p rest ih =>
    obtain ⟨k, w⟩ := p
    by_cases h : (k == name) = true
    · simp [setAssoc, lookupAssoc, h]
    · simp [setAssoc, lookupAssoc, h, ih]

end DarkluaModel.C17.Whole
