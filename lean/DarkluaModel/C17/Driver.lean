import DarkluaModel.Util.Sexp
/-! Line-protocol handlers for property C17 (stub: nothing modelled yet). -/
namespace DarkluaModel.C17

def handle (op : String) (_args : List String) : String :=
  "unknown-op " ++ op

end DarkluaModel.C17
