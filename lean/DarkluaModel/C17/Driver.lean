import DarkluaModel.Shared.AstSexp
import DarkluaModel.C17.Model
/-!
Line-protocol handlers for property C17.

* `c17.rule <rule-name-hex> <props> <block>` → transformed block | `unmodelled` | `unknown-rule` | `bad-request`
  props: `(preserve true|false)` for remove_assertions / remove_debug_profiling,
         `(inject <name-hex> <expr>)` for inject_global_value
* `c17.hyp <rule-name-hex> <props> <block>` → `(flag*)`: the defect regions the program touches (empty = inside H₁₇)
* `c17.whole <rule-name-hex> <props> <block>` → `(lit noref same)`: the three hypotheses of `inject_refines_whole`
  (literal value; the program never declares/assigns the name; rule run = identifier-only run); `not-applicable` for the other rules
* `c17.wholeassert <block>` → `(noref same sameU)`: the hypotheses of `assert_refines_whole` (stage 3) and `assert_refines_whole_u` (HeapU)
* `c17.rules` → the modelled rule names
-/
namespace DarkluaModel.C17

def ruleOf? (name : String) (props : Sexp) : Option (Option Rule) :=
  match name, props with
  | "remove_assertions", .list [.atom "preserve", p] => p.bool?.map fun b => some (.removeAssertions b)
  | "remove_debug_profiling", .list [.atom "preserve", p] => p.bool?.map fun b => some (.removeDebugProfiling b)
  | "inject_global_value", .list [.atom "inject", n, v] =>
    match nameOfSexp? n, Expr.ofSexp? v with
    | some n, some v => some (some (.injectGlobalValue n v))
    | _, _ => none
  | "remove_assertions", _ | "remove_debug_profiling", _ | "inject_global_value", _ => none
  | _, _ => some none

def handle (op : String) (args : List String) : String :=
  match op, Sexp.parseArgs args with
  | "rule", some [name, props, block] =>
    match nameOfSexp? name, Block.ofSexp? block with
    | some n, some b =>
      match ruleOf? n props with
      | some (some r) =>
        match applyRule r b with
        | some b' => b'.toSexp.toString
        | none => "unmodelled"
      | some none => "unknown-rule"
      | none => "bad-request"
    | _, _ => "bad-request"
  | "hyp", some [name, props, block] =>
    match nameOfSexp? name, Block.ofSexp? block with
    | some n, some b =>
      match ruleOf? n props with
      | some (some r) => (Sexp.list ((defects r b).map Sexp.atom)).toString
      | some none => "unknown-rule"
      | none => "bad-request"
    | _, _ => "bad-request"
  | "whole", some [name, props, block] =>
    match nameOfSexp? name, Block.ofSexp? block with
    | some n, some b =>
      match ruleOf? n props with
      | some (some (.injectGlobalValue ident value)) =>
        let (a, c, e) := Whole.inRegion ident value b
        (Sexp.list [Sexp.ofBool a, Sexp.ofBool c, Sexp.ofBool e]).toString
      | some (some _) => "not-applicable"
      | some none => "unknown-rule"
      | none => "bad-request"
    | _, _ => "bad-request"
  | "wholeassert", some [block] =>
    match Block.ofSexp? block with
    | some b =>
      let (a, c) := WholeAssert.inRegion b
      let (_, cu) := WholeAssertU.inRegion b
      (Sexp.list [Sexp.ofBool a, Sexp.ofBool c, Sexp.ofBool cu]).toString
    | none => "bad-request"
  | "rules", _ => "remove_assertions remove_debug_profiling inject_global_value"
  | _, _ => "unknown-op " ++ op

end DarkluaModel.C17
