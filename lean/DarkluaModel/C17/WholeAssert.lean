import DarkluaModel.Shared.VisitorSoundHeap
import DarkluaModel.C17.Lemmas
/-!
# C17 — whole-rule theorem for remove_assertions through stage 3 with call facts (up to timeout)

Context `Demo.DropAssert.acx`: `assert` is a watched global holding closure 0 whose body is
`function(...) return ... end`; every call level runs such closures as the identity or times out.
Links: expression position `assert(e)` → `e` (`SoundE.dropIdCall`); statement position
`assert(args)` → the statement built from the kept arguments, by the relational step
`dropIdCallStmt` (`assert(args)` ~ `<evaluate args, discard>`) followed by an exact step (the C17
local lemmas), when every kept argument is a call and every dropped one an atom.
-/
namespace DarkluaModel.C17.WholeAssert
open Sem Sem.Heap Rules Rules.RemoveCallMatch
open Demo.DropAssert (acx idGlobal env0)

/-! ### the relational step for a call statement -/

/-- `name(args)` as a statement against "evaluate `args'`, discard" (written `.assign [] args'`), when
`name` is a watched global that acts as the identity. Arguments are evaluated once, in order, on both
sides; the facts are read off the relation at the state after evaluating them. -/
theorem dropIdCallStmt {cx : Cx} {Q : QRel} {D : List DName} {name : String} {id : Nat} {body : FnBody} {kd : ArgKind}
    {args args' : List Expr} (hI : IdGlobal cx name id body) (ih : SoundEs Q cx D args args') :
    SoundS Q cx D (.callStmt (.call (.var name) none kd args)) (.assign [] args') := by
  intro N call ρ k env env' σ σ' β hc hs he
  have hl : lookupVar env name σ = .fn id := by
    simp only [lookupVar, (he.loc.nb name (he.loc.dw name hI.watched)).1]
    exact hs.ginv _ (hI.isFn N)
  simp only [execS, evalE, evalTargets, Res.bind, first, List.headD, hl]
  have h1 := ih N call ρ k env env' σ σ' β hc hs he
  revert h1
  generalize evalEs call ρ k env args σ = r
  generalize evalEs call ρ k env' args' σ' = r'
  intro h1
  cases r <;> cases r' <;> simp only [Heap.RRel] at h1
  · obtain ⟨β1, hle, ha, hs1⟩ := h1
    cases ha
    rename_i avs σ2 σ2'
    simp only [storeTargets]
    cases k with
    | zero => simp only [callVal]; exact RRel.timeout_left hI.upto _
    | succ k =>
      obtain ⟨id2, clo, hg, hclo, hb, henv⟩ := hs1.finv _ hI.hasBody
      have hid : id2 = id := by
        have := hs1.ginv _ (hI.isFn N)
        simp only [] at this
        rw [this] at hg
        injection hg with hg; exact hg.symm
      subst hid
      simp only [callVal, hclo]
      rcases hI.runs N call hc.cf clo avs σ2 hb henv with h2 | h2
      · rw [h2]; exact ⟨β1, hle, he.mono hle, hs1⟩
      · rw [h2]; exact RRel.timeout_left hI.upto _
  · obtain ⟨rfl, β1, hle, hs1⟩ := h1
    exact ⟨rfl, β1, hle, hs1⟩
  · exact RRel.timeout_left h1 _
  · exact RRel.timeout_left h1 _
  · trivial

/-- an exact step on the right of a relational step -/
theorem SoundS.rightEq {cx : Cx} {Q : QRel} {D : List DName} {a m b : Stmt} (h : SoundS Q cx D a m) (he : EqS m b) :
    SoundS Q cx D a b := by
  intro N call ρ k env env' σ σ' β hc hs hen
  rw [he N call ρ k env' σ']
  exact h N call ρ k env env' σ σ' β hc hs hen

/-! ### the exact step: "evaluate args, discard" = the statement the rule builds -/

theorem pureAt_atom {N : NumOps} (call : CallFn N) (ρ : ExtOracle N) (k : Nat) (env : Env N) :
    ∀ e, isAtomP e = true → PureAt call ρ k env e := by
  intro e
  induction e using isAtomP.induct with
  | case8 e ih =>
    intro h σ
    simp only [isAtomP] at h
    obtain ⟨vs, hv⟩ := ih h σ
    exact ⟨[first vs], by simp [evalE, hv, Res.bind]⟩
  | case9 e h1 h2 h3 h4 h5 h6 h7 h8 => intro h; simp [isAtomP] at h
  | _ => intro _ σ; exact ⟨_, rfl⟩

theorem stmtOK_drop {args : List Expr} (hok : stmtOK args = true) : ∀ e ∈ args, keeps e = false → isAtomP e = true := by
  intro e he hk
  simp only [stmtOK, Bool.and_eq_true] at hok
  have := List.all_eq_true.mp hok.1 e he
  simpa [hk] using this

theorem eqS_assign_rewrite (args : List Expr) (hok : stmtOK args = true)
    (hk : ∀ e ∈ preserveArgumentsSideEffects .tuple args, isCall (getInner e) = true) :
    EqS (.assign [] args) (wrapLocal (expressionsAsStatement (preserveArgumentsSideEffects .tuple args))) := by
  intro N call ρ k env σ
  have hdrop : ∀ e ∈ args, keeps e = false → PureAt call ρ k env e :=
    fun e he hke => pureAt_atom call ρ k env e (stmtOK_drop hok e he hke)
  rw [wrapLocal_calls _ hk, execS_expressionsAsStatement_calls call ρ k env _ hk]
  simp only [preserveArgumentsSideEffects, argCandidates]
  rw [evalDiscard_filter call ρ k env keeps args hdrop]
  simp only [execS, evalTargets, bind_ok, storeTargets]
  exact (evalEs_discard call ρ k env args σ (fun σ' => Res.ok (Ctl.next env) σ')).symm

/-- "evaluate args, discard" = "evaluate the kept arguments (stripped), discard" -/
theorem eqS_assign_kept (args : List Expr) (hok : stmtOK args = true) :
    EqS (.assign [] args) (.assign [] ((preserveArgumentsSideEffects .tuple args).map getInner)) := by
  intro N call ρ k env σ
  have hdrop : ∀ e ∈ args, keeps e = false → PureAt call ρ k env e :=
    fun e he hke => pureAt_atom call ρ k env e (stmtOK_drop hok e he hke)
  simp only [execS, evalTargets, bind_ok, storeTargets, preserveArgumentsSideEffects, argCandidates]
  rw [evalEs_discard call ρ k env args σ (fun σ' => Res.ok (Ctl.next env) σ'),
    evalEs_discard call ρ k env _ σ (fun σ' => Res.ok (Ctl.next env) σ'),
    evalDiscard_map_getInner, evalDiscard_filter call ρ k env keeps args hdrop]

/-- kept arguments that are all non-calls, none visible to a later one through `_`, become ONE `local _ = …` -/
theorem foldl_pushValue_noncalls (ps : List (Expr × Bool)) (k : LocalKind) (ns : List TName) (vs : List Expr)
    (h : ∀ p ∈ ps, isCall (getInner p.1) = false ∧ p.2 = false) :
    ps.foldl (fun acc p => pushValue acc (getInner p.1) p.2) [.localAssign k ns vs]
      = [.localAssign k ns (vs ++ ps.map fun p => getInner p.1)] := by
  induction ps generalizing vs with
  | nil => simp
  | cons p rest ih =>
    obtain ⟨he, hl⟩ := h p List.mem_cons_self
    have hp : pushValue [.localAssign k ns vs] (getInner p.1) p.2 = [.localAssign k ns (vs ++ [getInner p.1])] := by
      simp [pushValue, he, hl]
    rw [List.foldl_cons, hp, ih _ (fun x hx => h x (List.mem_cons_of_mem _ hx))]
    simp

theorem flags_false (es : List Expr) (h : ∀ e ∈ es, usesDiscard e = false) :
    ∀ p ∈ es.zip (usedLaterFlags es), p.2 = false := by
  induction es with
  | nil => intro p hp; simp at hp
  | cons e rest ih =>
    intro p hp
    simp only [usedLaterFlags, List.zip_cons_cons, List.mem_cons] at hp
    rcases hp with rfl | hp
    · simp only [List.any_eq_false]
      intro x hx
      simp [h x (List.mem_cons_of_mem _ hx)]
    · exact ih (fun x hx => h x (List.mem_cons_of_mem _ hx)) p hp

theorem asStatements_noncalls (e : Expr) (es : List Expr)
    (h : ∀ x ∈ e :: es, isCall (getInner x) = false ∧ usesDiscard x = false) :
    asStatements (e :: es) = [.localAssign .loc [.mk "_" none] ((e :: es).map getInner)] := by
  have hfl := flags_false (e :: es) (fun x hx => (h x hx).2)
  have hall : ∀ p ∈ (e :: es).zip (usedLaterFlags (e :: es)), isCall (getInner p.1) = false ∧ p.2 = false :=
    fun p hp => ⟨(h p.1 (List.of_mem_zip hp).1).1, hfl p hp⟩
  simp only [usedLaterFlags, List.zip_cons_cons] at hall
  have h0 := hall _ List.mem_cons_self
  have hp : pushValue [] (getInner e) (es.any usesDiscard) = [.localAssign .loc [.mk "_" none] [getInner e]] := by
    simp only [] at h0
    simp [pushValue, h0.1, h0.2]
  simp only [asStatements, usedLaterFlags, List.zip_cons_cons, List.foldl_cons, hp]
  rw [foldl_pushValue_noncalls _ _ _ _ (fun x hx => hall x (List.mem_cons_of_mem _ hx))]
  have := congrArg (List.map getInner) (zip_flags_fst es)
  simp only [List.map_map, Function.comp_def] at this
  simp [this]

/-- the allocation step: "evaluate vs, discard" against `do local _ = vs' end` — the right side allocates a
cell that nothing on the left corresponds to -/
theorem assignToLocal {cx : Cx} {Q : QRel} {D : List DName} {kd : LocalKind} {vs vs' : List Expr}
    (ih : SoundEs Q cx D vs vs') :
    SoundS Q cx D (.assign [] vs) (.doBlock (.mk [.localAssign kd [.mk "_" none] vs'] none)) := by
  intro N call ρ k env env' σ σ' β hc hs he
  simp only [execS, execB, execSs, evalTargets, Res.bind, storeTargets]
  have h1 := ih N call ρ k env env' σ σ' β hc hs he
  revert h1
  generalize evalEs call ρ k env vs σ = r
  generalize evalEs call ρ k env' vs' σ' = r'
  intro h1
  cases r <;> cases r' <;> simp only [Heap.RRel] at h1
  · obtain ⟨β1, hle, ha, hs1⟩ := h1
    cases ha
    simp only [List.map, TName.name, bindLocals]
    exact ⟨β1, hle, he.mono hle, hs1.allocRight _⟩
  · obtain ⟨rfl, β1, hle, hs1⟩ := h1
    exact ⟨rfl, β1, hle, hs1⟩
  · exact RRel.timeout_left h1 _
  · exact RRel.timeout_left h1 _
  · trivial

/-! ### references -/

theorem noRef_getInner {D : List DName} : ∀ e, NoRefE D e → NoRefE D (getInner e) := by
  intro e
  induction e using getInner.induct with
  | case1 e ih => intro h; simp only [getInner]; exact ih (NoRefE.paren.mp h)
  | case2 e ty ih => intro h; simp only [getInner]; exact ih (NoRefE.cast.mp h)
  | case3 e h1 h2 => intro h; rw [getInner]; exact h; exact h1; exact h2

theorem noRefEs_mem {D : List DName} : ∀ {es : List Expr}, NoRefEs D es → ∀ e ∈ es, NoRefE D e
  | [], _, _, he => by cases he
  | a :: rest, h, e, he => by
    rcases List.mem_cons.mp he with rfl | h2
    · exact (NoRefEs.cons.mp h).1
    · exact noRefEs_mem (NoRefEs.cons.mp h).2 e h2

theorem refsList_callStmts {D : List DName} (cs : List Expr) (h : ∀ c ∈ cs, NoRefE D c) :
    ∀ x ∈ D, Stmt.refsList x (cs.map Stmt.callStmt) = false := by
  intro x hx
  induction cs with
  | nil => rfl
  | cons c rest ih =>
    simp only [List.map_cons, Stmt.refsList, Stmt.refs, Bool.or_eq_false_iff]
    exact ⟨h c List.mem_cons_self x hx, ih fun c' hc' => h c' (List.mem_cons_of_mem _ hc')⟩

theorem noRef_wrap {D : List DName} (cs : List Expr) (h : ∀ c ∈ cs, NoRefE D c) :
    NoRefS D (wrapStmts (cs.map Stmt.callStmt)) := by
  match cs, h with
  | [], _ => exact fun x _ => rfl
  | [c], h => exact NoRefS.callStmt.mpr (h c (List.mem_singleton.mpr rfl))
  | c1 :: c2 :: rest, h =>
    intro x hx
    have := refsList_callStmts (c1 :: c2 :: rest) h x hx
    simpa [wrapStmts, Stmt.refs, Block.refs] using this

theorem matches_assert {used : String → Bool} {f : Expr}
    (h : RemoveAssertions.matcher.matchesPrefix used f = true) : f = .var "assert" := by
  simp only [RemoveAssertions.matcher, RemoveAssertions.matchesPrefix] at h
  split at h
  · cases h
  · split at h
    · rename_i n
      simp only [beq_iff_eq] at h
      rw [h]
    · cases h

/-! ### the links -/

theorem noRefEs_of_mem {D : List DName} : ∀ {es : List Expr}, (∀ e ∈ es, NoRefE D e) → NoRefEs D es
  | [], _ => fun _ _ => rfl
  | a :: rest, h =>
    NoRefEs.cons.mpr ⟨h a List.mem_cons_self, noRefEs_of_mem fun e he => h e (List.mem_cons_of_mem _ he)⟩

/-- one round of the statement loop as a chain of links: `assert(args)` ~ "evaluate args, discard" (call
fact) = the kept call statements (exact); or, when the kept arguments are non-calls, ~ "evaluate the kept
arguments, discard" ~ `do local _ = … end` (allocation on the right) -/
theorem lkS_round (s : Stmt) (st : St) (hm : stmtMatched RemoveAssertions.matcher st s = true)
    (hok : stmtRoundOK s = true) :
    Chain (LkS acx) s (processStatementOnce RemoveAssertions.matcher true s st).1 := by
  match s, hm, hok with
  | .callStmt (.call f none .tuple args), hm, hok =>
    simp only [stmtMatched] at hm
    simp only [stmtRoundOK] at hok
    have hf := matches_assert hm
    subst hf
    simp only [processStatementOnce, hm, if_true]
    have hkeptArgs : ∀ e ∈ preserveArgumentsSideEffects .tuple args, e ∈ args ∧ keeps e = true := by
      intro e he
      simpa only [preserveArgumentsSideEffects, argCandidates, List.mem_filter] using he
    by_cases hA : ∀ e ∈ preserveArgumentsSideEffects .tuple args, isCall (getInner e) = true
    · -- every kept argument is a call
      refine .single fun D _ hn => ?_
      have hargs : NoRefEs D args := (NoRefE.call.mp (NoRefS.callStmt.mp hn)).2
      refine ⟨.genS fun _ hq =>
        SoundS.rightEq (dropIdCallStmt idGlobal (Heap.reflEs hq args D hargs)) (eqS_assign_rewrite args hok hA), ?_⟩
      rw [wrapLocal_calls _ hA, expressionsAsStatement_eq_wrap, asStatements_calls _ hA]
      apply noRef_wrap
      intro c hc
      obtain ⟨e, he, rfl⟩ := List.mem_map.mp hc
      exact noRef_getInner e (noRefEs_mem hargs e (hkeptArgs e he).1)
    · -- every kept argument is a non-call, and there is at least one
      have hB : ∀ e ∈ preserveArgumentsSideEffects .tuple args,
          isCall (getInner e) = false ∧ usesDiscard e = false := by
        simp only [stmtOK, Bool.and_eq_true, Bool.or_eq_true] at hok
        rcases hok.2 with h1 | h1
        · exfalso
          apply hA
          intro e he
          have := List.all_eq_true.mp h1 e (hkeptArgs e he).1
          simpa [(hkeptArgs e he).2] using this
        · intro e he
          have := List.all_eq_true.mp h1 e (hkeptArgs e he).1
          simpa [(hkeptArgs e he).2] using this
      match hkept : preserveArgumentsSideEffects .tuple args with
      | [] => rw [hkept] at hA; exact absurd (fun e he => by cases he) hA
      | e0 :: rest =>
        rw [hkept] at hB
        have hout : wrapLocal (expressionsAsStatement (e0 :: rest))
            = .doBlock (.mk [.localAssign .loc [.mk "_" none] ((e0 :: rest).map getInner)] none) := by
          simp only [expressionsAsStatement, asStatements_noncalls e0 rest hB, wrapLocal]
        rw [hout]
        have hkeptNR : ∀ D, NoRefEs D args → NoRefEs D ((e0 :: rest).map getInner) := by
          intro D hargs
          apply noRefEs_of_mem
          intro c hc
          obtain ⟨e, he, rfl⟩ := List.mem_map.mp hc
          exact noRef_getInner e (noRefEs_mem hargs e (hkeptArgs e (hkept ▸ he)).1)
        refine .cons (b := .assign [] ((e0 :: rest).map getInner)) (fun D _ hn => ?_) (.single fun D hd hn => ?_)
        · have hargs : NoRefEs D args := (NoRefE.call.mp (NoRefS.callStmt.mp hn)).2
          refine ⟨.genS fun _ hq =>
            SoundS.rightEq (dropIdCallStmt idGlobal (Heap.reflEs hq args D hargs)) ?_, ?_⟩
          · have := eqS_assign_kept args hok
            rw [hkept] at this
            exact this
          · exact NoRefS.assign.mpr ⟨fun _ _ => rfl, hkeptNR D hargs⟩
        · have hvs : NoRefEs D ((e0 :: rest).map getInner) := (NoRefS.assign.mp hn).2
          refine ⟨.genS fun _ hq => assignToLocal (Heap.reflEs hq _ D hvs), ?_⟩
          apply NoRefS.doBlock.mpr
          intro x hx
          have h1 := hvs x hx
          have h2 : watNames x [TName.mk "_" none] = false := by
            cases x with
            | ref n => simp [watNames]
            | wat n =>
              have hw := hd.wat n hx
              simp only [acx, List.mem_singleton] at hw
              subst hw
              simp [watNames]
          simp only [Block.refs, Stmt.refsList, Stmt.refs, h1, h2, Bool.or_false]

theorem lkE_round (e : Expr) (st : St) (hm : exprMatched RemoveAssertions.matcher st e = true)
    (hok : exprRoundOK e = true) :
    LkE acx e (processExpressionOnce RemoveAssertions.matcher true e st).1 := by
  match e, hm, hok with
  | .call f none kd [a], hm, _ =>
    simp only [exprMatched] at hm
    have hf := matches_assert hm
    subst hf
    have hc : ∀ ms, RemoveAssertions.matcher.computeResult kd [a] ms = some a := fun _ => rfl
    simp only [processExpressionOnce, hm, if_true, hc]
    intro D _ hn
    have ha : NoRefE D a := (NoRefEs.cons.mp (NoRefE.call.mp hn).2).1
    exact ⟨.genE fun _ hq => SoundE.dropIdCall idGlobal (Heap.reflE hq a D ha), ha⟩

theorem chain_stmtLoop (n : Nat) : ∀ (s : Stmt) (st : St),
    Chain (LkS acx) s (processStatementLoopW RemoveAssertions.matcher n s st).1 := by
  induction n with
  | zero => intro s st; exact .refl _
  | succ n ih =>
    intro s st
    unfold processStatementLoopW
    by_cases hc : (stmtMatched RemoveAssertions.matcher st s && stmtRoundOK s) = true
    · simp only [hc, if_true]
      simp only [Bool.and_eq_true] at hc
      exact (lkS_round s st hc.1 hc.2).trans (ih _ _)
    · simp only [hc]
      exact .refl _

theorem chain_exprLoop (n : Nat) : ∀ (e : Expr) (st : St),
    Chain (LkE acx) e (processExpressionLoopW RemoveAssertions.matcher n e st).1 := by
  induction n with
  | zero => intro e st; exact .refl _
  | succ n ih =>
    intro e st
    unfold processExpressionLoopW
    by_cases hc : (exprMatched RemoveAssertions.matcher st e && exprRoundOK e) = true
    · simp only [hc, if_true]
      simp only [Bool.and_eq_true] at hc
      exact .cons (lkE_round e st hc.1 hc.2) (ih _ _)
    · simp only [hc]
      exact .refl _

theorem hooksHeap : HooksHeap acx (processorW RemoveAssertions.matcher) where
  stmt := fun s st => chain_stmtLoop _ s st
  expr := fun e st => chain_exprLoop _ e st
  node := fun e s => ⟨.refl _, .refl _⟩
  last := fun l s => .refl _
  target := fun e s => .refl _
  stmtNode := fun x s => .refl _
  insert := fun n s => rfl
  insertLocalName := fun n v s => rfl
  insertLocalVal := fun n v s => .refl _
  insertLocalFn := fun n s => rfl

/-- **Whole-rule theorem (restricted rounds).** In the modified environment `env0` (`assert` is the closure
`function(...) return ... end`), for every program that never declares or assigns `assert`, every number
system, oracle and level: the program rewritten by `applyW` has the same observable outcome as the input,
unless the input exhausts its budget. -/
theorem applyW_refines (b : Block) (hb : NoRefB [.wat "assert"] b) {N : NumOps} (ρ : ExtOracle N) (n : Nat)
    (externs : List String) :
    observe (runChunk ρ n b (env0 externs : State N)) = .timeout ∨
      observe (runChunk ρ n (applyW b) (env0 externs)) = observe (runChunk ρ n b (env0 externs)) := by
  have hr : RunOK acx b ρ (env0 externs : State N) :=
    { ok := trivial
      prog := hb
      cf := fun n clo args σ hb henv => callClosure_idBody ρ n clo args σ hb henv
      facts := fun p hp => by
        simp only [acx, List.mem_singleton] at hp; subst hp
        simp [env0, State.getGlobal, lookupAssoc]
      fnFacts := fun p hp => by
        simp only [acx, List.mem_singleton] at hp; subst hp
        exact ⟨0, ⟨idBody, [], []⟩, by simp [env0, State.getGlobal, lookupAssoc], rfl, rfl, rfl⟩
      cells := rfl
      closures := .cons (CRel.initSelf idBody (NoRefB.ofBool rfl |> fun h => NoRefF.mk.mpr ⟨fun _ _ => rfl, h⟩)) .nil }
  rcases Visitor.visit_heap' hooksHeap true _ true b {} ρ n _ hr with h | h
  · exact .inl h.2
  · exact .inr h

end DarkluaModel.C17.WholeAssert
