import DarkluaModel.Rules.RemoveAssertions
import DarkluaModel.Rules.RemoveDebugProfiling
import DarkluaModel.Rules.InjectValue
/-!
# C17 — rule dispatch and the decidable hypotheses of the partial theorems

`Rule` = the three rules with their parameters. `applyRule` runs the models of `Rules/*.lean`.
`defects` reads the instrumentation flags of the model's own traversal: which known defect regions the
rewriting meets, including in nodes produced by earlier rewrites
(the local hypotheses of the `_partial` theorems in `Thm.lean`, evaluated at every node):

| flag | region | finding |
|---|---|---|
| `zero-arg-expr` | matched `assert()` in expression position | F18 |
| `nested-single` | matched call whose only kept argument is itself a matched call: the visitor does not re-apply the hook to the node it just produced, the inner call survives | F30 |
| `bare-local` + `underscore` | statement rewritten to a bare `local _ = …` in a program that mentions the variable `_` | F31 |
| `single-kept-expr` | profiling call in expression position with exactly one kept argument: `e and nil` is `false` when `e` is `false` | F32 |
| `multi-position` | profiling call as the last element of an argument / return / table list: becomes one `nil` instead of no value | F32 |
| `shadowed-prefix` | injected identifier in prefix position under a shadowing local | F19 |
| `global-write` | the program assigns the targeted global itself (`assert = …`, `function assert() … end`, `NAME = …`, `_G.NAME = …`, `debug.profilebegin = …`): outside the property's quantifier, the rule cannot know | – |
-/
namespace DarkluaModel.C17
open Rules Rules.RemoveCallMatch

inductive Rule where
  | removeAssertions (preserve : Bool)
  | removeDebugProfiling (preserve : Bool)
  | injectGlobalValue (ident : String) (value : Expr)

/-- transformed block, or `none` when `has_side_effects` left the modelled fragment -/
def applyRule : Rule → Block → Option Block
  | .removeAssertions p, b => let (b', um) := RemoveAssertions.apply p b; if um then none else some b'
  | .removeDebugProfiling p, b => let (b', um) := RemoveDebugProfiling.apply p b; if um then none else some b'
  | .injectGlobalValue n v, b => some (InjectValue.apply n v b)

/-- raw flags met by the model's own traversal (`Rules/RemoveCallMatch.lean`, `Rules/InjectValue.lean`:
the instrumentation never influences the tree) -/
def flagsOf : Rule → Block → List String
  | .removeAssertions p, b => (RemoveCallMatch.run RemoveAssertions.matcher p b).2.flags
  | .removeDebugProfiling p, b => (RemoveCallMatch.run RemoveDebugProfiling.matcher p b).2.flags
  | .injectGlobalValue n v, b => (InjectValue.run n v b).2.flags

/-- the defect regions a program touches (`bare-local` / `underscore` only count together) -/
def defects (r : Rule) (b : Block) : List String :=
  let fs := flagsOf r b
  let leak := fs.contains "bare-local" && fs.contains "underscore"
  (fs.filter fun f => f != "bare-local" && f != "underscore") ++ (if leak then ["underscore-leak"] else [])

/-- `H₁₇`: the program is outside every listed defect region of the rule -/
def inHypothesis (r : Rule) (b : Block) : Bool := (defects r b).isEmpty

end DarkluaModel.C17
