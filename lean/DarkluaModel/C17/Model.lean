import DarkluaModel.Rules.RemoveAssertions
import DarkluaModel.Rules.RemoveDebugProfiling
import DarkluaModel.Rules.InjectValue
/-!
# C17 — rule dispatch and the decidable hypotheses of the partial theorems

`Rule` = the three rules with their parameters. `applyRule` runs the models of `Rules/*.lean`.
`defects` reads the instrumentation flags of the model's own traversal: which known defect regions the
rewriting meets, including in nodes produced by earlier rewrites
(the local hypotheses of the `_partial` theorems in `Thm.lean`, evaluated at every node):

| flag | region | finding |
|---|---|---|
| `zero-arg-expr` | matched `assert()` in expression position | F18 |
| `multi-position` | profiling call as the last element of an argument / return / table list: becomes one `nil` instead of no value | F33 |
| `global-write` | the program assigns the targeted global itself (`assert = …`, `function assert() … end`, `NAME = …`, `_G.NAME = …`, `debug.profilebegin = …`): outside the property's quantifier, the rule cannot know | – |

Fixed in /repo and no longer excused (the flags are gone): F19 (`shadowed-prefix`), F30 (`nested-single`),
F31 (`underscore-leak`), F32 (`single-kept-expr`).
-/
namespace DarkluaModel.C17
open Rules Rules.RemoveCallMatch

inductive Rule where
  | removeAssertions (preserve : Bool)
  | removeDebugProfiling (preserve : Bool)
  | injectGlobalValue (ident : String) (value : Expr)

/-- transformed block, or `none` when `has_side_effects` left the modelled fragment -/
def applyRule : Rule → Block → Option Block
  | .removeAssertions p, b => let (b', um) := RemoveAssertions.apply p b; if um then none else some b'
  | .removeDebugProfiling p, b => let (b', um) := RemoveDebugProfiling.apply p b; if um then none else some b'
  | .injectGlobalValue n v, b => some (InjectValue.apply n v b)

/-- raw flags met by the model's own traversal (`Rules/RemoveCallMatch.lean`, `Rules/InjectValue.lean`:
the instrumentation never influences the tree) -/
def flagsOf : Rule → Block → List String
  | .removeAssertions p, b => (RemoveCallMatch.run RemoveAssertions.matcher p b).2.flags
  | .removeDebugProfiling p, b => (RemoveCallMatch.run RemoveDebugProfiling.matcher p b).2.flags
  | .injectGlobalValue n v, b => (InjectValue.run n v b).2.flags

/-- the defect regions a program touches -/
def defects (r : Rule) (b : Block) : List String := flagsOf r b

/-- `H₁₇`: the program is outside every listed defect region of the rule -/
def inHypothesis (r : Rule) (b : Block) : Bool := (defects r b).isEmpty

end DarkluaModel.C17
