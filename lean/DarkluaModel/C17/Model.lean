import DarkluaModel.Shared.AstSexp
import DarkluaModel.Rules.RemoveAssertions
import DarkluaModel.Rules.RemoveDebugProfiling
import DarkluaModel.Rules.InjectValue
import DarkluaModel.Shared.VisitorSound.Heap.Refs
/-!
# C17 — rule dispatch and the decidable hypotheses of the partial theorems

`Rule` = the three rules with their parameters. `applyRule` runs the models of `Rules/*.lean`.
`defects` reads the instrumentation flags of the model's own traversal: which known defect regions the
rewriting meets, including in nodes produced by earlier rewrites
(the local hypotheses of the `_partial` theorems in `Thm.lean`, evaluated at every node):

| flag | region | finding |
|---|---|---|
| `zero-arg-expr` | matched `assert()` in expression position | F18 |
| `multi-position` | profiling call as the last element of an argument / return / table list: becomes one `nil` instead of no value | F33 |
| `global-write` | the program assigns the targeted global itself (`assert = …`, `function assert() … end`, `NAME = …`, `_G.NAME = …`, `debug.profilebegin = …`): outside the property's quantifier, the rule cannot know | – |

Fixed in /repo and no longer excused (the flags are gone): F19 (`shadowed-prefix`), F30 (`nested-single`),
F31 (`underscore-leak`), F32 (`single-kept-expr`), F36 (`underscore-in-args`).
-/
namespace DarkluaModel.C17
open Rules Rules.RemoveCallMatch

inductive Rule where
  | removeAssertions (preserve : Bool)
  | removeDebugProfiling (preserve : Bool)
  | injectGlobalValue (ident : String) (value : Expr)

/-- transformed block, or `none` when `has_side_effects` left the modelled fragment -/
def applyRule : Rule → Block → Option Block
  | .removeAssertions p, b => let (b', um) := RemoveAssertions.apply p b; if um then none else some b'
  | .removeDebugProfiling p, b => let (b', um) := RemoveDebugProfiling.apply p b; if um then none else some b'
  | .injectGlobalValue n v, b => some (InjectValue.apply n v b)

/-- raw flags met by the model's own traversal (`Rules/RemoveCallMatch.lean`, `Rules/InjectValue.lean`:
the instrumentation never influences the tree) -/
def flagsOf : Rule → Block → List String
  | .removeAssertions p, b => (RemoveCallMatch.run RemoveAssertions.matcher p b).2.flags
  | .removeDebugProfiling p, b => (RemoveCallMatch.run RemoveDebugProfiling.matcher p b).2.flags
  | .injectGlobalValue n v, b => (InjectValue.run n v b).2.flags

/-- the defect regions a program touches -/
def defects (r : Rule) (b : Block) : List String := flagsOf r b

/-- `H₁₇`: the program is outside every listed defect region of the rule -/
def inHypothesis (r : Rule) (b : Block) : Bool := (defects r b).isEmpty

end DarkluaModel.C17

/-! ### the region of the whole-rule theorem `inject_refines_whole` (`C17/Whole.lean`, `C17/Thm.lean`) -/
namespace DarkluaModel.C17.Whole
open Rules Rules.InjectValue

/-- literal value expressions (what `inject_global_value` builds from scalar JSON values) -/
def isLit : Expr → Bool
  | .nil | .true | .false | .num _ | .str _ => true
  | .un .neg (.num _) => true
  | _ => false

/-- the expression hook restricted to identifiers -/
def processExpressionVar (ident : String) (value : Expr) (e : Expr) (st : St) : Expr × St :=
  match e with
  | .var _ => processExpression ident value e st
  | _ => (e, st)

def processorVar (ident : String) (value : Expr) : Processor St :=
  { processor ident value with expr := processExpressionVar ident value }

def applyVar (ident : String) (value : Expr) (b : Block) : Block :=
  (Visitor.runScoped (processorVar ident value) b {}).1

/-- is (value, program) inside the hypotheses of `inject_refines_whole`? literal value, the program never
declares or assigns the name, and the rule's run coincides with the identifier-only run -/
def inRegion (ident : String) (value : Expr) (b : Block) : Bool × Bool × Bool :=
  (isLit value, !b.refs (.wat ident),
    (InjectValue.apply ident value b).toSexp.toString == (applyVar ident value b).toSexp.toString)

end DarkluaModel.C17.Whole

/-! ### the region of the whole-rule theorem `assert_refines_whole` (`C17/WholeAssert.lean`, `C17/Thm.lean`)

`processorW` is the processor of remove_assertions (side effects preserved) whose loops only perform the
rounds the stage-3 lifting theorem has links for: expression position with exactly ONE argument
(`assert(e)` → `e`), statement position when every kept argument is a call (under parentheses / casts)
and every dropped argument is an atom, or every kept argument is a non-call (one `do local _ = … end`). `applyW` has no reserved-global declaration (no `select` form). -/
namespace DarkluaModel.C17.WholeAssert
open Rules Rules.RemoveCallMatch

/-- literals, identifiers, `...`, possibly parenthesised: evaluate purely in every context -/
def isAtomP : Expr → Bool
  | .nil | .true | .false | .num _ | .str _ | .var _ | .vararg => true
  | .paren e => isAtomP e
  | _ => false

/-- dropped arguments are atoms, and the kept ones are either all calls (→ call statements) or all
non-calls that do not mention `_` (→ one `do local _ = … end`) -/
def stmtOK (args : List Expr) : Bool :=
  (args.all fun e => keeps e || isAtomP e) &&
  ((args.all fun e => !keeps e || isCall (getInner e)) ||
    (args.all fun e => !keeps e || (!isCall (getInner e) && !usesDiscard e)))

def exprRoundOK : Expr → Bool
  | .call _ none _ [_] => true
  | _ => false

def stmtRoundOK : Stmt → Bool
  | .callStmt (.call _ none .tuple args) => stmtOK args
  | _ => false

def processStatementLoopW (M : Matcher) : Nat → Stmt → St → Stmt × St
  | 0, s, st => (s, st)
  | n + 1, s, st =>
    if stmtMatched M st s && stmtRoundOK s then
      let r := processStatementOnce M true s st
      processStatementLoopW M n r.1 r.2
    else (s, st)

def processExpressionLoopW (M : Matcher) : Nat → Expr → St → Expr × St
  | 0, e, st => (e, st)
  | n + 1, e, st =>
    if exprMatched M st e && exprRoundOK e then
      let r := processExpressionOnce M true e st
      processExpressionLoopW M n r.1 r.2
    else (e, st)

def processorW (M : Matcher) : Processor St :=
  { RemoveCallMatch.processor M true with
    stmt := fun s st => processStatementLoopW M (s.size + 1) s st
    expr := fun e st => processExpressionLoopW M (e.size + 1) e st }

def applyW (b : Block) : Block := (Visitor.runScoped (processorW RemoveAssertions.matcher) b {}).1

/-- is the program inside the hypotheses of `assert_refines_whole`? it never declares or assigns `assert`,
and the rule's run coincides with the restricted run -/
def inRegion (b : Block) : Bool × Bool :=
  (!b.refs (.wat "assert"),
    (RemoveAssertions.apply true b).1.toSexp.toString == (applyW b).toSexp.toString)

end DarkluaModel.C17.WholeAssert

/-! ### the region of `assert_refines_whole_u` (`C17/WholeAssertU.lean`): stage 4 unified (`Sem.HeapU`)

As `WholeAssert`, but the dropped arguments of a statement-position call may ALLOCATE: literals, identifiers,
`...`, parentheses, function expressions and table constructors (without computed keys) of such
(`allocPureM`, a copy of `Expr.allocPure` of the generic layer). -/
namespace DarkluaModel.C17.WholeAssertU
open Rules Rules.RemoveCallMatch

mutual
  def allocPureM : Expr → Bool
    | .nil | .true | .false | .num _ | .str _ | .var _ | .vararg => true
    | .paren e => allocPureM e
    | .fn _ => true
    | .table es => allocPureListM es
    | _ => false
  def allocPureListM : List Entry → Bool
    | [] => true
    | .pos v :: rest => allocPureM v && allocPureListM rest
    | .named _ v :: rest => allocPureM v && allocPureListM rest
    | .keyed _ _ :: _ => false
end

def stmtOK (args : List Expr) : Bool :=
  (args.all fun e => keeps e || allocPureM e) &&
  ((args.all fun e => !keeps e || isCall (getInner e)) ||
    (args.all fun e => !keeps e || (!isCall (getInner e) && !usesDiscard e)))

def stmtRoundOK : Stmt → Bool
  | .callStmt (.call _ none .tuple args) => stmtOK args
  | _ => false

def processStatementLoopW (M : Matcher) : Nat → Stmt → St → Stmt × St
  | 0, s, st => (s, st)
  | n + 1, s, st =>
    if stmtMatched M st s && stmtRoundOK s then
      let r := processStatementOnce M true s st
      processStatementLoopW M n r.1 r.2
    else (s, st)

def processorW (M : Matcher) : Processor St :=
  { RemoveCallMatch.processor M true with
    stmt := fun s st => processStatementLoopW M (s.size + 1) s st
    expr := fun e st => WholeAssert.processExpressionLoopW M (e.size + 1) e st }

def applyW (b : Block) : Block := (Visitor.runScoped (processorW RemoveAssertions.matcher) b {}).1

def inRegion (b : Block) : Bool × Bool :=
  (!b.refs (.wat "assert"),
    (RemoveAssertions.apply true b).1.toSexp.toString == (applyW b).toSexp.toString)

end DarkluaModel.C17.WholeAssertU

