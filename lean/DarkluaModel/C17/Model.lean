import DarkluaModel.Rules.RemoveAssertions
import DarkluaModel.Rules.RemoveDebugProfiling
import DarkluaModel.Rules.InjectValue
/-!
# C17 — rule dispatch and the decidable hypotheses of the partial theorems

`Rule` = the three rules with their parameters. `applyRule` runs the models of `Rules/*.lean`.
`defects` runs an instrumented, NON-rewriting processor with the same matcher and the same
identifier tracker over the same visitor and lists which known defect regions a program touches
(the local hypotheses of the `_partial` theorems in `Thm.lean`, evaluated at every node):

| flag | region | finding |
|---|---|---|
| `zero-arg-expr` | matched `assert()` in expression position | F18 |
| `nested-single` | matched call whose only kept argument is itself a matched call: the visitor does not re-apply the hook to the node it just produced, the inner call survives | F30 |
| `bare-local` + `underscore` | statement rewritten to a bare `local _ = …` in a program that mentions the variable `_` | F31 |
| `single-kept-expr` | profiling call in expression position with exactly one kept argument: `e and nil` is `false` when `e` is `false` | F32 |
| `multi-position` | profiling call as the last element of an argument / return / table list: becomes one `nil` instead of no value | F32 |
| `shadowed-prefix` | injected identifier in prefix position under a shadowing local | F19 |
| `global-write` | the program assigns the targeted global itself (`assert = …`, `function assert() … end`, `NAME = …`, `_G.NAME = …`, `debug.profilebegin = …`): outside the property's quantifier, the rule cannot know | – |
-/
namespace DarkluaModel.C17
open Rules Rules.RemoveCallMatch

inductive Rule where
  | removeAssertions (preserve : Bool)
  | removeDebugProfiling (preserve : Bool)
  | injectGlobalValue (ident : String) (value : Expr)

/-- transformed block, or `none` when `has_side_effects` left the modelled fragment -/
def applyRule : Rule → Block → Option Block
  | .removeAssertions p, b => let (b', um) := RemoveAssertions.apply p b; if um then none else some b'
  | .removeDebugProfiling p, b => let (b', um) := RemoveDebugProfiling.apply p b; if um then none else some b'
  | .injectGlobalValue n v, b => some (InjectValue.apply n v b)

structure HSt where
  scopes : Scopes := []
  flags : List String := []

def HSt.flag (st : HSt) (f : String) : HSt :=
  if st.flags.contains f then st else { st with flags := st.flags ++ [f] }

/-- a matched call (no method) -/
def isMatchedCall (M : Matcher) (sc : Scopes) : Expr → Bool
  | .call f none _ _ => M.matchesPrefix (isUsed sc) f
  | _ => false

def lastPositional : List Entry → Option Expr
  | [] => none
  | [.pos v] => some v
  | _ :: rest => lastPositional rest

/-- instrumentation for the rules built on `RemoveFunctionCallProcessor`; `hasResult` = the
matcher has a `compute_result` (remove_assertions) -/
def hypProcessor (M : Matcher) (hasResult : Bool) (watched : List String) : Processor HSt where
  target := fun e st =>
    match e with
    | .var n => (e, if watched.contains n && !isUsed st.scopes n then st.flag "global-write" else st)
    | .field (.var n) _ => (e, if n == "debug" && watched.contains n && !isUsed st.scopes n then st.flag "global-write" else st)
    | _ => (e, st)
  stmtNode := fun s st =>
    match s with
    | .function (root :: _) _ _ => (s, if watched.contains root && !isUsed st.scopes root then st.flag "global-write" else st)
    | _ => (s, st)
  stmt := fun s st =>
    match s with
    | .callStmt (.call f none kind args) =>
      if M.matchesPrefix (isUsed st.scopes) f then
        match expressionsAsStatement (preserveArgumentsSideEffects kind args) with
        | .callStmt c => (s, if isMatchedCall M st.scopes c then st.flag "nested-single" else st)
        | .localAssign _ _ _ => (s, st.flag "bare-local")
        | _ => (s, st)
      else (s, st)
    | _ => (s, st)
  expr := fun e st =>
    match e with
    | .call f none kind args =>
      if M.matchesPrefix (isUsed st.scopes) f then
        if hasResult then
          match args with
          | [] => (e, st.flag "zero-arg-expr")
          | [a] => (e, if isMatchedCall M st.scopes a then st.flag "nested-single" else st)
          | _ => (e, st)
        else
          (e, if (preserveArgumentsSideEffects kind args).length == 1 then st.flag "single-kept-expr" else st)
      else (e, st)
    | _ => (e, st)
  node := fun e st =>
    match e with
    | .var "_" => (e, st.flag "underscore")
    | .call _ _ .tuple args =>
      match args.getLast? with
      | some a => (e, if !hasResult && isMatchedCall M st.scopes a then st.flag "multi-position" else st)
      | none => (e, st)
    | .table entries =>
      match lastPositional entries with
      | some a => (e, if !hasResult && isMatchedCall M st.scopes a then st.flag "multi-position" else st)
      | none => (e, st)
    | _ => (e, st)
  last := fun l st =>
    match l with
    | .ret es =>
      match es.getLast? with
      | some a => (l, if !hasResult && isMatchedCall M st.scopes a then st.flag "multi-position" else st)
      | none => (l, st)
    | _ => (l, st)
  push := fun st => { st with scopes := pushScope st.scopes }
  pop := fun st => { st with scopes := popScope st.scopes }
  insert := fun n st => (n, { st with scopes := insertId n st.scopes })
  insertSelf := fun st => { st with scopes := insertId "self" st.scopes }
  insertLocal := fun n e st => ((n, e), { st with scopes := insertId n st.scopes })
  insertLocalFn := fun n st => (n, { st with scopes := insertId n st.scopes })

def hypInject (ident : String) : Processor HSt where
  target := fun e st =>
    match e with
    | .var n => (e, if (n == ident || n == "_G") && !isUsed st.scopes n then st.flag "global-write" else st)
    | .field (.var "_G") f => (e, if f == ident && !isUsed st.scopes "_G" then st.flag "global-write" else st)
    | .index (.var "_G") (.str k) => (e, if k == ident.toUTF8.toList && !isUsed st.scopes "_G" then st.flag "global-write" else st)
    | _ => (e, st)
  stmtNode := fun s st =>
    match s with
    | .function (root :: _) _ _ => (s, if (root == ident || root == "_G") && !isUsed st.scopes root then st.flag "global-write" else st)
    | _ => (s, st)
  pref := fun p st =>
    match p with
    | .var n => (p, if n == ident && isUsed st.scopes ident then st.flag "shadowed-prefix" else st)
    | _ => (p, st)
  push := fun st => { st with scopes := pushScope st.scopes }
  pop := fun st => { st with scopes := popScope st.scopes }
  insert := fun n st => (n, { st with scopes := insertId n st.scopes })
  insertSelf := fun st => { st with scopes := insertId "self" st.scopes }
  insertLocal := fun n e st => ((n, e), { st with scopes := insertId n st.scopes })
  insertLocalFn := fun n st => (n, { st with scopes := insertId n st.scopes })

/-- raw flags of a program under a rule -/
def flagsOf : Rule → Block → List String
  | .removeAssertions _, b => (Visitor.runScoped (hypProcessor RemoveAssertions.matcher true ["assert", "select"]) b {}).2.flags
  | .removeDebugProfiling _, b => (Visitor.runScoped (hypProcessor RemoveDebugProfiling.matcher false ["debug"]) b {}).2.flags
  | .injectGlobalValue n _, b => (Visitor.runScoped (hypInject n) b {}).2.flags

/-- the defect regions a program touches (`bare-local` / `underscore` only count together) -/
def defects (r : Rule) (b : Block) : List String :=
  let fs := flagsOf r b
  let leak := fs.contains "bare-local" && fs.contains "underscore"
  (fs.filter fun f => f != "bare-local" && f != "underscore") ++ (if leak then ["underscore-leak"] else [])

/-- `H₁₇`: the program is outside every listed defect region of the rule -/
def inHypothesis (r : Rule) (b : Block) : Bool := (defects r b).isEmpty

end DarkluaModel.C17
