import DarkluaModel.Shared.AstSexp
import DarkluaModel.Shared.FloatOps
import DarkluaModel.Rules.EmptyDo
import DarkluaModel.Rules.EvalC08
import DarkluaModel.Rules.EvaluatorFloat
import DarkluaModel.C08.Model
import DarkluaModel.Rules.UnusedWhile
import DarkluaModel.Rules.UnusedIfBranch
import DarkluaModel.Rules.FilterEarlyReturn
import DarkluaModel.Rules.MethodDef
import DarkluaModel.Rules.CallParens
import DarkluaModel.Rules.Trivia
import DarkluaModel.Rules.ComputeExpression
import DarkluaModel.Rules.ConvertIndexToField
import DarkluaModel.Rules.NilDeclaration
import DarkluaModel.Rules.UnusedVariable
import DarkluaModel.Rules.UnusedVariableHeap
import DarkluaModel.Rules.UnusedVariableHeapV
import DarkluaModel.Rules.UnusedVariableHeapV2
import DarkluaModel.Rules.UnusedVariableHeapV3
import DarkluaModel.Rules.UnusedVariableHeapV4
import DarkluaModel.Rules.UnusedVariableHeapV5
import DarkluaModel.Rules.NilDeclarationHeap
import DarkluaModel.Rules.NilDeclarationHeap2
import DarkluaModel.Rules.AllocCondU
import DarkluaModel.Rules.ComputeExpressionWhole
/-! Line-protocol handlers for property C01:
* `c01.rule <rule-name-hex> <block>` → transformed block (the evaluator instance is the C08 model
  over IEEE doubles, `Rules/EvalC08.lean`);
* `c01.region <rule-name-hex> <block>` → `in` / `out <why>`: the hypothesis `H` of the rule's theorem;
* `c01.rules` → the modelled rule names. -/
namespace DarkluaModel.C01
open DarkluaModel.Rules

/-- the evaluator instance the driver runs the rule models with -/
def driverApi : EvalApi := c08Api floatOps Evaluator.floatEvalOps

/-- rules that consult the evaluator -/
def usesEvaluator (name : String) : Bool :=
  ["remove_unused_while", "remove_unused_if_branch", "compute_expression", "convert_index_to_field",
   "remove_nil_declaration", "remove_unused_variable"].contains name

/-- the modelled default rules, by darklua rule name -/
def applyRule (name : String) (b : Block) : Option Block :=
  match name with
  | "remove_empty_do" => some (Rules.EmptyDo.apply b)
  | "remove_unused_while" => some (Rules.UnusedWhile.apply driverApi b)
  | "remove_unused_if_branch" => some (Rules.UnusedIfBranch.apply driverApi b)
  | "filter_after_early_return" => some (Rules.FilterEarlyReturn.apply b)
  | "remove_method_definition" => some (Rules.MethodDef.apply b)
  | "remove_function_call_parens" => some (Rules.CallParens.apply b)
  | "compute_expression" => some (Rules.ComputeExpression.apply driverApi b)
  | "convert_index_to_field" => some (Rules.ConvertIndexToField.apply driverApi b)
  | "remove_nil_declaration" => some (Rules.NilDeclaration.apply driverApi b)
  | "remove_unused_variable" => some (Rules.UnusedVariable.apply driverApi b)
  | "remove_spaces" => some (Rules.Trivia.removeSpaces b)
  | "remove_comments" => some (Rules.Trivia.removeComments b)
  | _ => none

def modelled : List String :=
  ["remove_empty_do", "remove_unused_while", "remove_unused_if_branch", "filter_after_early_return",
   "remove_method_definition", "remove_function_call_parens", "remove_spaces", "remove_comments", "compute_expression",
   "convert_index_to_field", "remove_nil_declaration", "remove_unused_variable"]

/-- C08's proved region `H8` on every expression node of the block (F1/F2 numeric equality by
epsilon, F3 number formatting in `..`, F4 opaque interpolated segments, reference equality of
fresh tables across effects); `none` = inside -/
def h8Region (b : Block) : Option String :=
  let h : Expr → Option String → Expr × Option String := fun e s =>
    (e, match s with
      | some w => some w
      | none => if C08.h8 Evaluator.floatEvalOps e then none else some "H8 of the evaluator (C08: reference equality of fresh tables across effects)")
  (Visitor.runDefault ({ expr := h, pref := h, target := h, node := h } : Processor (Option String)) b none).2

/-- the hypothesis `H` of the rule's theorem on this block: `in`, or `out <why>` -/
def region (name : String) (b : Block) : String :=
  if usesEvaluator name then
    match h8Region b with
    | some why => "out " ++ why
    | none =>
      if name == "compute_expression" && Rules.ComputeExpression.outsideH driverApi b then
        "out F5 and/or folded to a multi-valued operand"
      else if name == "remove_unused_variable" then
        match Rules.UnusedVariable.outsideH driverApi b with
        | some why => "out " ++ why
        | none => "in"
      else "in"
  else "in"

def handle (op : String) (args : List String) : String :=
  match op, Sexp.parseArgs args with
  | "rule", some [name, block] =>
    match nameOfSexp? name, Block.ofSexp? block with
    | some n, some b =>
      match applyRule n b with
      | some b' => b'.toSexp.toString
      | none => "unknown-rule"
    | _, _ => "bad-request"
  | "region", some [name, block] =>
    match nameOfSexp? name, Block.ofSexp? block with
    | some n, some b => region n b
    | _, _ => "bad-request"
  | "ndguard", some [block] =>
    -- hypotheses `H` of `rule_refines_remove_nil_declaration_partial` (atoms) / `…_partial2` (arbitrary values)
    match Block.ofSexp? block with
    | some b =>
      let out := (Rules.NilDeclaration.apply driverApi b).toSexp.toString
      if (Rules.NilDeclaration.Guarded.applyG driverApi b).toSexp.toString == out then "in (atomic values)"
      else if (Rules.NilDeclaration.General.applyG driverApi b).toSexp.toString == out then "in (arbitrary values, no surplus value)"
      else "out"
    | none => "bad-request"
  | "uvguard", some [block] =>
    -- hypotheses `H` of `rule_refines_remove_unused_variable_partial` (stage 3) / `…_partialV` (stage 4)
    match Block.ofSexp? block with
    | some b =>
      let out := (Rules.UnusedVariable.apply driverApi b).toSexp.toString
      if (Rules.UnusedVariable.Guarded.applyG driverApi b).toSexp.toString == out then "in (stage 3: cells)"
      else if (Rules.UnusedVariable.GuardedV.applyG driverApi b).toSexp.toString == out then "in (stage 4: cells, tables, closures)"
      else if (Rules.UnusedVariable.GuardedV2.applyG driverApi b).toSexp.toString == out then "in (stage 4 + unused call-valued declarations)"
      else if (Rules.UnusedVariable.GuardedV3.applyG driverApi b).toSexp.toString == out then "in (stage 4 + unused effectful single values)"
      else if (Rules.UnusedVariable.GuardedV4.applyG driverApi b).toSexp.toString == out then "in (stage 4 + unused declarations with several call / allocation-only values)"
      else if (Rules.UnusedVariable.GuardedV5.applyG driverApi b).toSexp.toString == out then "in (stage 4 + unused declarations with several values, kept non-call values included)"
      else "out"
    | none => "bad-request"
  | "c08guard", some [name, block] =>
    -- hypotheses `H` of the `…_upto_C08` (exact: h8 ∧ tot) / `…_upto_alloc_C08` (allocating conditions) theorems
    match nameOfSexp? name, Block.ofSexp? block with
    | some n, some b =>
      let gE := Rules.gApi floatOps Evaluator.floatEvalOps
      let gA := Rules.gApiA floatOps Evaluator.floatEvalOps
      let same : Block → Block → Bool := fun x y => x.toSexp.toString == y.toSexp.toString
      if n == "remove_unused_while" then
        let out := Rules.UnusedWhile.apply driverApi b
        if same (Rules.UnusedWhile.apply gE b) out then "in (total conditions)"
        else if same (Rules.UnusedWhile.apply gA b) out then "in (total conditions up to allocation)"
        else "out"
      else if n == "remove_unused_if_branch" then
        let out := Rules.UnusedIfBranch.apply driverApi b
        if same (Rules.UnusedIfBranch.apply gE b) out then "in (total conditions)"
        else if same (Rules.UnusedIfBranch.applyGA gA gE b) out then "in (total conditions up to allocation)"
        else "out"
      else if n == "convert_index_to_field" then
        if same (Rules.ConvertIndexToField.apply gE b) (Rules.ConvertIndexToField.apply driverApi b) then "in (total keys)"
        else "out"
      else if n == "compute_expression" then
        if same (Rules.ComputeExpression.Whole.applyG gE b) (Rules.ComputeExpression.apply driverApi b) then
          "in (total operands, no number fold, no F5 rewrite)"
        else "out"
      else "not-applicable"
    | _, _ => "bad-request"
  | "rules", _ => " ".intercalate modelled
  | _, _ => "unknown-op " ++ op

end DarkluaModel.C01
