import DarkluaModel.Util.Sexp
/-! Line-protocol handlers for property C01 (stub: nothing modelled yet). -/
namespace DarkluaModel.C01

def handle (op : String) (_args : List String) : String :=
  "unknown-op " ++ op

end DarkluaModel.C01
