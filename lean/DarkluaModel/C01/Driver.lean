import DarkluaModel.Shared.AstSexp
import DarkluaModel.Rules.EmptyDo
/-! Line-protocol handlers for property C01: `c01.rule <rule-name-hex> <block>` → block -/
namespace DarkluaModel.C01

/-- the modelled default rules, by darklua rule name -/
def applyRule (name : String) (b : Block) : Option Block :=
  match name with
  | "remove_empty_do" => some (Rules.EmptyDo.apply b)
  | _ => none

def handle (op : String) (args : List String) : String :=
  match op, Sexp.parseArgs args with
  | "rule", some [name, block] =>
    match nameOfSexp? name, Block.ofSexp? block with
    | some n, some b =>
      match applyRule n b with
      | some b' => b'.toSexp.toString
      | none => "unknown-rule"
    | _, _ => "bad-request"
  | "rules", _ => "remove_empty_do"
  | _, _ => "unknown-op " ++ op

end DarkluaModel.C01
