import DarkluaModel.Shared.AstSexp
import DarkluaModel.Shared.FloatOps
import DarkluaModel.Rules.EmptyDo
import DarkluaModel.Rules.EvalLite
import DarkluaModel.Rules.UnusedWhile
import DarkluaModel.Rules.UnusedIfBranch
import DarkluaModel.Rules.FilterEarlyReturn
import DarkluaModel.Rules.MethodDef
import DarkluaModel.Rules.CallParens
import DarkluaModel.Rules.Trivia
import DarkluaModel.Rules.ComputeExpression
import DarkluaModel.Rules.ConvertIndexToField
import DarkluaModel.Rules.NilDeclaration
import DarkluaModel.Rules.UnusedVariable
/-! Line-protocol handlers for property C01:
* `c01.rule <rule-name-hex> <block>` → transformed block, or `evallite-uncovered` when the rule
  needs the static evaluator on an expression `Rules/EvalLite.lean` does not cover;
* `c01.rules` → the modelled rule names. -/
namespace DarkluaModel.C01
open DarkluaModel.Rules

/-- the evaluator instance the driver runs the rule models with -/
def driverApi : EvalApi := EvalLite.api floatOps

/-- rules that consult the evaluator -/
def usesEvaluator (name : String) : Bool :=
  ["remove_unused_while", "remove_unused_if_branch", "compute_expression", "convert_index_to_field",
   "remove_nil_declaration", "remove_unused_variable"].contains name

/-- the modelled default rules, by darklua rule name -/
def applyRule (name : String) (b : Block) : Option Block :=
  match name with
  | "remove_empty_do" => some (Rules.EmptyDo.apply b)
  | "remove_unused_while" => some (Rules.UnusedWhile.apply driverApi b)
  | "remove_unused_if_branch" => some (Rules.UnusedIfBranch.apply driverApi b)
  | "filter_after_early_return" => some (Rules.FilterEarlyReturn.apply b)
  | "remove_method_definition" => some (Rules.MethodDef.apply b)
  | "remove_function_call_parens" => some (Rules.CallParens.apply b)
  | "compute_expression" => some (Rules.ComputeExpression.apply driverApi b)
  | "convert_index_to_field" => some (Rules.ConvertIndexToField.apply driverApi b)
  | "remove_nil_declaration" => some (Rules.NilDeclaration.apply driverApi b)
  | "remove_unused_variable" => some (Rules.UnusedVariable.apply driverApi b)
  | "remove_spaces" => some (Rules.Trivia.removeSpaces b)
  | "remove_comments" => some (Rules.Trivia.removeComments b)
  | _ => none

def modelled : List String :=
  ["remove_empty_do", "remove_unused_while", "remove_unused_if_branch", "filter_after_early_return",
   "remove_method_definition", "remove_function_call_parens", "remove_spaces", "remove_comments", "compute_expression",
   "convert_index_to_field", "remove_nil_declaration", "remove_unused_variable"]

/-- the hypothesis `H` of the rule's theorem on this block: `in`, or `out <why>` -/
def region (name : String) (b : Block) : String :=
  if usesEvaluator name then
    match EvalLite.evalRegion floatOps b with
    | some why => "out " ++ why
    | none =>
      if name == "compute_expression" && Rules.ComputeExpression.outsideH driverApi b then
        "out F5 and/or folded to a multi-valued operand"
      else if name == "convert_index_to_field" && Rules.ConvertIndexToField.outsideH driverApi b then
        "out F6 converted key has side effects"
      else if name == "remove_nil_declaration" && Rules.NilDeclaration.outsideH driverApi b then
        "out F24 reordered declaration repeats a name"
      else if name == "remove_unused_variable" then
        match Rules.UnusedVariable.outsideH driverApi b with
        | some why => "out " ++ why
        | none => "in"
      else "in"
  else "in"

def handle (op : String) (args : List String) : String :=
  match op, Sexp.parseArgs args with
  | "rule", some [name, block] =>
    match nameOfSexp? name, Block.ofSexp? block with
    | some n, some b =>
      if usesEvaluator n && !EvalLite.covers floatOps b then "evallite-uncovered"
      else
        match applyRule n b with
        | some b' => b'.toSexp.toString
        | none => "unknown-rule"
    | _, _ => "bad-request"
  | "region", some [name, block] =>
    match nameOfSexp? name, Block.ofSexp? block with
    | some n, some b => region n b
    | _, _ => "bad-request"
  | "rules", _ => " ".intercalate modelled
  | _, _ => "unknown-op " ++ op

end DarkluaModel.C01
