import DarkluaModel.Rules.EmptyDo
import DarkluaModel.Shared.VisitorSound
import DarkluaModel.Rules.UnusedWhile
import DarkluaModel.Rules.FilterEarlyReturn
import DarkluaModel.Rules.MethodDef
import DarkluaModel.Rules.CallParens
import DarkluaModel.Rules.Trivia
import DarkluaModel.Rules.ConvertIndexToField
import DarkluaModel.Rules.ComputeExpression
import DarkluaModel.Rules.NilDeclaration
import DarkluaModel.Rules.EvalLitSound
import DarkluaModel.Rules.Witness
import DarkluaModel.Rules.WholeRule
import DarkluaModel.Rules.UnusedIfBranchSound
import DarkluaModel.Rules.UnusedIfExprSound
import DarkluaModel.Rules.UnusedIfBranchWhole
import DarkluaModel.Rules.ComputeExpressionSound
import DarkluaModel.Rules.EvalC08Sound
import DarkluaModel.Rules.AllocSteps
import DarkluaModel.Rules.UnusedVariableHeap
import DarkluaModel.Rules.UnusedVariableHeapV
import DarkluaModel.Rules.UnusedVariableHeapV2
import DarkluaModel.Rules.UnusedVariableHeapV3
import DarkluaModel.Rules.UnusedVariableHeapV4
import DarkluaModel.Rules.UnusedVariableHeapV5
import DarkluaModel.Shared.VisitorSound.HeapV.VOracle
import DarkluaModel.Rules.NilDeclarationHeap
import DarkluaModel.Rules.NilDeclarationHeap2
import DarkluaModel.Rules.ConvertIndexWhole
import DarkluaModel.Rules.ComputeExpressionWhole
import DarkluaModel.Rules.WholeRuleC08
import DarkluaModel.Rules.AllocCondU
import DarkluaModel.Rules.EvaluatorFloat
/-!
# C01 — default rules preserve program behaviour: property theorems

Reference semantics: `Shared/Sem.lean` (`Sem.execB`, all number systems `N`, all external-call
oracles `ρ`, all call handlers, all loop/call-back bounds `k`, all environments and states).
Rule models: `Rules/*.lean`, executed by the driver (`c01.rule`) and compared with the real
`Rule::process` on every run. Rules that consult the static evaluator are modelled against
the interface `Rules.EvalApi`; their theorems assume `Rules.EvalSound N api good` (property
C08's theorems, relative to the number system `N`) and hold for every such evaluator —
`Rules.litApi_sound` is a proved instance (for every `N`), `Rules.EvalC08` the instance built from
the C08 model.

Until the generic visitor lifting theorem (`Shared/VisitorSound.lean`) lands, the theorems are
the LOCAL ones: each hook rewrites a node into a node with the same denotation.
`Refines a b`: every error-free run of `a` is a run of `b` with the same outcome and state.
-/
namespace DarkluaModel.C01
open Sem Rules

/-- every error-free run of `a` (any level, oracle, environment, state) is a run of `b` with the
same control outcome, final state and trace -/
def Refines (a b : Block) : Prop :=
  ∀ (N : NumOps) (call : CallFn N) (ρ : ExtOracle N) (k : Nat) (env : Env N) (σ σ' : State N) (c : Ctl N),
    execB call ρ k env a σ = .ok c σ' → execB call ρ k env b σ = .ok c σ'

/-- the same for one number system `N` (the evaluator contracts are relative to `N`) -/
def RefinesAt (N : NumOps) (a b : Block) : Prop :=
  ∀ (call : CallFn N) (ρ : ExtOracle N) (k : Nat) (env : Env N) (σ σ' : State N) (c : Ctl N),
    execB call ρ k env a σ = .ok c σ' → execB call ρ k env b σ = .ok c σ'

theorem refines_refl (b : Block) : Refines b b := fun _ _ _ _ _ _ _ _ h => h

theorem refines_trans {a b c : Block} (h1 : Refines a b) (h2 : Refines b c) : Refines a c :=
  fun N call ρ k env σ σ' ctl h => h2 N call ρ k env σ σ' ctl (h1 N call ρ k env σ σ' ctl h)

/-- "any selection of the rules in any order": if every rule of a list refines on every block,
so does their composition (any subset, any order, repetitions allowed) -/
theorem pipeline_refines_local (rules : List (Block → Block)) (h : ∀ r ∈ rules, ∀ b, Refines b (r b)) (b : Block) :
    Refines b (rules.foldl (fun acc r => r acc) b) := by
  induction rules generalizing b with
  | nil => exact refines_refl b
  | cons r rest ih =>
    simp only [List.foldl]
    exact refines_trans (h r (by simp) b) (ih (fun r' hr' => h r' (by simp [hr'])) (r b))

example : Refines (.mk [] none) ([id, id].foldl (fun acc r => r acc) (.mk [] none)) :=
  pipeline_refines_local [id, id] (fun r hr b => by simp at hr; subst hr; exact refines_refl b) _

/-! ### remove_empty_do -/

/-- `remove_empty_do`: the rewrite performed at every block (dropping `do end` statements)
yields a block with exactly the same denotation — same control outcome, same state, same
trace — in every context, whatever the processor's `mutated` flag. -/
theorem remove_empty_do_hook_exact {N : NumOps} (call : CallFn N) (ρ : ExtOracle N) (k : Nat)
    (env : Env N) (b : Block) (mutated : Bool) (σ : State N) :
    execB call ρ k env (Rules.EmptyDo.processBlock b mutated).1 σ = execB call ρ k env b σ :=
  Rules.EmptyDo.processBlock_sound call ρ k env b mutated σ

-- non-vacuity: the hook really removes something on a concrete block
example :
    (Rules.EmptyDo.processBlock
      (.mk [.doBlock (.mk [] none), .callStmt (.call (.var "f") none .tuple [])] none) false).1
      = .mk [.callStmt (.call (.var "f") none .tuple [])] none := by
  simp [Rules.EmptyDo.processBlock, Rules.EmptyDo.filterStmts, Rules.EmptyDo.blockIsEmpty]


/-- **Whole rule, every program**: running `remove_empty_do` (all its visitor passes) on ANY block gives
a program with the same observable outcome — returned values, raised error, external-call trace — at
every call level, for every number system, external-call oracle and set of external functions.
(Lifted from the hook lemma by the generic visitor theorem `Shared/VisitorSound.lean`.) -/
theorem rule_refines_remove_empty_do (b : Block) {N : NumOps} (ρ : ExtOracle N) (n : Nat)
    (externs : List String) :
    runProgram ρ n externs (Rules.EmptyDo.apply b) = runProgram ρ n externs b :=
  Rules.EmptyDo.apply_refines b ρ n externs

/-- `pipeline_refines`: any list of block transformations that each preserve the observable outcome
of every program (any selection of rules, any order, repetitions allowed) preserves it as a whole. -/
theorem pipeline_refines (rules : List (Block → Block))
    (h : ∀ r ∈ rules, ∀ (b : Block) {N : NumOps} (ρ : ExtOracle N) (n : Nat) (externs : List String),
      runProgram ρ n externs (r b) = runProgram ρ n externs b)
    (b : Block) {N : NumOps} (ρ : ExtOracle N) (n : Nat) (externs : List String) :
    runProgram ρ n externs (rules.foldl (fun acc r => r acc) b) = runProgram ρ n externs b := by
  induction rules generalizing b with
  | nil => rfl
  | cons r rest ih =>
    simp only [List.foldl_cons]
    rw [ih (fun r' hr' => h r' (List.mem_cons_of_mem _ hr')) (r b)]
    exact h r (List.mem_cons_self ..) b ρ n externs

-- non-vacuity: the pipeline [remove_empty_do, remove_empty_do] satisfies the hypothesis
example (b : Block) {N : NumOps} (ρ : ExtOracle N) (n : Nat) (externs : List String) :
    runProgram ρ n externs ([Rules.EmptyDo.apply, Rules.EmptyDo.apply].foldl (fun acc r => r acc) b)
      = runProgram ρ n externs b :=
  pipeline_refines _ (by
    intro r hr b N ρ n externs
    simp at hr
    subst hr
    exact rule_refines_remove_empty_do b ρ n externs) b ρ n externs

/-! ### filter_after_early_return -/

/-- `filter_after_early_return`: truncating a block after the first `do` that certainly
returns, and dropping its last statement, gives a block with exactly the same denotation. -/
theorem filter_after_early_return_hook_exact {N : NumOps} (call : CallFn N) (ρ : ExtOracle N) (k : Nat)
    (env : Env N) (b : Block) (σ : State N) :
    execB call ρ k env (Rules.FilterEarlyReturn.processBlock b ()).1 σ = execB call ρ k env b σ :=
  Rules.FilterEarlyReturn.processBlock_sound call ρ k env b σ

example :
    (Rules.FilterEarlyReturn.processBlock
      (.mk [.doBlock (.mk [.doBlock (.mk [] (some (.ret [])))] none), .callStmt (.call (.var "f") none .tuple [])]
        (some (.ret [.nil]))) ()).1
      = .mk [.doBlock (.mk [.doBlock (.mk [] (some (.ret [])))] none)] none := by
  simp [Rules.FilterEarlyReturn.processBlock, Rules.FilterEarlyReturn.keepCount, Rules.FilterEarlyReturn.stopsStmt,
    Rules.FilterEarlyReturn.stops, Rules.FilterEarlyReturn.stopsAny]

/-- **Whole rule, every program**: `filter_after_early_return` preserves the observable outcome
(returned / raised values, external-call trace) at every call level, oracle, number system. -/
theorem rule_refines_filter_after_early_return (b : Block) {N : NumOps} (ρ : ExtOracle N) (n : Nat)
    (externs : List String) :
    runProgram ρ n externs (Rules.FilterEarlyReturn.apply b) = runProgram ρ n externs b :=
  Rules.FilterEarlyReturn.apply_refines b ρ n externs

-- non-vacuity: a function whose body has dead code after `do return end` is rewritten
example : Rules.FilterEarlyReturn.apply
    (.mk [.localFn .loc "g" (.mk [] false none none [] []
      (.mk [.doBlock (.mk [] (some (.ret []))), .callStmt (.call (.var "emit") none .tuple [])] none))] none)
    = .mk [.localFn .loc "g" (.mk [] false none none [] [] (.mk [.doBlock (.mk [] (some (.ret [])))] none))] none := rfl

/-! ### remove_method_definition -/

/-- `remove_method_definition`: `function a.b:m(p…) … end` and `function a.b.m(self, p…) … end`
have exactly the same denotation. -/
theorem remove_method_definition_hook_exact {N : NumOps} (call : CallFn N) (ρ : ExtOracle N) (k : Nat)
    (env : Env N) (s : Stmt) (σ : State N) :
    execS call ρ k env (Rules.MethodDef.removeMethod s) σ = execS call ρ k env s σ :=
  Rules.MethodDef.removeMethod_sound call ρ k env s σ

/-- **Whole rule, every program**: `remove_method_definition` preserves the observable outcome. -/
theorem rule_refines_remove_method_definition (b : Block) {N : NumOps} (ρ : ExtOracle N) (n : Nat)
    (externs : List String) :
    runProgram ρ n externs (Rules.MethodDef.apply b) = runProgram ρ n externs b :=
  Rules.MethodDef.apply_refines b ρ n externs

example :
    Rules.MethodDef.removeMethod (.function ["a", "b"] (some "m") (.mk [.mk "p" none] false none none [] [] (.mk [] none)))
      = .function ["a", "b", "m"] none (.mk [.mk "self" none, .mk "p" none] false none none [] [] (.mk [] none)) := rfl

/-! ### remove_function_call_parens, remove_spaces, remove_comments -/

/-- `remove_function_call_parens`: `f("s")` ↦ `f"s"`, `f({…})` ↦ `f{…}` — exactly the same denotation. -/
theorem remove_function_call_parens_hook_exact {N : NumOps} (call : CallFn N) (ρ : ExtOracle N) (k : Nat)
    (env : Env N) (e : Expr) (σ : State N) :
    evalE call ρ k env (Rules.CallParens.processCall e) σ = evalE call ρ k env e σ :=
  Rules.CallParens.processCall_sound call ρ k env e σ

example : Rules.CallParens.processCall (.call (.var "f") none .tuple [.str [97]]) = .call (.var "f") none .str [.str [97]] := rfl

/-- **Whole rule, every program**: `remove_function_call_parens` preserves the observable outcome. -/
theorem rule_refines_remove_function_call_parens (b : Block) {N : NumOps} (ρ : ExtOracle N) (n : Nat)
    (externs : List String) :
    runProgram ρ n externs (Rules.CallParens.apply b) = runProgram ρ n externs b :=
  Rules.CallParens.apply_refines b ρ n externs

example : Rules.CallParens.apply (.mk [.callStmt (.call (.var "f") none .tuple [.table []])] none)
    = .mk [.callStmt (.call (.var "f") none .tbl [.table []])] none := rfl

/-- `remove_spaces` and `remove_comments` are the identity on the semantic (token-free) tree
(the correspondence checks that the real rules are, on every generated program). -/
theorem trivia_rules_identity (b : Block) :
    Rules.Trivia.removeSpaces b = b ∧ Rules.Trivia.removeComments b = b := ⟨rfl, rfl⟩

example : Refines (.mk [] none) (Rules.Trivia.removeSpaces (.mk [] none)) := refines_refl _

/-! ### remove_unused_while (needs the evaluator: `EvalSound`) -/

/-- `remove_unused_while`: for every evaluator that is sound on `good`, if the conditions of the
removed loops are in `good` and allocate nothing, every error-free run of a block is a run of
the block without those loops (same outcome, same state, same trace). -/
theorem remove_unused_while_hook_refines {N : NumOps} {api : EvalApi} {good : Expr → Prop} (hs : EvalSound N api good)
    (stmts : List Stmt) (last : Option Last) (hg : Rules.UnusedWhile.removedGood api good stmts) :
    RefinesAt N (.mk stmts last) (Rules.UnusedWhile.processBlock api (.mk stmts last) ()).1 :=
  fun call ρ k env σ σ' c h => Rules.UnusedWhile.processBlock_refines hs call ρ k env stmts last hg σ σ' c h

-- non-vacuity: a proved-sound evaluator on which the rule fires, with the hypotheses met
example :
    (∀ N, EvalSound N litApi notInst) ∧
    (Rules.UnusedWhile.processBlock litApi
      (.mk [.while_ .false (.mk [.callStmt (.call (.var "f") none .tuple [])] none),
            .callStmt (.call (.var "g") none .tuple [])] none) ()).1
      = .mk [.callStmt (.call (.var "g") none .tuple [])] none ∧
    Rules.UnusedWhile.removedGood litApi notInst
      [.while_ .false (.mk [.callStmt (.call (.var "f") none .tuple [])] none),
       .callStmt (.call (.var "g") none .tuple [])] :=
  ⟨litApi_sound,
   by simp [Rules.UnusedWhile.processBlock, Rules.UnusedWhile.keep, litApi, EvalApi.isTruthy, LuaKind.isTruthy],
   by simp [Rules.UnusedWhile.removedGood, notInst, noAlloc]⟩

/-- **Whole rule, every program** (timeout-relaxed: a removed loop would have exhausted a zero budget):
for every evaluator meeting the contract `EvalTotal`, `remove_unused_while` preserves the observable
outcome of every program unless the original exhausts its budget. (`EvalTotal` demands a state-exact
evaluation of "pure" conditions: the real evaluator meets it on non-allocating conditions only.) -/
theorem rule_refines_remove_unused_while_upto {api : EvalApi} (ht : ∀ N, EvalTotal N api) (b : Block) {N : NumOps}
    (ρ : ExtOracle N) (n : Nat) (externs : List String) :
    runProgram ρ n externs b = .timeout ∨
      runProgram ρ n externs (Rules.UnusedWhile.apply api b) = runProgram ρ n externs b :=
  Rules.UnusedWhile.apply_upto ht b ρ n externs

example : (∀ N, EvalTotal N litApi) ∧
    Rules.UnusedWhile.apply litApi (.mk [.localFn .loc "g" (.mk [] false none none [] []
      (.mk [.while_ .nil (.mk [] none), .callStmt (.call (.var "emit") none .tuple [])] none))] none)
    = .mk [.localFn .loc "g" (.mk [] false none none [] []
      (.mk [.callStmt (.call (.var "emit") none .tuple [])] none))] none := ⟨litApi_total, rfl⟩

/-! ### remove_unused_if_branch (needs the evaluator: `EvalSound`) -/

/-- `remove_unused_if_branch`, statements: for every evaluator sound on `good`, if the conditions it
decides are in `good` and the dropped ones allocate nothing, every error-free run of a block is a run of
the block with its `if` statements simplified (removed / replaced by a `do` block / fewer branches). -/
theorem remove_unused_if_branch_hook_refines {N : NumOps} {api : EvalApi} {good : Expr → Prop}
    (hs : EvalSound N api good)
    (stmts : List Stmt) (last : Option Last) (hg : Rules.UnusedIfBranch.Sound.stmtsGood api good stmts) :
    RefinesAt N (.mk stmts last) (Rules.UnusedIfBranch.processBlock api (.mk stmts last) ()).1 :=
  fun call ρ k env σ σ' c h =>
    Rules.UnusedIfBranch.Sound.processBlock_refines hs call ρ k env stmts last hg σ σ' c h

example :
    (Rules.UnusedIfBranch.processBlock litApi
      (.mk [.ifs [(.false, .mk [.callStmt (.call (.var "f") none .tuple [])] none), (.var "x", .mk [] none)]
              (some (.mk [.callStmt (.call (.var "g") none .tuple [])] none))] none) ()).1
      = .mk [.ifs [(.var "x", .mk [] none)] (some (.mk [.callStmt (.call (.var "g") none .tuple [])] none))] none ∧
    Rules.UnusedIfBranch.Sound.stmtsGood litApi notInst
      [.ifs [(.false, .mk [.callStmt (.call (.var "f") none .tuple [])] none), (.var "x", .mk [] none)]
              (some (.mk [.callStmt (.call (.var "g") none .tuple [])] none))] :=
  ⟨rfl, by simp [Rules.UnusedIfBranch.Sound.stmtsGood, Rules.UnusedIfBranch.Sound.condsGood, notInst, noAlloc]⟩

/-- `remove_unused_if_branch`, if-expressions: `simplify_if` refines in every context. -/
theorem remove_unused_if_branch_expr_refines {N : NumOps} {api : EvalApi} {good : Expr → Prop} (hs : EvalSound N api good)
    (call : CallFn N) (ρ : ExtOracle N) (k : Nat) (env : Env N)
    (c t : Expr) (elifs : List (Expr × Expr)) (e : Expr)
    (hc : Rules.UnusedIfBranch.ExprSound.condOk api good c) (ht : good t)
    (hel : Rules.UnusedIfBranch.ExprSound.elifsOk api good elifs) (he : good e)
    (σ σ' : State N) (vs : List (Val N)) (h : evalE call ρ k env (.ifx c t elifs e) σ = .ok vs σ') :
    evalE call ρ k env (Rules.UnusedIfBranch.processExpr api (.ifx c t elifs e)) σ = .ok vs σ' :=
  Rules.UnusedIfBranch.ExprSound.simplifyIf_refines hs call ρ k env elifs e he c t hc ht hel σ σ' vs h

example : Rules.UnusedIfBranch.processExpr litApi (.ifx .true (.call (.var "f") none .tuple []) [] .nil)
    = .paren (.call (.var "f") none .tuple []) := rfl

/-- **Whole rule, every program** (timeout-relaxed): for every evaluator meeting `EvalTotal`,
`remove_unused_if_branch` — statement and if-expression rewrites, the whole visitor pass — preserves the
observable outcome of every program unless the original exhausts its budget. -/
theorem rule_refines_remove_unused_if_branch_upto {api : EvalApi} (ht : ∀ N, EvalTotal N api) (b : Block) {N : NumOps}
    (ρ : ExtOracle N) (n : Nat) (externs : List String) :
    runProgram ρ n externs b = .timeout ∨
      runProgram ρ n externs (Rules.UnusedIfBranch.apply api b) = runProgram ρ n externs b :=
  Rules.UnusedIfBranch.Whole.apply_upto ht b ρ n externs

example : (∀ N, EvalTotal N litApi) ∧
    Rules.UnusedIfBranch.apply litApi (.mk [.localFn .loc "g" (.mk [] false none none [] []
      (.mk [.ifs [(.nil, .mk [.callStmt (.call (.var "f") none .tuple [])] none)]
          (some (.mk [.callStmt (.call (.var "emit") none .tuple [])] none))] none))] none)
    = .mk [.localFn .loc "g" (.mk [] false none none [] []
      (.mk [.doBlock (.mk [.callStmt (.call (.var "emit") none .tuple [])] none)] none))] none := ⟨litApi_total, rfl⟩

/-- the static analysis `can_return_multiple_values` is sound for the reference semantics -/
theorem can_return_multiple_values_sound {N : NumOps} (call : CallFn N) (ρ : ExtOracle N) (k : Nat) (env : Env N)
    (e : Expr) (hm : canReturnMultiple e = false) (hi : notInst e) (σ σ' : State N) (vs : List (Val N))
    (h : evalE call ρ k env e σ = .ok vs σ') : vs = [first vs] :=
  canReturnMultiple_sound call ρ k env e hm hi σ σ' vs h

example : canReturnMultiple (.bin .and (.call (.var "f") none .tuple []) .vararg) = false ∧
    notInst (.bin .and (.call (.var "f") none .tuple []) .vararg) := ⟨rfl, trivial⟩

/-! ### the evaluator contract for the C08 model -/

/-- The evaluator the driver runs (`c08Api`: property C08's model of `Evaluator`) meets the contract
`EvalSound` the rule lemmas above assume, on C08's proved region `H8` (findings F1–F4 excluded), for every
number system `N` and evaluator primitives `E` that agree (`C08.Agree`): `truthy`, `str`, `single` are
C08's theorems `truthy_sound`, `evaluate_sound_partial`, `single_sound`, and `pure` (a side-effect-free,
non-allocating evaluation leaves the state exactly untouched) is `pure_sound_noalloc`. So every
`EvalSound`-conditional theorem of this file holds for the evaluator model the driver executes. -/
theorem evaluator_contract_from_C08 {N : NumOps} {E : Evaluator.EvalOps N} (A : C08.Agree N E) :
    EvalSound N (c08Api N E) (fun e => C08.h8 E e = true) :=
  c08_sound A

-- non-vacuity of `Agree` and of the region: C08's toy instance agrees, and `not nil` is inside `H8` and decided
example : C08.Agree C08.toyN C08.toyE ∧ C08.h8 C08.toyE (.un .not .nil) = true ∧
    (c08Api C08.toyN C08.toyE).isTruthy (.un .not .nil) = some true :=
  ⟨C08.toy_agree, rfl, rfl⟩

/-- `remove_unused_while` with the evaluator model the driver executes: for agreeing `N`, `E`, when the removed
loops' conditions are inside `H8` and allocate nothing, the block hook refines. -/
theorem remove_unused_while_hook_refines_C08 {N : NumOps} {E : Evaluator.EvalOps N} (A : C08.Agree N E)
    (stmts : List Stmt) (last : Option Last)
    (hg : Rules.UnusedWhile.removedGood (c08Api N E) (fun e => C08.h8 E e = true) stmts) :
    RefinesAt N (.mk stmts last) (Rules.UnusedWhile.processBlock (c08Api N E) (.mk stmts last) ()).1 :=
  remove_unused_while_hook_refines (c08_sound A) stmts last hg

-- non-vacuity: with C08's toy instance, `while 1 > 2 do f() end; g()` loses its loop and meets the hypotheses
example :
    (Rules.UnusedWhile.processBlock (c08Api C08.toyN C08.toyE)
      (.mk [.while_ (.bin .gt (.num 1) (.num 2)) (.mk [.callStmt (.call (.var "f") none .tuple [])] none),
            .callStmt (.call (.var "g") none .tuple [])] none) ()).1
      = .mk [.callStmt (.call (.var "g") none .tuple [])] none ∧
    Rules.UnusedWhile.removedGood (c08Api C08.toyN C08.toyE) (fun e => C08.h8 C08.toyE e = true)
      [.while_ (.bin .gt (.num 1) (.num 2)) (.mk [.callStmt (.call (.var "f") none .tuple [])] none),
       .callStmt (.call (.var "g") none .tuple [])] := by
  refine ⟨rfl, ?_⟩
  simp only [Rules.UnusedWhile.removedGood, and_true]
  intro _
  exact ⟨by decide, by decide⟩

/-- `remove_unused_if_branch` (statements) with the evaluator model the driver executes. -/
theorem remove_unused_if_branch_hook_refines_C08 {N : NumOps} {E : Evaluator.EvalOps N} (A : C08.Agree N E)
    (stmts : List Stmt) (last : Option Last)
    (hg : Rules.UnusedIfBranch.Sound.stmtsGood (c08Api N E) (fun e => C08.h8 E e = true) stmts) :
    RefinesAt N (.mk stmts last) (Rules.UnusedIfBranch.processBlock (c08Api N E) (.mk stmts last) ()).1 :=
  remove_unused_if_branch_hook_refines (c08_sound A) stmts last hg

example : C08.Agree C08.toyN C08.toyE ∧
    Rules.UnusedIfBranch.Sound.stmtsGood (c08Api C08.toyN C08.toyE) (fun e => C08.h8 C08.toyE e = true)
      [.ifs [(.un .not .true, .mk [.callStmt (.call (.var "f") none .tuple [])] none)] none] := by
  refine ⟨C08.toy_agree, ?_⟩
  simp only [Rules.UnusedIfBranch.Sound.stmtsGood, Rules.UnusedIfBranch.Sound.condsGood, and_true]
  intro _
  exact ⟨by decide, fun _ => by decide⟩

/-! ### convert_index_to_field (finding F6 — FIXED: `convert_to_field` now requires `!has_side_effects(key)`) -/

-- regression: the former F6 witness `("")[{f()} and "a"]` (an effectful key that evaluates to the string "a")
-- is no longer converted by the (fixed) model
open Rules.Witness in
example : Rules.ConvertIndexToField.convertToField kApi K = none ∧
    Rules.ConvertIndexToField.convertIndex kApi (.index (.str []) K) = .index (.str []) K := ⟨by decide, rfl⟩

/-- `t[key]` ↦ `t.name` refines in expression position whenever the rule converts: the key is then side-effect
free (the fix of F6 — no longer a hypothesis); what remains in `KeyOk` is the evaluator's sound region and
"the key allocates nothing" (exact equality of STATES; the behaviour does not depend on it) … -/
theorem convert_index_to_field_partial {N : NumOps} {api : EvalApi} {good : Expr → Prop} (hs : EvalSound N api good)
    {p k : Expr} {name : String} (hk : Rules.ConvertIndexToField.Sound.KeyOk api good k name)
    (call : CallFn N) (ρ : ExtOracle N) (n : Nat) (env : Env N) (σ σ' : State N) (vs : List (Val N))
    (h : evalE call ρ n env (.index p k) σ = .ok vs σ') :
    evalE call ρ n env (Rules.ConvertIndexToField.convertIndex api (.index p k)) σ = .ok vs σ' :=
  Rules.ConvertIndexToField.Sound.index_refines hs hk call ρ n env σ σ' vs h

/-- … in assignment-target position … -/
theorem convert_index_to_field_target_partial {N : NumOps} {api : EvalApi} {good : Expr → Prop} (hs : EvalSound N api good)
    {p k : Expr} {name : String} (hk : Rules.ConvertIndexToField.Sound.KeyOk api good k name)
    (call : CallFn N) (ρ : ExtOracle N) (n : Nat) (env : Env N) (σ σ' : State N) (tg : Target N)
    (h : evalTarget call ρ n env (.index p k) σ = .ok tg σ') :
    evalTarget call ρ n env (Rules.ConvertIndexToField.convertIndex api (.index p k)) σ = .ok tg σ' :=
  Rules.ConvertIndexToField.Sound.target_refines hs hk call ρ n env σ σ' tg h

/-- … and for a `[key] = value` entry of a table constructor. -/
theorem convert_index_to_field_entry_partial {N : NumOps} {api : EvalApi} {good : Expr → Prop} (hs : EvalSound N api good)
    {k v : Expr} {name : String} (hk : Rules.ConvertIndexToField.Sound.KeyOk api good k name)
    (call : CallFn N) (ρ : ExtOracle N) (n : Nat) (env : Env N) (t i : Nat) (rest : List Entry)
    (σ σ' : State N) (h : evalEntries call ρ n env t i (.keyed k v :: rest) σ = .ok () σ') :
    evalEntries call ρ n env t i (Rules.ConvertIndexToField.convertEntry api (.keyed k v) :: rest) σ = .ok () σ' :=
  Rules.ConvertIndexToField.Sound.entry_refines hs hk call ρ n env t i rest σ σ' h

-- non-vacuity: `t["a"]` with the proved-sound `litApi` satisfies `H` and is converted
example : Rules.ConvertIndexToField.Sound.KeyOk litApi notInst (.str [97]) "a" ∧
    Rules.ConvertIndexToField.convertIndex litApi (.index (.var "t") (.str [97])) = .field (.var "t") "a" :=
  ⟨⟨by decide, trivial, rfl⟩, rfl⟩

/-- **Whole rule, every program** (timeout-relaxed): since the fix of F6, for every evaluator meeting the contracts
`EvalTotal` and `StrSound` (a decided string value is the value), `convert_index_to_field` — expression, prefix,
assignment-target and table-entry hooks, the whole visitor pass — preserves the observable outcome of every program
unless the original exhausts its budget (dropping the evaluation of a pure key can only remove a timeout). -/
theorem rule_refines_convert_index_to_field_upto {api : EvalApi} (ht : ∀ N, EvalTotal N api)
    (hstr : ∀ N, Rules.ConvertIndexToField.Whole.StrSound N api) (b : Block) {N : NumOps}
    (ρ : ExtOracle N) (n : Nat) (externs : List String) :
    runProgram ρ n externs b = .timeout ∨
      runProgram ρ n externs (Rules.ConvertIndexToField.apply api b) = runProgram ρ n externs b :=
  Rules.ConvertIndexToField.Whole.apply_upto ht hstr b ρ n externs

example : (∀ N, EvalTotal N litApi) ∧ (∀ N, Rules.ConvertIndexToField.Whole.StrSound N litApi) ∧
    Rules.ConvertIndexToField.apply litApi
      (.mk [.localFn .loc "g" (.mk [.mk "t" none] false none none [] []
        (.mk [.assign [.index (.var "t") (.str [97])] [.table [.keyed (.str [98]) (.num 1)]]]
          (some (.ret [.index (.var "t") (.str [97])]))))] none)
    = .mk [.localFn .loc "g" (.mk [.mk "t" none] false none none [] []
        (.mk [.assign [.field (.var "t") "a"] [.table [.named "b" (.num 1)]]]
          (some (.ret [.field (.var "t") "a"]))))] none :=
  ⟨litApi_total, Rules.ConvertIndexToField.Whole.litApi_strSound, by rfl⟩

/-! ### compute_expression (finding F5) -/

/-- the full claim: for every sound evaluator the rewritten expression refines the original -/
def compute_expression_full : Prop :=
  ∀ (api : EvalApi) (good : Expr → Prop), (∀ N, EvalSound N api good) → ∀ (e : Expr),
  ∀ (N : NumOps) (call : CallFn N) (ρ : ExtOracle N) (n : Nat) (env : Env N) (σ σ' : State N) (vs : List (Val N)),
    evalE call ρ n env e σ = .ok vs σ' →
    evalE call ρ n env (Rules.ComputeExpression.processExpr api e) σ = .ok vs σ'

open Rules.Witness in
/-- F5: it is false. Witness: `true and ...` (always one value) ↦ `...` (here two values). -/
theorem compute_expression_full_false : ¬ compute_expression_full := by
  intro hfull
  have hp : Rules.ComputeExpression.processExpr litApi (.bin .and .true .vararg) = .vararg := rfl
  have := hfull litApi notInst litApi_sound (.bin .and .true .vararg) unitOps call0 ρ0 1 ⟨[], [.nil, .nil]⟩ σ0 σ0 [.nil]
    (by simp [evalE, Res.bind, first, Val.truthy])
  rw [hp] at this
  simp [evalE] at this

/-- the operand-selection steps of the rule, under `H`: the left operand's truthiness is known,
it has no side effects and allocates nothing, and the selected operand is single-valued
(`multi = false`, i.e. neither a call nor `...` — F5 excluded): `a and b` ↦ `b` when `a` is truthy -/
theorem compute_expression_and_true_partial {N : NumOps} {api : EvalApi} {good : Expr → Prop} (hs : EvalSound N api good)
    (l r : Expr) (hg : good l) (ht : api.isTruthy l = some true) (hse : api.hasSideEffects l = false)
    (hna : noAlloc l = true)
    (call : CallFn N) (ρ : ExtOracle N) (n : Nat) (env : Env N) (σ σ' : State N) (vs : List (Val N))
    (hsingle : ∀ (σ1 σ2 : State N) (ws : List (Val N)), evalE call ρ n env r σ1 = .ok ws σ2 → ws = [first ws])
    (h : evalE call ρ n env (.bin .and l r) σ = .ok vs σ') :
    evalE call ρ n env r σ = .ok vs σ' := by
  simp only [evalE] at h
  cases hl : evalE call ρ n env l σ with
  | timeout => simp [hl, Res.bind] at h
  | err v σ1 => simp [hl, Res.bind] at h
  | ok ls σ1 =>
    have h1 := hs.truthy l true hg ht call ρ n env σ σ1 ls hl
    have h2 := hs.pure l hg hse hna call ρ n env σ σ1 ls hl
    subst h2
    simp only [hl, Res.bind, h1, if_true] at h
    cases hr : evalE call ρ n env r σ1 with
    | timeout => simp [hr] at h
    | err v σ2 => simp [hr] at h
    | ok ws σ2 =>
      simp [hr] at h
      rw [hsingle σ1 σ2 ws hr, h.1, h.2]

/-- `a or b` ↦ `b` when `a` is falsy -/
theorem compute_expression_or_false_partial {N : NumOps} {api : EvalApi} {good : Expr → Prop} (hs : EvalSound N api good)
    (l r : Expr) (hg : good l) (ht : api.isTruthy l = some false) (hse : api.hasSideEffects l = false)
    (hna : noAlloc l = true)
    (call : CallFn N) (ρ : ExtOracle N) (n : Nat) (env : Env N) (σ σ' : State N) (vs : List (Val N))
    (hsingle : ∀ (σ1 σ2 : State N) (ws : List (Val N)), evalE call ρ n env r σ1 = .ok ws σ2 → ws = [first ws])
    (h : evalE call ρ n env (.bin .or l r) σ = .ok vs σ') :
    evalE call ρ n env r σ = .ok vs σ' := by
  simp only [evalE] at h
  cases hl : evalE call ρ n env l σ with
  | timeout => simp [hl, Res.bind] at h
  | err v σ1 => simp [hl, Res.bind] at h
  | ok ls σ1 =>
    have h1 := hs.truthy l false hg ht call ρ n env σ σ1 ls hl
    have h2 := hs.pure l hg hse hna call ρ n env σ σ1 ls hl
    subst h2
    simp only [hl, Res.bind, h1] at h
    cases hr : evalE call ρ n env r σ1 with
    | timeout => simp [hr] at h
    | err v σ2 => simp [hr] at h
    | ok ws σ2 =>
      simp [hr] at h
      rw [hsingle σ1 σ2 ws hr, h.1, h.2]

/-- `a and b` ↦ `a` when `a` is falsy, `a or b` ↦ `a` when `a` is truthy (`a` single-valued) -/
theorem compute_expression_left_partial {N : NumOps} {api : EvalApi} {good : Expr → Prop} (hs : EvalSound N api good)
    (op : BinOp) (l r : Expr) (b : Bool) (hop : (op = .and ∧ b = false) ∨ (op = .or ∧ b = true))
    (hg : good l) (ht : api.isTruthy l = some b)
    (call : CallFn N) (ρ : ExtOracle N) (n : Nat) (env : Env N) (σ σ' : State N) (vs : List (Val N))
    (hsingle : ∀ (σ1 σ2 : State N) (ws : List (Val N)), evalE call ρ n env l σ1 = .ok ws σ2 → ws = [first ws])
    (h : evalE call ρ n env (.bin op l r) σ = .ok vs σ') :
    evalE call ρ n env l σ = .ok vs σ' := by
  rcases hop with ⟨rfl, rfl⟩ | ⟨rfl, rfl⟩
  all_goals
    simp only [evalE] at h
    cases hl : evalE call ρ n env l σ with
    | timeout => simp [hl, Res.bind] at h
    | err v σ1 => simp [hl, Res.bind] at h
    | ok ls σ1 =>
      have h1 := hs.truthy l _ hg ht call ρ n env σ σ1 ls hl
      simp [hl, Res.bind, h1] at h
      rw [hsingle σ σ1 ls hl, h.1, h.2]

/-- `compute_expression`, the whole hook: under `H` (`okSpine`: folded / dropped expressions are in the sound
region and allocate nothing; no `and`/`or` is replaced by a call or `...` — F5 excluded), for every evaluator
that is sound (`EvalSound`) and whose `to_expression` is sound (`FoldSound`), `process_expression` refines
in every context. -/
theorem compute_expression_partial {N : NumOps} {api : EvalApi} {good : Expr → Prop} (hs : EvalSound N api good)
    (hf : Rules.ComputeExpression.Sound.FoldSound N api good)
    (call : CallFn N) (ρ : ExtOracle N) (k : Nat) (env : Env N)
    (e : Expr) (hok : Rules.ComputeExpression.Sound.okSpine api good e) (σ σ' : State N) (vs : List (Val N))
    (h : evalE call ρ k env e σ = .ok vs σ') :
    evalE call ρ k env (Rules.ComputeExpression.processExpr api e) σ = .ok vs σ' :=
  Rules.ComputeExpression.Sound.processExpr_refines hs hf call ρ k env e hok σ σ' vs h

-- non-vacuity: `nil or (true and x)` ↦ `true and x`, `H` holds, evaluator instance proved sound
example : (∀ N, Rules.ComputeExpression.Sound.FoldSound N litApi notInst) ∧
    Rules.ComputeExpression.processExpr litApi (.bin .or .nil (.bin .and .true (.var "x")))
      = .bin .and .true (.var "x") ∧
    Rules.ComputeExpression.Sound.okSpine litApi notInst (.bin .or .nil (.bin .and .true (.var "x"))) :=
  ⟨Rules.ComputeExpression.Sound.litApi_foldSound, rfl, by
    simp [Rules.ComputeExpression.Sound.okSpine, litApi, EvalApi.isTruthy, LuaKind.isTruthy, notInst, noAlloc,
      Rules.ComputeExpression.processExpr, Rules.ComputeExpression.multi]⟩

-- non-vacuity: `true and x` ↦ `x` with the proved-sound `litApi`; `x` is single-valued
example : Rules.ComputeExpression.processExpr litApi (.bin .and .true (.var "x")) = .var "x" ∧
    litApi.isTruthy .true = some true ∧ litApi.hasSideEffects .true = false ∧ noAlloc .true = true ∧
    Rules.ComputeExpression.multi (.var "x") = false := ⟨rfl, rfl, rfl, rfl, rfl⟩

/-- **Whole rule on the F5-free fragment** (`_partial`, timeout-relaxed): for every evaluator meeting the contracts
`EvalTotal`, `FoldTotal` (`evaluate(e).to_expression()` of a side-effect-free `e` denotes what `e` denotes, unless
the budget runs out) and `AndOrCoherent` (no side effects in `a and b` ⇒ none in `a`: true of the real analysis by
its definition), and every program on which `compute_expression` agrees with its guarded version (`applyG`: the
rule without the rewrites of an `and`/`or` into a call or `...` — finding F5, which stays known), the rule — the
whole visitor pass, folding and recursive operand selection — preserves the observable outcome unless the original
exhausts its budget. -/
theorem rule_refines_compute_expression_upto_partial {api : EvalApi} (ht : ∀ N, EvalTotal N api)
    (hf : ∀ N, Rules.ComputeExpression.Whole.FoldTotal N api) (hco : Rules.ComputeExpression.Whole.AndOrCoherent api)
    (b : Block) (h : Rules.ComputeExpression.Whole.applyG api b = Rules.ComputeExpression.apply api b)
    {N : NumOps} (ρ : ExtOracle N) (n : Nat) (externs : List String) :
    runProgram ρ n externs b = .timeout ∨
      runProgram ρ n externs (Rules.ComputeExpression.apply api b) = runProgram ρ n externs b :=
  Rules.ComputeExpression.Whole.apply_upto_of_agree ht hf hco b h ρ n externs

/-- the guarded rule (no F5 rewrite) on EVERY program -/
theorem rule_refines_compute_expression_upto_guarded {api : EvalApi} (ht : ∀ N, EvalTotal N api)
    (hf : ∀ N, Rules.ComputeExpression.Whole.FoldTotal N api) (hco : Rules.ComputeExpression.Whole.AndOrCoherent api)
    (b : Block) {N : NumOps} (ρ : ExtOracle N) (n : Nat) (externs : List String) :
    runProgram ρ n externs b = .timeout ∨
      runProgram ρ n externs (Rules.ComputeExpression.Whole.applyG api b) = runProgram ρ n externs b :=
  Rules.ComputeExpression.Whole.applyG_upto ht hf hco b ρ n externs

/-- `local function g(x) return nil or (true and x), true and f() end` -/
def computeSample : Block :=
  .mk [.localFn .loc "g" (.mk [.mk "x" none] false none none [] []
    (.mk [] (some (.ret [.bin .or .nil (.bin .and .true (.var "x"))]))))] none

-- non-vacuity: the contracts hold for `litApi`, the sample is inside `H` and is rewritten (`nil or (true and x)` ↦ `true and x`)
example : (∀ N, EvalTotal N litApi) ∧ (∀ N, Rules.ComputeExpression.Whole.FoldTotal N litApi) ∧
    Rules.ComputeExpression.Whole.AndOrCoherent litApi ∧
    Rules.ComputeExpression.Whole.applyG litApi computeSample = Rules.ComputeExpression.apply litApi computeSample ∧
    Rules.ComputeExpression.apply litApi computeSample =
      .mk [.localFn .loc "g" (.mk [.mk "x" none] false none none [] []
        (.mk [] (some (.ret [.bin .and .true (.var "x")]))))] none := by
  have h1 : Rules.ComputeExpression.Whole.applyG litApi computeSample =
      .mk [.localFn .loc "g" (.mk [.mk "x" none] false none none [] []
        (.mk [] (some (.ret [.bin .and .true (.var "x")]))))] none := by rfl
  have h2 : Rules.ComputeExpression.apply litApi computeSample =
      .mk [.localFn .loc "g" (.mk [.mk "x" none] false none none [] []
        (.mk [] (some (.ret [.bin .and .true (.var "x")]))))] none := by rfl
  exact ⟨litApi_total, Rules.ComputeExpression.Whole.litApi_foldTotal, Rules.ComputeExpression.Whole.litApi_coherent,
    h1.trans h2.symm, h2⟩

/-! ### remove_nil_declaration (finding F24 — FIXED: declarations with a repeated name are left alone) -/

/-- the full claim: the rewritten declaration has exactly the denotation of the original -/
def remove_nil_declaration_full : Prop :=
  ∀ (api : EvalApi) (good : Expr → Prop), (∀ N, EvalSound N api good) → ∀ (s : Stmt),
  ∀ (N : NumOps) (call : CallFn N) (ρ : ExtOracle N) (n : Nat) (env : Env N) (σ σ' : State N) (c : Ctl N),
    execS call ρ n env s σ = .ok c σ' →
    execS call ρ n env (Rules.NilDeclaration.processLocal api s) σ = .ok c σ'

/-- observable part of a declaration's result: is the FIRST freshly allocated cell `nil`? -/
def firstCellNil : Res Rules.Witness.unitOps (Ctl Rules.Witness.unitOps) → Option Bool
  | .ok _ σ => match σ.getCell 0 with
    | .nil => some true
    | _ => some false
  | _ => none

open Rules.Witness in
/-- it is false — but since the fix of F24 only because the CELLS are numbered differently:
`local a, b = nil, 1` ↦ `local b, a = 1` allocates the cell of `b` before the cell of `a`
(the whole-rule statement up to cell renumbering is `rule_refines_remove_nil_declaration`). -/
theorem remove_nil_declaration_full_false : ¬ remove_nil_declaration_full := by
  intro hfull
  let s : Stmt := .localAssign .loc [.mk "a" none, .mk "b" none] [.nil, .num 0]
  have hp : Rules.NilDeclaration.processLocal litApi s
      = .localAssign .loc [.mk "b" none, .mk "a" none] [.num 0] := rfl
  have h1 : firstCellNil (execS call0 ρ0 1 env0 s σ0) = some true := by decide
  have h2 : firstCellNil (execS call0 ρ0 1 env0 (.localAssign .loc [.mk "b" none, .mk "a" none] [.num 0]) σ0)
      = some false := by decide
  cases hr : execS call0 ρ0 1 env0 s σ0 with
  | timeout => simp [hr, firstCellNil] at h1
  | err v σ1 => simp [hr, firstCellNil] at h1
  | ok c σ1 =>
    have := hfull litApi notInst litApi_sound s unitOps call0 ρ0 1 env0 σ0 σ1 c hr
    rw [hp] at this
    rw [hr] at h1; rw [this] at h2
    simp [h1] at h2

-- regression (F24, fixed): `local a, a = nil, 1` is left alone by the fixed model
example : Rules.NilDeclaration.processLocal litApi (.localAssign .loc [.mk "a" none, .mk "a" none] [.nil, .num 0])
    = .localAssign .loc [.mk "a" none, .mk "a" none] [.nil, .num 0] := rfl

/-- the one shape of the rewrite that is exact as it stands (no variable moves, no cell is renumbered):
`local x = nil` ↦ `local x` has exactly the same denotation. Every other shape moves variables and so
permutes cell numbers — equal only up to a heap bijection (not available in the exact framework). -/
theorem remove_nil_declaration_single_exact (api : EvalApi) (n : TName) {N : NumOps} (call : CallFn N)
    (ρ : ExtOracle N) (k : Nat) (env : Env N) (σ : State N) :
    execS call ρ k env (Rules.NilDeclaration.processLocal api (.localAssign .loc [n] [.nil])) σ
      = execS call ρ k env (.localAssign .loc [n] [.nil]) σ := by
  have : Rules.NilDeclaration.processLocal api (.localAssign .loc [n] [.nil]) = .localAssign .loc [n] [] := by
    simp [Rules.NilDeclaration.processLocal, Rules.NilDeclaration.isNil, Rules.NilDeclaration.nilIndices,
      Rules.NilDeclaration.removeAt, Rules.NilDeclaration.wrapLast, Rules.NilDeclaration.distinct,
      Rules.NilDeclaration.tnamesOf]
  rw [this]
  simp [execS, evalEs, evalE, Res.bind, bindLocals, first]

example : Rules.NilDeclaration.processLocal litApi (.localAssign .loc [.mk "x" none] [.nil])
    = .localAssign .loc [.mk "x" none] [] := rfl

/-! ### step lemmas for the allocation-changing rules (remove_unused_variable, remove_nil_declaration)

These rules drop or permute freshly allocated cells, so no exact hook lemma exists; the two local
steps below are what an allocation-insensitive lifting (VisitorSound stage 3) has to be fed with. -/

/-- **drop step**: `local x = e` whose initialiser evaluates state-exactly (side-effect free and
non-allocating: `EvalSound.pure`) does nothing but allocate ONE fresh cell holding the value and bind `x`
to it — every existing cell, the globals, tables, closures and the trace are untouched. -/
theorem local_declaration_drop_step {N : NumOps} (call : CallFn N) (ρ : ExtOracle N) (k : Nat) (env : Env N)
    (kind : LocalKind) (x : String) (ty : Option Ty) (e : Expr) (σ : State N) (vs : List (Val N))
    (he : evalE call ρ k env e σ = .ok vs σ) :
    execS call ρ k env (.localAssign kind [.mk x ty] [e]) σ =
      .ok (.next { env with locals := (x, σ.cells.length) :: env.locals })
        { σ with cells := σ.cells ++ [first vs] } :=
  Rules.AllocSteps.local_single_pure call ρ k env kind x ty e σ vs he

example {N : NumOps} (call : CallFn N) (ρ : ExtOracle N) (env : Env N) (σ : State N) :
    evalE call ρ 1 env (.str [97]) σ = .ok [.str [97]] σ := by simp [evalE]

/-- **permutation step**: two declarations that bind the same values to the same pairwise distinct names, in
any order (what `remove_nil_declaration` does when it moves the nil-valued variables to the end — F24 is the
case of repeated names), cannot be told apart through any variable lookup, agree on globals, tables, closures,
trace and all old cells, and differ only in the order of the freshly allocated cells. -/
theorem local_declaration_permute_step {N : NumOps} (env : Env N) (σ1 : State N)
    (hwf : Rules.AllocSteps.envWF env σ1) (ns ns' : List String)
    (hd : ns.Nodup) (hd' : ns'.Nodup) (hperm : ∀ x, x ∈ ns ↔ x ∈ ns') (hlen : ns.length = ns'.length)
    (vs vs' : List (Val N))
    (hval : ∀ x, x ∈ ns → Rules.AllocSteps.valueOf ns vs x = Rules.AllocSteps.valueOf ns' vs' x) :
    let σa : State N := { σ1 with cells := σ1.cells ++ Rules.AllocSteps.padVals ns.length vs }
    let σb : State N := { σ1 with cells := σ1.cells ++ Rules.AllocSteps.padVals ns'.length vs' }
    let enva : Env N := { env with locals := Rules.AllocSteps.newLocals ns σ1.cells.length env.locals }
    let envb : Env N := { env with locals := Rules.AllocSteps.newLocals ns' σ1.cells.length env.locals }
    (∀ x, lookupVar enva x σa = lookupVar envb x σb) ∧
      σa.globals = σb.globals ∧ σa.tables = σb.tables ∧ σa.closures = σb.closures ∧ σa.trace = σb.trace ∧
      σa.cells.length = σb.cells.length ∧ (∀ c, c < σ1.cells.length → σa.getCell c = σb.getCell c) :=
  Rules.AllocSteps.permute_observable env σ1 hwf ns ns' hd hd' hperm hlen vs vs' hval

-- non-vacuity: `local a, b = nil, 1` vs `local b, a = 1` (the rule's output) bind the same values
example : (["a", "b"] : List String).Nodup ∧ (["b", "a"] : List String).Nodup ∧
    (∀ x, x ∈ ["a", "b"] ↔ x ∈ ["b", "a"]) ∧
    (∀ x, x ∈ ["a", "b"] →
      Rules.AllocSteps.valueOf (N := Rules.Witness.unitOps) ["a", "b"] [.nil, .num ()] x
        = Rules.AllocSteps.valueOf ["b", "a"] [.num ()] x) := by
  refine ⟨by decide, by decide, by intro x; simp [or_comm], ?_⟩
  intro x hx
  simp at hx
  rcases hx with rfl | rfl <;> rfl

/-! ### remove_unused_variable — whole rule on a fragment (stage-3 lifting: equality up to cell renumbering) -/

/-- **Whole rule** (`_partial`): for EVERY evaluator `api` and every program `b` on which the rule agrees with
its guarded version (`H b := applyG api b = apply api b`, decidable; `applyG` performs, in every scope and on
every pass, exactly the removals of declarations whose names are all unused, whose values are atomic — literals,
identifiers, `...` — and whose names are not referenced afterwards, and leaves every other statement alone),
`remove_unused_variable` (all its passes) preserves the observable outcome — returned / raised values and the
trace of external calls — at every call level, number system and oracle. Outside `H`: declarations dropped
although a shadowed occurrence remains (FindUsage is scope aware, the link is not), initialisers that are
"pure" for the evaluator but not total (`local x = -nil`: the original RAISES, the output does not — not a
C01 violation, C01 only speaks about error-free originals), effectful values kept as statements, regrouping,
unused local functions (closure allocation). (F25 is fixed.) -/
theorem rule_refines_remove_unused_variable_partial (api : EvalApi) (b : Block)
    (h : Rules.UnusedVariable.Guarded.applyG api b = Rules.UnusedVariable.apply api b)
    {N : NumOps} (ρ : ExtOracle N) (n : Nat) (externs : List String) :
    runProgram ρ n externs (Rules.UnusedVariable.apply api b) = runProgram ρ n externs b :=
  Rules.UnusedVariable.Guarded.apply_refines_of_agree api b h ρ n externs

/-- the guarded rule itself is sound on EVERY program -/
theorem rule_refines_remove_unused_variable_guarded (api : EvalApi) (b : Block)
    {N : NumOps} (ρ : ExtOracle N) (n : Nat) (externs : List String) :
    runProgram ρ n externs (Rules.UnusedVariable.Guarded.applyG api b) = runProgram ρ n externs b :=
  Rules.UnusedVariable.Guarded.applyG_refines api b ρ n externs

/-- `local unused = a; local y = 1; do local u2, u3 = nil; emit(y) end` -/
def unusedSample : Block :=
  .mk [.localAssign .loc [.mk "unused" none] [.var "a"], .localAssign .loc [.mk "y" none] [.num 1],
    .doBlock (.mk [.localAssign .loc [.mk "u2" none, .mk "u3" none] [.nil],
                   .callStmt (.call (.var "emit") none .tuple [.var "y"])] none)] none

def unusedSampleOut : Block :=
  .mk [.localAssign .loc [.mk "y" none] [.num 1],
    .doBlock (.mk [.callStmt (.call (.var "emit") none .tuple [.var "y"])] none)] none

-- non-vacuity: the sample is inside `H`, and the rule removes two declarations (one in a nested scope, second pass)
example : Rules.UnusedVariable.Guarded.applyG litApi unusedSample = Rules.UnusedVariable.apply litApi unusedSample ∧
    Rules.UnusedVariable.apply litApi unusedSample = unusedSampleOut := by
  have h1 : Rules.UnusedVariable.Guarded.applyG litApi unusedSample = unusedSampleOut := by rfl
  have h2 : Rules.UnusedVariable.apply litApi unusedSample = unusedSampleOut := by rfl
  exact ⟨h1.trans h2.symm, h2⟩

/-! ### remove_unused_variable — larger fragment (stage-4 lifting: renumbering of cells, tables AND closures) -/

/-- **Whole rule, larger fragment** (`_partial`): as `rule_refines_remove_unused_variable_partial`, but the guarded
version `GuardedV.applyG` also performs the removals of declarations whose initialisers only ALLOCATE (function
expressions, table constructors without computed keys whose values are literals / identifiers / such expressions
again) and of unused `local function`s whose name is not referenced afterwards. The dropped table / closure
allocations renumber everything allocated later; outcomes are invariant under that renumbering provided the
external functions return no heap references (`OracleFlat ρ`: the oracle's results contain no table / closure
ids — results of the modelled externs are scalars). -/
theorem rule_refines_remove_unused_variable_partialV (api : EvalApi) (b : Block)
    (h : Rules.UnusedVariable.GuardedV.applyG api b = Rules.UnusedVariable.apply api b)
    {N : NumOps} (ρ : ExtOracle N) (hρ : Sem.HeapV.OracleFlat ρ) (n : Nat) (externs : List String) :
    runProgram ρ n externs (Rules.UnusedVariable.apply api b) = runProgram ρ n externs b :=
  Rules.UnusedVariable.GuardedV.apply_refines_of_agree api b h ρ hρ n externs

/-- the larger guarded rule itself is sound on EVERY program -/
theorem rule_refines_remove_unused_variable_guardedV (api : EvalApi) (b : Block)
    {N : NumOps} (ρ : ExtOracle N) (hρ : Sem.HeapV.OracleFlat ρ) (n : Nat) (externs : List String) :
    runProgram ρ n externs (Rules.UnusedVariable.GuardedV.applyG api b) = runProgram ρ n externs b :=
  Rules.UnusedVariable.GuardedV.applyG_refines api b ρ hρ n externs

/-- `litApi`, which also knows that `{}` and function expressions have no side effects -/
def allocApi : EvalApi :=
  { litApi with hasSideEffects := fun e => match e with
      | .table [] | .fn _ => false
      | e => litApi.hasSideEffects e }

/-- `local function helper() return 1 end; local cache = {}; local cb = function() end; local y = 1; emit(y)` -/
def unusedAllocSample : Block :=
  .mk [.localFn .loc "helper" (.mk [] false none none [] [] (.mk [] (some (.ret [.num 1])))),
       .localAssign .loc [.mk "cache" none] [.table []],
       .localAssign .loc [.mk "cb" none] [.fn (.mk [] false none none [] [] (.mk [] none))],
       .localAssign .loc [.mk "y" none] [.num 1],
       .callStmt (.call (.var "emit") none .tuple [.var "y"])] none

def unusedAllocSampleOut : Block :=
  .mk [.localAssign .loc [.mk "y" none] [.num 1],
       .callStmt (.call (.var "emit") none .tuple [.var "y"])] none

-- non-vacuity: the sample is inside the larger `H` (and outside the stage-3 one), and the rule removes a local
-- function, a table and a closure allocation
example : Rules.UnusedVariable.GuardedV.applyG allocApi unusedAllocSample = Rules.UnusedVariable.apply allocApi unusedAllocSample ∧
    Rules.UnusedVariable.apply allocApi unusedAllocSample = unusedAllocSampleOut ∧
    Rules.UnusedVariable.Guarded.applyG allocApi unusedAllocSample ≠ Rules.UnusedVariable.apply allocApi unusedAllocSample := by
  have h1 : Rules.UnusedVariable.GuardedV.applyG allocApi unusedAllocSample = unusedAllocSampleOut := by rfl
  have h2 : Rules.UnusedVariable.apply allocApi unusedAllocSample = unusedAllocSampleOut := by rfl
  have h3 : Rules.UnusedVariable.Guarded.applyG allocApi unusedAllocSample = unusedAllocSample := by rfl
  refine ⟨h1.trans h2.symm, h2, ?_⟩
  rw [h3, h2]
  intro h
  have := congrArg (fun b => match b with | .mk ss _ => ss.length) h
  simp [unusedAllocSample, unusedAllocSampleOut] at this

/-! ### remove_unused_variable — still larger fragment: unused declarations whose value is a call -/

/-- **Whole rule, third fragment** (`_partial`): as `…_partialV`, and the guarded version `GuardedV2.applyG` also
performs the rule's replacement of `local a, b = f(x)` (all names unused, the single value a call, possibly inside
parentheses / type casts) by the statement `f(x)` — the declaration and the call statement perform the same
evaluation (stage-4 leaf `localToCall_sound`); the cells bound on one side only are garbage. -/
theorem rule_refines_remove_unused_variable_partialV2 (api : EvalApi) (b : Block)
    (h : Rules.UnusedVariable.GuardedV2.applyG api b = Rules.UnusedVariable.apply api b)
    {N : NumOps} (ρ : ExtOracle N) (hρ : Sem.HeapV.OracleFlat ρ) (n : Nat) (externs : List String) :
    runProgram ρ n externs (Rules.UnusedVariable.apply api b) = runProgram ρ n externs b :=
  Rules.UnusedVariable.GuardedV2.apply_refines_of_agree api b h ρ hρ n externs

/-- that guarded rule is sound on EVERY program -/
theorem rule_refines_remove_unused_variable_guardedV2 (api : EvalApi) (b : Block)
    {N : NumOps} (ρ : ExtOracle N) (hρ : Sem.HeapV.OracleFlat ρ) (n : Nat) (externs : List String) :
    runProgram ρ n externs (Rules.UnusedVariable.GuardedV2.applyG api b) = runProgram ρ n externs b :=
  Rules.UnusedVariable.GuardedV2.applyG_refines api b ρ hρ n externs

/-- `local x, y = (get1()); local cache = {}; local z = 1; emit(z)` -/
def unusedCallSample : Block :=
  .mk [.localAssign .loc [.mk "x" none, .mk "y" none] [.paren (.call (.var "get1") none .tuple [])],
       .localAssign .loc [.mk "cache" none] [.table []],
       .localAssign .loc [.mk "z" none] [.num 1],
       .callStmt (.call (.var "emit") none .tuple [.var "z"])] none

def unusedCallSampleOut : Block :=
  .mk [.callStmt (.call (.var "get1") none .tuple []),
       .localAssign .loc [.mk "z" none] [.num 1],
       .callStmt (.call (.var "emit") none .tuple [.var "z"])] none

-- non-vacuity: inside the third `H`, outside the second; the rule keeps the call as a statement
example : Rules.UnusedVariable.GuardedV2.applyG allocApi unusedCallSample = Rules.UnusedVariable.apply allocApi unusedCallSample ∧
    Rules.UnusedVariable.apply allocApi unusedCallSample = unusedCallSampleOut ∧
    Rules.UnusedVariable.GuardedV.applyG allocApi unusedCallSample ≠ Rules.UnusedVariable.apply allocApi unusedCallSample := by
  have h1 : Rules.UnusedVariable.GuardedV2.applyG allocApi unusedCallSample = unusedCallSampleOut := by rfl
  have h2 : Rules.UnusedVariable.apply allocApi unusedCallSample = unusedCallSampleOut := by rfl
  have h3 : Rules.UnusedVariable.GuardedV.applyG allocApi unusedCallSample =
      .mk [.localAssign .loc [.mk "x" none, .mk "y" none] [.paren (.call (.var "get1") none .tuple [])],
           .localAssign .loc [.mk "z" none] [.num 1],
           .callStmt (.call (.var "emit") none .tuple [.var "z"])] none := by rfl
  refine ⟨h1.trans h2.symm, h2, ?_⟩
  rw [h3, h2]
  intro h
  simp [unusedCallSampleOut] at h

/-- the stage-4 theorems at the oracle the harness actually runs (`Shared.driverOracle`: results are scalars,
`Sem.HeapV.driverOracle_flat`) — no hypothesis on the oracle left -/
theorem rule_refines_remove_unused_variable_partialV2_driver (api : EvalApi) (b : Block)
    (h : Rules.UnusedVariable.GuardedV2.applyG api b = Rules.UnusedVariable.apply api b) (n : Nat) (externs : List String) :
    runProgram Shared.driverOracle n externs (Rules.UnusedVariable.apply api b) = runProgram Shared.driverOracle n externs b :=
  rule_refines_remove_unused_variable_partialV2 api b h _ Sem.HeapV.driverOracle_flat n externs

example : Sem.HeapV.OracleFlat Shared.driverOracle := Sem.HeapV.driverOracle_flat

/-- **Whole rule, fourth fragment** (`_partialV3`; after the fix of F25): the guarded version additionally performs the
rule's replacement of an unused declaration whose single value is effectful for the evaluator but not a call
(`local u = t.k` ↦ `do local _ = t.k end`; the declared names are not `_` and not referenced afterwards). New
stage-4 leaf `Sem.HeapV.localToDo_sound`: both sides perform the same evaluation, the cells bound on either side
are garbage. -/
theorem rule_refines_remove_unused_variable_partialV3 (api : EvalApi) (b : Block)
    (h : Rules.UnusedVariable.GuardedV3.applyG api b = Rules.UnusedVariable.apply api b)
    {N : NumOps} (ρ : ExtOracle N) (hρ : Sem.HeapV.OracleFlat ρ) (n : Nat) (externs : List String) :
    runProgram ρ n externs (Rules.UnusedVariable.apply api b) = runProgram ρ n externs b :=
  Rules.UnusedVariable.GuardedV3.apply_refines_of_agree api b h ρ hρ n externs

/-- that guarded rule is sound on EVERY program -/
theorem rule_refines_remove_unused_variable_guardedV3 (api : EvalApi) (b : Block)
    {N : NumOps} (ρ : ExtOracle N) (hρ : Sem.HeapV.OracleFlat ρ) (n : Nat) (externs : List String) :
    runProgram ρ n externs (Rules.UnusedVariable.GuardedV3.applyG api b) = runProgram ρ n externs b :=
  Rules.UnusedVariable.GuardedV3.applyG_refines api b ρ hρ n externs

theorem rule_refines_remove_unused_variable_partialV3_driver (api : EvalApi) (b : Block)
    (h : Rules.UnusedVariable.GuardedV3.applyG api b = Rules.UnusedVariable.apply api b) (n : Nat) (externs : List String) :
    runProgram Shared.driverOracle n externs (Rules.UnusedVariable.apply api b) = runProgram Shared.driverOracle n externs b :=
  rule_refines_remove_unused_variable_partialV3 api b h _ Sem.HeapV.driverOracle_flat n externs

/-- the former F25 witness: `_ = 5; local t = { k = 1 }; local unused = t.k; return _` -/
def unusedFieldSample : Block :=
  .mk [.assign [.var "_"] [.num 5], .localAssign .loc [.mk "t" none] [.table [.named "k" (.num 1)]],
       .localAssign .loc [.mk "unused" none] [.field (.var "t") "k"]] (some (.ret [.var "_"]))

-- non-vacuity (and regression of F25): the declaration becomes `do local _ = t.k end`; inside the new `H`, outside
-- the previous one
example : Rules.UnusedVariable.GuardedV3.applyG (c08Api C08.toyN C08.toyE) unusedFieldSample =
      Rules.UnusedVariable.apply (c08Api C08.toyN C08.toyE) unusedFieldSample ∧
    Rules.UnusedVariable.apply (c08Api C08.toyN C08.toyE) unusedFieldSample =
      .mk [.assign [.var "_"] [.num 5], .localAssign .loc [.mk "t" none] [.table [.named "k" (.num 1)]],
           .doBlock (.mk [.localAssign .loc [.mk "_" none] [.field (.var "t") "k"]] none)] (some (.ret [.var "_"])) ∧
    Rules.UnusedVariable.GuardedV2.applyG (c08Api C08.toyN C08.toyE) unusedFieldSample = unusedFieldSample := by
  have h1 : Rules.UnusedVariable.GuardedV3.applyG (c08Api C08.toyN C08.toyE) unusedFieldSample =
      .mk [.assign [.var "_"] [.num 5], .localAssign .loc [.mk "t" none] [.table [.named "k" (.num 1)]],
           .doBlock (.mk [.localAssign .loc [.mk "_" none] [.field (.var "t") "k"]] none)] (some (.ret [.var "_"])) := by rfl
  have h2 : Rules.UnusedVariable.apply (c08Api C08.toyN C08.toyE) unusedFieldSample =
      .mk [.assign [.var "_"] [.num 5], .localAssign .loc [.mk "t" none] [.table [.named "k" (.num 1)]],
           .doBlock (.mk [.localAssign .loc [.mk "_" none] [.field (.var "t") "k"]] none)] (some (.ret [.var "_"])) := by rfl
  have h3 : Rules.UnusedVariable.GuardedV2.applyG (c08Api C08.toyN C08.toyE) unusedFieldSample = unusedFieldSample := by rfl
  exact ⟨h1.trans h2.symm, h2, h3⟩

/-- **Whole rule, fifth fragment** (`_partialV4`): the guarded version additionally performs the rule's replacement of
an unused declaration with SEVERAL values, each of which is a call (under parentheses / casts) or allocation-only
and side-effect free for the evaluator, by the calls in order (`local a, b = f(), g()` ↦ `do f() g() end`,
`local a, b, c = {}, f(), 1` ↦ `f()`). New stage-4 leaf `Sem.HeapV.localToCalls_sound` (list version of
`localToCall_sound`: the values evaluated for effect on the left, the calls among them on the right). -/
theorem rule_refines_remove_unused_variable_partialV4 (api : EvalApi) (b : Block)
    (h : Rules.UnusedVariable.GuardedV4.applyG api b = Rules.UnusedVariable.apply api b)
    {N : NumOps} (ρ : ExtOracle N) (hρ : Sem.HeapV.OracleFlat ρ) (n : Nat) (externs : List String) :
    runProgram ρ n externs (Rules.UnusedVariable.apply api b) = runProgram ρ n externs b :=
  Rules.UnusedVariable.GuardedV4.apply_refines_of_agree api b h ρ hρ n externs

/-- that guarded rule is sound on EVERY program -/
theorem rule_refines_remove_unused_variable_guardedV4 (api : EvalApi) (b : Block)
    {N : NumOps} (ρ : ExtOracle N) (hρ : Sem.HeapV.OracleFlat ρ) (n : Nat) (externs : List String) :
    runProgram ρ n externs (Rules.UnusedVariable.GuardedV4.applyG api b) = runProgram ρ n externs b :=
  Rules.UnusedVariable.GuardedV4.applyG_refines api b ρ hρ n externs

theorem rule_refines_remove_unused_variable_partialV4_driver (api : EvalApi) (b : Block)
    (h : Rules.UnusedVariable.GuardedV4.applyG api b = Rules.UnusedVariable.apply api b) (n : Nat) (externs : List String) :
    runProgram Shared.driverOracle n externs (Rules.UnusedVariable.apply api b) = runProgram Shared.driverOracle n externs b :=
  rule_refines_remove_unused_variable_partialV4 api b h _ Sem.HeapV.driverOracle_flat n externs

/-- `local a, b, c = {}, f(), (g()); return 1` -/
def unusedCallsSample : Block :=
  .mk [.localAssign .loc [.mk "a" none, .mk "b" none, .mk "c" none]
        [.table [], .call (.var "f") none .tuple [], .paren (.call (.var "g") none .tuple [])]] (some (.ret [.num 1]))

-- non-vacuity: the table is dropped, the two calls are kept in a block; inside the new `H`, outside the previous one
example : Rules.UnusedVariable.GuardedV4.applyG (c08Api C08.toyN C08.toyE) unusedCallsSample =
      Rules.UnusedVariable.apply (c08Api C08.toyN C08.toyE) unusedCallsSample ∧
    Rules.UnusedVariable.apply (c08Api C08.toyN C08.toyE) unusedCallsSample =
      .mk [.doBlock (.mk [.callStmt (.call (.var "f") none .tuple []), .callStmt (.call (.var "g") none .tuple [])] none)]
        (some (.ret [.num 1])) ∧
    Rules.UnusedVariable.GuardedV3.applyG (c08Api C08.toyN C08.toyE) unusedCallsSample = unusedCallsSample := by
  have h1 : Rules.UnusedVariable.GuardedV4.applyG (c08Api C08.toyN C08.toyE) unusedCallsSample =
      .mk [.doBlock (.mk [.callStmt (.call (.var "f") none .tuple []), .callStmt (.call (.var "g") none .tuple [])] none)]
        (some (.ret [.num 1])) := by rfl
  have h2 : Rules.UnusedVariable.apply (c08Api C08.toyN C08.toyE) unusedCallsSample =
      .mk [.doBlock (.mk [.callStmt (.call (.var "f") none .tuple []), .callStmt (.call (.var "g") none .tuple [])] none)]
        (some (.ret [.num 1])) := by rfl
  have h3 : Rules.UnusedVariable.GuardedV3.applyG (c08Api C08.toyN C08.toyE) unusedCallsSample = unusedCallsSample := by rfl
  exact ⟨h1.trans h2.symm, h2, h3⟩

/-- **Whole rule, sixth fragment** (`_partialV5`): unused declarations with several values, kept NON-call values
included — the post-fix shapes `do local _ = t.k  f()  local _ = t[1], o + 1 end` (calls as call statements,
consecutive kept non-call values collected in one `local _`, a value that a later one could see through `_` in its
own `do local _ = v end`, side-effect free values dropped). Guard: dropped values allocation-only, no value mentions
`_`, the names are not `_` and not referenced afterwards. New stage-4 leaf `Sem.HeapV.localToStmts_sound` (relational
core `mk_rel`: all values evaluated on the left, the statement list executed on the right with `_` dead). -/
theorem rule_refines_remove_unused_variable_partialV5 (api : EvalApi) (b : Block)
    (h : Rules.UnusedVariable.GuardedV5.applyG api b = Rules.UnusedVariable.apply api b)
    {N : NumOps} (ρ : ExtOracle N) (hρ : Sem.HeapV.OracleFlat ρ) (n : Nat) (externs : List String) :
    runProgram ρ n externs (Rules.UnusedVariable.apply api b) = runProgram ρ n externs b :=
  Rules.UnusedVariable.GuardedV5.apply_refines_of_agree api b h ρ hρ n externs

/-- that guarded rule is sound on EVERY program -/
theorem rule_refines_remove_unused_variable_guardedV5 (api : EvalApi) (b : Block)
    {N : NumOps} (ρ : ExtOracle N) (hρ : Sem.HeapV.OracleFlat ρ) (n : Nat) (externs : List String) :
    runProgram ρ n externs (Rules.UnusedVariable.GuardedV5.applyG api b) = runProgram ρ n externs b :=
  Rules.UnusedVariable.GuardedV5.applyG_refines api b ρ hρ n externs

theorem rule_refines_remove_unused_variable_partialV5_driver (api : EvalApi) (b : Block)
    (h : Rules.UnusedVariable.GuardedV5.applyG api b = Rules.UnusedVariable.apply api b) (n : Nat) (externs : List String) :
    runProgram Shared.driverOracle n externs (Rules.UnusedVariable.apply api b) = runProgram Shared.driverOracle n externs b :=
  rule_refines_remove_unused_variable_partialV5 api b h _ Sem.HeapV.driverOracle_flat n externs

/-- `local a, b, c, d = t.k, f(), 1, t[1]; return 1` -/
def unusedMixedSample : Block :=
  .mk [.localAssign .loc [.mk "a" none, .mk "b" none, .mk "c" none, .mk "d" none]
        [.field (.var "t") "k", .call (.var "f") none .tuple [], .num 1, .index (.var "t") (.num 1)]] (some (.ret [.num 1]))

-- non-vacuity: non-call, call, (dropped literal), non-call; inside the new `H`, outside the previous one
example : Rules.UnusedVariable.GuardedV5.applyG (c08Api C08.toyN C08.toyE) unusedMixedSample =
      Rules.UnusedVariable.apply (c08Api C08.toyN C08.toyE) unusedMixedSample ∧
    Rules.UnusedVariable.apply (c08Api C08.toyN C08.toyE) unusedMixedSample =
      .mk [.doBlock (.mk [.localAssign .loc [.mk "_" none] [.field (.var "t") "k"],
            .callStmt (.call (.var "f") none .tuple []),
            .localAssign .loc [.mk "_" none] [.index (.var "t") (.num 1)]] none)] (some (.ret [.num 1])) ∧
    Rules.UnusedVariable.GuardedV4.applyG (c08Api C08.toyN C08.toyE) unusedMixedSample = unusedMixedSample := by
  have h1 : Rules.UnusedVariable.GuardedV5.applyG (c08Api C08.toyN C08.toyE) unusedMixedSample =
      .mk [.doBlock (.mk [.localAssign .loc [.mk "_" none] [.field (.var "t") "k"],
            .callStmt (.call (.var "f") none .tuple []),
            .localAssign .loc [.mk "_" none] [.index (.var "t") (.num 1)]] none)] (some (.ret [.num 1])) := by rfl
  have h2 : Rules.UnusedVariable.apply (c08Api C08.toyN C08.toyE) unusedMixedSample =
      .mk [.doBlock (.mk [.localAssign .loc [.mk "_" none] [.field (.var "t") "k"],
            .callStmt (.call (.var "f") none .tuple []),
            .localAssign .loc [.mk "_" none] [.index (.var "t") (.num 1)]] none)] (some (.ret [.num 1])) := by rfl
  have h3 : Rules.UnusedVariable.GuardedV4.applyG (c08Api C08.toyN C08.toyE) unusedMixedSample = unusedMixedSample := by rfl
  exact ⟨h1.trans h2.symm, h2, h3⟩

/-! ### remove_nil_declaration — whole rule on a fragment (stage-3 lifting: equality up to cell renumbering) -/

/-- **Whole rule** (`_partial`): for every evaluator `api` and every program `b` on which the rule agrees with its
guarded version (`H b := applyG api b = apply api b`, decidable; `applyG` performs a rewrite
`local ns = vs ↦ local ns' = vs'` only when it is validated by `checkPerm`: simple atomic values, pairwise
DISTINCT names on both sides — F24 is fixed, and excluded here anyway —, same name set, every name paired with
the same value expression, a missing value counting as `nil`), `remove_nil_declaration` preserves the observable
outcome of the program at every call level, number system and oracle. Outside `H`: non-atomic values (popping a
surplus value that is "pure" for the evaluator can also remove an ERROR, e.g. `local a = 1, nil + 1` — outside
C01, which speaks about error-free originals) and multi-valued tails. -/
theorem rule_refines_remove_nil_declaration_partial (api : EvalApi) (b : Block)
    (h : Rules.NilDeclaration.Guarded.applyG api b = Rules.NilDeclaration.apply api b)
    {N : NumOps} (ρ : ExtOracle N) (n : Nat) (externs : List String) :
    runProgram ρ n externs (Rules.NilDeclaration.apply api b) = runProgram ρ n externs b :=
  Rules.NilDeclaration.Guarded.apply_refines_of_agree api b h ρ n externs

/-- the guarded rule is sound on EVERY program -/
theorem rule_refines_remove_nil_declaration_guarded (api : EvalApi) (b : Block)
    {N : NumOps} (ρ : ExtOracle N) (n : Nat) (externs : List String) :
    runProgram ρ n externs (Rules.NilDeclaration.Guarded.applyG api b) = runProgram ρ n externs b :=
  Rules.NilDeclaration.Guarded.applyG_refines api b ρ n externs

/-- `local a, b, c = nil, x, nil; emit(a, b, c)` -/
def nilSample : Block :=
  .mk [.localAssign .loc [.mk "a" none, .mk "b" none, .mk "c" none] [.nil, .var "x", .nil],
       .callStmt (.call (.var "emit") none .tuple [.var "a", .var "b", .var "c"])] none

-- non-vacuity: inside `H`, and the rule really permutes: `local b, a, c = x`
example : Rules.NilDeclaration.Guarded.applyG litApi nilSample = Rules.NilDeclaration.apply litApi nilSample ∧
    Rules.NilDeclaration.apply litApi nilSample =
      .mk [.localAssign .loc [.mk "b" none, .mk "a" none, .mk "c" none] [.var "x"],
           .callStmt (.call (.var "emit") none .tuple [.var "a", .var "b", .var "c"])] none := by
  have h1 : Rules.NilDeclaration.Guarded.applyG litApi nilSample =
      .mk [.localAssign .loc [.mk "b" none, .mk "a" none, .mk "c" none] [.var "x"],
           .callStmt (.call (.var "emit") none .tuple [.var "a", .var "b", .var "c"])] none := by rfl
  have h2 : Rules.NilDeclaration.apply litApi nilSample =
      .mk [.localAssign .loc [.mk "b" none, .mk "a" none, .mk "c" none] [.var "x"],
           .callStmt (.call (.var "emit") none .tuple [.var "a", .var "b", .var "c"])] none := by rfl
  exact ⟨h1.trans h2.symm, h2⟩

/-! ### remove_nil_declaration — a much larger fragment: ARBITRARY value expressions -/

/-- the "cannot return multiple values" analysis of `api` is sound (true of the real analysis:
`can_return_multiple_values_sound`, `C08.single_sound`; no number-system or region hypothesis) -/
def SingleSound (api : EvalApi) : Prop :=
  ∀ e, api.canReturnMultiple e = false → Rules.NilDeclaration.General.SingleE e

theorem singleSound_litApi : SingleSound litApi :=
  fun e hm N call ρ k env σ σ' ws h => (litApi_total N).single e hm call ρ k env σ σ' ws h

theorem singleSound_c08Api (N : NumOps) (E : Evaluator.EvalOps N) : SingleSound (c08Api N E) :=
  fun e hm N' call ρ k env σ σ' ws h => by
    have hl := C08.single_sound call ρ k env e σ σ' ws hm h
    match ws, hl with
    | [v], _ => rfl

/-- **Whole rule, large fragment** (`_partial`): the values may now be ARBITRARY expressions (calls, tables,
anything). `General.applyG` performs the rule's rewrite on every `local` declaration that has pairwise distinct
names and NO SURPLUS VALUE (`#values ≤ #names`), and leaves the others alone; on every program on which the rule
agrees with it (i.e. no declaration with surplus values is rewritten) `remove_nil_declaration` preserves the
observable outcome. Proof: the rule's index juggling in closed form (`removeAt_spec`: the nil-valued positions are
taken out, their names appended), the semantic core `split_equiv` (same evaluation, every name bound to the same
value — `nil` literals evaluate to `nil` without effect, a multi-valued tail is parenthesised by the rule or feeds
no variable), and the stage-3 link `LkS.permLocal`. Outside: popping a surplus value (may remove an ERROR). -/
theorem rule_refines_remove_nil_declaration_partial2 (api : EvalApi) (hs : SingleSound api) (b : Block)
    (h : Rules.NilDeclaration.General.applyG api b = Rules.NilDeclaration.apply api b)
    {N : NumOps} (ρ : ExtOracle N) (n : Nat) (externs : List String) :
    runProgram ρ n externs (Rules.NilDeclaration.apply api b) = runProgram ρ n externs b :=
  Rules.NilDeclaration.General.apply_refines_of_agree api hs b h ρ n externs

/-- the same for the evaluator model the driver executes — no evaluator hypothesis left -/
theorem rule_refines_remove_nil_declaration_partial2_C08 (N0 : NumOps) (E : Evaluator.EvalOps N0) (b : Block)
    (h : Rules.NilDeclaration.General.applyG (c08Api N0 E) b = Rules.NilDeclaration.apply (c08Api N0 E) b)
    {N : NumOps} (ρ : ExtOracle N) (n : Nat) (externs : List String) :
    runProgram ρ n externs (Rules.NilDeclaration.apply (c08Api N0 E) b) = runProgram ρ n externs b :=
  rule_refines_remove_nil_declaration_partial2 _ (singleSound_c08Api N0 E) b h ρ n externs

/-- that guarded rule is sound on EVERY program -/
theorem rule_refines_remove_nil_declaration_guarded2 (api : EvalApi) (hs : SingleSound api) (b : Block)
    {N : NumOps} (ρ : ExtOracle N) (n : Nat) (externs : List String) :
    runProgram ρ n externs (Rules.NilDeclaration.General.applyG api b) = runProgram ρ n externs b :=
  Rules.NilDeclaration.General.applyG_refines api hs b ρ n externs

/-- `local a, b, c = nil, f(), nil; emit(a, b, c)` -/
def nilCallSample : Block :=
  .mk [.localAssign .loc [.mk "a" none, .mk "b" none, .mk "c" none] [.nil, .call (.var "f") none .tuple [], .nil],
       .callStmt (.call (.var "emit") none .tuple [.var "a", .var "b", .var "c"])] none

-- non-vacuity: a CALL among the values — inside the large `H`, outside the atomic one; the rule moves `a`, `c`
-- behind `b` and parenthesises the call
example : Rules.NilDeclaration.General.applyG litApi nilCallSample = Rules.NilDeclaration.apply litApi nilCallSample ∧
    Rules.NilDeclaration.apply litApi nilCallSample =
      .mk [.localAssign .loc [.mk "b" none, .mk "a" none, .mk "c" none] [.paren (.call (.var "f") none .tuple [])],
           .callStmt (.call (.var "emit") none .tuple [.var "a", .var "b", .var "c"])] none ∧
    Rules.NilDeclaration.Guarded.applyG litApi nilCallSample = nilCallSample := by
  have h1 : Rules.NilDeclaration.General.applyG litApi nilCallSample =
      .mk [.localAssign .loc [.mk "b" none, .mk "a" none, .mk "c" none] [.paren (.call (.var "f") none .tuple [])],
           .callStmt (.call (.var "emit") none .tuple [.var "a", .var "b", .var "c"])] none := by rfl
  have h2 : Rules.NilDeclaration.apply litApi nilCallSample =
      .mk [.localAssign .loc [.mk "b" none, .mk "a" none, .mk "c" none] [.paren (.call (.var "f") none .tuple [])],
           .callStmt (.call (.var "emit") none .tuple [.var "a", .var "b", .var "c"])] none := by rfl
  have h3 : Rules.NilDeclaration.Guarded.applyG litApi nilCallSample = nilCallSample := by rfl
  exact ⟨h1.trans h2.symm, h2, h3⟩

/-! ## whole-rule theorems for the REAL evaluator (`c08Api N E`, `C08.Agree N E`)

The `_upto` theorems above ask the evaluator contract at EVERY number system (`∀ N, EvalTotal N api`), which only
`litApi` meets: the rule `apply (c08Api N E)` and C08's theorems are relative to ONE number system that agrees
with the evaluator's primitives. `Rules/AtN.lean` lifts hooks that are sound for runs over one `N` (stage 3; the
number system is pinned through the context's call-handler assumption `CF`, discharged by `rfl` at every level).

What the real evaluator provably meets in TOTAL form (a dropped evaluation must SUCCEED, not merely be harmless
when it succeeds) is `gApi N E`: `c08Api N E` restricted to `guard = h8 ∧ tot` (`Rules/EvalC08Total.lean`:
`tot_total`, `gApi_total`, `gApi_str` from `C08.evaluate_sound_partial`, `C08.truthy_sound`, `C08.single_sound`).
A rule run with `gApi` is the guarded rule — sound on every program —, and the rule itself is covered on every
program on which the two runs agree (a decidable hypothesis; driver op `c01.c08guard`). -/

/-- `remove_unused_while` with the real evaluator, guarded: EVERY program, every run over a number system that
agrees with the evaluator's primitives. -/
theorem rule_refines_remove_unused_while_upto_C08_guarded {N : NumOps} {E : Evaluator.EvalOps N}
    (A : C08.Agree N E) (b : Block) (ρ : ExtOracle N) (n : Nat) (externs : List String) :
    runProgram ρ n externs b = .timeout ∨
      runProgram ρ n externs (Rules.UnusedWhile.apply (gApi N E) b) = runProgram ρ n externs b :=
  Rules.UnusedWhile.apply_upto_at (gApi_total A) b ρ n externs

/-- `remove_unused_while` as the driver runs it (`c08Api N E`): every program on which it agrees with the guarded
rule (every removed loop has a condition inside `h8 ∧ tot`). -/
theorem rule_refines_remove_unused_while_upto_C08 {N : NumOps} {E : Evaluator.EvalOps N}
    (A : C08.Agree N E) (b : Block)
    (h : Rules.UnusedWhile.apply (gApi N E) b = Rules.UnusedWhile.apply (c08Api N E) b)
    (ρ : ExtOracle N) (n : Nat) (externs : List String) :
    runProgram ρ n externs b = .timeout ∨
      runProgram ρ n externs (Rules.UnusedWhile.apply (c08Api N E) b) = runProgram ρ n externs b := by
  rw [← h]; exact rule_refines_remove_unused_while_upto_C08_guarded A b ρ n externs

/-- `while 1 > 2 do f() end; g()` -/
def whileC08Sample : Block :=
  .mk [.while_ (.bin .gt (.num 1) (.num 2)) (.mk [.callStmt (.call (.var "f") none .tuple [])] none),
       .callStmt (.call (.var "g") none .tuple [])] none

-- non-vacuity: with C08's toy instance the hypotheses hold and the loop is removed (an arithmetic comparison:
-- outside `litApi`)
example : C08.Agree C08.toyN C08.toyE ∧
    Rules.UnusedWhile.apply (gApi C08.toyN C08.toyE) whileC08Sample =
      Rules.UnusedWhile.apply (c08Api C08.toyN C08.toyE) whileC08Sample ∧
    Rules.UnusedWhile.apply (c08Api C08.toyN C08.toyE) whileC08Sample =
      .mk [.callStmt (.call (.var "g") none .tuple [])] none ∧
    Rules.UnusedWhile.apply litApi whileC08Sample = whileC08Sample := by
  have h1 : Rules.UnusedWhile.apply (gApi C08.toyN C08.toyE) whileC08Sample =
      .mk [.callStmt (.call (.var "g") none .tuple [])] none := by rfl
  have h2 : Rules.UnusedWhile.apply (c08Api C08.toyN C08.toyE) whileC08Sample =
      .mk [.callStmt (.call (.var "g") none .tuple [])] none := by rfl
  have h3 : Rules.UnusedWhile.apply litApi whileC08Sample = whileC08Sample := by rfl
  exact ⟨C08.toy_agree, h1.trans h2.symm, h2, h3⟩

/-- `remove_unused_if_branch` (statements and `if` expressions) with the real evaluator, guarded: every program. -/
theorem rule_refines_remove_unused_if_branch_upto_C08_guarded {N : NumOps} {E : Evaluator.EvalOps N}
    (A : C08.Agree N E) (b : Block) (ρ : ExtOracle N) (n : Nat) (externs : List String) :
    runProgram ρ n externs b = .timeout ∨
      runProgram ρ n externs (Rules.UnusedIfBranch.apply (gApi N E) b) = runProgram ρ n externs b :=
  Rules.UnusedIfBranch.apply_upto_at (gApi_total A) b ρ n externs

/-- `remove_unused_if_branch` as the driver runs it, on every program on which it agrees with the guarded rule. -/
theorem rule_refines_remove_unused_if_branch_upto_C08 {N : NumOps} {E : Evaluator.EvalOps N}
    (A : C08.Agree N E) (b : Block)
    (h : Rules.UnusedIfBranch.apply (gApi N E) b = Rules.UnusedIfBranch.apply (c08Api N E) b)
    (ρ : ExtOracle N) (n : Nat) (externs : List String) :
    runProgram ρ n externs b = .timeout ∨
      runProgram ρ n externs (Rules.UnusedIfBranch.apply (c08Api N E) b) = runProgram ρ n externs b := by
  rw [← h]; exact rule_refines_remove_unused_if_branch_upto_C08_guarded A b ρ n externs

/-- `if 1 + 1 == 2 then f() else g() end` -/
def ifC08Sample : Block :=
  .mk [.ifs [(.bin .eq (.bin .add (.num 1) (.num 1)) (.num 2), .mk [.callStmt (.call (.var "f") none .tuple [])] none)]
        (some (.mk [.callStmt (.call (.var "g") none .tuple [])] none))] none

example : Rules.UnusedIfBranch.apply (gApi C08.toyN C08.toyE) ifC08Sample =
      Rules.UnusedIfBranch.apply (c08Api C08.toyN C08.toyE) ifC08Sample ∧
    Rules.UnusedIfBranch.apply (c08Api C08.toyN C08.toyE) ifC08Sample =
      .mk [.doBlock (.mk [.callStmt (.call (.var "f") none .tuple [])] none)] none := by
  have h1 : Rules.UnusedIfBranch.apply (gApi C08.toyN C08.toyE) ifC08Sample =
      .mk [.doBlock (.mk [.callStmt (.call (.var "f") none .tuple [])] none)] none := by rfl
  have h2 : Rules.UnusedIfBranch.apply (c08Api C08.toyN C08.toyE) ifC08Sample =
      .mk [.doBlock (.mk [.callStmt (.call (.var "f") none .tuple [])] none)] none := by rfl
  exact ⟨h1.trans h2.symm, h2⟩

/-- `convert_index_to_field` with the real evaluator, guarded: every program. -/
theorem rule_refines_convert_index_to_field_upto_C08_guarded {N : NumOps} {E : Evaluator.EvalOps N}
    (A : C08.Agree N E) (b : Block) (ρ : ExtOracle N) (n : Nat) (externs : List String) :
    runProgram ρ n externs b = .timeout ∨
      runProgram ρ n externs (Rules.ConvertIndexToField.apply (gApi N E) b) = runProgram ρ n externs b :=
  Rules.ConvertIndexToField.apply_upto_at (gApi_total A) (gApi_str A) b ρ n externs

/-- `convert_index_to_field` as the driver runs it, on every program on which it agrees with the guarded rule
(every converted key is inside `h8 ∧ tot`: string literals, concatenations of strings, `"a" and "b"` …). -/
theorem rule_refines_convert_index_to_field_upto_C08 {N : NumOps} {E : Evaluator.EvalOps N}
    (A : C08.Agree N E) (b : Block)
    (h : Rules.ConvertIndexToField.apply (gApi N E) b = Rules.ConvertIndexToField.apply (c08Api N E) b)
    (ρ : ExtOracle N) (n : Nat) (externs : List String) :
    runProgram ρ n externs b = .timeout ∨
      runProgram ρ n externs (Rules.ConvertIndexToField.apply (c08Api N E) b) = runProgram ρ n externs b := by
  rw [← h]; exact rule_refines_convert_index_to_field_upto_C08_guarded A b ρ n externs

/-- `return t["a" .. "b"]` -/
def indexC08Sample : Block :=
  .mk [] (some (.ret [.index (.var "t") (.bin .concat (.str [97]) (.str [98]))]))

example : Rules.ConvertIndexToField.apply (gApi C08.toyN C08.toyE) indexC08Sample =
      Rules.ConvertIndexToField.apply (c08Api C08.toyN C08.toyE) indexC08Sample ∧
    Rules.ConvertIndexToField.apply (c08Api C08.toyN C08.toyE) indexC08Sample =
      .mk [] (some (.ret [.field (.var "t") "ab"])) := by
  have h1 : Rules.ConvertIndexToField.apply (gApi C08.toyN C08.toyE) indexC08Sample =
      .mk [] (some (.ret [.field (.var "t") "ab"])) := by rfl
  have h2 : Rules.ConvertIndexToField.apply (c08Api C08.toyN C08.toyE) indexC08Sample =
      .mk [] (some (.ret [.field (.var "t") "ab"])) := by rfl
  exact ⟨h1.trans h2.symm, h2⟩

/-- `compute_expression` with the real evaluator, guarded (`gApi`, which folds to `nil` / booleans / strings — numbers
are not folded: `to_expression` of a number needs round-trip laws that `C08.Agree` does not give — and no F5
rewrite): EVERY program. -/
theorem rule_refines_compute_expression_upto_C08_guarded {N : NumOps} {E : Evaluator.EvalOps N}
    (A : C08.Agree N E) (b : Block) (ρ : ExtOracle N) (n : Nat) (externs : List String) :
    runProgram ρ n externs b = .timeout ∨
      runProgram ρ n externs (Rules.ComputeExpression.Whole.applyG (gApi N E) b) = runProgram ρ n externs b :=
  Rules.ComputeExpression.Whole.applyG_upto_at (gApi_total A) (Rules.ComputeExpression.gApi_fold A)
    Rules.ComputeExpression.gApi_coherent Rules.ComputeExpression.gApi_closed b ρ n externs

/-- `compute_expression` as the driver runs it, on every program on which it agrees with that guarded rule. -/
theorem rule_refines_compute_expression_upto_C08 {N : NumOps} {E : Evaluator.EvalOps N}
    (A : C08.Agree N E) (b : Block)
    (h : Rules.ComputeExpression.Whole.applyG (gApi N E) b = Rules.ComputeExpression.apply (c08Api N E) b)
    (ρ : ExtOracle N) (n : Nat) (externs : List String) :
    runProgram ρ n externs b = .timeout ∨
      runProgram ρ n externs (Rules.ComputeExpression.apply (c08Api N E) b) = runProgram ρ n externs b := by
  rw [← h]; exact rule_refines_compute_expression_upto_C08_guarded A b ρ n externs

/-- `return 1 < 2, "a" .. "b", nil and f()` -/
def computeC08Sample : Block :=
  .mk [] (some (.ret [.bin .lt (.num 1) (.num 2), .bin .concat (.str [97]) (.str [98]),
    .bin .and .nil (.call (.var "f") none .tuple [])]))

-- non-vacuity: a comparison and a concatenation are folded, a decided `and` is selected (all outside `litApi`)
example : Rules.ComputeExpression.Whole.applyG (gApi C08.toyN C08.toyE) computeC08Sample =
      Rules.ComputeExpression.apply (c08Api C08.toyN C08.toyE) computeC08Sample ∧
    Rules.ComputeExpression.apply (c08Api C08.toyN C08.toyE) computeC08Sample =
      .mk [] (some (.ret [.true, .str [97, 98], .nil])) := by
  have h1 : Rules.ComputeExpression.Whole.applyG (gApi C08.toyN C08.toyE) computeC08Sample =
      .mk [] (some (.ret [.true, .str [97, 98], .nil])) := by rfl
  have h2 : Rules.ComputeExpression.apply (c08Api C08.toyN C08.toyE) computeC08Sample =
      .mk [] (some (.ret [.true, .str [97, 98], .nil])) := by rfl
  exact ⟨h1.trans h2.symm, h2⟩

/-! ### … with ALLOCATING conditions (`while not {} do`, `if {} then`) — stage 4 unified (`Sem.HeapU`)

`{}` is "pure" and truthy for the evaluator, so the rules drop its evaluation; the dropped evaluation allocates a
table, after which the two runs differ by garbage. `Rules/AtNU.lean` (`ReplA`: a statement behaves as its replacement
started in the current state plus allocations; `replA_sound`: the generic `HeapU` leaf, the number system pinned by
`CF` as above, `upto` for the exhausted budget) and `Rules/AllocCondU.lean` lift this. The evaluator is `gApiA N E`:
`c08Api N E` restricted to `h8 ∧ totA` (`tot` plus function expressions and table constructors of allocation-only
content; `totA_total`, `gApiA_total`). Stage 4 asks the oracle to be flat (`OracleFlat`; the harness oracle is). -/

/-- `remove_unused_while`, real evaluator, allocating conditions included, guarded: EVERY program. -/
theorem rule_refines_remove_unused_while_upto_alloc_C08_guarded {N : NumOps} {E : Evaluator.EvalOps N}
    (A : C08.Agree N E) (b : Block) (ρ : ExtOracle N) (hρ : Sem.HeapU.OracleFlat ρ) (n : Nat) (externs : List String) :
    runProgram ρ n externs b = .timeout ∨
      runProgram ρ n externs (Rules.UnusedWhile.apply (gApiA N E) b) = runProgram ρ n externs b :=
  Rules.UnusedWhile.apply_upto_alloc (gApiA_total A) b ρ hρ n externs

/-- `remove_unused_while` as the driver runs it, on every program on which it agrees with that guarded rule. -/
theorem rule_refines_remove_unused_while_upto_alloc_C08 {N : NumOps} {E : Evaluator.EvalOps N}
    (A : C08.Agree N E) (b : Block)
    (h : Rules.UnusedWhile.apply (gApiA N E) b = Rules.UnusedWhile.apply (c08Api N E) b)
    (ρ : ExtOracle N) (hρ : Sem.HeapU.OracleFlat ρ) (n : Nat) (externs : List String) :
    runProgram ρ n externs b = .timeout ∨
      runProgram ρ n externs (Rules.UnusedWhile.apply (c08Api N E) b) = runProgram ρ n externs b := by
  rw [← h]; exact rule_refines_remove_unused_while_upto_alloc_C08_guarded A b ρ hρ n externs

/-- … at the oracle and the number system the harness runs: no oracle hypothesis left -/
theorem rule_refines_remove_unused_while_upto_alloc_C08_driver
    (A : C08.Agree floatOps Evaluator.floatEvalOps) (b : Block)
    (h : Rules.UnusedWhile.apply (gApiA floatOps Evaluator.floatEvalOps) b =
      Rules.UnusedWhile.apply (c08Api floatOps Evaluator.floatEvalOps) b) (n : Nat) (externs : List String) :
    runProgram Shared.driverOracle n externs b = .timeout ∨
      runProgram Shared.driverOracle n externs (Rules.UnusedWhile.apply (c08Api floatOps Evaluator.floatEvalOps) b) =
        runProgram Shared.driverOracle n externs b :=
  rule_refines_remove_unused_while_upto_alloc_C08 A b h _ Sem.HeapU.driverOracle_flat n externs

/-- `while not {} do f() end; g()` -/
def whileAllocSample : Block :=
  .mk [.while_ (.un .not (.table [])) (.mk [.callStmt (.call (.var "f") none .tuple [])] none),
       .callStmt (.call (.var "g") none .tuple [])] none

-- non-vacuity: the loop with an allocating condition is removed; inside the allocation-tolerant `H`, outside the
-- exact one (`gApi` keeps the loop)
example : Rules.UnusedWhile.apply (gApiA C08.toyN C08.toyE) whileAllocSample =
      Rules.UnusedWhile.apply (c08Api C08.toyN C08.toyE) whileAllocSample ∧
    Rules.UnusedWhile.apply (c08Api C08.toyN C08.toyE) whileAllocSample =
      .mk [.callStmt (.call (.var "g") none .tuple [])] none ∧
    Rules.UnusedWhile.apply (gApi C08.toyN C08.toyE) whileAllocSample = whileAllocSample := by
  have h1 : Rules.UnusedWhile.apply (gApiA C08.toyN C08.toyE) whileAllocSample =
      .mk [.callStmt (.call (.var "g") none .tuple [])] none := by rfl
  have h2 : Rules.UnusedWhile.apply (c08Api C08.toyN C08.toyE) whileAllocSample =
      .mk [.callStmt (.call (.var "g") none .tuple [])] none := by rfl
  have h3 : Rules.UnusedWhile.apply (gApi C08.toyN C08.toyE) whileAllocSample = whileAllocSample := by rfl
  exact ⟨h1.trans h2.symm, h2, h3⟩

/-- `remove_unused_if_branch`, real evaluator, guarded (`applyGA`: the leading conditions of an `if` statement that
the allocation-tolerant evaluator decides without side effects are resolved up to their allocations, the rest of the
rule runs with the exact evaluator): EVERY program. -/
theorem rule_refines_remove_unused_if_branch_upto_alloc_C08_guarded {N : NumOps} {E : Evaluator.EvalOps N}
    (A : C08.Agree N E) (b : Block) (ρ : ExtOracle N) (hρ : Sem.HeapU.OracleFlat ρ) (n : Nat) (externs : List String) :
    runProgram ρ n externs b = .timeout ∨
      runProgram ρ n externs (Rules.UnusedIfBranch.applyGA (gApiA N E) (gApi N E) b) = runProgram ρ n externs b :=
  Rules.UnusedIfBranch.applyGA_upto (gApiA_total A) (gApi_total A) b ρ hρ n externs

/-- `remove_unused_if_branch` as the driver runs it, on every program on which it agrees with that guarded rule. -/
theorem rule_refines_remove_unused_if_branch_upto_alloc_C08 {N : NumOps} {E : Evaluator.EvalOps N}
    (A : C08.Agree N E) (b : Block)
    (h : Rules.UnusedIfBranch.applyGA (gApiA N E) (gApi N E) b = Rules.UnusedIfBranch.apply (c08Api N E) b)
    (ρ : ExtOracle N) (hρ : Sem.HeapU.OracleFlat ρ) (n : Nat) (externs : List String) :
    runProgram ρ n externs b = .timeout ∨
      runProgram ρ n externs (Rules.UnusedIfBranch.apply (c08Api N E) b) = runProgram ρ n externs b := by
  rw [← h]; exact rule_refines_remove_unused_if_branch_upto_alloc_C08_guarded A b ρ hρ n externs

theorem rule_refines_remove_unused_if_branch_upto_alloc_C08_driver
    (A : C08.Agree floatOps Evaluator.floatEvalOps) (b : Block)
    (h : Rules.UnusedIfBranch.applyGA (gApiA floatOps Evaluator.floatEvalOps)
        (gApi floatOps Evaluator.floatEvalOps) b =
      Rules.UnusedIfBranch.apply (c08Api floatOps Evaluator.floatEvalOps) b) (n : Nat) (externs : List String) :
    runProgram Shared.driverOracle n externs b = .timeout ∨
      runProgram Shared.driverOracle n externs
          (Rules.UnusedIfBranch.apply (c08Api floatOps Evaluator.floatEvalOps) b) =
        runProgram Shared.driverOracle n externs b :=
  rule_refines_remove_unused_if_branch_upto_alloc_C08 A b h _ Sem.HeapU.driverOracle_flat n externs

/-- `if not {} then f() elseif {1} then g() else h() end` -/
def ifAllocSample : Block :=
  .mk [.ifs [(.un .not (.table []), .mk [.callStmt (.call (.var "f") none .tuple [])] none),
             (.table [.pos (.num 1)], .mk [.callStmt (.call (.var "g") none .tuple [])] none)]
        (some (.mk [.callStmt (.call (.var "h") none .tuple [])] none))] none

-- non-vacuity: a false and then a true allocating condition; the statement becomes `do g() end`
example : Rules.UnusedIfBranch.applyGA (gApiA C08.toyN C08.toyE) (gApi C08.toyN C08.toyE) ifAllocSample =
      Rules.UnusedIfBranch.apply (c08Api C08.toyN C08.toyE) ifAllocSample ∧
    Rules.UnusedIfBranch.apply (c08Api C08.toyN C08.toyE) ifAllocSample =
      .mk [.doBlock (.mk [.callStmt (.call (.var "g") none .tuple [])] none)] none ∧
    Rules.UnusedIfBranch.apply (gApi C08.toyN C08.toyE) ifAllocSample = ifAllocSample := by
  have h1 : Rules.UnusedIfBranch.applyGA (gApiA C08.toyN C08.toyE) (gApi C08.toyN C08.toyE) ifAllocSample =
      .mk [.doBlock (.mk [.callStmt (.call (.var "g") none .tuple [])] none)] none := by rfl
  have h2 : Rules.UnusedIfBranch.apply (c08Api C08.toyN C08.toyE) ifAllocSample =
      .mk [.doBlock (.mk [.callStmt (.call (.var "g") none .tuple [])] none)] none := by rfl
  have h3 : Rules.UnusedIfBranch.apply (gApi C08.toyN C08.toyE) ifAllocSample = ifAllocSample := by rfl
  exact ⟨h1.trans h2.symm, h2, h3⟩

end DarkluaModel.C01
