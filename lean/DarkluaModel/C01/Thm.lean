import DarkluaModel.Rules.EmptyDo
import DarkluaModel.Shared.VisitorSound
/-!
# C01 — default rules preserve program behaviour: property theorems

Reference semantics: `Shared/Sem.lean` (`Sem.execB`, all number systems `N`, all external-call
oracles `ρ`, all call handlers, all loop/call-back bounds `k`, all environments and states).
Rule models: `Rules/*.lean`, executed by the driver (`c01.rule`) and compared with the real
`Rule::process` on every run.
-/
namespace DarkluaModel.C01
open Sem

/-- `remove_empty_do`: the rewrite performed at every block (dropping `do end` statements)
yields a block with exactly the same denotation — same control outcome, same state, same
trace — in every context, whatever the processor's `mutated` flag. -/
theorem remove_empty_do_hook_exact {N : NumOps} (call : CallFn N) (ρ : ExtOracle N) (k : Nat)
    (env : Env N) (b : Block) (mutated : Bool) (σ : State N) :
    execB call ρ k env (Rules.EmptyDo.processBlock b mutated).1 σ = execB call ρ k env b σ :=
  Rules.EmptyDo.processBlock_sound call ρ k env b mutated σ

-- non-vacuity: the hook really removes something on a concrete block
example :
    (Rules.EmptyDo.processBlock
      (.mk [.doBlock (.mk [] none), .callStmt (.call (.var "f") none .tuple [])] none) false).1
      = .mk [.callStmt (.call (.var "f") none .tuple [])] none := by
  simp [Rules.EmptyDo.processBlock, Rules.EmptyDo.filterStmts, Rules.EmptyDo.blockIsEmpty]

/-- **Whole rule, every program**: running `remove_empty_do` (all its visitor passes) on ANY block gives
a program with the same observable outcome — returned values, raised error, external-call trace — at
every call level, for every number system, external-call oracle and set of external functions.
(Lifted from the hook lemma by the generic visitor theorem `Shared/VisitorSound.lean`.) -/
theorem rule_refines_remove_empty_do (b : Block) {N : NumOps} (ρ : ExtOracle N) (n : Nat)
    (externs : List String) :
    runProgram ρ n externs (Rules.EmptyDo.apply b) = runProgram ρ n externs b :=
  Rules.EmptyDo.apply_refines b ρ n externs

/-- `pipeline_refines`: any list of block transformations that each preserve the observable outcome
of every program (any selection of rules, any order, repetitions allowed) preserves it as a whole. -/
theorem pipeline_refines (rules : List (Block → Block))
    (h : ∀ r ∈ rules, ∀ (b : Block) {N : NumOps} (ρ : ExtOracle N) (n : Nat) (externs : List String),
      runProgram ρ n externs (r b) = runProgram ρ n externs b)
    (b : Block) {N : NumOps} (ρ : ExtOracle N) (n : Nat) (externs : List String) :
    runProgram ρ n externs (rules.foldl (fun acc r => r acc) b) = runProgram ρ n externs b := by
  induction rules generalizing b with
  | nil => rfl
  | cons r rest ih =>
    simp only [List.foldl_cons]
    rw [ih (fun r' hr' => h r' (List.mem_cons_of_mem _ hr')) (r b)]
    exact h r (List.mem_cons_self ..) b ρ n externs

-- non-vacuity: the pipeline [remove_empty_do, remove_empty_do] satisfies the hypothesis
example (b : Block) {N : NumOps} (ρ : ExtOracle N) (n : Nat) (externs : List String) :
    runProgram ρ n externs ([Rules.EmptyDo.apply, Rules.EmptyDo.apply].foldl (fun acc r => r acc) b)
      = runProgram ρ n externs b :=
  pipeline_refines _ (by
    intro r hr b N ρ n externs
    simp at hr
    subst hr
    exact rule_refines_remove_empty_do b ρ n externs) b ρ n externs

end DarkluaModel.C01
