import DarkluaModel.Rules.EmptyDo
/-!
# C01 — default rules preserve program behaviour: property theorems

Reference semantics: `Shared/Sem.lean` (`Sem.execB`, all number systems `N`, all external-call
oracles `ρ`, all call handlers, all loop/call-back bounds `k`, all environments and states).
Rule models: `Rules/*.lean`, executed by the driver (`c01.rule`) and compared with the real
`Rule::process` on every run.
-/
namespace DarkluaModel.C01
open Sem

/-- `remove_empty_do`: the rewrite performed at every block (dropping `do end` statements)
yields a block with exactly the same denotation — same control outcome, same state, same
trace — in every context, whatever the processor's `mutated` flag. -/
theorem remove_empty_do_hook_exact {N : NumOps} (call : CallFn N) (ρ : ExtOracle N) (k : Nat)
    (env : Env N) (b : Block) (mutated : Bool) (σ : State N) :
    execB call ρ k env (Rules.EmptyDo.processBlock b mutated).1 σ = execB call ρ k env b σ :=
  Rules.EmptyDo.processBlock_sound call ρ k env b mutated σ

-- non-vacuity: the hook really removes something on a concrete block
example :
    (Rules.EmptyDo.processBlock
      (.mk [.doBlock (.mk [] none), .callStmt (.call (.var "f") none .tuple [])] none) false).1
      = .mk [.callStmt (.call (.var "f") none .tuple [])] none := by
  simp [Rules.EmptyDo.processBlock, Rules.EmptyDo.filterStmts, Rules.EmptyDo.blockIsEmpty]

end DarkluaModel.C01
