import DarkluaModel.C07.CoverProof
import DarkluaModel.C07.Census
/-!
# C07 — the empty census, and `Visitor.fuelFor` is enough
-/
namespace DarkluaModel.C07
open DarkluaModel.Rules Visitor

/-- the census that counts nothing -/
abbrev Z : Census := {}

mutual
  theorem zTy : ∀ t : Ty, countTy Z t = 0
    | .mk _ kids => by simp [countTy, zTys kids]
    | .typeof e => by simp [countTy, zE e]
  theorem zTys : ∀ ts : List Ty, countTys Z ts = 0
    | [] => by simp [countTys]
    | t :: ts => by simp [countTys, zTy t, zTys ts]
  theorem zOTy : ∀ t : Option Ty, countOTy Z t = 0
    | none => by simp [countOTy]
    | some t => by simp [countOTy, zTy t]
  theorem zTN : ∀ t : TName, countTN Z t = 0
    | .mk _ ty => by simp [countTN, zOTy ty]
  theorem zTNs : ∀ ts : List TName, countTNs Z ts = 0
    | [] => by simp [countTNs]
    | t :: ts => by simp [countTNs, zTN t, zTNs ts]
  theorem zE : ∀ e : Expr, countE Z e = 0
    | .nil | .true | .false | .vararg | .num _ | .str _ | .var _ => by simp [countE]
    | .paren e => by simp [countE, zE e]
    | .un _ e => by simp [countE, zE e]
    | .bin _ l r => by simp [countE, zE l, zE r]
    | .call f _ _ args => by simp [countE, zE f, zEs args]
    | .field e _ => by simp [countE, zE e]
    | .index e k => by simp [countE, zE e, zE k]
    | .fn body => by simp [countE, zF body]
    | .table es => by simp [countE, zEntries es]
    | .ifx c t elifs e => by simp [countE, zE c, zE t, zPairs elifs, zE e]
    | .interp segs => by simp [countE, zSegs segs]
    | .cast e ty => by simp [countE, zE e, zTy ty]
    | .inst e tys => by simp [countE, zE e, zTys tys]
  theorem zEs : ∀ es : List Expr, countEs Z es = 0
    | [] => by simp [countEs]
    | e :: es => by simp [countEs, zE e, zEs es]
  theorem zOE : ∀ e : Option Expr, countOE Z e = 0
    | none => by simp [countOE]
    | some e => by simp [countOE, zE e]
  theorem zPairs : ∀ ps : List (Expr × Expr), countPairs Z ps = 0
    | [] => by simp [countPairs]
    | (a, b) :: rest => by simp [countPairs, zE a, zE b, zPairs rest]
  theorem zEntry : ∀ e : Entry, countEntry Z e = 0
    | .pos v => by simp [countEntry, zE v]
    | .named _ v => by simp [countEntry, zE v]
    | .keyed k v => by simp [countEntry, zE k, zE v]
  theorem zEntries : ∀ es : List Entry, countEntries Z es = 0
    | [] => by simp [countEntries]
    | e :: es => by simp [countEntries, zEntry e, zEntries es]
  theorem zSeg : ∀ e : Seg, countSeg Z e = 0
    | .s _ => by simp [countSeg]
    | .v e => by simp [countSeg, zE e]
  theorem zSegs : ∀ es : List Seg, countSegs Z es = 0
    | [] => by simp [countSegs]
    | e :: es => by simp [countSegs, zSeg e, zSegs es]
  theorem zF : ∀ f : FnBody, countF Z f = 0
    | .mk params _ varTy ret _ _ body => by simp [countF, zTNs params, zOTy varTy, zOTy ret, zB body]
  theorem zS : ∀ s : Stmt, countS Z s = 0
    | .assign ts vs => by simp [countS, zEs ts, zEs vs]
    | .cassign _ t v => by simp [countS, zE t, zE v]
    | .callStmt c => by simp [countS, zE c]
    | .doBlock b => by simp [countS, zB b]
    | .function _ _ body => by simp [countS, zF body]
    | .gfor names vs body => by simp [countS, zTNs names, zEs vs, zB body]
    | .nfor name a b step body => by simp [countS, zTN name, zE a, zE b, zOE step, zB body]
    | .ifs branches els => by simp [countS, zBranches branches, zOB els]
    | .localAssign _ names vs => by simp [countS, zTNs names, zEs vs]
    | .localFn _ _ body => by simp [countS, zF body]
    | .repeat_ b c => by simp [countS, zB b, zE c]
    | .while_ c b => by simp [countS, zE c, zB b]
    | .typeDecl _ _ ty => by simp [countS, zTy ty]
    | .typeFn _ _ body => by simp [countS, zF body]
  theorem zBranches : ∀ bs : List (Expr × Block), countBranches Z bs = 0
    | [] => by simp [countBranches]
    | (c, b) :: rest => by simp [countBranches, zE c, zB b, zBranches rest]
  theorem zSs : ∀ ss : List Stmt, countSs Z ss = 0
    | [] => by simp [countSs]
    | s :: ss => by simp [countSs, zS s, zSs ss]
  theorem zL : ∀ l : Last, countL Z l = 0
    | .ret es => by simp [countL, zEs es]
    | .brk => by simp [countL]
    | .cont => by simp [countL]
  theorem zOL : ∀ l : Option Last, countOL Z l = 0
    | none => by simp [countOL]
    | some l => by simp [countOL, zL l]
  theorem zOB : ∀ b : Option Block, countOB Z b = 0
    | none => by simp [countOB]
    | some b => by simp [countOB, zB b]
  theorem zB : ∀ b : Block, countB Z b = 0
    | .mk stmts last => by simp [countB, zSs stmts, zOL last]
end


/-! ### `Visitor.fuelFor` is enough when no weight exceeds 6 (and if-expressions cost nothing) -/

theorem Expr.size_pos (e : Expr) : 1 ≤ e.size := by
  cases e <;> simp only [Expr.size] <;> omega

theorem sizePairs_ge : ∀ ps : List (Expr × Expr), 2 * ps.length ≤ Expr.sizePairs ps
  | [] => by simp [Expr.sizePairs]
  | (a, b) :: rest => by
    have := sizePairs_ge rest
    have := Expr.size_pos a
    have := Expr.size_pos b
    simp only [Expr.sizePairs, List.length_cons]; omega

section fuel
variable (W : Weights) (hb : ∀ op, W.bin op ≤ 6) (hi : W.interp ≤ 6) (hx : W.ifx ≤ 13) (hc : W.cassign ≤ 6)
  (hct : W.cont ≤ 6)
include hb hi hx hc hct

mutual
  theorem fTy : ∀ t : Ty, kTy W t + 1 ≤ 8 * t.size
    | .mk _ kids => by have := fTys kids; simp only [kTy, Ty.size]; omega
    | .typeof e => by have := fE e; simp only [kTy, Ty.size]; omega
  theorem fTys : ∀ ts : List Ty, kTys W ts ≤ 8 * Ty.sizeList ts
    | [] => by simp [kTys, Ty.sizeList]
    | t :: ts => by have := fTy t; have := fTys ts; simp only [kTys, Ty.sizeList]; omega
  theorem fOTy : ∀ t : Option Ty, kOTy W t ≤ 8 * Ty.sizeOpt t
    | none => by simp [kOTy, Ty.sizeOpt]
    | some t => by have := fTy t; simp only [kOTy, Ty.sizeOpt]; omega
  theorem fTN : ∀ t : TName, kTN W t ≤ 8 * t.size
    | .mk _ ty => by have := fOTy ty; simp only [kTN, TName.size]; omega
  theorem fTNs : ∀ ts : List TName, kTNs W ts ≤ 8 * TName.sizeList ts
    | [] => by simp [kTNs, TName.sizeList]
    | t :: ts => by have := fTN t; have := fTNs ts; simp only [kTNs, TName.sizeList]; omega
  theorem fE : ∀ e : Expr, kE W e + 2 ≤ 8 * e.size
    | .nil | .true | .false | .vararg | .num _ | .str _ | .var _ => by simp [kE, Expr.size]
    | .paren e => by have := fE e; simp only [kE, Expr.size]; omega
    | .un _ e => by have := fE e; simp only [kE, Expr.size]; omega
    | .bin op l r => by have := fE l; have := fE r; have := hb op; simp only [kE, Expr.size]; omega
    | .call f _ _ args => by have := fE f; have := fEs args; simp only [kE, Expr.size]; omega
    | .field e _ => by have := fE e; simp only [kE, Expr.size]; omega
    | .index e k => by have := fE e; have := fE k; simp only [kE, Expr.size]; omega
    | .fn body => by have := fF body; simp only [kE, Expr.size]; omega
    | .table es => by have := fEntries es; simp only [kE, Expr.size]; omega
    | .ifx c t elifs e => by
      have := fE c; have := fE t; have := fPairs elifs; have := fE e
      have := Expr.size_pos c; have := Expr.size_pos t; have := Expr.size_pos e
      have := sizePairs_ge elifs
      have := Nat.mul_le_mul_right (elifs.length + 1) hx
      simp only [kE, Expr.size]; omega
    | .interp segs => by have := fSegs segs; simp only [kE, Expr.size]; omega
    | .cast e ty => by have := fE e; have := fTy ty; simp only [kE, Expr.size]; omega
    | .inst e tys => by have := fE e; have := fTys tys; simp only [kE, Expr.size]; omega
  theorem fEs : ∀ es : List Expr, kEs W es ≤ 8 * Expr.sizeList es
    | [] => by simp [kEs, Expr.sizeList]
    | e :: es => by have := fE e; have := fEs es; simp only [kEs, Expr.sizeList]; omega
  theorem fOE : ∀ e : Option Expr, kOE W e ≤ 8 * Expr.sizeOpt e
    | none => by simp [kOE, Expr.sizeOpt]
    | some e => by have := fE e; simp only [kOE, Expr.sizeOpt]; omega
  theorem fPairs : ∀ ps : List (Expr × Expr), kPairs W ps + 16 * ps.length ≤ 8 * Expr.sizePairs ps + 8
    | [] => by simp [kPairs, Expr.sizePairs]
    | (a, b) :: rest => by
      have := fE a; have := fE b; have := fPairs rest
      have := Expr.size_pos a; have := Expr.size_pos b; have := sizePairs_ge rest
      simp only [kPairs, Expr.sizePairs, List.length_cons]; omega
  theorem fEntry : ∀ e : Entry, kEntry W e + 1 ≤ 8 * e.size
    | .pos v => by have := fE v; simp only [kEntry, Entry.size]; omega
    | .named _ v => by have := fE v; simp only [kEntry, Entry.size]; omega
    | .keyed k v => by have := fE k; have := fE v; simp only [kEntry, Entry.size]; omega
  theorem fEntries : ∀ es : List Entry, kEntries W es ≤ 8 * Entry.sizeList es
    | [] => by simp [kEntries, Entry.sizeList]
    | e :: es => by have := fEntry e; have := fEntries es; simp only [kEntries, Entry.sizeList]; omega
  theorem fSeg : ∀ e : Seg, kSeg W e + 1 ≤ 8 * e.size
    | .s _ => by simp [kSeg, Seg.size]
    | .v e => by have := fE e; simp only [kSeg, Seg.size]; omega
  theorem fSegs : ∀ es : List Seg, kSegs W es ≤ 8 * Seg.sizeList es
    | [] => by simp [kSegs, Seg.sizeList]
    | e :: es => by have := fSeg e; have := fSegs es; simp only [kSegs, Seg.sizeList]; omega
  theorem fF : ∀ f : FnBody, kF W f + 1 ≤ 8 * f.size
    | .mk params _ varTy ret _ _ body => by
      have := fTNs params; have := fOTy varTy; have := fOTy ret; have := fB body
      simp only [kF, FnBody.size]; omega
  theorem fS : ∀ s : Stmt, kS W s + 1 ≤ 8 * s.size
    | .assign ts vs => by have := fEs ts; have := fEs vs; simp only [kS, Stmt.size]; omega
    | .cassign _ t v => by have := fE t; have := fE v; simp only [kS, Stmt.size]; omega
    | .callStmt c => by have := fE c; simp only [kS, Stmt.size]; omega
    | .doBlock b => by have := fB b; simp only [kS, Stmt.size]; omega
    | .function _ _ body => by have := fF body; simp only [kS, Stmt.size]; omega
    | .gfor names vs body => by
      have := fTNs names; have := fEs vs; have := fB body; simp only [kS, Stmt.size]; omega
    | .nfor name a b step body => by
      have := fTN name; have := fE a; have := fE b; have := fOE step; have := fB body
      simp only [kS, Stmt.size]; omega
    | .ifs branches els => by have := fBranches branches; have := fOB els; simp only [kS, Stmt.size]; omega
    | .localAssign _ names vs => by have := fTNs names; have := fEs vs; simp only [kS, Stmt.size]; omega
    | .localFn _ _ body => by have := fF body; simp only [kS, Stmt.size]; omega
    | .repeat_ b c => by have := fB b; have := fE c; simp only [kS, Stmt.size]; omega
    | .while_ c b => by have := fE c; have := fB b; simp only [kS, Stmt.size]; omega
    | .typeDecl _ _ ty => by have := fTy ty; simp only [kS, Stmt.size]; omega
    | .typeFn _ _ body => by have := fF body; simp only [kS, Stmt.size]; omega
  theorem fBranches : ∀ bs : List (Expr × Block), kBranches W bs ≤ 8 * Stmt.sizeBranches bs
    | [] => by simp [kBranches, Stmt.sizeBranches]
    | (c, b) :: rest => by
      have := fE c; have := fB b; have := fBranches rest; simp only [kBranches, Stmt.sizeBranches]; omega
  theorem fSs : ∀ ss : List Stmt, kSs W ss ≤ 8 * Stmt.sizeList ss
    | [] => by simp [kSs, Stmt.sizeList]
    | s :: ss => by have := fS s; have := fSs ss; simp only [kSs, Stmt.sizeList]; omega
  theorem fL : ∀ l : Last, kL W l + 1 ≤ 8 * l.size
    | .ret es => by have := fEs es; simp only [kL, Last.size]; omega
    | .brk => by simp [kL, Last.size]
    | .cont => by simp only [kL, Last.size]; omega
  theorem fOB : ∀ b : Option Block, kOB W b ≤ 8 * Block.sizeOpt b
    | none => by simp [kOB, Block.sizeOpt]
    | some b => by have := fB b; simp only [kOB, Block.sizeOpt]; omega
  theorem fB : ∀ b : Block, kB W b + 1 ≤ 8 * b.size
    | .mk stmts none => by have := fSs stmts; simp only [kB, kOL, Block.size]; omega
    | .mk stmts (some l) => by have := fSs stmts; have := fL l; simp only [kB, kOL, Block.size]; omega
end

/-- the fuel `Visitor.runDefault` / `runScoped` provide is enough -/
theorem fuelFor_enough (b : Block) : kB W b + 1 ≤ Visitor.fuelFor b := by
  have := fB W hb hi hx hc hct b
  unfold Visitor.fuelFor
  omega
end fuel


end DarkluaModel.C07
