import DarkluaModel.Util.Sexp
/-! Line-protocol handlers for property C07 (stub: nothing modelled yet). -/
namespace DarkluaModel.C07

def handle (op : String) (_args : List String) : String :=
  "unknown-op " ++ op

end DarkluaModel.C07
