import DarkluaModel.C06.Driver
/-! Line-protocol handlers for property C07: the same ops as `c06.*` (`rule`, `rules`, `all`,
`census`, `wf`, `hyp`) — both properties are about the same rule models. -/
namespace DarkluaModel.C07

def handle (op : String) (args : List String) : String := C06.handle op args

end DarkluaModel.C07
