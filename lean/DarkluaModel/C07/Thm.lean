import DarkluaModel.C07.Instances
/-!
# C07 — each Luau-lowering rule removes every occurrence of its construct: property theorems

`census_<construct>` (C07/Model.lean) counts the construct over EVERY syntactic position of the
shared AST. The theorems are about the rule models the driver executes (`Rules/*.lean`,
compared tree-for-tree with the real `Rule::process` on every run) and hold for ALL blocks `b`
that darklua's own AST types can express (`Rules.wfB`: the shared AST folds `Prefix`/`Variable`
into `Expr`; e.g. an if-expression directly in prefix position exists in Lean but not in darklua —
the harness checks `wfB` on every parsed tree).

All of them are instances of the generic coverage theorem `cover_block` (C07/Cover.lean: the
visitor reaches every node whatever the nesting) plus `fuelFor_enough` (the fuel of
`Visitor.runDefault`/`runScoped` suffices).
-/
namespace DarkluaModel.C07
open DarkluaModel.Rules

/-- `make_assignment_local`: no `const` declaration is left, wherever it was nested. -/
theorem census_zero_make_assignment_local (b : Block) (hw : wfB b = true) :
    census_const (MakeAssignmentLocal.apply b) = 0 :=
  cover_block MakeAssignmentLocal.processor false constCensus Z {} _ cover_make_assignment_local _ b ()
    hw (zB b) (fuelFor_enough {} (fun _ => Nat.zero_le _) (Nat.zero_le _) rfl (Nat.zero_le _) (Nat.zero_le _) b)

-- non-vacuity: a well-formed block with a `const` nested in a function inside a table constructor
example : wfB (.mk [.callStmt (.call (.var "f") none .tuple
    [.table [.pos (.fn (.mk [] false none none [] [] (.mk [.localAssign .const [.mk "x" none] [.nil]] none)))]])] none) = true := by
  decide
example : census_const (.mk [.callStmt (.call (.var "f") none .tuple
    [.table [.pos (.fn (.mk [] false none none [] [] (.mk [.localAssign .const [.mk "x" none] [.nil]] none)))]])] none) = 1 := by
  decide

/-- `remove_attribute` (no `match` filter): no function attribute is left. -/
theorem census_zero_remove_attribute (b : Block) (hw : wfB b = true) :
    census_attribute (RemoveAttribute.apply b) = 0 :=
  cover_block RemoveAttribute.processor false attributeCensus Z {} _ cover_remove_attribute _ b ()
    hw (zB b) (fuelFor_enough {} (fun _ => Nat.zero_le _) (Nat.zero_le _) rfl (Nat.zero_le _) (Nat.zero_le _) b)

example : census_attribute (.mk [.localFn .loc "f" (.mk [] false none none [] ["native"]
    (.mk [] (some (.ret [.fn (.mk [] false none none [] ["native", "checked"] (.mk [] none))]))))] none) = 3 := by
  decide

/-- the fuel hypothesis of the if-expression theorem (decidable; the driver answers it as
`c06.fuelok`, and the harness checks it on every program it uses): the weighted depth of the
block — 13 extra levels per if-expression branch, the depth of the `(c and {r} or {e})[1]`
skeleton — fits in `Visitor.fuelFor`. It can only fail for chains of more than ~2 `elseif`s per
unit of tree size, which no program has; the general proof of this arithmetic fact is not done. -/
def ifFuelOk (b : Block) : Prop := kB Wifx b + 1 ≤ Visitor.fuelFor b

instance (b : Block) : Decidable (ifFuelOk b) := inferInstanceAs (Decidable (_ ≤ _))

/-- `remove_if_expression`: no if-expression is left, whatever the verdicts `truthy` of the
static evaluator (both encodings), wherever it was nested (conditions, branches of another
if-expression, `typeof(…)`, …). -/
theorem census_zero_remove_if_expression (truthy : Expr → Bool) (b : Block) (hw : wfB b = true)
    (hf : ifFuelOk b) : census_if_expression (RemoveIfExpression.apply truthy b) = 0 :=
  cover_block (RemoveIfExpression.processor truthy) false ifExpressionCensus Z Wifx _
    (cover_remove_if_expression truthy) _ b () hw (zB b) hf

example : wfB (.mk [] (some (.ret [.ifx (.var "a") (.ifx .true .nil [] .false) [(.var "b", .num 0)] (.var "c")]))) = true ∧
    ifFuelOk (.mk [] (some (.ret [.ifx (.var "a") (.ifx .true .nil [] .false) [(.var "b", .num 0)] (.var "c")]))) := by
  decide

/-- `convert_luau_number`: the shared AST has no Luau-only number spelling to count (literals
carry their value only); the harness counts `0b…` / `_` on the real tree and text instead. -/
theorem census_zero_convert_luau_number (b : Block) :
    census_luau_number (ConvertLuauNumber.apply b) = 0 := rfl

end DarkluaModel.C07
