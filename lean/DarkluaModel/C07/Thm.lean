import DarkluaModel.C07.Model
/-!
# C07 — each Luau-lowering rule removes every occurrence of its construct: property theorems
-/
namespace DarkluaModel.C07
open DarkluaModel.Rules

/-- `convert_luau_number`: the shared AST has no Luau-only number spelling to count. -/
theorem census_zero_convert_luau_number (b : Block) :
    census_luau_number (ConvertLuauNumber.apply b) = 0 := rfl

end DarkluaModel.C07
