import DarkluaModel.C07.Inst.Wf
import DarkluaModel.C07.Inst.FloorDivFull
import DarkluaModel.C07.ContinueProof
/-!
# C07 — each Luau-lowering rule removes every occurrence of its construct: property theorems

`census_<construct>` (C07/Model.lean) counts the construct over EVERY syntactic position of the
shared AST. The theorems are about the rule models the driver executes (`Rules/*.lean`, compared
tree-for-tree with the real `Rule::process` on every run) and hold for ALL blocks `b` that
darklua's own AST types can express (`Rules.wfB`: the shared AST folds `Prefix`/`Variable` into
`Expr`; the harness checks `wfB` on every parsed tree).

Eight of them are instances of the generic coverage theorem `cover_block` (C07/CoverProof.lean:
the visitor reaches every node whatever the nesting), `remove_continue` has its own traversal
proof (its hooks depend on the loop stack); `fuelFor_enough`: the fuel of
`Visitor.runDefault`/`runScoped` suffices; `wf_block`: the rules keep blocks well-formed (needed
to chain them in `all_lowered_is_51`).
-/
namespace DarkluaModel.C07
open DarkluaModel.Rules Visitor

/-! ### helpers: from `Cover` to statements about `apply` -/

theorem count_left {A B : Census} {b : Block} (h : countB (A.add B) b = 0) : countB A b = 0 := by
  rw [addB] at h; omega

theorem count_right {A B : Census} {b : Block} (h : countB (A.add B) b = 0) : countB B b = 0 := by
  rw [addB] at h; omega

theorem small (W : Weights) (hb : ∀ op, W.bin op ≤ 6) (hi : W.interp ≤ 6) (hx : W.ifx ≤ 13) (hc : W.cassign ≤ 6)
    (hct : W.cont ≤ 6) (b : Block) : kB W b + 1 ≤ Visitor.fuelFor b :=
  fuelFor_enough W hb hi hx hc hct b

theorem count_insertFirst (C : Census) (d : Stmt) (b : Block) : countB C (insertFirst d b) = countS C d + countB C b := by
  cases b; simp only [insertFirst, countB, countSs]; omega

theorem wf_insertFirst (d : Stmt) (b : Block) (hd : wfS d = true) (hb : wfB b = true) : wfB (insertFirst d b) = true := by
  cases b; simp_all [insertFirst, wfB, wfSs]

/-! ### the nine rules, each with an accumulator `A`: what was already removed stays removed -/

section acc
variable (A : Census)

theorem types_acc (b : Block) (hw : wfB b = true) (hA : countB A b = 0) :
    countB (typesCensus.add A) (RemoveTypes.apply b) = 0 ∧ wfB (RemoveTypes.apply b) = true :=
  ⟨cover_block RemoveTypes.processor false _ A {} _ (cover_remove_types A) _ b () hw hA
      (small {} (fun _ => Nat.zero_le _) (Nat.zero_le _) (Nat.zero_le _) (Nat.zero_le _) (Nat.zero_le _) b),
    wf_block RemoveTypes.processor false wfHooks_remove_types _ true b () hw⟩

theorem compound_acc (hop : ∀ op, A.bin op = 0) (hl : A.localKind .loc = 0) (b : Block) (hw : wfB b = true)
    (hA : countB A b = 0) :
    countB (compoundCensus.add A) (RemoveCompoundAssign.apply b) = 0 ∧ wfB (RemoveCompoundAssign.apply b) = true :=
  ⟨cover_block RemoveCompoundAssign.processor true _ A Wcompound _ (cover_remove_compound_assignment A hop hl) _ b _ hw hA
      (small Wcompound (fun _ => Nat.zero_le _) (Nat.zero_le _) (Nat.zero_le _) (by decide) (Nat.zero_le _) b),
    wf_block RemoveCompoundAssign.processor true wfHooks_remove_compound_assignment _ true b _ hw⟩

theorem ifexpr_acc (truthy : Expr → Bool) (hor : A.bin .or = 0) (hand : A.bin .and = 0) (b : Block)
    (hw : wfB b = true) (hA : countB A b = 0) :
    countB (ifExpressionCensus.add A) (RemoveIfExpression.apply truthy b) = 0 ∧
      wfB (RemoveIfExpression.apply truthy b) = true :=
  ⟨cover_block (RemoveIfExpression.processor truthy) false _ A Wifx _ (cover_remove_if_expression A truthy hor hand) _ b ()
      hw hA (small Wifx (fun _ => Nat.zero_le _) (Nat.zero_le _) (by decide) (Nat.zero_le _) (Nat.zero_le _) b),
    wf_block (RemoveIfExpression.processor truthy) false (wfHooks_remove_if_expression truthy) _ true b () hw⟩

theorem interp_acc (strategy : RemoveInterpolatedString.Strategy) (hl : A.localKind .loc = 0) (b : Block)
    (hw : wfB b = true) (hA : countB A b = 0) :
    countB (interpolatedStringCensus.add A) (RemoveInterpolatedString.applyWith strategy b) = 0 ∧
      wfB (RemoveInterpolatedString.applyWith strategy b) = true := by
  have h1 := cover_block (RemoveInterpolatedString.processor strategy) true _ A Winterp _
    (cover_remove_interpolated_string A strategy) _ b {} hw hA
    (small Winterp (fun _ => Nat.zero_le _) (by decide) (Nat.zero_le _) (Nat.zero_le _) (Nat.zero_le _) b)
  have h2 := wf_block (RemoveInterpolatedString.processor strategy) true
    (wfHooks_remove_interpolated_string strategy) (Visitor.fuelFor b) true b {} hw
  unfold RemoveInterpolatedString.applyWith Visitor.runScoped
  generalize Visitor.visitBlock (RemoveInterpolatedString.processor strategy) true (Visitor.fuelFor b) true b {} = r
    at h1 h2
  obtain ⟨b1, s⟩ := r
  simp only at h1 h2 ⊢
  cases hd : RemoveInterpolatedString.definitions s with
  | none => exact ⟨h1, h2⟩
  | some d =>
    have hd' : ∃ names vals, d = .localAssign .loc names vals ∧ wfTNs names = true ∧ wfEs vals = true ∧
        (∀ C : Census, countTNs C names = 0 ∧ countEs C vals = 0) := by
      unfold RemoveInterpolatedString.definitions at hd
      split at hd
      · simp only [Option.some.injEq] at hd
        refine ⟨_, _, hd.symm, ?_, ?_, ?_⟩
        · split <;> split <;> simp [wfTNs, wfTN, wfOTy]
        · split <;> split <;> simp [wfEs, wfE, isPrefix]
        · intro C; constructor
          · split <;> split <;> simp [countTNs, countTN, countOTy]
          · split <;> split <;> simp [countEs, countE]
      · simp at hd
    obtain ⟨names, vals, rfl, hn, hv, hc⟩ := hd'
    simp only []
    refine ⟨?_, wf_insertFirst _ _ (by simp [wfS, hn, hv]) h2⟩
    rw [count_insertFirst]
    have hz : (interpolatedStringCensus.add A).localKind .loc = 0 := by rw [add_localKind, hl]; rfl
    simp only [countS, (hc _).1, (hc _).2, hz]
    omega

theorem floordiv_acc (hop : ∀ op, A.bin op = 0) (hl : A.localKind .loc = 0) (b : Block)
    (hw : wfB b = true) (hA : countB A b = 0) :
    countB (floorDivisionCensus.add A) (RemoveFloorDivision.apply b) = 0 ∧
      wfB (RemoveFloorDivision.apply b) = true := by
  have h1 := cover_block RemoveFloorDivision.processor true _ A WfloorC _
    (cover_remove_floor_division_full A hop hl) _ b {} hw hA
    (small WfloorC (fun op => by simp only [WfloorC]; split <;> omega) (Nat.zero_le _) (Nat.zero_le _) (by decide)
      (Nat.zero_le _) b)
  have h2 := wf_block RemoveFloorDivision.processor true wfHooks_remove_floor_division (Visitor.fuelFor b) true b {} hw
  unfold RemoveFloorDivision.apply Visitor.runScoped
  generalize Visitor.visitBlock RemoveFloorDivision.processor true (Visitor.fuelFor b) true b {} = r at h1 h2
  obtain ⟨b1, s⟩ := r
  simp only at h1 h2 ⊢
  split
  · refine ⟨?_, wf_insertFirst _ _ (by simp [RemoveFloorDivision.definition, wfS, wfTNs, wfTN, wfOTy, wfEs, wfE, isPrefix]) h2⟩
    rw [count_insertFirst]
    have hz : (floorDivisionCensus.add A).localKind .loc = 0 := by rw [add_localKind, hl]; rfl
    simp only [RemoveFloorDivision.definition, countS, countTNs, countTN, countOTy, countEs, countE, hz]
    omega
  · exact ⟨h1, h2⟩

omit A in
theorem wf_apply_floor_division (b : Block) (hw : wfB b = true) : wfB (RemoveFloorDivision.apply b) = true := by
  have h2 := wf_block RemoveFloorDivision.processor true wfHooks_remove_floor_division (Visitor.fuelFor b) true b {} hw
  unfold RemoveFloorDivision.apply Visitor.runScoped
  generalize Visitor.visitBlock RemoveFloorDivision.processor true (Visitor.fuelFor b) true b {} = r at h2
  obtain ⟨b1, s⟩ := r
  simp only at h2 ⊢
  split
  · exact wf_insertFirst _ _ (by simp [RemoveFloorDivision.definition, wfS, wfTNs, wfTN, wfOTy, wfEs, wfE, isPrefix]) h2
  · exact h2

theorem number_acc (b : Block) (hw : wfB b = true) (hA : countB A b = 0) :
    countB (Z.add A) (ConvertLuauNumber.apply b) = 0 ∧ wfB (ConvertLuauNumber.apply b) = true :=
  ⟨cover_block ConvertLuauNumber.processor false _ A {} _ (cover_convert_luau_number A) _ b () hw hA
      (small {} (fun _ => Nat.zero_le _) (Nat.zero_le _) (Nat.zero_le _) (Nat.zero_le _) (Nat.zero_le _) b),
    wf_block ConvertLuauNumber.processor false wfHooks_convert_luau_number _ true b () hw⟩

theorem const_acc (hl : A.localKind .loc = 0) (b : Block) (hw : wfB b = true) (hA : countB A b = 0) :
    countB (constCensus.add A) (MakeAssignmentLocal.apply b) = 0 ∧ wfB (MakeAssignmentLocal.apply b) = true :=
  ⟨cover_block MakeAssignmentLocal.processor false _ A {} _ (cover_make_assignment_local A hl) _ b () hw hA
      (small {} (fun _ => Nat.zero_le _) (Nat.zero_le _) (Nat.zero_le _) (Nat.zero_le _) (Nat.zero_le _) b),
    wf_block MakeAssignmentLocal.processor false wfHooks_make_assignment_local _ true b () hw⟩

theorem attribute_acc (b : Block) (hw : wfB b = true) (hA : countB A b = 0) :
    countB (attributeCensus.add A) (RemoveAttribute.apply b) = 0 ∧ wfB (RemoveAttribute.apply b) = true :=
  ⟨cover_block RemoveAttribute.processor false _ A {} _ (cover_remove_attribute A) _ b () hw hA
      (small {} (fun _ => Nat.zero_le _) (Nat.zero_le _) (Nat.zero_le _) (Nat.zero_le _) (Nat.zero_le _) b),
    wf_block RemoveAttribute.processor false wfHooks_remove_attribute _ true b () hw⟩

end acc

theorem continue_main (b : Block) (hw : wfB b = true) (hok : continueInLoops b = true) :
    countB continueCensus (RemoveContinue.apply b) = 0 ∧ wfB (RemoveContinue.apply b) = true :=
  ⟨((clevel_all onlyCont_continueCensus (Visitor.fuelFor b)).block true b {} hok
      (small Wcont (fun _ => Nat.zero_le _) (Nat.zero_le _) (Nat.zero_le _) (Nat.zero_le _) (by decide) b)).1,
    wf_block RemoveContinue.processor false wfHooks_remove_continue _ true b {} hw⟩

/-! ## The property theorems -/

/-- `remove_types`: no type syntax is left (annotations of variables / parameters / functions,
generic parameters, `type` declarations and type functions, casts `e :: T`, type instantiations
`f<<T>>` in expression and prefix position) — wherever it was nested. -/
theorem census_zero_remove_types (b : Block) (hw : wfB b = true) : census_types (RemoveTypes.apply b) = 0 :=
  count_left (types_acc Z b hw (zB b)).1

/-- `remove_compound_assignment`: no `target op= value` statement is left. -/
theorem census_zero_remove_compound_assignment (b : Block) (hw : wfB b = true) :
    census_compound_assignment (RemoveCompoundAssign.apply b) = 0 :=
  count_left (compound_acc Z (fun _ => rfl) rfl b hw (zB b)).1

/-- `remove_continue`: no `continue` is left, PROVIDED every `continue` of the input is inside a
loop of its function (`continueInLoops`, decidable; the driver answers it as `c06.hyp`). -/
theorem census_zero_remove_continue_partial (b : Block) (hw : wfB b = true) (hok : continueInLoops b = true) :
    census_continue (RemoveContinue.apply b) = 0 :=
  (continue_main b hw hok).1

/-- the unconditional statement … -/
def census_zero_remove_continue_full : Prop :=
  ∀ b : Block, wfB b = true → census_continue (RemoveContinue.apply b) = 0

/-- … is FALSE: darklua's parser accepts `continue` outside any loop, and the rule leaves it in place. -/
theorem census_zero_remove_continue_full_false : ¬ census_zero_remove_continue_full := by
  intro h
  have := h (.mk [] (some .cont)) rfl
  revert this
  decide

/-- `remove_if_expression`: no if-expression is left, whatever the static evaluator answers
(both encodings), wherever it was nested. -/
theorem census_zero_remove_if_expression (truthy : Expr → Bool) (b : Block) (hw : wfB b = true) :
    census_if_expression (RemoveIfExpression.apply truthy b) = 0 :=
  count_left (ifexpr_acc Z truthy rfl rfl b hw (zB b)).1

/-- `remove_interpolated_string` (both strategies): no interpolated string is left. -/
theorem census_zero_remove_interpolated_string (strategy : RemoveInterpolatedString.Strategy) (b : Block)
    (hw : wfB b = true) : census_interpolated_string (RemoveInterpolatedString.applyWith strategy b) = 0 :=
  count_left (interp_acc Z strategy rfl b hw (zB b)).1

/-- `remove_floor_division`: no `//` and no `//=` is left, for EVERY well-formed block — `//=` statements included:
the rule hands such a statement to a NESTED compound-assignment visitor run (the caller's tracker, own fuel
`8 * size + 64`); its output is well-formed (`wlevel_all`), free of compound assignments (`level_all` with the
compound-assignment instance, the nested fuel is enough by `fS`) and needs no more fuel than the statement it replaces
(`k_visitStmt`, C07/KProof.lean), so the outer visitor reaches and rewrites the `t // v` inside it
(C07/Inst/FloorDivFull.lean). -/
theorem census_zero_remove_floor_division (b : Block) (hw : wfB b = true) :
    census_floor_division (RemoveFloorDivision.apply b) = 0 :=
  count_left (floordiv_acc Z (fun _ => rfl) rfl b hw (zB b)).1

/-- `convert_luau_number`: the shared AST has no Luau-only number spelling to count (literals
carry their value only); the real claim (no `0b…` / `_` left) is judged by the oracle on text. -/
theorem census_zero_convert_luau_number (b : Block) : census_luau_number (ConvertLuauNumber.apply b) = 0 := rfl

/-- `make_assignment_local`: no `const` declaration is left. -/
theorem census_zero_make_assignment_local (b : Block) (hw : wfB b = true) :
    census_const (MakeAssignmentLocal.apply b) = 0 :=
  count_left (const_acc Z rfl b hw (zB b)).1

/-- `remove_attribute` (no `match` filter): no function attribute is left. -/
theorem census_zero_remove_attribute (b : Block) (hw : wfB b = true) :
    census_attribute (RemoveAttribute.apply b) = 0 :=
  count_left (attribute_acc Z b hw (zB b)).1

/-- **All nine rules** (`lowerAll`: remove_continue, remove_types, remove_compound_assignment,
remove_if_expression, remove_interpolated_string, remove_floor_division, convert_luau_number,
make_assignment_local, remove_attribute — each rule removes its construct AND re-introduces none
of those removed before it): the result uses no Luau-only construct (`IsLua51`, a decidable
predicate: the sum of the nine censuses is 0), for every well-formed block whose `continue`s are
inside loops, whatever the static evaluator answers. -/
theorem all_lowered_is_51 (truthy : Expr → Bool) (b : Block) (hw : wfB b = true)
    (hok : continueInLoops b = true) : IsLua51 (lowerAll truthy b) := by
  obtain ⟨c1, w1⟩ := continue_main b hw hok
  obtain ⟨c2, w2⟩ := types_acc continueCensus _ w1 c1
  obtain ⟨c3, w3⟩ := compound_acc _ (fun _ => rfl) rfl _ w2 c2
  obtain ⟨c4, w4⟩ := ifexpr_acc _ truthy rfl rfl _ w3 c3
  obtain ⟨c5, w5⟩ := interp_acc _ .string rfl _ w4 c4
  obtain ⟨c6, w6⟩ := floordiv_acc _ (fun _ => rfl) rfl _ w5 c5
  obtain ⟨c7, w7⟩ := number_acc _ _ w6 c6
  obtain ⟨c8, w8⟩ := const_acc _ rfl _ w7 c7
  exact (attribute_acc _ _ w8 c8).1

/-- … and the result is still a tree darklua's AST can express. -/
theorem all_lowered_wf (truthy : Expr → Bool) (b : Block) (hw : wfB b = true) : wfB (lowerAll truthy b) = true := by
  have w1 : wfB (RemoveContinue.apply b) = true :=
    wf_block RemoveContinue.processor false wfHooks_remove_continue (Visitor.fuelFor b) true b {} hw
  obtain ⟨_, w2⟩ := types_acc Z _ w1 (zB _)
  obtain ⟨_, w3⟩ := compound_acc Z (fun _ => rfl) rfl _ w2 (zB _)
  obtain ⟨_, w4⟩ := ifexpr_acc Z truthy rfl rfl _ w3 (zB _)
  obtain ⟨_, w5⟩ := interp_acc Z .string rfl _ w4 (zB _)
  have w6 := wf_apply_floor_division _ w5
  obtain ⟨_, w7⟩ := number_acc Z _ w6 (zB _)
  obtain ⟨_, w8⟩ := const_acc Z rfl _ w7 (zB _)
  exact (attribute_acc Z _ w8 (zB _)).2

/-! ### non-vacuity -/

-- a well-formed block with constructs nested in each other, `continue` inside a loop
def sample : Block :=
  .mk [.while_ (.ifx (.var "a") (.bin .idiv (.num 0) (.num 0)) [] (.interp [.v (.var "x")]))
        (.mk [.cassign .idiv (.field (.call (.var "f") none .tuple []) "x") (.cast (.num 0) (.typeof (.ifx .true .nil [] .nil))),
              .localFn .const "g" (.mk [.mk "p" (some (.mk "name:T" []))] false none none ["T"] ["native"] (.mk [] none))]
          (some .cont))] none

example : wfB sample = true ∧ continueInLoops sample = true := by decide
example : census_luau sample = 13 := by decide
example : wfB (.mk [] (some .cont)) = true ∧ continueInLoops (.mk [] (some .cont)) = false := by decide
-- `census_zero_remove_floor_division` has no "no `//=`" hypothesis any more: the sample HAS a `//=` statement (whose
-- target needs a temporary), one `//` besides, and the rule leaves neither
example : census_idiv_assign sample = 1 ∧ census_floor_division sample = 2 := by decide
example : census_floor_division (RemoveFloorDivision.apply sample) = 0 := by decide

end DarkluaModel.C07
