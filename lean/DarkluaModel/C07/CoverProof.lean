import DarkluaModel.C07.VisitEqs
import DarkluaModel.C07.Cover
namespace DarkluaModel.C07
open DarkluaModel.Rules Visitor

section
variable {σ : Type} (P : Processor σ) (sc : Bool) (C C0 : Census) (W : Weights) (okS : Stmt → Bool)

/-- the claims about the element visitors at fuel `n` -/
structure Level (n : Nat) : Prop where
  ty : ∀ t s, wfTy t = true → countTy C0 t = 0 → C.tyNode = 0 → kTy W t + 1 ≤ n →
    countTy C (visitTy P sc n t s).1 = 0
  expr : ∀ e s, wfE e = true → countE C0 e = 0 → kE W e + 2 ≤ n → countE C (visitExpr P sc n e s).1 = 0
  pref : ∀ e s, isPrefix e = true → wfE e = true → countE C0 e = 0 → kE W e + 2 ≤ n →
    countE C (visitPrefix P sc n e s).1 = 0
  target : ∀ e s, isVariable e = true → wfE e = true → countE C0 e = 0 → kE W e + 2 ≤ n →
    countE C (visitTarget P sc n e s).1 = 0
  entry : ∀ e s, wfEntry e = true → countEntry C0 e = 0 → kEntry W e + 1 ≤ n →
    countEntry C (visitEntry P sc n e s).1 = 0
  seg : ∀ e s, wfSeg e = true → countSeg C0 e = 0 → kSeg W e + 1 ≤ n → countSeg C (visitSeg P sc n e s).1 = 0
  node : ∀ e s, (∀ s', wfE (P.node e s').1 = true ∧ countE C0 (P.node e s').1 = 0 ∧
      kE W (P.node e s').1 + 1 ≤ n ∧ shallowE C (P.node e s').1 = 0) →
    countE C (visitNode P sc n e s).1 = 0
  fnbody : ∀ hs body s, wfF body = true → countF C0 body = 0 → shallowF C body = 0 → kF W body + 1 ≤ n →
    countF C (visitFnBody P sc n hs body s).1 = 0
  stmt : ∀ st s, wfS st = true → countS C0 st = 0 → okS st = true → kS W st + 1 ≤ n →
    countS C (visitStmt P sc n st s).1 = 0
  last : ∀ l s, wfL l = true → countL C0 l = 0 → kL W l + 1 ≤ n → countL C (visitLast P sc n l s).1 = 0
  block : ∀ pushes b s, wfB b = true → countB C0 b = 0 → kB W b + 1 ≤ n →
    countB C (visitBlock P sc n pushes b s).1 = 0

/-- the claims about the list / option visitors at fuel `n` -/
structure Lists (n : Nat) : Prop where
  tys : ∀ ts s, wfTys ts = true → countTys C0 ts = 0 → C.tyNode = 0 → kTys W ts ≤ n →
    countTys C (mapS (visitTy P sc n) ts s).1 = 0
  oty : ∀ t s, wfOTy t = true → countOTy C0 t = 0 → C.tyNode * optCount t = 0 → kOTy W t ≤ n →
    countOTy C (optS (visitTy P sc n) t s).1 = 0
  exprs : ∀ es s, wfEs es = true → countEs C0 es = 0 → kEs W es ≤ n →
    countEs C (mapS (visitExpr P sc n) es s).1 = 0
  oexpr : ∀ e s, wfOE e = true → countOE C0 e = 0 → kOE W e ≤ n → countOE C (optS (visitExpr P sc n) e s).1 = 0
  args : ∀ k es s, argsOk k es = true → k ≠ .tuple → wfEs es = true → countEs C0 es = 0 → kEs W es ≤ n →
    countEs C (mapS (visitNode P sc n) es s).1 = 0
  targets : ∀ es s, wfTargets es = true → countEs C0 es = 0 → kEs W es ≤ n →
    countEs C (mapS (visitTarget P sc n) es s).1 = 0
  entries : ∀ es s, wfEntries es = true → countEntries C0 es = 0 → kEntries W es ≤ n →
    countEntries C (mapS (visitEntry P sc n) es s).1 = 0
  segs : ∀ es s, wfSegs es = true → countSegs C0 es = 0 → kSegs W es ≤ n →
    countSegs C (mapS (visitSeg P sc n) es s).1 = 0
  pairs : ∀ ps s, wfPairs ps = true → countPairs C0 ps = 0 → kPairs W ps ≤ n →
    countPairs C (mapS (fun (p : Expr × Expr) st =>
      (((visitExpr P sc n p.1 st).1, (visitExpr P sc n p.2 (visitExpr P sc n p.1 st).2).1),
        (visitExpr P sc n p.2 (visitExpr P sc n p.1 st).2).2)) ps s).1 = 0
  tnames : ∀ ns s, wfTNs ns = true → countTNs C0 ns = 0 → C.tyNode * typedCount ns = 0 → kTNs W ns ≤ n →
    countTNs C (mapS (tnameTy (visitTy P sc n)) ns s).1 = 0
  tname : ∀ t s, wfTN t = true → countTN C0 t = 0 → C.tyNode * typedCount [t] = 0 → kTN W t ≤ n →
    countTN C (tnameTy (visitTy P sc n) t s).1 = 0
  branches : ∀ bs s, wfBranches bs = true → countBranches C0 bs = 0 → kBranches W bs ≤ n →
    countBranches C (mapS (fun (p : Expr × Block) st =>
      (((visitExpr P sc n p.1 st).1,
          (visitBlock P sc n true p.2 (P.scope p.2 none (visitExpr P sc n p.1 st).2).2).1),
        (visitBlock P sc n true p.2 (P.scope p.2 none (visitExpr P sc n p.1 st).2).2).2)) bs s).1 = 0
  oelse : ∀ b s, wfOB b = true → countOB C0 b = 0 → kOB W b ≤ n →
    countOB C (optS (fun blk st => visitBlock P sc n true blk (P.scope blk none st).2) b s).1 = 0
  stmts : ∀ ss s, wfSs ss = true → countSs C0 ss = 0 → (∀ st ∈ ss, okS st = true) → kSs W ss ≤ n →
    countSs C (mapS (visitStmt P sc n) ss s).1 = 0
  olast : ∀ l s, wfOL l = true → countOL C0 l = 0 → kOL W l ≤ n → countOL C (optS (visitLast P sc n) l s).1 = 0


set_option linter.unusedSimpArgs false
set_option linter.unusedVariables false

theorem count_tnameInsert (f : String → σ → String × σ) :
    ∀ ns s, countTNs C (mapS (tnameInsert f) ns s).1 = countTNs C ns := by
  intro ns
  induction ns with
  | nil => intro s; simp [mapS, countTNs]
  | cons t ts ih =>
    intro s
    cases t with
    | mk n ty => simp only [mapS, tnameInsert, countTNs, countTN, ih]

theorem tnameInsert_props (f : String → σ → String × σ) :
    ∀ ns s, wfTNs (mapS (tnameInsert f) ns s).1 = wfTNs ns ∧
      typedCount (mapS (tnameInsert f) ns s).1 = typedCount ns ∧
      kTNs W (mapS (tnameInsert f) ns s).1 = kTNs W ns := by
  intro ns
  induction ns with
  | nil => intro s; simp [mapS]
  | cons t ts ih =>
    intro s
    cases t with
    | mk n ty =>
      cases ty <;> simp only [mapS, tnameInsert, wfTNs, wfTN, typedCount, kTNs, kTN, ih, and_self]

theorem tnameInsert_single (f : String → σ → String × σ) (t : TName) (s : σ) :
    wfTN (tnameInsert f t s).1 = wfTN t ∧ typedCount [(tnameInsert f t s).1] = typedCount [t] ∧
      kTN W (tnameInsert f t s).1 = kTN W t ∧ ∀ C : Census, countTN C (tnameInsert f t s).1 = countTN C t := by
  cases t with
  | mk n ty => cases ty <;> simp [tnameInsert, wfTN, typedCount, kTN, countTN]

theorem count_insertLocals (h : Cover P C C0 W okS) :
    ∀ ns vs s, countTNs C (insertLocals P ns vs s).1.1 = countTNs C ns ∧
      countEs C (insertLocals P ns vs s).1.2 = countEs C vs := by
  intro ns
  induction ns with
  | nil => intro vs s; simp [insertLocals]
  | cons t ts ih =>
    intro vs s
    cases t with
    | mk n ty =>
      cases vs with
      | nil =>
        simp only [insertLocals, countTNs, countTN, countEs, ih, and_self]
      | cons v vs =>
        have h1 := h.insertLocal_id n (some v) s
        simp only [insertLocals, countTNs, countTN, countEs, h1, Option.getD_some, ih, and_self]

theorem shallow_call (e : Expr) (hv : isCall e = true) : shallowE C e = 0 := by
  cases e <;> simp_all [isCall, shallowE]

theorem shallow_variable (e : Expr) (hv : isVariable e = true) : shallowE C e = 0 := by
  cases e <;> simp_all [isVariable, shallowE]

theorem args_single (k : ArgKind) (es : List Expr) (ha : argsOk k es = true) (hk : k ≠ .tuple) :
    ∃ e, es = [e] ∧ shallowE C e = 0 := by
  cases k with
  | tuple => exact absurd rfl hk
  | str =>
    match es, ha with
    | [.str b], _ => exact ⟨_, rfl, rfl⟩
  | tbl =>
    match es, ha with
    | [.table b], _ => exact ⟨_, rfl, rfl⟩


theorem count_leaf (e : Expr) (hl : isLeafE e = true) : countE C e = 0 := by
  cases e <;> simp_all [isLeafE, countE]

theorem succ_node (h : Cover P C C0 W okS) (n : Nat) (L : Level P sc C C0 W okS n) (LL : Lists P sc C C0 W okS n) :
    ∀ e s, (∀ s', wfE (P.node e s').1 = true ∧ countE C0 (P.node e s').1 = 0 ∧
      kE W (P.node e s').1 + 1 ≤ n + 1 ∧ shallowE C (P.node e s').1 = 0) →
    countE C (visitNode P sc (n + 1) e s).1 = 0 := by
  intro e s hg
  by_cases hl : isLeafE e = true
  · rw [visitNode_leaf P sc n e s hl]; exact count_leaf C e hl
  · have hl : isLeafE e = false := by simpa using hl
    have hg' := hg s
    rcases h2 : P.node e s with ⟨e1, s1⟩
    rw [h2] at hg'
    obtain ⟨hw, hc, hk, hs⟩ := hg'
    have Lexpr := L.expr
    have Lpref := L.pref
    have Lfn := L.fnbody
    have Lty := L.ty
    have Lexprs := LL.exprs
    have Largs := LL.args
    have Lentries := LL.entries
    have Lsegs := LL.segs
    have Lpairs := LL.pairs
    have Ltys := LL.tys
    have hA := h.afterNode_id
    cases e1 with
    | nil | «true» | «false» | vararg | num _ | str _ | var _ =>
      rw [visitNode_noKids P sc n e s s1 hl _ rfl h2, hA]; simp [countE]
    | bin op l r =>
      simp only [wfE, Bool.and_eq_true, countE, kE, shallowE, Nat.add_eq_zero_iff, Nat.max_le] at hw hc hk hs
      rw [visitNode_bin P sc n e s s1 hl op l r h2]; simp only [hA, countE]; grind
    | call f m k args =>
      simp only [wfE, Bool.and_eq_true, countE, kE, shallowE, Nat.add_eq_zero_iff, Nat.max_le] at hw hc hk hs
      cases k with
      | tuple => rw [visitNode_call_tuple P sc n e s s1 hl f m args h2]; simp only [hA, countE]; grind
      | str => rw [visitNode_call_other P sc n e s s1 hl f m .str (by simp) args h2]; simp only [hA, countE]; grind
      | tbl => rw [visitNode_call_other P sc n e s s1 hl f m .tbl (by simp) args h2]; simp only [hA, countE]; grind
    | field x name =>
      simp only [wfE, Bool.and_eq_true, countE, kE, shallowE, Nat.add_eq_zero_iff, Nat.max_le] at hw hc hk hs
      rw [visitNode_field P sc n e s s1 hl x name h2]; simp only [hA, countE]; grind
    | index x k =>
      simp only [wfE, Bool.and_eq_true, countE, kE, shallowE, Nat.add_eq_zero_iff, Nat.max_le] at hw hc hk hs
      rw [visitNode_index P sc n e s s1 hl x k h2]; simp only [hA, countE]; grind
    | fn body =>
      simp only [wfE, Bool.and_eq_true, countE, kE, shallowE, Nat.add_eq_zero_iff, Nat.max_le] at hw hc hk hs
      rw [visitNode_fn P sc n e s s1 hl body h2]; simp only [hA, countE]; grind
    | ifx c t elifs el =>
      simp only [wfE, Bool.and_eq_true, countE, kE, shallowE, Nat.add_eq_zero_iff, Nat.max_le] at hw hc hk hs
      rw [visitNode_ifx P sc n e s s1 hl c t elifs el h2]; simp only [hA, countE]; grind
    | paren x =>
      simp only [wfE, Bool.and_eq_true, countE, kE, shallowE, Nat.add_eq_zero_iff, Nat.max_le] at hw hc hk hs
      rw [visitNode_paren P sc n e s s1 hl x h2]; simp only [hA, countE]; grind
    | un op x =>
      simp only [wfE, Bool.and_eq_true, countE, kE, shallowE, Nat.add_eq_zero_iff, Nat.max_le] at hw hc hk hs
      rw [visitNode_un P sc n e s s1 hl op x h2]; simp only [hA, countE]; grind
    | interp segs =>
      simp only [wfE, Bool.and_eq_true, countE, kE, shallowE, Nat.add_eq_zero_iff, Nat.max_le] at hw hc hk hs
      rw [visitNode_interp P sc n e s s1 hl segs h2]; simp only [hA, countE]; grind
    | table entries =>
      simp only [wfE, Bool.and_eq_true, countE, kE, shallowE, Nat.add_eq_zero_iff, Nat.max_le] at hw hc hk hs
      rw [visitNode_table P sc n e s s1 hl entries h2]; simp only [hA, countE]; grind
    | cast x ty =>
      simp only [wfE, Bool.and_eq_true, countE, kE, shallowE, Nat.add_eq_zero_iff, Nat.max_le] at hw hc hk hs
      rw [visitNode_cast P sc n e s s1 hl x ty h2]; simp only [hA, countE]; grind
    | inst x tys =>
      simp only [wfE, Bool.and_eq_true, countE, kE, shallowE, Nat.add_eq_zero_iff, Nat.max_le] at hw hc hk hs
      rw [visitNode_inst P sc n e s s1 hl x tys h2]; simp only [hA, countE]
      cases tys with
      | nil => simp only [mapS, countTys]; grind
      | cons t ts =>
        have h0 : C.tyNode = 0 := by
          have := hs.2; simp only [List.length_cons, Nat.mul_eq_zero] at this; omega
        grind

theorem succ_expr (h : Cover P C C0 W okS) (n : Nat) (L : Level P sc C C0 W okS n) :
    ∀ e s, wfE e = true → countE C0 e = 0 → kE W e + 2 ≤ n + 1 →
      countE C (visitExpr P sc (n + 1) e s).1 = 0 := by
  intro e s hw hc hk
  rw [visitExpr_eq]
  apply L.node
  intro s'
  obtain ⟨a, b, c, d⟩ := h.exprPos e s s' hw hc
  exact ⟨a, b, by omega, d⟩

theorem succ_pref (h : Cover P C C0 W okS) (n : Nat) (L : Level P sc C C0 W okS n) :
    ∀ e s, isPrefix e = true → wfE e = true → countE C0 e = 0 → kE W e + 2 ≤ n + 1 →
      countE C (visitPrefix P sc (n + 1) e s).1 = 0 := by
  intro e s hp hw hc hk
  rw [visitPrefix_eq]
  apply L.node
  intro s'
  obtain ⟨a, b, c, d⟩ := h.prefPos e s s' hp hw hc
  exact ⟨a, b, by omega, d⟩

theorem succ_target (h : Cover P C C0 W okS) (n : Nat) (L : Level P sc C C0 W okS n) :
    ∀ e s, isVariable e = true → wfE e = true → countE C0 e = 0 → kE W e + 2 ≤ n + 1 →
      countE C (visitTarget P sc (n + 1) e s).1 = 0 := by
  intro e s hp hw hc hk
  rw [visitTarget_eq]
  apply L.node
  intro s'
  have ht := h.target_id e s
  rw [ht]
  obtain ⟨a, b, c, d⟩ := h.nodePos e s' hw hc (shallow_variable C e hp)
  exact ⟨a, b, by omega, d⟩

theorem succ_entry (n : Nat) (L : Level P sc C C0 W okS n) :
    ∀ e s, wfEntry e = true → countEntry C0 e = 0 → kEntry W e + 1 ≤ n + 1 →
      countEntry C (visitEntry P sc (n + 1) e s).1 = 0 := by
  intro e s hw hc hk
  have Lexpr := L.expr
  cases e <;>
    (simp only [wfEntry, Bool.and_eq_true, countEntry, kEntry, Nat.add_eq_zero_iff, Nat.max_le] at hw hc hk
     simp only [visitEntry, countEntry]
     grind)

theorem succ_seg (n : Nat) (L : Level P sc C C0 W okS n) :
    ∀ e s, wfSeg e = true → countSeg C0 e = 0 → kSeg W e + 1 ≤ n + 1 →
      countSeg C (visitSeg P sc (n + 1) e s).1 = 0 := by
  intro e s hw hc hk
  have Lexpr := L.expr
  cases e <;>
    (simp only [wfSeg, countSeg, kSeg] at hw hc hk
     simp only [visitSeg, countSeg]
     all_goals grind)

theorem succ_ty (h : Cover P C C0 W okS) (n : Nat) (L : Level P sc C C0 W okS n) (LL : Lists P sc C C0 W okS n) :
    ∀ t s, wfTy t = true → countTy C0 t = 0 → C.tyNode = 0 → kTy W t + 1 ≤ n + 1 →
      countTy C (visitTy P sc (n + 1) t s).1 = 0 := by
  intro t s hw hc h0 hk
  have ht := h.ty_id t s
  rcases h2 : P.ty t s with ⟨t1, s1⟩
  rw [h2] at ht
  simp only at ht
  subst ht
  have Lexpr := L.expr
  have Ltys := LL.tys
  cases t1 with
  | mk tag kids =>
    simp only [wfTy, countTy, kTy, Nat.add_eq_zero_iff] at hw hc hk
    rw [visitTy_mk P sc n _ s s1 tag kids h2]; simp only [countTy]; grind
  | typeof e =>
    simp only [wfTy, countTy, kTy, Nat.add_eq_zero_iff] at hw hc hk
    rw [visitTy_typeof P sc n _ s s1 e h2]; simp only [countTy]; grind

theorem succ_last (h : Cover P C C0 W okS) (n : Nat) (LL : Lists P sc C C0 W okS n) :
    ∀ l s, wfL l = true → countL C0 l = 0 → kL W l + 1 ≤ n + 1 →
      countL C (visitLast P sc (n + 1) l s).1 = 0 := by
  intro l s hw hc hk
  have ht := h.last_id l s
  rcases h2 : P.last l s with ⟨l1, s1⟩
  rw [h2] at ht
  simp only at ht
  subst ht
  have Lexprs := LL.exprs
  have hcont := h.cont_ok
  cases l1 with
  | ret es =>
    simp only [wfL, countL, kL] at hw hc hk
    rw [visitLast_ret P sc n _ s s1 es h2]; simp only [countL]; grind
  | brk => rw [visitLast_other P sc n _ s s1 .brk (Or.inl rfl) h2]; simp [countL]
  | cont =>
    rw [visitLast_other P sc n _ s s1 .cont (Or.inr rfl) h2]
    simp only [countL] at hc ⊢
    exact hcont hc

theorem succ_block (h : Cover P C C0 W okS) (n : Nat) (LL : Lists P sc C C0 W okS n) :
    ∀ pushes b s, wfB b = true → countB C0 b = 0 → kB W b + 1 ≤ n + 1 →
      countB C (visitBlock P sc (n + 1) pushes b s).1 = 0 := by
  intro pushes b s hw hc hk
  obtain ⟨a, b', c, d⟩ := h.blockPos b (if (sc && pushes) = true then P.push s else s) hw hc
  rcases h2 : P.block b (if (sc && pushes) = true then P.push s else s) with ⟨b1, s1⟩
  rw [h2] at a b' c d
  have Lstmts := LL.stmts
  have Lolast := LL.olast
  cases b1 with
  | mk stmts last =>
    simp only [wfB, Bool.and_eq_true, countB, kB, Nat.add_eq_zero_iff, Nat.max_le, Block.stmts] at a b' c d hk
    rw [visitBlock_eq P sc n pushes b s stmts last s1 h2]
    simp only [h.afterBlock_id, countB]
    grind

theorem succ_fnbody (h : Cover P C C0 W okS) (n : Nat) (L : Level P sc C C0 W okS n) (LL : Lists P sc C C0 W okS n) :
    ∀ hs body s, wfF body = true → countF C0 body = 0 → shallowF C body = 0 → kF W body + 1 ≤ n + 1 →
      countF C (visitFnBody P sc (n + 1) hs body s).1 = 0 := by
  intro hs body s hw hc hsh hk
  have Lblock := L.block
  have Ltnames := LL.tnames
  have Loty := LL.oty
  have Hins := count_tnameInsert (σ := σ) C
  cases body with
  | mk params variadic varTy ret generics attrs blk =>
    simp only [wfF, Bool.and_eq_true, countF, kF, shallowF, Nat.add_eq_zero_iff, Nat.max_le, Nat.mul_eq_zero] at hw hc hsh hk
    cases sc with
    | true =>
      rw [visitFnBody_scoped]
      simp only [h.scope_id, h.attrs_id, countF, Hins]
      grind
    | false =>
      rw [visitFnBody_default]
      simp only [h.scope_id, h.attrs_id, countF, Hins]
      grind

/-- the facts every statement case uses -/
structure StmtIH (n : Nat) : Prop where
  L : Level P sc C C0 W okS n
  LL : Lists P sc C C0 W okS n
  h : Cover P C C0 W okS

theorem succ_stmt_assign
    (I : StmtIH P sc C C0 W okS n) (st st1 : Stmt) (s s1 s2 : σ) (h1 : P.stmt st s = (st1, s1))
    (hcs : isCallStmt st1 = false) (hk : kS W st + 1 ≤ n + 1)
    (ts vs : List Expr) (h2 : P.stmtNode st1 s1 = (.assign ts vs, s2)) (g : GoodS W C C0 st (.assign ts vs)) :
    countS C (visitStmt P sc (n + 1) st s).1 = 0 := by
  obtain ⟨L, LL, h⟩ := I
  obtain ⟨gw, gc, gk, gs, gn⟩ := g
  have Lexpr := L.expr
  have Ltarget := L.target
  have Lblock := L.block
  have Lfn := L.fnbody
  have Lty := L.ty
  have Lexprs := LL.exprs
  have Ltargets := LL.targets
  have Ltnames := LL.tnames
  have Ltname := LL.tname
  have Loty := LL.oty
  have Loexpr := LL.oexpr
  have Lbranches := LL.branches
  have Loelse := LL.oelse
  have Hins := count_tnameInsert (σ := σ) C
  have Hins0 := count_tnameInsert (σ := σ) C0
  have Hinsp := tnameInsert_props (σ := σ) W
  have Hins1 := tnameInsert_single (σ := σ) W
  have Hloc := count_insertLocals P C C0 W okS h
  have hA := h.afterStmtNode_id
  have hSc := h.scope_id
  have hAt := h.attrs_id
  have hIF := h.insertLocalFn_id
  simp only [wfS, Bool.and_eq_true, countS, kS, shallowS, Nat.add_eq_zero_iff, Nat.max_le] at gw gc gk gs
  rw [visitStmt_assign P sc n st st1 s s1 s2 h1 hcs ts vs h2]
  simp only [hSc, hA, countS]
  grind

theorem succ_stmt_cassign
    (I : StmtIH P sc C C0 W okS n) (st st1 : Stmt) (s s1 s2 : σ) (h1 : P.stmt st s = (st1, s1))
    (hcs : isCallStmt st1 = false) (hk : kS W st + 1 ≤ n + 1)
    (op : BinOp) (t v : Expr) (h2 : P.stmtNode st1 s1 = (.cassign op t v, s2)) (g : GoodS W C C0 st (.cassign op t v)) :
    countS C (visitStmt P sc (n + 1) st s).1 = 0 := by
  obtain ⟨L, LL, h⟩ := I
  obtain ⟨gw, gc, gk, gs, gn⟩ := g
  have Lexpr := L.expr
  have Ltarget := L.target
  have Lblock := L.block
  have Lfn := L.fnbody
  have Lty := L.ty
  have Lexprs := LL.exprs
  have Ltargets := LL.targets
  have Ltnames := LL.tnames
  have Ltname := LL.tname
  have Loty := LL.oty
  have Loexpr := LL.oexpr
  have Lbranches := LL.branches
  have Loelse := LL.oelse
  have Hins := count_tnameInsert (σ := σ) C
  have Hins0 := count_tnameInsert (σ := σ) C0
  have Hinsp := tnameInsert_props (σ := σ) W
  have Hins1 := tnameInsert_single (σ := σ) W
  have Hloc := count_insertLocals P C C0 W okS h
  have hA := h.afterStmtNode_id
  have hSc := h.scope_id
  have hAt := h.attrs_id
  have hIF := h.insertLocalFn_id
  simp only [wfS, Bool.and_eq_true, countS, kS, shallowS, Nat.add_eq_zero_iff, Nat.max_le] at gw gc gk gs
  rw [visitStmt_cassign P sc n st st1 s s1 s2 h1 hcs op t v h2]
  simp only [hSc, hA, countS]
  grind

theorem succ_stmt_doBlock
    (I : StmtIH P sc C C0 W okS n) (st st1 : Stmt) (s s1 s2 : σ) (h1 : P.stmt st s = (st1, s1))
    (hcs : isCallStmt st1 = false) (hk : kS W st + 1 ≤ n + 1)
    (b : Block) (h2 : P.stmtNode st1 s1 = (.doBlock b, s2)) (g : GoodS W C C0 st (.doBlock b)) :
    countS C (visitStmt P sc (n + 1) st s).1 = 0 := by
  obtain ⟨L, LL, h⟩ := I
  obtain ⟨gw, gc, gk, gs, gn⟩ := g
  have Lexpr := L.expr
  have Ltarget := L.target
  have Lblock := L.block
  have Lfn := L.fnbody
  have Lty := L.ty
  have Lexprs := LL.exprs
  have Ltargets := LL.targets
  have Ltnames := LL.tnames
  have Ltname := LL.tname
  have Loty := LL.oty
  have Loexpr := LL.oexpr
  have Lbranches := LL.branches
  have Loelse := LL.oelse
  have Hins := count_tnameInsert (σ := σ) C
  have Hins0 := count_tnameInsert (σ := σ) C0
  have Hinsp := tnameInsert_props (σ := σ) W
  have Hins1 := tnameInsert_single (σ := σ) W
  have Hloc := count_insertLocals P C C0 W okS h
  have hA := h.afterStmtNode_id
  have hSc := h.scope_id
  have hAt := h.attrs_id
  have hIF := h.insertLocalFn_id
  simp only [wfS, Bool.and_eq_true, countS, kS, shallowS, Nat.add_eq_zero_iff, Nat.max_le] at gw gc gk gs
  rw [visitStmt_do P sc n st st1 s s1 s2 h1 hcs b h2]
  simp only [hSc, hA, countS]
  grind

theorem succ_stmt_while
    (I : StmtIH P sc C C0 W okS n) (st st1 : Stmt) (s s1 s2 : σ) (h1 : P.stmt st s = (st1, s1))
    (hcs : isCallStmt st1 = false) (hk : kS W st + 1 ≤ n + 1)
    (c : Expr) (b : Block) (h2 : P.stmtNode st1 s1 = (.while_ c b, s2)) (g : GoodS W C C0 st (.while_ c b)) :
    countS C (visitStmt P sc (n + 1) st s).1 = 0 := by
  obtain ⟨L, LL, h⟩ := I
  obtain ⟨gw, gc, gk, gs, gn⟩ := g
  have Lexpr := L.expr
  have Ltarget := L.target
  have Lblock := L.block
  have Lfn := L.fnbody
  have Lty := L.ty
  have Lexprs := LL.exprs
  have Ltargets := LL.targets
  have Ltnames := LL.tnames
  have Ltname := LL.tname
  have Loty := LL.oty
  have Loexpr := LL.oexpr
  have Lbranches := LL.branches
  have Loelse := LL.oelse
  have Hins := count_tnameInsert (σ := σ) C
  have Hins0 := count_tnameInsert (σ := σ) C0
  have Hinsp := tnameInsert_props (σ := σ) W
  have Hins1 := tnameInsert_single (σ := σ) W
  have Hloc := count_insertLocals P C C0 W okS h
  have hA := h.afterStmtNode_id
  have hSc := h.scope_id
  have hAt := h.attrs_id
  have hIF := h.insertLocalFn_id
  simp only [wfS, Bool.and_eq_true, countS, kS, shallowS, Nat.add_eq_zero_iff, Nat.max_le] at gw gc gk gs
  rw [visitStmt_while P sc n st st1 s s1 s2 h1 hcs c b h2]
  simp only [hSc, hA, countS]
  grind

theorem succ_stmt_ifs
    (I : StmtIH P sc C C0 W okS n) (st st1 : Stmt) (s s1 s2 : σ) (h1 : P.stmt st s = (st1, s1))
    (hcs : isCallStmt st1 = false) (hk : kS W st + 1 ≤ n + 1)
    (branches : List (Expr × Block)) (els : Option Block) (h2 : P.stmtNode st1 s1 = (.ifs branches els, s2)) (g : GoodS W C C0 st (.ifs branches els)) :
    countS C (visitStmt P sc (n + 1) st s).1 = 0 := by
  obtain ⟨L, LL, h⟩ := I
  obtain ⟨gw, gc, gk, gs, gn⟩ := g
  have Lexpr := L.expr
  have Ltarget := L.target
  have Lblock := L.block
  have Lfn := L.fnbody
  have Lty := L.ty
  have Lexprs := LL.exprs
  have Ltargets := LL.targets
  have Ltnames := LL.tnames
  have Ltname := LL.tname
  have Loty := LL.oty
  have Loexpr := LL.oexpr
  have Lbranches := LL.branches
  have Loelse := LL.oelse
  have Hins := count_tnameInsert (σ := σ) C
  have Hins0 := count_tnameInsert (σ := σ) C0
  have Hinsp := tnameInsert_props (σ := σ) W
  have Hins1 := tnameInsert_single (σ := σ) W
  have Hloc := count_insertLocals P C C0 W okS h
  have hA := h.afterStmtNode_id
  have hSc := h.scope_id
  have hAt := h.attrs_id
  have hIF := h.insertLocalFn_id
  simp only [wfS, Bool.and_eq_true, countS, kS, shallowS, Nat.add_eq_zero_iff, Nat.max_le] at gw gc gk gs
  rw [visitStmt_ifs P sc n st st1 s s1 s2 h1 hcs branches els h2]
  simp only [hSc, hA, countS]
  grind

theorem succ_stmt_typeDecl
    (I : StmtIH P sc C C0 W okS n) (st st1 : Stmt) (s s1 s2 : σ) (h1 : P.stmt st s = (st1, s1))
    (hcs : isCallStmt st1 = false) (hk : kS W st + 1 ≤ n + 1)
    (ex : Bool) (name : String) (ty : Ty) (h2 : P.stmtNode st1 s1 = (.typeDecl ex name ty, s2)) (g : GoodS W C C0 st (.typeDecl ex name ty)) :
    countS C (visitStmt P sc (n + 1) st s).1 = 0 := by
  obtain ⟨L, LL, h⟩ := I
  obtain ⟨gw, gc, gk, gs, gn⟩ := g
  have Lexpr := L.expr
  have Ltarget := L.target
  have Lblock := L.block
  have Lfn := L.fnbody
  have Lty := L.ty
  have Lexprs := LL.exprs
  have Ltargets := LL.targets
  have Ltnames := LL.tnames
  have Ltname := LL.tname
  have Loty := LL.oty
  have Loexpr := LL.oexpr
  have Lbranches := LL.branches
  have Loelse := LL.oelse
  have Hins := count_tnameInsert (σ := σ) C
  have Hins0 := count_tnameInsert (σ := σ) C0
  have Hinsp := tnameInsert_props (σ := σ) W
  have Hins1 := tnameInsert_single (σ := σ) W
  have Hloc := count_insertLocals P C C0 W okS h
  have hA := h.afterStmtNode_id
  have hSc := h.scope_id
  have hAt := h.attrs_id
  have hIF := h.insertLocalFn_id
  simp only [wfS, Bool.and_eq_true, countS, kS, shallowS, Nat.add_eq_zero_iff, Nat.max_le] at gw gc gk gs
  rw [visitStmt_typeDecl P sc n st st1 s s1 s2 h1 hcs ex name ty h2]
  simp only [hSc, hA, countS]
  grind

theorem succ_stmt_gfor
    (I : StmtIH P sc C C0 W okS n) (st st1 : Stmt) (s s1 s2 : σ) (h1 : P.stmt st s = (st1, s1))
    (hcs : isCallStmt st1 = false) (hk : kS W st + 1 ≤ n + 1)
    (names : List TName) (values : List Expr) (body : Block) (h2 : P.stmtNode st1 s1 = (.gfor names values body, s2)) (g : GoodS W C C0 st (.gfor names values body)) :
    countS C (visitStmt P sc (n + 1) st s).1 = 0 := by
  obtain ⟨L, LL, h⟩ := I
  obtain ⟨gw, gc, gk, gs, gn⟩ := g
  have Lexpr := L.expr
  have Ltarget := L.target
  have Lblock := L.block
  have Lfn := L.fnbody
  have Lty := L.ty
  have Lexprs := LL.exprs
  have Ltargets := LL.targets
  have Ltnames := LL.tnames
  have Ltname := LL.tname
  have Loty := LL.oty
  have Loexpr := LL.oexpr
  have Lbranches := LL.branches
  have Loelse := LL.oelse
  have Hins := count_tnameInsert (σ := σ) C
  have Hins0 := count_tnameInsert (σ := σ) C0
  have Hinsp := tnameInsert_props (σ := σ) W
  have Hins1 := tnameInsert_single (σ := σ) W
  have Hloc := count_insertLocals P C C0 W okS h
  have hA := h.afterStmtNode_id
  have hSc := h.scope_id
  have hAt := h.attrs_id
  have hIF := h.insertLocalFn_id
  simp only [wfS, Bool.and_eq_true, countS, kS, shallowS, Nat.add_eq_zero_iff, Nat.max_le] at gw gc gk gs
  cases sc with
  | true =>
    rw [visitStmt_gfor_scoped P n st st1 s s1 s2 h1 hcs names values body h2]
    simp only [hSc, hA, hIF, countS, Hins]
    grind
  | false =>
    rw [visitStmt_gfor_default P n st st1 s s1 s2 h1 hcs names values body h2]
    simp only [hSc, hA, hIF, countS, Hins]
    grind

theorem succ_stmt_nfor
    (I : StmtIH P sc C C0 W okS n) (st st1 : Stmt) (s s1 s2 : σ) (h1 : P.stmt st s = (st1, s1))
    (hcs : isCallStmt st1 = false) (hk : kS W st + 1 ≤ n + 1)
    (name : TName) (start stop : Expr) (step : Option Expr) (body : Block) (h2 : P.stmtNode st1 s1 = (.nfor name start stop step body, s2)) (g : GoodS W C C0 st (.nfor name start stop step body)) :
    countS C (visitStmt P sc (n + 1) st s).1 = 0 := by
  obtain ⟨L, LL, h⟩ := I
  obtain ⟨gw, gc, gk, gs, gn⟩ := g
  have Lexpr := L.expr
  have Ltarget := L.target
  have Lblock := L.block
  have Lfn := L.fnbody
  have Lty := L.ty
  have Lexprs := LL.exprs
  have Ltargets := LL.targets
  have Ltnames := LL.tnames
  have Ltname := LL.tname
  have Loty := LL.oty
  have Loexpr := LL.oexpr
  have Lbranches := LL.branches
  have Loelse := LL.oelse
  have Hins := count_tnameInsert (σ := σ) C
  have Hins0 := count_tnameInsert (σ := σ) C0
  have Hinsp := tnameInsert_props (σ := σ) W
  have Hins1 := tnameInsert_single (σ := σ) W
  have Hloc := count_insertLocals P C C0 W okS h
  have hA := h.afterStmtNode_id
  have hSc := h.scope_id
  have hAt := h.attrs_id
  have hIF := h.insertLocalFn_id
  simp only [wfS, Bool.and_eq_true, countS, kS, shallowS, Nat.add_eq_zero_iff, Nat.max_le] at gw gc gk gs
  cases sc with
  | true =>
    rw [visitStmt_nfor_scoped P n st st1 s s1 s2 h1 hcs name start stop step body h2]
    simp only [hSc, hA, hIF, countS, Hins]
    grind
  | false =>
    rw [visitStmt_nfor_default P n st st1 s s1 s2 h1 hcs name start stop step body h2]
    simp only [hSc, hA, hIF, countS, Hins]
    grind

theorem succ_stmt_localAssign
    (I : StmtIH P sc C C0 W okS n) (st st1 : Stmt) (s s1 s2 : σ) (h1 : P.stmt st s = (st1, s1))
    (hcs : isCallStmt st1 = false) (hk : kS W st + 1 ≤ n + 1)
    (kind : LocalKind) (names : List TName) (values : List Expr) (h2 : P.stmtNode st1 s1 = (.localAssign kind names values, s2)) (g : GoodS W C C0 st (.localAssign kind names values)) :
    countS C (visitStmt P sc (n + 1) st s).1 = 0 := by
  obtain ⟨L, LL, h⟩ := I
  obtain ⟨gw, gc, gk, gs, gn⟩ := g
  have Lexpr := L.expr
  have Ltarget := L.target
  have Lblock := L.block
  have Lfn := L.fnbody
  have Lty := L.ty
  have Lexprs := LL.exprs
  have Ltargets := LL.targets
  have Ltnames := LL.tnames
  have Ltname := LL.tname
  have Loty := LL.oty
  have Loexpr := LL.oexpr
  have Lbranches := LL.branches
  have Loelse := LL.oelse
  have Hins := count_tnameInsert (σ := σ) C
  have Hins0 := count_tnameInsert (σ := σ) C0
  have Hinsp := tnameInsert_props (σ := σ) W
  have Hins1 := tnameInsert_single (σ := σ) W
  have Hloc := count_insertLocals P C C0 W okS h
  have hA := h.afterStmtNode_id
  have hSc := h.scope_id
  have hAt := h.attrs_id
  have hIF := h.insertLocalFn_id
  simp only [wfS, Bool.and_eq_true, countS, kS, shallowS, Nat.add_eq_zero_iff, Nat.max_le] at gw gc gk gs
  cases sc with
  | true =>
    rw [visitStmt_local_scoped P n st st1 s s1 s2 h1 hcs kind names values h2]
    simp only [hSc, hA, hIF, countS, Hins]
    grind
  | false =>
    rw [visitStmt_local_default P n st st1 s s1 s2 h1 hcs kind names values h2]
    simp only [hSc, hA, hIF, countS, Hins]
    grind

theorem succ_stmt_localFn
    (I : StmtIH P sc C C0 W okS n) (st st1 : Stmt) (s s1 s2 : σ) (h1 : P.stmt st s = (st1, s1))
    (hcs : isCallStmt st1 = false) (hk : kS W st + 1 ≤ n + 1)
    (kind : LocalKind) (name : String) (body : FnBody) (h2 : P.stmtNode st1 s1 = (.localFn kind name body, s2)) (g : GoodS W C C0 st (.localFn kind name body)) :
    countS C (visitStmt P sc (n + 1) st s).1 = 0 := by
  obtain ⟨L, LL, h⟩ := I
  obtain ⟨gw, gc, gk, gs, gn⟩ := g
  have Lexpr := L.expr
  have Ltarget := L.target
  have Lblock := L.block
  have Lfn := L.fnbody
  have Lty := L.ty
  have Lexprs := LL.exprs
  have Ltargets := LL.targets
  have Ltnames := LL.tnames
  have Ltname := LL.tname
  have Loty := LL.oty
  have Loexpr := LL.oexpr
  have Lbranches := LL.branches
  have Loelse := LL.oelse
  have Hins := count_tnameInsert (σ := σ) C
  have Hins0 := count_tnameInsert (σ := σ) C0
  have Hinsp := tnameInsert_props (σ := σ) W
  have Hins1 := tnameInsert_single (σ := σ) W
  have Hloc := count_insertLocals P C C0 W okS h
  have hA := h.afterStmtNode_id
  have hSc := h.scope_id
  have hAt := h.attrs_id
  have hIF := h.insertLocalFn_id
  simp only [wfS, Bool.and_eq_true, countS, kS, shallowS, Nat.add_eq_zero_iff, Nat.max_le] at gw gc gk gs
  cases sc with
  | true =>
    cases body with
    | mk params variadic varTy ret generics attrs blk =>
      simp only [wfF, countF, kF, shallowF, Bool.and_eq_true, Nat.add_eq_zero_iff, Nat.max_le, Nat.mul_eq_zero] at gw gc gk gs
      rw [visitStmt_localFn_scoped P n st st1 s s1 s2 h1 hcs kind name params variadic varTy ret generics attrs blk h2]
      simp only [hSc, hA, hIF, countS, countF, Hins]
      grind
  | false =>
    rw [visitStmt_localFn_default P n st st1 s s1 s2 h1 hcs kind name body h2]
    simp only [hSc, hA, hIF, countS, Hins]
    grind

theorem succ_stmt_repeat
    (I : StmtIH P sc C C0 W okS n) (st st1 : Stmt) (s s1 s2 : σ) (h1 : P.stmt st s = (st1, s1))
    (hcs : isCallStmt st1 = false) (hk : kS W st + 1 ≤ n + 1)
    (body : Block) (cond : Expr) (h2 : P.stmtNode st1 s1 = (.repeat_ body cond, s2)) (g : GoodS W C C0 st (.repeat_ body cond)) :
    countS C (visitStmt P sc (n + 1) st s).1 = 0 := by
  obtain ⟨L, LL, h⟩ := I
  obtain ⟨gw, gc, gk, gs, gn⟩ := g
  have Lexpr := L.expr
  have Ltarget := L.target
  have Lblock := L.block
  have Lfn := L.fnbody
  have Lty := L.ty
  have Lexprs := LL.exprs
  have Ltargets := LL.targets
  have Ltnames := LL.tnames
  have Ltname := LL.tname
  have Loty := LL.oty
  have Loexpr := LL.oexpr
  have Lbranches := LL.branches
  have Loelse := LL.oelse
  have Hins := count_tnameInsert (σ := σ) C
  have Hins0 := count_tnameInsert (σ := σ) C0
  have Hinsp := tnameInsert_props (σ := σ) W
  have Hins1 := tnameInsert_single (σ := σ) W
  have Hloc := count_insertLocals P C C0 W okS h
  have hA := h.afterStmtNode_id
  have hSc := h.scope_id
  have hAt := h.attrs_id
  have hIF := h.insertLocalFn_id
  simp only [wfS, Bool.and_eq_true, countS, kS, shallowS, Nat.add_eq_zero_iff, Nat.max_le] at gw gc gk gs
  cases sc with
  | true =>
    rw [visitStmt_repeat_scoped P n st st1 s s1 s2 h1 hcs body cond h2]
    simp only [hSc, hA, hIF, countS, Hins]
    grind
  | false =>
    rw [visitStmt_repeat_default P n st st1 s s1 s2 h1 hcs body cond h2]
    simp only [hSc, hA, hIF, countS, Hins]
    grind

theorem succ_stmt_function
    (I : StmtIH P sc C C0 W okS n) (st st1 : Stmt) (s s1 s2 : σ) (h1 : P.stmt st s = (st1, s1))
    (hcs : isCallStmt st1 = false) (hk : kS W st + 1 ≤ n + 1)
    (name : List String) (m : Option String) (body : FnBody)
    (h2 : P.stmtNode st1 s1 = (.function name m body, s2)) (g : GoodS W C C0 st (.function name m body)) :
    countS C (visitStmt P sc (n + 1) st s).1 = 0 := by
  cases name with
  | nil => simp [GoodS, wfS] at g
  | cons root path =>
    cases sc with
    | true =>
      obtain ⟨L, LL, h⟩ := I
      obtain ⟨gw, gc, gk, gs, gn⟩ := g
      have Lexpr := L.expr
      have Ltarget := L.target
      have Lblock := L.block
      have Lfn := L.fnbody
      have Lty := L.ty
      have Lexprs := LL.exprs
      have Ltargets := LL.targets
      have Ltnames := LL.tnames
      have Ltname := LL.tname
      have Loty := LL.oty
      have Loexpr := LL.oexpr
      have Lbranches := LL.branches
      have Loelse := LL.oelse
      have Hins := count_tnameInsert (σ := σ) C
      have Hins0 := count_tnameInsert (σ := σ) C0
      have Hinsp := tnameInsert_props (σ := σ) W
      have Hins1 := tnameInsert_single (σ := σ) W
      have Hloc := count_insertLocals P C C0 W okS h
      have hA := h.afterStmtNode_id
      have hSc := h.scope_id
      have hAt := h.attrs_id
      have hIF := h.insertLocalFn_id
      simp only [wfS, Bool.and_eq_true, countS, kS, shallowS, Nat.add_eq_zero_iff, Nat.max_le] at gw gc gk gs
      rw [visitStmt_function_scoped P n st st1 s s1 s2 h1 hcs root path m body h2]
      simp only [hSc, hA, hAt, countS]
      grind
    | false =>
      cases body with
      | mk params variadic varTy ret generics attrs blk =>
        obtain ⟨L, LL, h⟩ := I
        obtain ⟨gw, gc, gk, gs, gn⟩ := g
        have Lexpr := L.expr
        have Ltarget := L.target
        have Lblock := L.block
        have Lfn := L.fnbody
        have Lty := L.ty
        have Lexprs := LL.exprs
        have Ltargets := LL.targets
        have Ltnames := LL.tnames
        have Ltname := LL.tname
        have Loty := LL.oty
        have Loexpr := LL.oexpr
        have Lbranches := LL.branches
        have Loelse := LL.oelse
        have Hins := count_tnameInsert (σ := σ) C
        have Hins0 := count_tnameInsert (σ := σ) C0
        have Hinsp := tnameInsert_props (σ := σ) W
        have Hins1 := tnameInsert_single (σ := σ) W
        have Hloc := count_insertLocals P C C0 W okS h
        have hA := h.afterStmtNode_id
        have hSc := h.scope_id
        have hAt := h.attrs_id
        have hIF := h.insertLocalFn_id
        simp only [wfS, wfF, Bool.and_eq_true, countS, countF, kS, kF, shallowS, shallowF, Nat.add_eq_zero_iff,
          Nat.max_le, Nat.mul_eq_zero] at gw gc gk gs
        rw [visitStmt_function_default P n st st1 s s1 s2 h1 hcs root path m params variadic varTy ret generics attrs blk h2]
        simp only [hSc, hA, hAt, countS, countF]
        grind

theorem succ_stmt_typeFn
    (I : StmtIH P sc C C0 W okS n) (st st1 : Stmt) (s s1 s2 : σ) (h1 : P.stmt st s = (st1, s1))
    (hcs : isCallStmt st1 = false) (hk : kS W st + 1 ≤ n + 1)
    (ex : Bool) (name : String) (body : FnBody)
    (h2 : P.stmtNode st1 s1 = (.typeFn ex name body, s2)) (g : GoodS W C C0 st (.typeFn ex name body)) :
    countS C (visitStmt P sc (n + 1) st s).1 = 0 := by
  cases body with
  | mk params variadic varTy ret generics attrs blk =>
    obtain ⟨L, LL, h⟩ := I
    obtain ⟨gw, gc, gk, gs, gn⟩ := g
    have Lexpr := L.expr
    have Ltarget := L.target
    have Lblock := L.block
    have Lfn := L.fnbody
    have Lty := L.ty
    have Lexprs := LL.exprs
    have Ltargets := LL.targets
    have Ltnames := LL.tnames
    have Ltname := LL.tname
    have Loty := LL.oty
    have Loexpr := LL.oexpr
    have Lbranches := LL.branches
    have Loelse := LL.oelse
    have Hins := count_tnameInsert (σ := σ) C
    have Hins0 := count_tnameInsert (σ := σ) C0
    have Hinsp := tnameInsert_props (σ := σ) W
    have Hins1 := tnameInsert_single (σ := σ) W
    have Hloc := count_insertLocals P C C0 W okS h
    have hA := h.afterStmtNode_id
    have hSc := h.scope_id
    have hAt := h.attrs_id
    have hIF := h.insertLocalFn_id
    simp only [wfS, wfF, Bool.and_eq_true, countS, countF, kS, kF, shallowS, shallowF, Nat.add_eq_zero_iff, Nat.max_le,
      List.isEmpty_iff, Nat.mul_eq_zero] at gw gc gk gs
    cases sc with
    | true =>
      rw [visitStmt_typeFn_scoped P n st st1 s s1 s2 h1 hcs ex name params variadic varTy ret generics attrs blk h2]
      simp only [hSc, hA, hAt, countS, countF, Hins]
      grind
    | false =>
      rw [visitStmt_typeFn_default P n st st1 s s1 s2 h1 hcs ex name params variadic varTy ret generics attrs blk h2]
      simp only [hSc, hA, hAt, countS, countF]
      grind

theorem succ_stmt (h : Cover P C C0 W okS) (n : Nat) (L : Level P sc C C0 W okS n) (LL : Lists P sc C C0 W okS n) :
    ∀ st s, wfS st = true → countS C0 st = 0 → okS st = true → kS W st + 1 ≤ n + 1 →
      countS C (visitStmt P sc (n + 1) st s).1 = 0 := by
  intro st s hw hc hok hk
  obtain ⟨a, b, c, d⟩ := h.stmtPos st s hw hc hok
  rcases h1 : P.stmt st s with ⟨st1, s1⟩
  rw [h1] at a b c d
  simp only at a b c d
  have I : StmtIH P sc C C0 W okS n := ⟨L, LL, h⟩
  by_cases hcs : isCallStmt st1 = true
  · cases st1 <;> simp [isCallStmt] at hcs
    rename_i cl
    simp only [wfS, Bool.and_eq_true, countS, kS] at a b c
    rw [visitStmt_call P sc n st s s1 cl h1]
    simp only [countS]
    apply L.node
    intro s'
    obtain ⟨x, y, z, w⟩ := h.nodePos cl s' a.2 b (shallow_call C cl a.1)
    exact ⟨x, y, by omega, w⟩
  · have hcs : isCallStmt st1 = false := by simpa using hcs
    have d' := d hcs s1
    rcases h2 : P.stmtNode st1 s1 with ⟨st2, s2⟩
    rw [h2] at d'
    simp only at d'
    cases st2 with
    | callStmt c => exact absurd d'.2.2.2.2 (by simp [isCallStmt])
    | assign ts vs => exact succ_stmt_assign P sc C C0 W okS I st st1 s s1 s2 h1 hcs hk ts vs h2 d'
    | cassign op t v => exact succ_stmt_cassign P sc C C0 W okS I st st1 s s1 s2 h1 hcs hk op t v h2 d'
    | doBlock b => exact succ_stmt_doBlock P sc C C0 W okS I st st1 s s1 s2 h1 hcs hk b h2 d'
    | function name m body => exact succ_stmt_function P sc C C0 W okS I st st1 s s1 s2 h1 hcs hk name m body h2 d'
    | gfor names values body => exact succ_stmt_gfor P sc C C0 W okS I st st1 s s1 s2 h1 hcs hk names values body h2 d'
    | nfor name a b step body => exact succ_stmt_nfor P sc C C0 W okS I st st1 s s1 s2 h1 hcs hk name a b step body h2 d'
    | ifs branches els => exact succ_stmt_ifs P sc C C0 W okS I st st1 s s1 s2 h1 hcs hk branches els h2 d'
    | localAssign kind names values => exact succ_stmt_localAssign P sc C C0 W okS I st st1 s s1 s2 h1 hcs hk kind names values h2 d'
    | localFn kind name body => exact succ_stmt_localFn P sc C C0 W okS I st st1 s s1 s2 h1 hcs hk kind name body h2 d'
    | repeat_ body cond => exact succ_stmt_repeat P sc C C0 W okS I st st1 s s1 s2 h1 hcs hk body cond h2 d'
    | while_ c b => exact succ_stmt_while P sc C C0 W okS I st st1 s s1 s2 h1 hcs hk c b h2 d'
    | typeDecl ex name ty => exact succ_stmt_typeDecl P sc C C0 W okS I st st1 s s1 s2 h1 hcs hk ex name ty h2 d'
    | typeFn ex name body => exact succ_stmt_typeFn P sc C C0 W okS I st st1 s s1 s2 h1 hcs hk ex name body h2 d'
theorem lists_of_level (h : Cover P C C0 W okS) (n : Nat) (L : Level P sc C C0 W okS n) : Lists P sc C C0 W okS n := by
  have Lty := L.ty
  have Lexpr := L.expr
  have Ltarget := L.target
  have Lentry := L.entry
  have Lseg := L.seg
  have Lstmt := L.stmt
  have Llast := L.last
  have Lblock := L.block
  have hSc := h.scope_id
  refine ⟨?_, ?_, ?_, ?_, ?_, ?_, ?_, ?_, ?_, ?_, ?_, ?_, ?_, ?_, ?_⟩
  · intro ts
    induction ts with
    | nil => intro s; simp [mapS, countTys]
    | cons t ts ih =>
      intro s hw hc h0 hk
      simp only [wfTys, countTys, kTys, Bool.and_eq_true, Nat.add_eq_zero_iff, Nat.max_le] at hw hc hk
      simp only [mapS, countTys]
      grind
  · intro t s hw hc h0 hk
    cases t with
    | none => simp [optS, countOTy]
    | some t =>
      simp only [wfOTy, countOTy, kOTy, optCount, Nat.mul_one] at hw hc hk h0
      simp only [optS, countOTy]
      grind
  · intro es
    induction es with
    | nil => intro s; simp [mapS, countEs]
    | cons t ts ih =>
      intro s hw hc hk
      simp only [wfEs, countEs, kEs, Bool.and_eq_true, Nat.add_eq_zero_iff, Nat.max_le] at hw hc hk
      simp only [mapS, countEs]
      grind
  · intro t s hw hc hk
    cases t with
    | none => simp [optS, countOE]
    | some t =>
      simp only [wfOE, countOE, kOE] at hw hc hk
      simp only [optS, countOE]
      grind
  · intro k es s ha hk hw hc hkk
    obtain ⟨e, rfl, hsh⟩ := args_single C k es ha hk
    simp only [wfEs, countEs, kEs, Bool.and_eq_true, Nat.add_eq_zero_iff, Nat.max_le] at hw hc hkk
    simp only [mapS, countEs, Nat.add_zero]
    apply L.node
    intro s'
    obtain ⟨x, y, z, w⟩ := h.nodePos e s' hw.1 hc.1 hsh
    exact ⟨x, y, by omega, w⟩
  · intro es
    induction es with
    | nil => intro s; simp [mapS, countEs]
    | cons t ts ih =>
      intro s hw hc hk
      simp only [wfTargets, countEs, kEs, Bool.and_eq_true, Nat.add_eq_zero_iff, Nat.max_le] at hw hc hk
      simp only [mapS, countEs]
      grind
  · intro es
    induction es with
    | nil => intro s; simp [mapS, countEntries]
    | cons t ts ih =>
      intro s hw hc hk
      simp only [wfEntries, countEntries, kEntries, Bool.and_eq_true, Nat.add_eq_zero_iff, Nat.max_le] at hw hc hk
      simp only [mapS, countEntries]
      grind
  · intro es
    induction es with
    | nil => intro s; simp [mapS, countSegs]
    | cons t ts ih =>
      intro s hw hc hk
      simp only [wfSegs, countSegs, kSegs, Bool.and_eq_true, Nat.add_eq_zero_iff, Nat.max_le] at hw hc hk
      simp only [mapS, countSegs]
      grind
  · intro es
    induction es with
    | nil => intro s; simp [mapS, countPairs]
    | cons t ts ih =>
      intro s hw hc hk
      obtain ⟨a, b⟩ := t
      simp only [wfPairs, countPairs, kPairs, Bool.and_eq_true, Nat.add_eq_zero_iff, Nat.max_le] at hw hc hk
      simp only [mapS, countPairs]
      grind
  · intro es
    induction es with
    | nil => intro s; simp [mapS, countTNs]
    | cons t ts ih =>
      intro s hw hc h0 hk
      cases t with
      | mk nm ty =>
        cases ty with
        | none =>
          simp only [wfTNs, wfTN, wfOTy, countTNs, countTN, countOTy, kTNs, kTN, kOTy, typedCount, Bool.and_eq_true,
            Nat.add_eq_zero_iff, Nat.max_le] at hw hc hk h0
          simp only [mapS, tnameTy, optS, countTNs, countTN, countOTy]
          grind
        | some ty =>
          simp only [wfTNs, wfTN, wfOTy, countTNs, countTN, countOTy, kTNs, kTN, kOTy, typedCount, Bool.and_eq_true,
            Nat.add_eq_zero_iff, Nat.max_le, Nat.mul_eq_zero] at hw hc hk h0
          simp only [mapS, tnameTy, optS, countTNs, countTN, countOTy]
          grind
  · intro t s hw hc h0 hk
    cases t with
    | mk nm ty =>
      cases ty with
      | none => simp [tnameTy, optS, countTN, countOTy]
      | some ty =>
        simp only [wfTN, wfOTy, countTN, countOTy, kTN, kOTy, typedCount, Nat.mul_eq_zero] at hw hc hk h0
        simp only [tnameTy, optS, countTN, countOTy]
        grind
  · intro es
    induction es with
    | nil => intro s; simp [mapS, countBranches]
    | cons t ts ih =>
      intro s hw hc hk
      obtain ⟨a, b⟩ := t
      simp only [wfBranches, countBranches, kBranches, Bool.and_eq_true, Nat.add_eq_zero_iff, Nat.max_le] at hw hc hk
      simp only [mapS, countBranches]
      grind
  · intro t s hw hc hk
    cases t with
    | none => simp [optS, countOB]
    | some t =>
      simp only [wfOB, countOB, kOB] at hw hc hk
      simp only [optS, countOB]
      grind
  · intro es
    induction es with
    | nil => intro s; simp [mapS, countSs]
    | cons t ts ih =>
      intro s hw hc hok hk
      simp only [wfSs, countSs, kSs, Bool.and_eq_true, Nat.add_eq_zero_iff, Nat.max_le] at hw hc hk
      simp only [List.mem_cons, forall_eq_or_imp] at hok
      simp only [mapS, countSs]
      grind
  · intro t s hw hc hk
    cases t with
    | none => simp [optS, countOL]
    | some t =>
      simp only [wfOL, countOL, kOL] at hw hc hk
      simp only [optS, countOL]
      grind

theorem level_zero (h : Cover P C C0 W okS) : Level P sc C C0 W okS 0 := by
  refine ⟨?_, ?_, ?_, ?_, ?_, ?_, ?_, ?_, ?_, ?_, ?_⟩
  all_goals (intros; first | omega | skip)
  -- `node`: the hypothesis on the hook's result asks for positive fuel
  rename_i e s hg
  have := (hg s).2.2.1
  omega

theorem level_all (h : Cover P C C0 W okS) : ∀ n, Level P sc C C0 W okS n := by
  intro n
  induction n with
  | zero => exact level_zero P sc C C0 W okS h
  | succ n ih =>
    have LL := lists_of_level P sc C C0 W okS h n ih
    exact ⟨succ_ty P sc C C0 W okS h n ih LL, succ_expr P sc C C0 W okS h n ih, succ_pref P sc C C0 W okS h n ih,
      succ_target P sc C C0 W okS h n ih, succ_entry P sc C C0 W okS n ih, succ_seg P sc C C0 W okS n ih,
      succ_node P sc C C0 W okS h n ih LL, succ_fnbody P sc C C0 W okS h n ih LL, succ_stmt P sc C C0 W okS h n ih LL,
      succ_last P sc C C0 W okS h n LL, succ_block P sc C C0 W okS h n LL⟩

/-- **Coverage.** A processor satisfying `Cover` brings the census `C` to zero on every
well-formed block whose `C0` census is zero, provided the fuel is at least the block's need. -/
theorem cover_block (h : Cover P C C0 W okS) (n : Nat) (b : Block) (s : σ) (hw : wfB b = true)
    (hc : countB C0 b = 0) (hfuel : kB W b + 1 ≤ n) :
    countB C (visitBlock P sc n true b s).1 = 0 :=
  (level_all P sc C C0 W okS h n).block true b s hw hc hfuel
end
end DarkluaModel.C07
