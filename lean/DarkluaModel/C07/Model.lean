import DarkluaModel.Rules.RemoveCompoundAssign
import DarkluaModel.Rules.RemoveContinue
import DarkluaModel.Rules.RemoveIfExpression
import DarkluaModel.Rules.RemoveInterpolatedString
import DarkluaModel.Rules.RemoveFloorDivision
import DarkluaModel.Rules.ConvertLuauNumber
import DarkluaModel.Rules.MakeAssignmentLocal
import DarkluaModel.Rules.RemoveTypes
import DarkluaModel.Rules.RemoveAttribute
/-!
# C07 — the feature censuses and the Lua 5.1 predicate

Each `census_<construct> b` is the NUMBER of occurrences of the construct in `b`, counted by
`Rules.countB` over every syntactic position of the shared AST: statements of every block
(function bodies, loop bodies, branches), expressions in every position (conditions, call
arguments and callees, table entries, generic-for headers, repeat conditions, operands nested
inside another instance of the construct, `typeof(e)` inside any type annotation), type
annotations of every variable / parameter / function, attributes and generic parameters of
every function.
-/
namespace DarkluaModel.C07
open DarkluaModel.Rules

def compoundCensus : Census := { cassign := fun _ => 1 }
def continueCensus : Census := { cont := 1 }
def ifExpressionCensus : Census := { ifx := 1 }
def interpolatedStringCensus : Census := { interp := 1 }
def floorDivisionCensus : Census :=
  { bin := fun op => if op == .idiv then 1 else 0, cassign := fun op => if op == .idiv then 1 else 0 }
def constCensus : Census := { localKind := fun k => if k == .const then 1 else 0 }
def typesCensus : Census := { cast := 1, inst := 1, typeStmt := 1, tyNode := 1, generic := 1 }
def attributeCensus : Census := { attr := 1 }

/-- `x //= y` statements (the input invariant of the `remove_floor_division` theorem) -/
def idivAssignCensus : Census := { cassign := fun op => if op == .idiv then 1 else 0 }

/-- every Luau-only construct the shared AST can express: the SUM of the nine censuses (a `//=`
statement counts twice, as a compound assignment and as a floor division) -/
def luauCensus : Census :=
  attributeCensus.add (constCensus.add (({} : Census).add (floorDivisionCensus.add (interpolatedStringCensus.add
    (ifExpressionCensus.add (compoundCensus.add (typesCensus.add continueCensus)))))))

def census_compound_assignment (b : Block) : Nat := countB compoundCensus b
def census_continue (b : Block) : Nat := countB continueCensus b
def census_if_expression (b : Block) : Nat := countB ifExpressionCensus b
def census_interpolated_string (b : Block) : Nat := countB interpolatedStringCensus b
def census_floor_division (b : Block) : Nat := countB floorDivisionCensus b
/-- Luau-only number spellings (`0b…`, `_` separators) do not exist in the shared AST, which
carries the VALUE of a literal only: nothing to count here (the harness counts them on the real
tree and text). -/
def census_luau_number (_ : Block) : Nat := 0
def census_const (b : Block) : Nat := countB constCensus b
def census_types (b : Block) : Nat := countB typesCensus b
def census_attribute (b : Block) : Nat := countB attributeCensus b
def census_idiv_assign (b : Block) : Nat := countB idivAssignCensus b
def census_luau (b : Block) : Nat := countB luauCensus b

/-- the block uses no Luau-only construct (decidable: a `Nat` equation) -/
def IsLua51 (b : Block) : Prop := census_luau b = 0

instance (b : Block) : Decidable (IsLua51 b) := inferInstanceAs (Decidable (_ = _))

/-- all nine rules, in the order of the theorem `all_lowered_is_51`: `remove_continue`, `remove_types`,
`remove_compound_assignment`, `remove_if_expression`, `remove_interpolated_string`, `remove_floor_division`,
`convert_luau_number`, `make_assignment_local`, `remove_attribute` -/
def lowerAll (truthy : Expr → Bool) (b : Block) : Block :=
  RemoveAttribute.apply <|
  MakeAssignmentLocal.apply <|
  ConvertLuauNumber.apply <|
  RemoveFloorDivision.apply <|
  RemoveInterpolatedString.apply <|
  RemoveIfExpression.apply truthy <|
  RemoveCompoundAssign.apply <|
  RemoveTypes.apply <|
  RemoveContinue.apply b

/-! ### decidable hypotheses of the partial theorems -/

mutual
  /-- every `continue` has an enclosing loop in the same function (`inLoop` = we are inside one);
  expressions hidden in `typeof(…)` of any type annotation are inspected too -/
  def contOkTy : Ty → Bool
    | .mk _ kids => contOkTys kids
    | .typeof e => contOkE e
  def contOkTys : List Ty → Bool
    | [] => true
    | t :: ts => contOkTy t && contOkTys ts
  def contOkOTy : Option Ty → Bool
    | none => true
    | some t => contOkTy t
  def contOkTN : TName → Bool
    | .mk _ ty => contOkOTy ty
  def contOkTNs : List TName → Bool
    | [] => true
    | t :: ts => contOkTN t && contOkTNs ts
  def contOkE : Expr → Bool
    | .nil | .true | .false | .vararg | .num _ | .str _ | .var _ => true
    | .paren e => contOkE e
    | .un _ e => contOkE e
    | .field e _ => contOkE e
    | .bin _ l r => contOkE l && contOkE r
    | .index l r => contOkE l && contOkE r
    | .call f _ _ args => contOkE f && contOkEs args
    | .fn body => contOkF body
    | .table es => contOkEntries es
    | .ifx c t elifs e => contOkE c && contOkE t && contOkPairs elifs && contOkE e
    | .interp segs => contOkSegs segs
    | .cast e ty => contOkE e && contOkTy ty
    | .inst e tys => contOkE e && contOkTys tys
  def contOkEs : List Expr → Bool
    | [] => true
    | e :: es => contOkE e && contOkEs es
  def contOkOE : Option Expr → Bool
    | none => true
    | some e => contOkE e
  def contOkPairs : List (Expr × Expr) → Bool
    | [] => true
    | (a, b) :: rest => contOkE a && contOkE b && contOkPairs rest
  def contOkEntry : Entry → Bool
    | .pos v => contOkE v
    | .named _ v => contOkE v
    | .keyed k v => contOkE k && contOkE v
  def contOkEntries : List Entry → Bool
    | [] => true
    | e :: es => contOkEntry e && contOkEntries es
  def contOkSeg : Seg → Bool
    | .s _ => true
    | .v e => contOkE e
  def contOkSegs : List Seg → Bool
    | [] => true
    | e :: es => contOkSeg e && contOkSegs es
  /-- a function body starts outside any loop -/
  def contOkF : FnBody → Bool
    | .mk params _ varTy ret _ _ body => contOkTNs params && contOkOTy varTy && contOkOTy ret && contOkB false body
  def contOkS (inLoop : Bool) : Stmt → Bool
    | .assign ts vs => contOkEs ts && contOkEs vs
    | .cassign _ t v => contOkE t && contOkE v
    | .callStmt c => contOkE c
    | .doBlock b => contOkB inLoop b
    | .function name _ body => !name.isEmpty && contOkF body   -- (a `FunctionName` always has a root)
    | .localFn _ _ body => contOkF body
    | .typeFn _ _ body => contOkF body
    | .gfor names vs body => contOkTNs names && contOkEs vs && contOkB true body
    | .nfor name a b step body => contOkTN name && contOkE a && contOkE b && contOkOE step && contOkB true body
    | .ifs branches els => contOkBranches inLoop branches && contOkOB inLoop els
    | .localAssign _ names vs => contOkTNs names && contOkEs vs
    | .repeat_ b c => contOkB true b && contOkE c
    | .while_ c b => contOkE c && contOkB true b
    | .typeDecl _ _ ty => contOkTy ty
  def contOkBranches (inLoop : Bool) : List (Expr × Block) → Bool
    | [] => true
    | (c, b) :: rest => contOkE c && contOkB inLoop b && contOkBranches inLoop rest
  def contOkSs (inLoop : Bool) : List Stmt → Bool
    | [] => true
    | s :: ss => contOkS inLoop s && contOkSs inLoop ss
  def contOkL (inLoop : Bool) : Last → Bool
    | .ret es => contOkEs es
    | .brk => true
    | .cont => inLoop
  def contOkOL (inLoop : Bool) : Option Last → Bool
    | none => true
    | some l => contOkL inLoop l
  def contOkOB (inLoop : Bool) : Option Block → Bool
    | none => true
    | some b => contOkB inLoop b
  def contOkB (inLoop : Bool) : Block → Bool
    | .mk stmts last => contOkSs inLoop stmts && contOkOL inLoop last
end

/-- hypothesis of `census_zero_remove_continue_partial`: no `continue` outside a loop -/
def continueInLoops (b : Block) : Bool := contOkB false b

end DarkluaModel.C07
