import DarkluaModel.Shared.Visitor
import DarkluaModel.C07.Basic
/-!
# Unfolding lemmas for the visitor, one per node kind, in projection form

`Visitor.visitStmt` / `visitNode` are large; every traversal proof (C07 coverage, well-formedness,
`remove_continue`) would pay for unfolding them again and again. These lemmas state, for each
constructor the hooks return, what the visitor does next — proved once by unfolding.
-/
namespace DarkluaModel.Visitor
variable {σ : Type} (P : Processor σ) (sc : Bool) (n : Nat)

/-- the common preamble: destructure `P` so that hook applications are plain function applications -/
macro "open_processor" P:ident : tactic =>
  `(tactic| obtain ⟨pblock, pafterBlock, pscope, pstmt, pstmtNode, pafterStmtNode, plast, pexpr, ppref, ptarget,
      pnode, pafterNode, pty, pattrs, ppush, ppop, pinsert, pinsertSelf, pinsertLocal, pinsertLocalFn⟩ := $P)

theorem visitStmt_call (st : Stmt) (s s1 : σ) (c : Expr) (h1 : P.stmt st s = (.callStmt c, s1)) :
    visitStmt P sc (n + 1) st s = (.callStmt (visitNode P sc n c s1).1, (visitNode P sc n c s1).2) := by
  open_processor P
  rw [visitStmt]
  dsimp only at h1 ⊢
  rw [h1]

section
variable (st st1 : Stmt) (s s1 s2 : σ) (h1 : P.stmt st s = (st1, s1)) (hc : isCallStmt st1 = false)
include h1 hc

/-- after both statement hooks: what remains is the match on the statement they returned -/
theorem visitStmt_assign (ts vs : List Expr) (h2 : P.stmtNode st1 s1 = (.assign ts vs, s2)) :
    visitStmt P sc (n + 1) st s =
      let r1 := mapS (visitTarget P sc n) ts s2
      let r2 := mapS (visitExpr P sc n) vs r1.2
      P.afterStmtNode (.assign r1.1 r2.1) r2.2 := by
  open_processor P
  rw [visitStmt]
  dsimp only at h1 h2 ⊢
  rw [h1]
  dsimp only
  split
  · simp [isCallStmt] at hc
  · rw [h2]
    all_goals (first | rfl | (simp only [↓reduceIte, Bool.false_eq_true]; try rfl))

theorem visitStmt_cassign (op : BinOp) (t v : Expr) (h2 : P.stmtNode st1 s1 = (.cassign op t v, s2)) :
    visitStmt P sc (n + 1) st s =
      let r1 := visitTarget P sc n t s2
      let r2 := visitExpr P sc n v r1.2
      P.afterStmtNode (.cassign op r1.1 r2.1) r2.2 := by
  open_processor P
  rw [visitStmt]
  dsimp only at h1 h2 ⊢
  rw [h1]
  dsimp only
  split
  · simp [isCallStmt] at hc
  · rw [h2]
    all_goals (first | rfl | (simp only [↓reduceIte, Bool.false_eq_true]; try rfl))

theorem visitStmt_do (b : Block) (h2 : P.stmtNode st1 s1 = (.doBlock b, s2)) :
    visitStmt P sc (n + 1) st s =
      let r1 := P.scope b none s2
      let r2 := visitBlock P sc n true r1.1.1 r1.2
      P.afterStmtNode (.doBlock r2.1) r2.2 := by
  open_processor P
  rw [visitStmt]
  dsimp only at h1 h2 ⊢
  rw [h1]
  dsimp only
  split
  · simp [isCallStmt] at hc
  · rw [h2]
    all_goals (first | rfl | (simp only [↓reduceIte, Bool.false_eq_true]; try rfl))

theorem visitStmt_while (c : Expr) (b : Block) (h2 : P.stmtNode st1 s1 = (.while_ c b, s2)) :
    visitStmt P sc (n + 1) st s =
      let r0 := visitExpr P sc n c s2
      let r1 := P.scope b none r0.2
      let r2 := visitBlock P sc n true r1.1.1 r1.2
      P.afterStmtNode (.while_ r0.1 r2.1) r2.2 := by
  open_processor P
  rw [visitStmt]
  dsimp only at h1 h2 ⊢
  rw [h1]
  dsimp only
  split
  · simp [isCallStmt] at hc
  · rw [h2]
    all_goals (first | rfl | (simp only [↓reduceIte, Bool.false_eq_true]; try rfl))

theorem visitStmt_function_nil (m : Option String) (body : FnBody)
    (h2 : P.stmtNode st1 s1 = (.function [] m body, s2)) :
    visitStmt P sc (n + 1) st s = P.afterStmtNode (.function [] m body) s2 := by
  open_processor P
  rw [visitStmt]
  dsimp only at h1 h2 ⊢
  rw [h1]
  dsimp only
  split
  · simp [isCallStmt] at hc
  · rw [h2]
    all_goals (first | rfl | (simp only [↓reduceIte, Bool.false_eq_true]; try rfl))

theorem visitStmt_function_scoped (root : String) (path : List String) (m : Option String) (body : FnBody)
    (h2 : P.stmtNode st1 s1 = (.function (root :: path) m body, s2)) :
    visitStmt P true (n + 1) st s =
      let r1 := P.node (.var root) s2
      let root' := match r1.1 with | .var x => x | _ => root
      let r2 := visitFnBody P true n m.isSome body r1.2
      P.afterStmtNode (.function (root' :: path) m r2.1) r2.2 := by
  open_processor P
  rw [visitStmt]
  dsimp only at h1 h2 ⊢
  rw [h1]
  dsimp only
  split
  · simp [isCallStmt] at hc
  · rw [h2]
    all_goals (first | rfl | (simp only [↓reduceIte, Bool.false_eq_true]; try rfl))

theorem visitStmt_function_default (root : String) (path : List String) (m : Option String)
    (params : List TName) (variadic : Bool) (varTy ret : Option Ty) (generics attrs : List String) (blk : Block)
    (h2 : P.stmtNode st1 s1 = (.function (root :: path) m (.mk params variadic varTy ret generics attrs blk), s2)) :
    visitStmt P false (n + 1) st s =
      let a0 := P.attrs attrs s2
      let r1 := P.node (.var root) a0.2
      let root' := match r1.1 with | .var x => x | _ => root
      let a2 := P.scope blk none r1.2
      let a3 := visitBlock P false n true a2.1.1 a2.2
      let a4 := mapS (tnameTy (visitTy P false n)) params a3.2
      let a5 := optS (visitTy P false n) varTy a4.2
      let a6 := optS (visitTy P false n) ret a5.2
      P.afterStmtNode (.function (root' :: path) m (.mk a4.1 variadic a5.1 a6.1 generics a0.1 a3.1)) a6.2 := by
  open_processor P
  rw [visitStmt]
  dsimp only at h1 h2 ⊢
  rw [h1]
  dsimp only
  split
  · simp [isCallStmt] at hc
  · rw [h2]
    all_goals (first | rfl | (simp only [↓reduceIte, Bool.false_eq_true]; try rfl))

theorem visitStmt_gfor_scoped (names : List TName) (values : List Expr) (body : Block)
    (h2 : P.stmtNode st1 s1 = (.gfor names values body, s2)) :
    visitStmt P true (n + 1) st s =
      let r0 := mapS (visitExpr P true n) values s2
      let r1 := mapS (tnameTy (visitTy P true n)) names r0.2
      let r2 := mapS (tnameInsert P.insert) r1.1 (P.push r1.2)
      let r3 := P.scope body none r2.2
      let r4 := visitBlock P true n true r3.1.1 r3.2
      P.afterStmtNode (.gfor r2.1 r0.1 r4.1) (P.pop r4.2) := by
  open_processor P
  rw [visitStmt]
  dsimp only at h1 h2 ⊢
  rw [h1]
  dsimp only
  split
  · simp [isCallStmt] at hc
  · rw [h2]
    all_goals (first | rfl | (simp only [↓reduceIte, Bool.false_eq_true]; try rfl))

theorem visitStmt_gfor_default (names : List TName) (values : List Expr) (body : Block)
    (h2 : P.stmtNode st1 s1 = (.gfor names values body, s2)) :
    visitStmt P false (n + 1) st s =
      let r0 := mapS (visitExpr P false n) values s2
      let r1 := P.scope body none r0.2
      let r2 := visitBlock P false n true r1.1.1 r1.2
      let r3 := mapS (tnameTy (visitTy P false n)) names r2.2
      P.afterStmtNode (.gfor r3.1 r0.1 r2.1) r3.2 := by
  open_processor P
  rw [visitStmt]
  dsimp only at h1 h2 ⊢
  rw [h1]
  dsimp only
  split
  · simp [isCallStmt] at hc
  · rw [h2]
    all_goals (first | rfl | (simp only [↓reduceIte, Bool.false_eq_true]; try rfl))

theorem visitStmt_nfor_scoped (name : TName) (start stop : Expr) (step : Option Expr) (body : Block)
    (h2 : P.stmtNode st1 s1 = (.nfor name start stop step body, s2)) :
    visitStmt P true (n + 1) st s =
      let a := visitExpr P true n start s2
      let b := visitExpr P true n stop a.2
      let c := optS (visitExpr P true n) step b.2
      let c1 := tnameTy (visitTy P true n) name c.2
      let c3 := tnameInsert P.insert c1.1 (P.push c1.2)
      let c4 := P.scope body none c3.2
      let c5 := visitBlock P true n true c4.1.1 c4.2
      P.afterStmtNode (.nfor c3.1 a.1 b.1 c.1 c5.1) (P.pop c5.2) := by
  open_processor P
  rw [visitStmt]
  dsimp only at h1 h2 ⊢
  rw [h1]
  dsimp only
  split
  · simp [isCallStmt] at hc
  · rw [h2]
    all_goals (first | rfl | (simp only [↓reduceIte, Bool.false_eq_true]; try rfl))

theorem visitStmt_nfor_default (name : TName) (start stop : Expr) (step : Option Expr) (body : Block)
    (h2 : P.stmtNode st1 s1 = (.nfor name start stop step body, s2)) :
    visitStmt P false (n + 1) st s =
      let a := visitExpr P false n start s2
      let b := visitExpr P false n stop a.2
      let c := optS (visitExpr P false n) step b.2
      let c1 := P.scope body none c.2
      let c2 := visitBlock P false n true c1.1.1 c1.2
      let c3 := tnameTy (visitTy P false n) name c2.2
      P.afterStmtNode (.nfor c3.1 a.1 b.1 c.1 c2.1) c3.2 := by
  open_processor P
  rw [visitStmt]
  dsimp only at h1 h2 ⊢
  rw [h1]
  dsimp only
  split
  · simp [isCallStmt] at hc
  · rw [h2]
    all_goals (first | rfl | (simp only [↓reduceIte, Bool.false_eq_true]; try rfl))

theorem visitStmt_ifs (branches : List (Expr × Block)) (els : Option Block)
    (h2 : P.stmtNode st1 s1 = (.ifs branches els, s2)) :
    visitStmt P sc (n + 1) st s =
      let r1 := mapS (fun (p : Expr × Block) st =>
        (((visitExpr P sc n p.1 st).1,
            (visitBlock P sc n true (P.scope p.2 none (visitExpr P sc n p.1 st).2).1.1
              (P.scope p.2 none (visitExpr P sc n p.1 st).2).2).1),
          (visitBlock P sc n true (P.scope p.2 none (visitExpr P sc n p.1 st).2).1.1
              (P.scope p.2 none (visitExpr P sc n p.1 st).2).2).2)) branches s2
      let r2 := optS (fun blk st => visitBlock P sc n true (P.scope blk none st).1.1 (P.scope blk none st).2) els r1.2
      P.afterStmtNode (.ifs r1.1 r2.1) r2.2 := by
  open_processor P
  rw [visitStmt]
  dsimp only at h1 h2 ⊢
  rw [h1]
  dsimp only
  split
  · simp [isCallStmt] at hc
  · rw [h2]
    all_goals (first | rfl | (simp only [↓reduceIte, Bool.false_eq_true]; try rfl))

theorem visitStmt_local_scoped (kind : LocalKind) (names : List TName) (values : List Expr)
    (h2 : P.stmtNode st1 s1 = (.localAssign kind names values, s2)) :
    visitStmt P true (n + 1) st s =
      let a := mapS (visitExpr P true n) values s2
      let b := mapS (tnameTy (visitTy P true n)) names a.2
      let c := insertLocals P b.1 a.1 b.2
      P.afterStmtNode (.localAssign kind c.1.1 c.1.2) c.2 := by
  open_processor P
  rw [visitStmt]
  dsimp only at h1 h2 ⊢
  rw [h1]
  dsimp only
  split
  · simp [isCallStmt] at hc
  · rw [h2]
    all_goals (first | rfl | (simp only [↓reduceIte, Bool.false_eq_true]; try rfl))

theorem visitStmt_local_default (kind : LocalKind) (names : List TName) (values : List Expr)
    (h2 : P.stmtNode st1 s1 = (.localAssign kind names values, s2)) :
    visitStmt P false (n + 1) st s =
      let a := mapS (visitExpr P false n) values s2
      let b := mapS (tnameTy (visitTy P false n)) names a.2
      P.afterStmtNode (.localAssign kind b.1 a.1) b.2 := by
  open_processor P
  rw [visitStmt]
  dsimp only at h1 h2 ⊢
  rw [h1]
  dsimp only
  split
  · simp [isCallStmt] at hc
  · rw [h2]
    all_goals (first | rfl | (simp only [↓reduceIte, Bool.false_eq_true]; try rfl))

theorem visitStmt_localFn_scoped (kind : LocalKind) (name : String)
    (params : List TName) (variadic : Bool) (varTy ret : Option Ty) (generics attrs : List String) (blk : Block)
    (h2 : P.stmtNode st1 s1 = (.localFn kind name (.mk params variadic varTy ret generics attrs blk), s2)) :
    visitStmt P true (n + 1) st s =
      let a1 := mapS (tnameTy (visitTy P true n)) params s2
      let a2 := optS (visitTy P true n) varTy a1.2
      let a3 := optS (visitTy P true n) ret a2.2
      let a4 := P.insertLocalFn name a3.2
      let a6 := mapS (tnameInsert P.insert) a1.1 (P.push a4.2)
      let a7 := P.scope blk none a6.2
      let a8 := visitBlock P true n true a7.1.1 a7.2
      P.afterStmtNode (.localFn kind a4.1 (.mk a6.1 variadic a2.1 a3.1 generics attrs a8.1)) (P.pop a8.2) := by
  open_processor P
  rw [visitStmt]
  dsimp only at h1 h2 ⊢
  rw [h1]
  dsimp only
  split
  · simp [isCallStmt] at hc
  · rw [h2]
    all_goals (first | rfl | (simp only [↓reduceIte, Bool.false_eq_true]; try rfl))

theorem visitStmt_localFn_default (kind : LocalKind) (name : String) (body : FnBody)
    (h2 : P.stmtNode st1 s1 = (.localFn kind name body, s2)) :
    visitStmt P false (n + 1) st s =
      let b := visitFnBody P false n false body s2
      P.afterStmtNode (.localFn kind name b.1) b.2 := by
  open_processor P
  rw [visitStmt]
  dsimp only at h1 h2 ⊢
  rw [h1]
  dsimp only
  split
  · simp [isCallStmt] at hc
  · rw [h2]
    all_goals (first | rfl | (simp only [↓reduceIte, Bool.false_eq_true]; try rfl))

theorem visitStmt_repeat_scoped (body : Block) (cond : Expr)
    (h2 : P.stmtNode st1 s1 = (.repeat_ body cond, s2)) :
    visitStmt P true (n + 1) st s =
      let a1 := P.scope body (some cond) (P.push s2)
      let a2 := visitBlock P true n false a1.1.1 a1.2
      let a3 := visitExpr P true n (a1.1.2.getD cond) a2.2
      P.afterStmtNode (.repeat_ a2.1 a3.1) (P.pop a3.2) := by
  open_processor P
  rw [visitStmt]
  dsimp only at h1 h2 ⊢
  rw [h1]
  dsimp only
  split
  · simp [isCallStmt] at hc
  · rw [h2]
    all_goals (first | rfl | (simp only [↓reduceIte, Bool.false_eq_true]; try rfl))

theorem visitStmt_repeat_default (body : Block) (cond : Expr)
    (h2 : P.stmtNode st1 s1 = (.repeat_ body cond, s2)) :
    visitStmt P false (n + 1) st s =
      let a1 := P.scope body (some cond) s2
      let a2 := visitExpr P false n (a1.1.2.getD cond) a1.2
      let a3 := visitBlock P false n true a1.1.1 a2.2
      P.afterStmtNode (.repeat_ a3.1 a2.1) a3.2 := by
  open_processor P
  rw [visitStmt]
  dsimp only at h1 h2 ⊢
  rw [h1]
  dsimp only
  split
  · simp [isCallStmt] at hc
  · rw [h2]
    all_goals (first | rfl | (simp only [↓reduceIte, Bool.false_eq_true]; try rfl))

theorem visitStmt_typeDecl (ex : Bool) (name : String) (ty : Ty)
    (h2 : P.stmtNode st1 s1 = (.typeDecl ex name ty, s2)) :
    visitStmt P sc (n + 1) st s =
      let a := visitTy P sc n ty s2
      P.afterStmtNode (.typeDecl ex name a.1) a.2 := by
  open_processor P
  rw [visitStmt]
  dsimp only at h1 h2 ⊢
  rw [h1]
  dsimp only
  split
  · simp [isCallStmt] at hc
  · rw [h2]
    all_goals (first | rfl | (simp only [↓reduceIte, Bool.false_eq_true]; try rfl))

theorem visitStmt_typeFn_scoped (ex : Bool) (name : String)
    (params : List TName) (variadic : Bool) (varTy ret : Option Ty) (generics attrs : List String) (blk : Block)
    (h2 : P.stmtNode st1 s1 = (.typeFn ex name (.mk params variadic varTy ret generics attrs blk), s2)) :
    visitStmt P true (n + 1) st s =
      let a1 := mapS (tnameTy (visitTy P true n)) params s2
      let a2 := optS (visitTy P true n) varTy a1.2
      let a3 := optS (visitTy P true n) ret a2.2
      let a5 := mapS (tnameInsert P.insert) a1.1 (P.push a3.2)
      let a6 := P.scope blk none a5.2
      let a7 := visitBlock P true n true a6.1.1 a6.2
      P.afterStmtNode (.typeFn ex name (.mk a5.1 variadic a2.1 a3.1 generics attrs a7.1)) (P.pop a7.2) := by
  open_processor P
  rw [visitStmt]
  dsimp only at h1 h2 ⊢
  rw [h1]
  dsimp only
  split
  · simp [isCallStmt] at hc
  · rw [h2]
    all_goals (first | rfl | (simp only [↓reduceIte, Bool.false_eq_true]; try rfl))


theorem visitStmt_typeFn_default (ex : Bool) (name : String)
    (params : List TName) (variadic : Bool) (varTy ret : Option Ty) (generics attrs : List String) (blk : Block)
    (h2 : P.stmtNode st1 s1 = (.typeFn ex name (.mk params variadic varTy ret generics attrs blk), s2)) :
    visitStmt P false (n + 1) st s =
      let a1 := P.scope blk none s2
      let a2 := visitBlock P false n true a1.1.1 a1.2
      let a3 := mapS (tnameTy (visitTy P false n)) params a2.2
      let a4 := optS (visitTy P false n) varTy a3.2
      let a5 := optS (visitTy P false n) ret a4.2
      P.afterStmtNode (.typeFn ex name (.mk a3.1 variadic a4.1 a5.1 generics attrs a2.1)) a5.2 := by
  open_processor P
  rw [visitStmt]
  dsimp only at h1 h2 ⊢
  rw [h1]
  dsimp only
  split
  · simp [isCallStmt] at hc
  · rw [h2]
    all_goals (first | rfl | (simp only [↓reduceIte, Bool.false_eq_true]; try rfl))


theorem visitStmt_other (c : Expr) (h2 : P.stmtNode st1 s1 = (.callStmt c, s2)) :
    visitStmt P sc (n + 1) st s = P.afterStmtNode (.callStmt c) s2 := by
  open_processor P
  rw [visitStmt]
  dsimp only at h1 h2 ⊢
  rw [h1]
  dsimp only
  split
  · simp [isCallStmt] at hc
  · rw [h2]
    all_goals (first | rfl | (simp only [↓reduceIte, Bool.false_eq_true]; try rfl))
end


/-! ### expressions -/

def isLeafE : Expr → Bool
  | .nil | .true | .false | .vararg => true
  | _ => false

/-- nodes without children to visit -/
def noKids : Expr → Bool
  | .nil | .true | .false | .vararg | .num _ | .str _ | .var _ => true
  | _ => false

theorem visitNode_leaf (e : Expr) (s : σ) (hl : isLeafE e = true) : visitNode P sc (n + 1) e s = (e, s) := by
  cases e <;> simp [isLeafE] at hl <;> simp [visitNode]

section
variable (e : Expr) (s s1 : σ) (hl : isLeafE e = false)
include hl

theorem visitNode_noKids (e1 : Expr) (hk : noKids e1 = true) (h2 : P.node e s = (e1, s1)) :
    visitNode P sc (n + 1) e s = P.afterNode e1 s1 := by
  open_processor P
  rw [visitNode]
  · dsimp only at h2 ⊢
    rw [h2]
    cases e1 <;> simp [noKids] at hk <;> rfl
  all_goals (intro h; subst h; simp [isLeafE] at hl)

theorem visitNode_bin (op : BinOp) (l r : Expr) (h2 : P.node e s = (.bin op l r, s1)) :
    visitNode P sc (n + 1) e s =
      let a := visitExpr P sc n l s1
      let b := visitExpr P sc n r a.2
      P.afterNode (.bin op a.1 b.1) b.2 := by
  open_processor P
  rw [visitNode]
  · dsimp only at h2 ⊢
    rw [h2]
    all_goals (first | rfl | (simp only []; try rfl))
  all_goals (intro h; subst h; simp [isLeafE] at hl)

theorem visitNode_call_tuple (f : Expr) (m : Option String) (args : List Expr)
    (h2 : P.node e s = (.call f m .tuple args, s1)) :
    visitNode P sc (n + 1) e s =
      let a := visitPrefix P sc n f s1
      let b := mapS (visitExpr P sc n) args a.2
      P.afterNode (.call a.1 m .tuple b.1) b.2 := by
  open_processor P
  rw [visitNode]
  · dsimp only at h2 ⊢
    rw [h2]
    all_goals (first | rfl | (simp only []; try rfl))
  all_goals (intro h; subst h; simp [isLeafE] at hl)

theorem visitNode_call_other (f : Expr) (m : Option String) (k : ArgKind) (hk : k ≠ .tuple) (args : List Expr)
    (h2 : P.node e s = (.call f m k args, s1)) :
    visitNode P sc (n + 1) e s =
      let a := visitPrefix P sc n f s1
      let b := mapS (visitNode P sc n) args a.2
      P.afterNode (.call a.1 m k b.1) b.2 := by
  cases k with
  | tuple => exact absurd rfl hk
  | _ =>
    open_processor P
    rw [visitNode]
    · dsimp only at h2 ⊢
      rw [h2]
      all_goals (first | rfl | (simp only []; try rfl))
    all_goals (intro h; subst h; simp [isLeafE] at hl)

theorem visitNode_field (x : Expr) (name : String) (h2 : P.node e s = (.field x name, s1)) :
    visitNode P sc (n + 1) e s =
      let a := visitPrefix P sc n x s1
      P.afterNode (.field a.1 name) a.2 := by
  open_processor P
  rw [visitNode]
  · dsimp only at h2 ⊢
    rw [h2]
    all_goals (first | rfl | (simp only []; try rfl))
  all_goals (intro h; subst h; simp [isLeafE] at hl)

theorem visitNode_index (x k : Expr) (h2 : P.node e s = (.index x k, s1)) :
    visitNode P sc (n + 1) e s =
      let a := visitPrefix P sc n x s1
      let b := visitExpr P sc n k a.2
      P.afterNode (.index a.1 b.1) b.2 := by
  open_processor P
  rw [visitNode]
  · dsimp only at h2 ⊢
    rw [h2]
    all_goals (first | rfl | (simp only []; try rfl))
  all_goals (intro h; subst h; simp [isLeafE] at hl)

theorem visitNode_fn (body : FnBody) (h2 : P.node e s = (.fn body, s1)) :
    visitNode P sc (n + 1) e s =
      let a := visitFnBody P sc n false body s1
      P.afterNode (.fn a.1) a.2 := by
  open_processor P
  rw [visitNode]
  · dsimp only at h2 ⊢
    rw [h2]
    all_goals (first | rfl | (simp only []; try rfl))
  all_goals (intro h; subst h; simp [isLeafE] at hl)

theorem visitNode_ifx (c t : Expr) (elifs : List (Expr × Expr)) (el : Expr)
    (h2 : P.node e s = (.ifx c t elifs el, s1)) :
    visitNode P sc (n + 1) e s =
      let a := visitExpr P sc n c s1
      let b := visitExpr P sc n t a.2
      let c2 := mapS (fun (p : Expr × Expr) st =>
        (((visitExpr P sc n p.1 st).1, (visitExpr P sc n p.2 (visitExpr P sc n p.1 st).2).1),
          (visitExpr P sc n p.2 (visitExpr P sc n p.1 st).2).2)) elifs b.2
      let d := visitExpr P sc n el c2.2
      P.afterNode (.ifx a.1 b.1 c2.1 d.1) d.2 := by
  open_processor P
  rw [visitNode]
  · dsimp only at h2 ⊢
    rw [h2]
    all_goals (first | rfl | (simp only []; try rfl))
  all_goals (intro h; subst h; simp [isLeafE] at hl)

theorem visitNode_paren (x : Expr) (h2 : P.node e s = (.paren x, s1)) :
    visitNode P sc (n + 1) e s =
      let a := visitExpr P sc n x s1
      P.afterNode (.paren a.1) a.2 := by
  open_processor P
  rw [visitNode]
  · dsimp only at h2 ⊢
    rw [h2]
    all_goals (first | rfl | (simp only []; try rfl))
  all_goals (intro h; subst h; simp [isLeafE] at hl)

theorem visitNode_un (op : UnOp) (x : Expr) (h2 : P.node e s = (.un op x, s1)) :
    visitNode P sc (n + 1) e s =
      let a := visitExpr P sc n x s1
      P.afterNode (.un op a.1) a.2 := by
  open_processor P
  rw [visitNode]
  · dsimp only at h2 ⊢
    rw [h2]
    all_goals (first | rfl | (simp only []; try rfl))
  all_goals (intro h; subst h; simp [isLeafE] at hl)

theorem visitNode_interp (segs : List Seg) (h2 : P.node e s = (.interp segs, s1)) :
    visitNode P sc (n + 1) e s =
      let a := mapS (visitSeg P sc n) segs s1
      P.afterNode (.interp a.1) a.2 := by
  open_processor P
  rw [visitNode]
  · dsimp only at h2 ⊢
    rw [h2]
    all_goals (first | rfl | (simp only []; try rfl))
  all_goals (intro h; subst h; simp [isLeafE] at hl)

theorem visitNode_table (entries : List Entry) (h2 : P.node e s = (.table entries, s1)) :
    visitNode P sc (n + 1) e s =
      let a := mapS (visitEntry P sc n) entries s1
      P.afterNode (.table a.1) a.2 := by
  open_processor P
  rw [visitNode]
  · dsimp only at h2 ⊢
    rw [h2]
    all_goals (first | rfl | (simp only []; try rfl))
  all_goals (intro h; subst h; simp [isLeafE] at hl)

theorem visitNode_cast (x : Expr) (ty : Ty) (h2 : P.node e s = (.cast x ty, s1)) :
    visitNode P sc (n + 1) e s =
      let a := visitExpr P sc n x s1
      let b := visitTy P sc n ty a.2
      P.afterNode (.cast a.1 b.1) b.2 := by
  open_processor P
  rw [visitNode]
  · dsimp only at h2 ⊢
    rw [h2]
    all_goals (first | rfl | (simp only []; try rfl))
  all_goals (intro h; subst h; simp [isLeafE] at hl)

theorem visitNode_inst (x : Expr) (tys : List Ty) (h2 : P.node e s = (.inst x tys, s1)) :
    visitNode P sc (n + 1) e s =
      let a := visitPrefix P sc n x s1
      let b := mapS (visitTy P sc n) tys a.2
      P.afterNode (.inst a.1 b.1) b.2 := by
  open_processor P
  rw [visitNode]
  · dsimp only at h2 ⊢
    rw [h2]
    all_goals (first | rfl | (simp only []; try rfl))
  all_goals (intro h; subst h; simp [isLeafE] at hl)
end

/-! ### function bodies, blocks, last statements, types -/

theorem visitFnBody_scoped (hasSelf : Bool) (params : List TName) (variadic : Bool) (varTy ret : Option Ty)
    (generics attrs : List String) (body : Block) (s : σ) :
    visitFnBody P true (n + 1) hasSelf (.mk params variadic varTy ret generics attrs body) s =
      let a1 := mapS (tnameTy (visitTy P true n)) params s
      let a2 := optS (visitTy P true n) varTy a1.2
      let a3 := optS (visitTy P true n) ret a2.2
      let s5 := if hasSelf then P.insertSelf (P.push a3.2) else P.push a3.2
      let a6 := mapS (tnameInsert P.insert) a1.1 s5
      let a7 := P.scope body none a6.2
      let a8 := visitBlock P true n true a7.1.1 a7.2
      (.mk a6.1 variadic a2.1 a3.1 generics attrs a8.1, P.pop a8.2) := by
  open_processor P
  rw [visitFnBody]
  simp only [↓reduceIte]

theorem visitFnBody_default (hasSelf : Bool) (params : List TName) (variadic : Bool) (varTy ret : Option Ty)
    (generics attrs : List String) (body : Block) (s : σ) :
    visitFnBody P false (n + 1) hasSelf (.mk params variadic varTy ret generics attrs body) s =
      let a0 := P.attrs attrs s
      let a1 := P.scope body none a0.2
      let a2 := visitBlock P false n true a1.1.1 a1.2
      let a3 := mapS (tnameTy (visitTy P false n)) params a2.2
      let a4 := optS (visitTy P false n) varTy a3.2
      let a5 := optS (visitTy P false n) ret a4.2
      (.mk a3.1 variadic a4.1 a5.1 generics a0.1 a2.1, a5.2) := by
  open_processor P
  rw [visitFnBody]
  simp only [Bool.false_eq_true, ↓reduceIte]

theorem visitBlock_eq (pushes : Bool) (b : Block) (s : σ) (stmts : List Stmt) (last : Option Last) (s1 : σ)
    (h : P.block b (if (sc && pushes) = true then P.push s else s) = (.mk stmts last, s1)) :
    visitBlock P sc (n + 1) pushes b s =
      let a := mapS (visitStmt P sc n) stmts s1
      let l := optS (visitLast P sc n) last a.2
      let r := P.afterBlock (.mk a.1 l.1) l.2
      (r.1, if (sc && pushes) = true then P.pop r.2 else r.2) := by
  open_processor P
  rw [visitBlock]
  dsimp only at h ⊢
  rw [h]

theorem visitLast_ret (l : Last) (s s1 : σ) (es : List Expr) (h : P.last l s = (.ret es, s1)) :
    visitLast P sc (n + 1) l s = (.ret (mapS (visitExpr P sc n) es s1).1, (mapS (visitExpr P sc n) es s1).2) := by
  open_processor P
  rw [visitLast]
  dsimp only at h ⊢
  rw [h]

theorem visitLast_other (l : Last) (s s1 : σ) (l1 : Last) (hl : l1 = .brk ∨ l1 = .cont) (h : P.last l s = (l1, s1)) :
    visitLast P sc (n + 1) l s = (l1, s1) := by
  open_processor P
  rw [visitLast]
  dsimp only at h ⊢
  rw [h]
  rcases hl with rfl | rfl <;> rfl

theorem visitTy_mk (t : Ty) (s s1 : σ) (tag : String) (kids : List Ty) (h : P.ty t s = (.mk tag kids, s1)) :
    visitTy P sc (n + 1) t s = (.mk tag (mapS (visitTy P sc n) kids s1).1, (mapS (visitTy P sc n) kids s1).2) := by
  open_processor P
  rw [visitTy]
  dsimp only at h ⊢
  rw [h]

theorem visitTy_typeof (t : Ty) (s s1 : σ) (e : Expr) (h : P.ty t s = (.typeof e, s1)) :
    visitTy P sc (n + 1) t s = (.typeof (visitExpr P sc n e s1).1, (visitExpr P sc n e s1).2) := by
  open_processor P
  rw [visitTy]
  dsimp only at h ⊢
  rw [h]

theorem visitExpr_eq (e : Expr) (s : σ) :
    visitExpr P sc (n + 1) e s = visitNode P sc n (P.expr e s).1 (P.expr e s).2 := by
  open_processor P
  rw [visitExpr]

theorem visitPrefix_eq (e : Expr) (s : σ) :
    visitPrefix P sc (n + 1) e s = visitNode P sc n (P.pref e s).1 (P.pref e s).2 := by
  open_processor P
  rw [visitPrefix]

theorem visitTarget_eq (e : Expr) (s : σ) :
    visitTarget P sc (n + 1) e s = visitNode P sc n (P.target e s).1 (P.target e s).2 := by
  open_processor P
  rw [visitTarget]

end DarkluaModel.Visitor
