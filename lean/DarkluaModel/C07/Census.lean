import DarkluaModel.C07.Cover
/-!
# Census algebra: sums of censuses, and what a node contributes by itself is at most its count
-/
set_option linter.unusedSimpArgs false
namespace DarkluaModel.C07
open DarkluaModel.Rules

variable (A B : Census)

theorem add_ifx : (A.add B).ifx = A.ifx + B.ifx := rfl
theorem add_interp : (A.add B).interp = A.interp + B.interp := rfl
theorem add_cast : (A.add B).cast = A.cast + B.cast := rfl
theorem add_inst : (A.add B).inst = A.inst + B.inst := rfl
theorem add_cont : (A.add B).cont = A.cont + B.cont := rfl
theorem add_typeStmt : (A.add B).typeStmt = A.typeStmt + B.typeStmt := rfl
theorem add_tyNode : (A.add B).tyNode = A.tyNode + B.tyNode := rfl
theorem add_generic : (A.add B).generic = A.generic + B.generic := rfl
theorem add_attr : (A.add B).attr = A.attr + B.attr := rfl
theorem add_bin (op : BinOp) : (A.add B).bin op = A.bin op + B.bin op := rfl
theorem add_cassign (op : BinOp) : (A.add B).cassign op = A.cassign op + B.cassign op := rfl
theorem add_localKind (k : LocalKind) : (A.add B).localKind k = A.localKind k + B.localKind k := rfl

mutual
  theorem addTy : ∀ t : Ty, countTy (A.add B) t = countTy A t + countTy B t
    | .mk _ kids => by simp only [countTy, addTys kids, add_ifx, add_interp, add_cast, add_inst, add_cont, add_typeStmt, add_tyNode, add_generic, add_attr, add_bin, add_cassign, add_localKind]; omega
    | .typeof e => by simp only [countTy, addE e, add_ifx, add_interp, add_cast, add_inst, add_cont, add_typeStmt, add_tyNode, add_generic, add_attr, add_bin, add_cassign, add_localKind]; omega
  theorem addTys : ∀ ts : List Ty, countTys (A.add B) ts = countTys A ts + countTys B ts
    | [] => by simp [countTys]
    | t :: ts => by simp only [countTys, addTy t, addTys ts]; omega
  theorem addOTy : ∀ t : Option Ty, countOTy (A.add B) t = countOTy A t + countOTy B t
    | none => by simp [countOTy]
    | some t => by simp only [countOTy, addTy t]
  theorem addTN : ∀ t : TName, countTN (A.add B) t = countTN A t + countTN B t
    | .mk _ ty => by simp only [countTN, addOTy ty]
  theorem addTNs : ∀ ts : List TName, countTNs (A.add B) ts = countTNs A ts + countTNs B ts
    | [] => by simp [countTNs]
    | t :: ts => by simp only [countTNs, addTN t, addTNs ts]; omega
  theorem addE : ∀ e : Expr, countE (A.add B) e = countE A e + countE B e
    | .nil | .true | .false | .vararg | .num _ | .str _ | .var _ => by simp [countE]
    | .paren e => by simp only [countE, addE e]
    | .un _ e => by simp only [countE, addE e]
    | .bin _ l r => by simp only [countE, addE l, addE r, add_ifx, add_interp, add_cast, add_inst, add_cont, add_typeStmt, add_tyNode, add_generic, add_attr, add_bin, add_cassign, add_localKind]; omega
    | .call f _ _ args => by simp only [countE, addE f, addEs args]; omega
    | .field e _ => by simp only [countE, addE e]
    | .index e k => by simp only [countE, addE e, addE k]; omega
    | .fn body => by simp only [countE, addF body]
    | .table es => by simp only [countE, addEntries es]
    | .ifx c t elifs e => by simp only [countE, addE c, addE t, addPairs elifs, addE e, add_ifx, add_interp, add_cast, add_inst, add_cont, add_typeStmt, add_tyNode, add_generic, add_attr, add_bin, add_cassign, add_localKind]; omega
    | .interp segs => by simp only [countE, addSegs segs, add_ifx, add_interp, add_cast, add_inst, add_cont, add_typeStmt, add_tyNode, add_generic, add_attr, add_bin, add_cassign, add_localKind]; omega
    | .cast e ty => by simp only [countE, addE e, addTy ty, add_ifx, add_interp, add_cast, add_inst, add_cont, add_typeStmt, add_tyNode, add_generic, add_attr, add_bin, add_cassign, add_localKind]; omega
    | .inst e tys => by simp only [countE, addE e, addTys tys, add_ifx, add_interp, add_cast, add_inst, add_cont, add_typeStmt, add_tyNode, add_generic, add_attr, add_bin, add_cassign, add_localKind]; omega
  theorem addEs : ∀ es : List Expr, countEs (A.add B) es = countEs A es + countEs B es
    | [] => by simp [countEs]
    | e :: es => by simp only [countEs, addE e, addEs es]; omega
  theorem addOE : ∀ e : Option Expr, countOE (A.add B) e = countOE A e + countOE B e
    | none => by simp [countOE]
    | some e => by simp only [countOE, addE e]
  theorem addPairs : ∀ ps : List (Expr × Expr), countPairs (A.add B) ps = countPairs A ps + countPairs B ps
    | [] => by simp [countPairs]
    | (a, b) :: rest => by simp only [countPairs, addE a, addE b, addPairs rest]; omega
  theorem addEntry : ∀ e : Entry, countEntry (A.add B) e = countEntry A e + countEntry B e
    | .pos v => by simp only [countEntry, addE v]
    | .named _ v => by simp only [countEntry, addE v]
    | .keyed k v => by simp only [countEntry, addE k, addE v]; omega
  theorem addEntries : ∀ es : List Entry, countEntries (A.add B) es = countEntries A es + countEntries B es
    | [] => by simp [countEntries]
    | e :: es => by simp only [countEntries, addEntry e, addEntries es]; omega
  theorem addSeg : ∀ e : Seg, countSeg (A.add B) e = countSeg A e + countSeg B e
    | .s _ => by simp [countSeg]
    | .v e => by simp only [countSeg, addE e]
  theorem addSegs : ∀ es : List Seg, countSegs (A.add B) es = countSegs A es + countSegs B es
    | [] => by simp [countSegs]
    | e :: es => by simp only [countSegs, addSeg e, addSegs es]; omega
  theorem addF : ∀ f : FnBody, countF (A.add B) f = countF A f + countF B f
    | .mk params _ varTy ret generics attrs body => by
      simp only [countF, addTNs params, addOTy varTy, addOTy ret, addB body, add_ifx, add_interp, add_cast, add_inst, add_cont, add_typeStmt, add_tyNode, add_generic, add_attr, add_bin, add_cassign, add_localKind, Nat.add_mul]; omega
  theorem addS : ∀ s : Stmt, countS (A.add B) s = countS A s + countS B s
    | .assign ts vs => by simp only [countS, addEs ts, addEs vs]; omega
    | .cassign _ t v => by simp only [countS, addE t, addE v, add_ifx, add_interp, add_cast, add_inst, add_cont, add_typeStmt, add_tyNode, add_generic, add_attr, add_bin, add_cassign, add_localKind]; omega
    | .callStmt c => by simp only [countS, addE c]
    | .doBlock b => by simp only [countS, addB b]
    | .function _ _ body => by simp only [countS, addF body]
    | .gfor names vs body => by simp only [countS, addTNs names, addEs vs, addB body]; omega
    | .nfor name a b step body => by
      simp only [countS, addTN name, addE a, addE b, addOE step, addB body]; omega
    | .ifs branches els => by simp only [countS, addBranches branches, addOB els]; omega
    | .localAssign _ names vs => by simp only [countS, addTNs names, addEs vs, add_ifx, add_interp, add_cast, add_inst, add_cont, add_typeStmt, add_tyNode, add_generic, add_attr, add_bin, add_cassign, add_localKind]; omega
    | .localFn _ _ body => by simp only [countS, addF body, add_ifx, add_interp, add_cast, add_inst, add_cont, add_typeStmt, add_tyNode, add_generic, add_attr, add_bin, add_cassign, add_localKind]; omega
    | .repeat_ b c => by simp only [countS, addB b, addE c]; omega
    | .while_ c b => by simp only [countS, addE c, addB b]; omega
    | .typeDecl _ _ ty => by simp only [countS, addTy ty, add_ifx, add_interp, add_cast, add_inst, add_cont, add_typeStmt, add_tyNode, add_generic, add_attr, add_bin, add_cassign, add_localKind]; omega
    | .typeFn _ _ body => by simp only [countS, addF body, add_ifx, add_interp, add_cast, add_inst, add_cont, add_typeStmt, add_tyNode, add_generic, add_attr, add_bin, add_cassign, add_localKind]; omega
  theorem addBranches : ∀ bs : List (Expr × Block), countBranches (A.add B) bs = countBranches A bs + countBranches B bs
    | [] => by simp [countBranches]
    | (c, b) :: rest => by simp only [countBranches, addE c, addB b, addBranches rest]; omega
  theorem addSs : ∀ ss : List Stmt, countSs (A.add B) ss = countSs A ss + countSs B ss
    | [] => by simp [countSs]
    | s :: ss => by simp only [countSs, addS s, addSs ss]; omega
  theorem addL : ∀ l : Last, countL (A.add B) l = countL A l + countL B l
    | .ret es => by simp only [countL, addEs es]
    | .brk => by simp [countL]
    | .cont => by simp [countL, add_ifx, add_interp, add_cast, add_inst, add_cont, add_typeStmt, add_tyNode, add_generic, add_attr, add_bin, add_cassign, add_localKind]
  theorem addOL : ∀ l : Option Last, countOL (A.add B) l = countOL A l + countOL B l
    | none => by simp [countOL]
    | some l => by simp only [countOL, addL l]
  theorem addOB : ∀ b : Option Block, countOB (A.add B) b = countOB A b + countOB B b
    | none => by simp [countOB]
    | some b => by simp only [countOB, addB b]
  theorem addB : ∀ b : Block, countB (A.add B) b = countB A b + countB B b
    | .mk stmts last => by simp only [countB, addSs stmts, addOL last]; omega
end

/-! ### own contribution ≤ count -/
variable (C : Census)

theorem tyNode_le_countTy (t : Ty) : C.tyNode ≤ countTy C t := by
  cases t <;> simp only [countTy] <;> omega

theorem typed_le_countTNs : ∀ ns : List TName, C.tyNode * typedCount ns ≤ countTNs C ns
  | [] => by simp [typedCount, countTNs]
  | .mk _ none :: ns => by
    have := typed_le_countTNs ns
    simp only [typedCount, countTNs, countTN, countOTy]; omega
  | .mk _ (some t) :: ns => by
    have := typed_le_countTNs ns
    have := tyNode_le_countTy C t
    simp only [typedCount, countTNs, countTN, countOTy, Nat.mul_add, Nat.mul_one]; omega

theorem opt_le_countOTy (t : Option Ty) : C.tyNode * optCount t ≤ countOTy C t := by
  cases t with
  | none => simp [optCount, countOTy]
  | some t => have := tyNode_le_countTy C t; simp only [optCount, countOTy, Nat.mul_one]; omega

theorem shallowF_le (f : FnBody) : shallowF C f ≤ countF C f := by
  cases f with
  | mk params variadic varTy ret generics attrs body =>
    have := typed_le_countTNs C params
    have := opt_le_countOTy C varTy
    have := opt_le_countOTy C ret
    simp only [shallowF, countF, Nat.mul_add]; omega

theorem shallowE_le (e : Expr) : shallowE C e ≤ countE C e := by
  cases e <;> simp only [shallowE, countE] <;> try omega
  · exact shallowF_le C _
  · rename_i e ty; have := tyNode_le_countTy C ty; omega
  · rename_i e tys
    have : C.tyNode * tys.length ≤ countTys C tys := by
      induction tys with
      | nil => simp [countTys]
      | cons t ts ih =>
        have := tyNode_le_countTy C t
        simp only [List.length_cons, countTys, Nat.mul_add, Nat.mul_one]; omega
    omega


theorem shallowS_le (st : Stmt) : shallowS C st ≤ countS C st := by
  cases st <;> simp only [shallowS, countS] <;> try omega
  · rename_i name m body; exact shallowF_le C body
  · rename_i names vs body; have := typed_le_countTNs C names; omega
  · rename_i name a b step body
    have := typed_le_countTNs C [name]
    simp only [countTNs, Nat.add_zero] at this; omega
  · rename_i k names vs; have := typed_le_countTNs C names; omega
  · rename_i k name body; have := shallowF_le C body; omega
  · rename_i ex name ty; have := tyNode_le_countTy C ty; omega
  · rename_i ex name body; have := shallowF_le C body; omega

/-! ### own contribution of a sum -/

theorem shallowF_add (f : FnBody) : shallowF (A.add B) f = shallowF A f + shallowF B f := by
  cases f
  simp only [shallowF, add_tyNode, add_generic, add_attr, Nat.add_mul]; omega

theorem shallowE_add (e : Expr) : shallowE (A.add B) e = shallowE A e + shallowE B e := by
  cases e <;> simp only [shallowE, add_bin, add_ifx, add_interp, add_cast, add_inst, add_tyNode, Nat.add_mul,
    shallowF_add] <;> omega

theorem shallowS_add (st : Stmt) : shallowS (A.add B) st = shallowS A st + shallowS B st := by
  cases st <;> simp only [shallowS, add_cassign, add_localKind, add_typeStmt, add_tyNode, Nat.add_mul,
    shallowF_add] <;> omega

variable (W : Weights)

/-- a hook result is good for `Cr + A` as soon as it is well-formed, keeps `A` at zero, does not need
more fuel and has none of `Cr`'s constructs on top -/
theorem GoodE.of {Cr : Census} {e0 e : Expr} (hw : wfE e = true) (hc : countE A e = 0)
    (hk : kE W e ≤ kE W e0) (hs : shallowE Cr e = 0) : GoodE W (Cr.add A) A e0 e := by
  refine ⟨hw, hc, hk, ?_⟩
  have := shallowE_le A e
  rw [shallowE_add]; omega

theorem GoodS.of {Cr : Census} {s0 s : Stmt} (hw : wfS s = true) (hc : countS A s = 0)
    (hk : kS W s ≤ kS W s0) (hs : shallowS Cr s = 0) (hn : Visitor.isCallStmt s = false) :
    GoodS W (Cr.add A) A s0 s := by
  refine ⟨hw, hc, hk, ?_, hn⟩
  have := shallowS_le A s
  rw [shallowS_add]; omega

end DarkluaModel.C07
