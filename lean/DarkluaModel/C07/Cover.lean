import DarkluaModel.C07.Model
import DarkluaModel.C07.Basic

/-!
# C07 — the generic coverage theorem for the visitor

`cover`: for a processor `P` whose hooks (a) never leave one of the counted constructs at the top
of the node they return, (b) keep trees well-formed, (c) do not increase the *fuel need* `k…`
(a weighted depth: `Weights` pays for the levels a hook adds when it expands a construct), the
visitor run with enough fuel returns a tree whose census is `0` — for every block, i.e. whatever
the position of the construct. `need_le_fuelFor`: `Visitor.fuelFor` is enough.
-/
namespace DarkluaModel.C07
open DarkluaModel.Rules

/-- extra levels of fuel a hook may consume when it rewrites a construct -/
structure Weights where
  bin : BinOp → Nat := fun _ => 0
  interp : Nat := 0
  /-- per branch (`if` and every `elseif`) -/
  ifx : Nat := 0
  cassign : Nat := 0
  /-- a block ending in `continue` (`remove_continue` appends a statement to it) -/
  cont : Nat := 0

variable (W : Weights)

mutual
  /-- fuel `visitTy` needs beyond its own level -/
  def kTy : Ty → Nat
    | .mk _ kids => kTys kids
    | .typeof e => kE e + 2
  def kTys : List Ty → Nat
    | [] => 0
    | t :: ts => max (kTy t + 1) (kTys ts)
  def kOTy : Option Ty → Nat
    | none => 0
    | some t => kTy t + 1
  def kTN : TName → Nat
    | .mk _ ty => kOTy ty
  def kTNs : List TName → Nat
    | [] => 0
    | t :: ts => max (kTN t) (kTNs ts)
  /-- fuel `visitNode` needs beyond its own level (`visitExpr` needs one more) -/
  def kE : Expr → Nat
    | .nil | .true | .false | .vararg | .num _ | .str _ | .var _ => 0
    | .paren e => kE e + 2
    | .un _ e => kE e + 2
    | .bin op l r => W.bin op + max (kE l + 2) (kE r + 2)
    | .call f _ _ args => max (kE f + 2) (kEs args)
    | .field e _ => kE e + 2
    | .index e k => max (kE e + 2) (kE k + 2)
    | .fn body => kF body + 1
    | .table es => kEntries es
    | .ifx c t elifs e =>
      W.ifx * (elifs.length + 1) + max (max (kE c + 2) (kE t + 2)) (max (kPairs elifs) (kE e + 2))
    | .interp segs => W.interp + kSegs segs
    | .cast e ty => max (kE e + 2) (kTy ty + 1)
    | .inst e tys => max (kE e + 2) (kTys tys)
  def kEs : List Expr → Nat
    | [] => 0
    | e :: es => max (kE e + 2) (kEs es)
  def kOE : Option Expr → Nat
    | none => 0
    | some e => kE e + 2
  def kPairs : List (Expr × Expr) → Nat
    | [] => 0
    | (a, b) :: rest => max (max (kE a + 2) (kE b + 2)) (kPairs rest)
  def kEntry : Entry → Nat
    | .pos v => kE v + 2
    | .named _ v => kE v + 2
    | .keyed k v => max (kE k + 2) (kE v + 2)
  def kEntries : List Entry → Nat
    | [] => 0
    | e :: es => max (kEntry e + 1) (kEntries es)
  def kSeg : Seg → Nat
    | .s _ => 0
    | .v e => kE e + 2
  def kSegs : List Seg → Nat
    | [] => 0
    | e :: es => max (kSeg e + 1) (kSegs es)
  def kF : FnBody → Nat
    | .mk params _ varTy ret _ _ body => max (max (kTNs params) (kOTy varTy)) (max (kOTy ret) (kB body + 1))
  def kS : Stmt → Nat
    | .assign ts vs => max (kEs ts) (kEs vs)
    | .cassign _ t v => W.cassign + max (kE t + 2) (kE v + 2)
    | .callStmt c => kE c + 1
    | .doBlock b => kB b + 1
    | .function _ _ body => kF body + 1
    | .gfor names vs body => max (kTNs names) (max (kEs vs) (kB body + 1))
    | .nfor name a b step body =>
      max (kTN name) (max (max (kE a + 2) (kE b + 2)) (max (kOE step) (kB body + 1)))
    | .ifs branches els => max (kBranches branches) (kOB els)
    | .localAssign _ names vs => max (kTNs names) (kEs vs)
    | .localFn _ _ body => kF body + 1
    | .repeat_ b c => max (kB b + 1) (kE c + 2)
    | .while_ c b => max (kE c + 2) (kB b + 1)
    | .typeDecl _ _ ty => kTy ty + 1
    | .typeFn _ _ body => kF body + 1
  def kBranches : List (Expr × Block) → Nat
    | [] => 0
    | (c, b) :: rest => max (max (kE c + 2) (kB b + 1)) (kBranches rest)
  def kSs : List Stmt → Nat
    | [] => 0
    | s :: ss => max (kS s + 1) (kSs ss)
  def kL : Last → Nat
    | .ret es => kEs es
    | .brk => 0
    | .cont => W.cont
  def kOL : Option Last → Nat
    | none => 0
    | some l => kL l + 1
  def kOB : Option Block → Nat
    | none => 0
    | some b => kB b + 1
  /-- fuel `visitBlock` needs beyond its own level -/
  def kB : Block → Nat
    | .mk stmts last => max (kSs stmts) (kOL last)
end

/-! ### what a node contributes to the census by itself (its children excluded) -/

variable (C : Census)

def typedCount : List TName → Nat
  | [] => 0
  | .mk _ none :: ts => typedCount ts
  | .mk _ (some _) :: ts => 1 + typedCount ts

def optCount : Option Ty → Nat
  | none => 0
  | some _ => 1

/-- annotation slots, generic parameters and attributes of a function -/
def shallowF : FnBody → Nat
  | .mk params _ varTy ret generics attrs _ =>
    C.tyNode * (typedCount params + optCount varTy + optCount ret) + C.generic * generics.length +
      C.attr * attrs.length

def shallowE : Expr → Nat
  | .bin op _ _ => C.bin op
  | .ifx .. => C.ifx
  | .interp _ => C.interp
  | .cast .. => C.cast + C.tyNode
  | .inst _ tys => C.inst + C.tyNode * tys.length
  | .fn body => shallowF C body
  | _ => 0

def shallowS : Stmt → Nat
  | .cassign op _ _ => C.cassign op
  | .localAssign k names _ => C.localKind k + C.tyNode * typedCount names
  | .localFn k _ body => C.localKind k + shallowF C body
  | .function _ _ body => shallowF C body
  | .gfor names _ _ => C.tyNode * typedCount names
  | .nfor name _ _ _ _ => C.tyNode * typedCount [name]
  | .typeDecl .. => C.typeStmt + C.tyNode
  | .typeFn _ _ body => C.typeStmt + shallowF C body
  | _ => 0


/-! ### the hypotheses on the processor -/

def Block.stmts : Block → List Stmt
  | .mk ss _ => ss

/-- what the visitor needs to know about a node it is about to descend into -/
def GoodE (C0 : Census) (e0 e : Expr) : Prop :=
  wfE e = true ∧ countE C0 e = 0 ∧ kE W e ≤ kE W e0 ∧ shallowE C e = 0

def GoodS (C0 : Census) (s0 s : Stmt) : Prop :=
  wfS s = true ∧ countS C0 s = 0 ∧ kS W s ≤ kS W s0 ∧ shallowS C s = 0 ∧ Visitor.isCallStmt s = false

/-- `C` = the census to bring to zero; `C0` = a census the INPUT is assumed to have at zero
(preserved by the hooks); `W` = the fuel weights the hooks respect; `okS` = a property of the
statements of a block established by the block hook (`remove_types` drops type statements there). -/
structure Cover {σ : Type} (P : Processor σ) (C C0 : Census) (W : Weights) (okS : Stmt → Bool) : Prop where
  /-- nothing turns a `continue` into something else here: either it is not counted, or the input has none -/
  cont_ok : C0.cont = 0 → C.cont = 0
  afterBlock_id : ∀ b s, (P.afterBlock b s).1 = b
  scope_id : ∀ b e s, (P.scope b e s).1 = (b, e)
  afterStmtNode_id : ∀ st s, (P.afterStmtNode st s).1 = st
  last_id : ∀ l s, (P.last l s).1 = l
  afterNode_id : ∀ e s, (P.afterNode e s).1 = e
  ty_id : ∀ t s, (P.ty t s).1 = t
  attrs_id : ∀ a s, (P.attrs a s).1 = a
  insert_id : ∀ n s, (P.insert n s).1 = n
  insertLocal_id : ∀ n e s, (P.insertLocal n e s).1 = (n, e)
  insertLocalFn_id : ∀ n s, (P.insertLocalFn n s).1 = n
  target_id : ∀ e s, (P.target e s).1 = e
  /-- `process_expression` then the kind-specific hook, at an expression position -/
  exprPos : ∀ e s s', wfE e = true → countE C0 e = 0 → GoodE W C C0 e (P.node (P.expr e s).1 s').1
  /-- `process_prefix_expression` then the kind-specific hook, at a prefix position -/
  prefPos : ∀ e s s', isPrefix e = true → wfE e = true → countE C0 e = 0 →
    GoodE W C C0 e (P.node (P.pref e s).1 s').1
  /-- the kind-specific hook alone (assignment targets, `f"…"` / `f{…}` arguments, call statements) -/
  nodePos : ∀ e s, wfE e = true → countE C0 e = 0 → shallowE C e = 0 → GoodE W C C0 e (P.node e s).1
  /-- `process_statement`: the result is well-formed, …; unless it is a call statement the
  kind-specific hook then yields a statement the visitor can descend into -/
  stmtPos : ∀ st s, wfS st = true → countS C0 st = 0 → okS st = true →
    wfS (P.stmt st s).1 = true ∧ countS C0 (P.stmt st s).1 = 0 ∧ kS W (P.stmt st s).1 ≤ kS W st ∧
    (Visitor.isCallStmt (P.stmt st s).1 = false → ∀ s', GoodS W C C0 st (P.stmtNode (P.stmt st s).1 s').1)
  blockPos : ∀ b s, wfB b = true → countB C0 b = 0 →
    wfB (P.block b s).1 = true ∧ countB C0 (P.block b s).1 = 0 ∧ kB W (P.block b s).1 ≤ kB W b ∧
    ∀ st ∈ Block.stmts (P.block b s).1, okS st = true

end DarkluaModel.C07
