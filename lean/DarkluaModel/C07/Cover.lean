import DarkluaModel.C07.Model
/-!
# C07 — the generic coverage theorem for the visitor

`cover`: for a processor `P` whose hooks (a) never leave one of the counted constructs at the top
of the node they return, (b) keep trees well-formed, (c) do not increase the *fuel need* `k…`
(a weighted depth: `Weights` pays for the levels a hook adds when it expands a construct), the
visitor run with enough fuel returns a tree whose census is `0` — for every block, i.e. whatever
the position of the construct. `need_le_fuelFor`: `Visitor.fuelFor` is enough.
-/
namespace DarkluaModel.C07
open DarkluaModel.Rules

/-- extra levels of fuel a hook may consume when it rewrites a construct -/
structure Weights where
  bin : BinOp → Nat := fun _ => 0
  interp : Nat := 0
  /-- per branch (`if` and every `elseif`) -/
  ifx : Nat := 0
  cassign : Nat := 0

variable (W : Weights)

mutual
  /-- fuel `visitTy` needs beyond its own level -/
  def kTy : Ty → Nat
    | .mk _ kids => kTys kids
    | .typeof e => kE e + 2
  def kTys : List Ty → Nat
    | [] => 0
    | t :: ts => max (kTy t + 1) (kTys ts)
  def kOTy : Option Ty → Nat
    | none => 0
    | some t => kTy t + 1
  def kTN : TName → Nat
    | .mk _ ty => kOTy ty
  def kTNs : List TName → Nat
    | [] => 0
    | t :: ts => max (kTN t) (kTNs ts)
  /-- fuel `visitNode` needs beyond its own level (`visitExpr` needs one more) -/
  def kE : Expr → Nat
    | .nil | .true | .false | .vararg | .num _ | .str _ | .var _ => 0
    | .paren e => kE e + 2
    | .un _ e => kE e + 2
    | .bin op l r => W.bin op + max (kE l + 2) (kE r + 2)
    | .call f _ _ args => max (kE f + 2) (kEs args)
    | .field e _ => kE e + 2
    | .index e k => max (kE e + 2) (kE k + 2)
    | .fn body => kF body + 1
    | .table es => kEntries es
    | .ifx c t elifs e =>
      W.ifx * (elifs.length + 1) + max (max (kE c + 2) (kE t + 2)) (max (kPairs elifs) (kE e + 2))
    | .interp segs => W.interp + kSegs segs
    | .cast e ty => max (kE e + 2) (kTy ty + 1)
    | .inst e tys => max (kE e + 2) (kTys tys)
  def kEs : List Expr → Nat
    | [] => 0
    | e :: es => max (kE e + 2) (kEs es)
  def kOE : Option Expr → Nat
    | none => 0
    | some e => kE e + 2
  def kPairs : List (Expr × Expr) → Nat
    | [] => 0
    | (a, b) :: rest => max (max (kE a + 2) (kE b + 2)) (kPairs rest)
  def kEntry : Entry → Nat
    | .pos v => kE v + 2
    | .named _ v => kE v + 2
    | .keyed k v => max (kE k + 2) (kE v + 2)
  def kEntries : List Entry → Nat
    | [] => 0
    | e :: es => max (kEntry e + 1) (kEntries es)
  def kSeg : Seg → Nat
    | .s _ => 0
    | .v e => kE e + 2
  def kSegs : List Seg → Nat
    | [] => 0
    | e :: es => max (kSeg e + 1) (kSegs es)
  def kF : FnBody → Nat
    | .mk params _ varTy ret _ _ body => max (max (kTNs params) (kOTy varTy)) (max (kOTy ret) (kB body + 1))
  def kS : Stmt → Nat
    | .assign ts vs => max (kEs ts) (kEs vs)
    | .cassign _ t v => W.cassign + max (kE t + 2) (kE v + 2)
    | .callStmt c => kE c + 1
    | .doBlock b => kB b + 1
    | .function _ _ body => kF body + 1
    | .gfor names vs body => max (kTNs names) (max (kEs vs) (kB body + 1))
    | .nfor name a b step body =>
      max (kTN name) (max (max (kE a + 2) (kE b + 2)) (max (kOE step) (kB body + 1)))
    | .ifs branches els => max (kBranches branches) (kOB els)
    | .localAssign _ names vs => max (kTNs names) (kEs vs)
    | .localFn _ _ body => kF body + 1
    | .repeat_ b c => max (kB b + 1) (kE c + 2)
    | .while_ c b => max (kE c + 2) (kB b + 1)
    | .typeDecl _ _ ty => kTy ty + 1
    | .typeFn _ _ body => kF body + 1
  def kBranches : List (Expr × Block) → Nat
    | [] => 0
    | (c, b) :: rest => max (max (kE c + 2) (kB b + 1)) (kBranches rest)
  def kSs : List Stmt → Nat
    | [] => 0
    | s :: ss => max (kS s + 1) (kSs ss)
  def kL : Last → Nat
    | .ret es => kEs es
    | _ => 0
  def kOL : Option Last → Nat
    | none => 0
    | some l => kL l + 1
  def kOB : Option Block → Nat
    | none => 0
    | some b => kB b + 1
  /-- fuel `visitBlock` needs beyond its own level -/
  def kB : Block → Nat
    | .mk stmts last => max (kSs stmts) (kOL last)
end

/-! ### what a node contributes to the census by itself (its children excluded) -/

variable (C : Census)

def typedCount : List TName → Nat
  | [] => 0
  | .mk _ none :: ts => typedCount ts
  | .mk _ (some _) :: ts => 1 + typedCount ts

def optCount : Option Ty → Nat
  | none => 0
  | some _ => 1

/-- annotation slots, generic parameters and attributes of a function -/
def shallowF : FnBody → Nat
  | .mk params _ varTy ret generics attrs _ =>
    C.tyNode * (typedCount params + optCount varTy + optCount ret) + C.generic * generics.length +
      C.attr * attrs.length

def shallowE : Expr → Nat
  | .bin op _ _ => C.bin op
  | .ifx .. => C.ifx
  | .interp _ => C.interp
  | .cast .. => C.cast + C.tyNode
  | .inst .. => C.inst + C.tyNode
  | .fn body => shallowF C body
  | _ => 0

def shallowS : Stmt → Nat
  | .cassign op _ _ => C.cassign op
  | .localAssign k names _ => C.localKind k + C.tyNode * typedCount names
  | .localFn k _ body => C.localKind k + shallowF C body
  | .function _ _ body => shallowF C body
  | .gfor names _ _ => C.tyNode * typedCount names
  | .nfor name _ _ _ _ => C.tyNode * typedCount [name]
  | .typeDecl .. => C.typeStmt + C.tyNode
  | .typeFn _ _ body => C.typeStmt + shallowF C body
  | _ => 0


/-! ### the hypotheses on the processor -/

def isCallStmt : Stmt → Bool
  | .callStmt _ => true
  | _ => false

/-- what the visitor needs to know about a node it is about to descend into -/
def GoodE (C0 : Census) (e0 e : Expr) : Prop :=
  wfE e = true ∧ countE C0 e = 0 ∧ kE W e ≤ kE W e0 ∧ shallowE C e = 0

def GoodS (C0 : Census) (s0 s : Stmt) : Prop :=
  wfS s = true ∧ countS C0 s = 0 ∧ kS W s ≤ kS W s0 ∧ shallowS C s = 0 ∧ isCallStmt s = false

/-- `C` = the census to bring to zero; `C0` = a census the INPUT is assumed to have at zero
(preserved by the hooks); `W` = the fuel weights the hooks respect. -/
structure Cover {σ : Type} (P : Processor σ) (C C0 : Census) (W : Weights) : Prop where
  /-- `continue` is handled by `remove_continue` only, whose state-dependent hooks are outside this theorem -/
  cont_zero : C.cont = 0
  afterBlock_id : ∀ b s, (P.afterBlock b s).1 = b
  scope_id : ∀ b e s, (P.scope b e s).1 = (b, e)
  afterStmtNode_id : ∀ st s, (P.afterStmtNode st s).1 = st
  last_id : ∀ l s, (P.last l s).1 = l
  afterNode_id : ∀ e s, (P.afterNode e s).1 = e
  ty_id : ∀ t s, (P.ty t s).1 = t
  attrs_id : ∀ a s, (P.attrs a s).1 = a
  insert_id : ∀ n s, (P.insert n s).1 = n
  insertLocal_id : ∀ n e s, (P.insertLocal n e s).1 = (n, e)
  insertLocalFn_id : ∀ n s, (P.insertLocalFn n s).1 = n
  target_id : ∀ e s, (P.target e s).1 = e
  /-- `process_expression` then the kind-specific hook, at an expression position -/
  exprPos : ∀ e s s', wfE e = true → countE C0 e = 0 → GoodE W C C0 e (P.node (P.expr e s).1 s').1
  /-- `process_prefix_expression` then the kind-specific hook, at a prefix position -/
  prefPos : ∀ e s s', isPrefix e = true → wfE e = true → countE C0 e = 0 →
    GoodE W C C0 e (P.node (P.pref e s).1 s').1
  /-- the kind-specific hook alone (assignment targets, `f"…"` / `f{…}` arguments, call statements) -/
  nodePos : ∀ e s, wfE e = true → countE C0 e = 0 → shallowE C e = 0 → GoodE W C C0 e (P.node e s).1
  /-- `process_statement`: the result is well-formed, …; unless it is a call statement the
  kind-specific hook then yields a statement the visitor can descend into -/
  stmtPos : ∀ st s, wfS st = true → countS C0 st = 0 →
    wfS (P.stmt st s).1 = true ∧ countS C0 (P.stmt st s).1 = 0 ∧ kS W (P.stmt st s).1 ≤ kS W st ∧
    (isCallStmt (P.stmt st s).1 = false → ∀ s', GoodS W C C0 st (P.stmtNode (P.stmt st s).1 s').1)
  blockPos : ∀ b s, wfB b = true → countB C0 b = 0 →
    wfB (P.block b s).1 = true ∧ countB C0 (P.block b s).1 = 0 ∧ kB W (P.block b s).1 ≤ kB W b

end DarkluaModel.C07

namespace DarkluaModel.C07
open DarkluaModel.Rules Visitor

section
variable {σ : Type} (P : Processor σ) (sc : Bool) (C C0 : Census) (W : Weights)

/-- the claims about the element visitors at fuel `n` -/
structure Level (n : Nat) : Prop where
  ty : ∀ t s, wfTy t = true → countTy C0 t = 0 → C.tyNode = 0 → kTy W t + 1 ≤ n →
    countTy C (visitTy P sc n t s).1 = 0
  expr : ∀ e s, wfE e = true → countE C0 e = 0 → kE W e + 2 ≤ n → countE C (visitExpr P sc n e s).1 = 0
  pref : ∀ e s, isPrefix e = true → wfE e = true → countE C0 e = 0 → kE W e + 2 ≤ n →
    countE C (visitPrefix P sc n e s).1 = 0
  target : ∀ e s, isVariable e = true → wfE e = true → countE C0 e = 0 → kE W e + 2 ≤ n →
    countE C (visitTarget P sc n e s).1 = 0
  entry : ∀ e s, wfEntry e = true → countEntry C0 e = 0 → kEntry W e + 1 ≤ n →
    countEntry C (visitEntry P sc n e s).1 = 0
  seg : ∀ e s, wfSeg e = true → countSeg C0 e = 0 → kSeg W e + 1 ≤ n → countSeg C (visitSeg P sc n e s).1 = 0
  node : ∀ e s, (∀ s', wfE (P.node e s').1 = true ∧ countE C0 (P.node e s').1 = 0 ∧
      kE W (P.node e s').1 + 1 ≤ n ∧ shallowE C (P.node e s').1 = 0) →
    countE C (visitNode P sc n e s).1 = 0
  fnbody : ∀ hs body s, wfF body = true → countF C0 body = 0 → shallowF C body = 0 → kF W body + 1 ≤ n →
    countF C (visitFnBody P sc n hs body s).1 = 0
  stmt : ∀ st s, wfS st = true → countS C0 st = 0 → kS W st + 1 ≤ n → countS C (visitStmt P sc n st s).1 = 0
  last : ∀ l s, wfL l = true → countL C0 l = 0 → kL W l + 1 ≤ n → countL C (visitLast P sc n l s).1 = 0
  block : ∀ pushes b s, wfB b = true → countB C0 b = 0 → kB W b + 1 ≤ n →
    countB C (visitBlock P sc n pushes b s).1 = 0

/-- the claims about the list / option visitors at fuel `n` -/
structure Lists (n : Nat) : Prop where
  tys : ∀ ts s, wfTys ts = true → countTys C0 ts = 0 → C.tyNode = 0 → kTys W ts ≤ n →
    countTys C (mapS (visitTy P sc n) ts s).1 = 0
  oty : ∀ t s, wfOTy t = true → countOTy C0 t = 0 → C.tyNode * optCount t = 0 → kOTy W t ≤ n →
    countOTy C (optS (visitTy P sc n) t s).1 = 0
  exprs : ∀ es s, wfEs es = true → countEs C0 es = 0 → kEs W es ≤ n →
    countEs C (mapS (visitExpr P sc n) es s).1 = 0
  oexpr : ∀ e s, wfOE e = true → countOE C0 e = 0 → kOE W e ≤ n → countOE C (optS (visitExpr P sc n) e s).1 = 0
  args : ∀ k es s, argsOk k es = true → k ≠ .tuple → wfEs es = true → countEs C0 es = 0 → kEs W es ≤ n →
    countEs C (mapS (visitNode P sc n) es s).1 = 0
  targets : ∀ es s, wfTargets es = true → countEs C0 es = 0 → kEs W es ≤ n →
    countEs C (mapS (visitTarget P sc n) es s).1 = 0
  entries : ∀ es s, wfEntries es = true → countEntries C0 es = 0 → kEntries W es ≤ n →
    countEntries C (mapS (visitEntry P sc n) es s).1 = 0
  segs : ∀ es s, wfSegs es = true → countSegs C0 es = 0 → kSegs W es ≤ n →
    countSegs C (mapS (visitSeg P sc n) es s).1 = 0
  pairs : ∀ ps s, wfPairs ps = true → countPairs C0 ps = 0 → kPairs W ps ≤ n →
    countPairs C (mapS (fun (p : Expr × Expr) st =>
      (((visitExpr P sc n p.1 st).1, (visitExpr P sc n p.2 (visitExpr P sc n p.1 st).2).1),
        (visitExpr P sc n p.2 (visitExpr P sc n p.1 st).2).2)) ps s).1 = 0
  tnames : ∀ ns s, wfTNs ns = true → countTNs C0 ns = 0 → C.tyNode * typedCount ns = 0 → kTNs W ns ≤ n →
    countTNs C (mapS (tnameTy (visitTy P sc n)) ns s).1 = 0
  tname : ∀ t s, wfTN t = true → countTN C0 t = 0 → C.tyNode * typedCount [t] = 0 → kTN W t ≤ n →
    countTN C (tnameTy (visitTy P sc n) t s).1 = 0
  branches : ∀ bs s, wfBranches bs = true → countBranches C0 bs = 0 → kBranches W bs ≤ n →
    countBranches C (mapS (fun (p : Expr × Block) st =>
      (((visitExpr P sc n p.1 st).1,
          (visitBlock P sc n true p.2 (P.scope p.2 none (visitExpr P sc n p.1 st).2).2).1),
        (visitBlock P sc n true p.2 (P.scope p.2 none (visitExpr P sc n p.1 st).2).2).2)) bs s).1 = 0
  oelse : ∀ b s, wfOB b = true → countOB C0 b = 0 → kOB W b ≤ n →
    countOB C (optS (fun blk st => visitBlock P sc n true blk (P.scope blk none st).2) b s).1 = 0
  stmts : ∀ ss s, wfSs ss = true → countSs C0 ss = 0 → kSs W ss ≤ n →
    countSs C (mapS (visitStmt P sc n) ss s).1 = 0
  olast : ∀ l s, wfOL l = true → countOL C0 l = 0 → kOL W l ≤ n → countOL C (optS (visitLast P sc n) l s).1 = 0

theorem leaf_or (e : Expr) :
    (e = .nil ∨ e = .true ∨ e = .false ∨ e = .vararg) ∨ (e ≠ .nil ∧ e ≠ .true ∧ e ≠ .false ∧ e ≠ .vararg) := by
  cases e <;> simp

set_option linter.unusedSimpArgs false

theorem succ_node (h : Cover P C C0 W) (n : Nat) (L : Level P sc C C0 W n) (LL : Lists P sc C C0 W n) :
    ∀ e s, (∀ s', wfE (P.node e s').1 = true ∧ countE C0 (P.node e s').1 = 0 ∧
      kE W (P.node e s').1 + 1 ≤ n + 1 ∧ shallowE C (P.node e s').1 = 0) →
    countE C (visitNode P sc (n + 1) e s).1 = 0 := by
  intro e s hg
  rcases leaf_or e with hl | ⟨h1, h2, h3, h4⟩
  · rcases hl with rfl | rfl | rfl | rfl <;> simp [visitNode, countE]
  · rw [visitNode]
    · specialize hg s
      generalize P.node e s = q at hg
      obtain ⟨e1, s1⟩ := q
      simp only [] at hg ⊢
      obtain ⟨hw, hc, hk, hs⟩ := hg
      have Lexpr := L.expr
      have Lpref := L.pref
      have Lfn := L.fnbody
      have Lty := L.ty
      have Lexprs := LL.exprs
      have Largs := LL.args
      have Lentries := LL.entries
      have Lsegs := LL.segs
      have Lpairs := LL.pairs
      have Ltys := LL.tys
      cases e1 with
      | call f m k args =>
        simp only [wfE, Bool.and_eq_true, countE, kE, shallowE, Nat.add_eq_zero_iff, Nat.max_le] at hw hc hk hs
        cases k <;> (simp only [h.afterNode_id, countE]; grind)
      | _ =>
        simp only [wfE, Bool.and_eq_true, countE, kE, shallowE, Nat.add_eq_zero_iff, Nat.max_le] at hw hc hk hs
        simp only [h.afterNode_id, countE]
        all_goals grind
    · exact h1
    · exact h2
    · exact h3
    · exact h4

theorem succ_expr (h : Cover P C C0 W) (n : Nat) (L : Level P sc C C0 W n) :
    ∀ e s, wfE e = true → countE C0 e = 0 → kE W e + 2 ≤ n + 1 →
      countE C (visitExpr P sc (n + 1) e s).1 = 0 := by
  intro e s hw hc hk
  simp only [visitExpr]
  apply L.node
  intro s'
  obtain ⟨a, b, c, d⟩ := h.exprPos e s s' hw hc
  have c' : kE W (P.node (P.expr e s).1 s').1 + 1 ≤ n := by omega
  exact ⟨a, b, c', d⟩

theorem succ_pref (h : Cover P C C0 W) (n : Nat) (L : Level P sc C C0 W n) :
    ∀ e s, isPrefix e = true → wfE e = true → countE C0 e = 0 → kE W e + 2 ≤ n + 1 →
      countE C (visitPrefix P sc (n + 1) e s).1 = 0 := by
  intro e s hp hw hc hk
  simp only [visitPrefix]
  apply L.node
  intro s'
  obtain ⟨a, b, c, d⟩ := h.prefPos e s s' hp hw hc
  have c' : kE W (P.node (P.pref e s).1 s').1 + 1 ≤ n := by omega
  exact ⟨a, b, c', d⟩

theorem shallow_variable (e : Expr) (hv : isVariable e = true) : shallowE C e = 0 := by
  cases e <;> simp_all [isVariable, shallowE]

theorem succ_target (h : Cover P C C0 W) (n : Nat) (L : Level P sc C C0 W n) :
    ∀ e s, isVariable e = true → wfE e = true → countE C0 e = 0 → kE W e + 2 ≤ n + 1 →
      countE C (visitTarget P sc (n + 1) e s).1 = 0 := by
  intro e s hp hw hc hk
  simp only [visitTarget]
  apply L.node
  intro s'
  have ht := h.target_id e s
  obtain ⟨a, b, c, d⟩ := h.nodePos (P.target e s).1 s' (by rw [ht]; exact hw) (by rw [ht]; exact hc)
    (by rw [ht]; exact shallow_variable C e hp)
  rw [ht] at c
  have c' : kE W (P.node (P.target e s).1 s').1 + 1 ≤ n := by rw [ht]; omega
  exact ⟨a, b, c', d⟩

theorem succ_entry (n : Nat) (L : Level P sc C C0 W n) :
    ∀ e s, wfEntry e = true → countEntry C0 e = 0 → kEntry W e + 1 ≤ n + 1 →
      countEntry C (visitEntry P sc (n + 1) e s).1 = 0 := by
  intro e s hw hc hk
  have Lexpr := L.expr
  cases e <;>
    (simp only [wfEntry, Bool.and_eq_true, countEntry, kEntry, Nat.add_eq_zero_iff, Nat.max_le] at hw hc hk
     simp only [visitEntry, countEntry]
     grind)

theorem succ_seg (n : Nat) (L : Level P sc C C0 W n) :
    ∀ e s, wfSeg e = true → countSeg C0 e = 0 → kSeg W e + 1 ≤ n + 1 →
      countSeg C (visitSeg P sc (n + 1) e s).1 = 0 := by
  intro e s hw hc hk
  have Lexpr := L.expr
  cases e <;>
    (simp only [wfSeg, countSeg, kSeg] at hw hc hk
     simp only [visitSeg, countSeg]
     all_goals grind)

theorem succ_ty (h : Cover P C C0 W) (n : Nat) (L : Level P sc C C0 W n) (LL : Lists P sc C C0 W n) :
    ∀ t s, wfTy t = true → countTy C0 t = 0 → C.tyNode = 0 → kTy W t + 1 ≤ n + 1 →
      countTy C (visitTy P sc (n + 1) t s).1 = 0 := by
  intro t s hw hc h0 hk
  rw [visitTy]
  have ht := h.ty_id t s
  generalize P.ty t s = q at ht
  obtain ⟨t1, s1⟩ := q
  simp only [] at ht ⊢
  subst ht
  have Lexpr := L.expr
  have Ltys := LL.tys
  cases t1 <;>
    (simp only [wfTy, countTy, kTy, Nat.add_eq_zero_iff] at hw hc hk
     simp only [countTy]
     grind)

theorem succ_last (h : Cover P C C0 W) (n : Nat) (LL : Lists P sc C C0 W n) :
    ∀ l s, wfL l = true → countL C0 l = 0 → kL W l + 1 ≤ n + 1 →
      countL C (visitLast P sc (n + 1) l s).1 = 0 := by
  intro l s hw hc hk
  rw [visitLast]
  have ht := h.last_id l s
  generalize P.last l s = q at ht
  obtain ⟨l1, s1⟩ := q
  simp only [] at ht ⊢
  subst ht
  have Lexprs := LL.exprs
  have hcont := h.cont_zero
  cases l1 <;>
    (simp only [wfL, countL, kL] at hw hc hk
     simp only [countL]
     all_goals grind)

theorem succ_block (h : Cover P C C0 W) (n : Nat) (LL : Lists P sc C C0 W n) :
    ∀ pushes b s, wfB b = true → countB C0 b = 0 → kB W b + 1 ≤ n + 1 →
      countB C (visitBlock P sc (n + 1) pushes b s).1 = 0 := by
  intro pushes b s hw hc hk
  rw [visitBlock]
  generalize (if (sc && pushes) = true then P.push s else s) = s0
  obtain ⟨a, b', c⟩ := h.blockPos b s0 hw hc
  generalize P.block b s0 = q at a b' c
  obtain ⟨b1, s1⟩ := q
  simp only [] at a b' c ⊢
  have Lstmts := LL.stmts
  have Lolast := LL.olast
  cases b1 with
  | mk stmts last =>
    simp only [wfB, Bool.and_eq_true, countB, kB, Nat.add_eq_zero_iff, Nat.max_le] at a b' c hk
    simp only [h.afterBlock_id, countB]
    grind

theorem count_tnameInsert (f : String → σ → String × σ) :
    ∀ ns s, countTNs C (mapS (tnameInsert f) ns s).1 = countTNs C ns := by
  intro ns
  induction ns with
  | nil => intro s; simp [mapS, countTNs]
  | cons t ts ih =>
    intro s
    cases t with
    | mk n ty => simp only [mapS, tnameInsert, countTNs, countTN, ih]

theorem tnameInsert_props (f : String → σ → String × σ) :
    ∀ ns s, wfTNs (mapS (tnameInsert f) ns s).1 = wfTNs ns ∧
      typedCount (mapS (tnameInsert f) ns s).1 = typedCount ns ∧
      kTNs W (mapS (tnameInsert f) ns s).1 = kTNs W ns := by
  intro ns
  induction ns with
  | nil => intro s; simp [mapS]
  | cons t ts ih =>
    intro s
    cases t with
    | mk n ty =>
      cases ty <;> simp only [mapS, tnameInsert, wfTNs, wfTN, typedCount, kTNs, kTN, ih, and_self]

theorem tnameInsert_single (f : String → σ → String × σ) (t : TName) (s : σ) :
    wfTN (tnameInsert f t s).1 = wfTN t ∧ typedCount [(tnameInsert f t s).1] = typedCount [t] ∧
      kTN W (tnameInsert f t s).1 = kTN W t ∧ ∀ C : Census, countTN C (tnameInsert f t s).1 = countTN C t := by
  cases t with
  | mk n ty => cases ty <;> simp [tnameInsert, wfTN, typedCount, kTN, countTN]

theorem count_insertLocals (h : Cover P C C0 W) :
    ∀ ns vs s, countTNs C (insertLocals P ns vs s).1.1 = countTNs C ns ∧
      countEs C (insertLocals P ns vs s).1.2 = countEs C vs := by
  intro ns
  induction ns with
  | nil => intro vs s; simp [insertLocals]
  | cons t ts ih =>
    intro vs s
    cases t with
    | mk n ty =>
      cases vs with
      | nil =>
        simp only [insertLocals, countTNs, countTN, countEs, ih, and_self]
      | cons v vs =>
        have h1 := h.insertLocal_id n (some v) s
        simp only [insertLocals, countTNs, countTN, countEs, h1, Option.getD_some, ih, and_self]

theorem succ_fnbody (h : Cover P C C0 W) (n : Nat) (L : Level P sc C C0 W n) (LL : Lists P sc C C0 W n) :
    ∀ hs body s, wfF body = true → countF C0 body = 0 → shallowF C body = 0 → kF W body + 1 ≤ n + 1 →
      countF C (visitFnBody P sc (n + 1) hs body s).1 = 0 := by
  intro hs body s hw hc hsh hk
  have Lblock := L.block
  have Ltnames := LL.tnames
  have Loty := LL.oty
  have Hins := count_tnameInsert (σ := σ) C
  cases body with
  | mk params variadic varTy ret generics attrs blk =>
    simp only [wfF, Bool.and_eq_true, countF, kF, shallowF, Nat.add_eq_zero_iff, Nat.max_le, Nat.mul_eq_zero] at hw hc hsh hk
    rw [visitFnBody]
    cases sc <;>
      (simp only [h.scope_id, h.attrs_id, countF, Hins, if_true, if_false, Bool.false_eq_true]
       grind)

theorem shallow_call (e : Expr) (hv : isCall e = true) : shallowE C e = 0 := by
  cases e <;> simp_all [isCall, shallowE]

theorem succ_stmt (h : Cover P C C0 W) (n : Nat) (L : Level P sc C C0 W n) (LL : Lists P sc C C0 W n) :
    ∀ st s, wfS st = true → countS C0 st = 0 → kS W st + 1 ≤ n + 1 →
      countS C (visitStmt P sc (n + 1) st s).1 = 0 := by
  intro st s hw hc hk
  have Lexpr := L.expr
  have Ltarget := L.target
  have Lblock := L.block
  have Lfn := L.fnbody
  have Lty := L.ty
  have Lnode := L.node
  have Lexprs := LL.exprs
  have Ltargets := LL.targets
  have Ltnames := LL.tnames
  have Loty := LL.oty
  have Loexpr := LL.oexpr
  have Hins := count_tnameInsert (σ := σ) C
  have Hins0 := count_tnameInsert (σ := σ) C0
  have Hinsp := tnameInsert_props (σ := σ) W
  have Hins1 := tnameInsert_single (σ := σ) W
  have Ltname := LL.tname
  have Lbranches := LL.branches
  have Loelse := LL.oelse
  have Hloc := count_insertLocals P C C0 W h
  have hA := h.afterStmtNode_id
  have hSc := h.scope_id
  have hAt := h.attrs_id
  have hIF := h.insertLocalFn_id
  have hNode := h.nodePos
  obtain ⟨a, b, c, d⟩ := h.stmtPos st s hw hc
  clear L LL h
  obtain ⟨pblock, pafterBlock, pscope, pstmt, pstmtNode, pafterStmtNode, plast, pexpr, ppref, ptarget, pnode,
    pafterNode, pty, pattrs, ppush, ppop, pinsert, pinsertSelf, pinsertLocal, pinsertLocalFn⟩ := P
  rw [visitStmt]
  dsimp only at a b c d hA hSc hAt hIF hNode Hloc ⊢
  generalize pstmt st s = q at a b c d ⊢
  obtain ⟨st1, s1⟩ := q
  dsimp only at a b c d ⊢
  split
  · rename_i cl
    simp only [wfS, Bool.and_eq_true, countS, kS] at a b c
    simp only [countS]
    apply Lnode
    intro s'
    dsimp only
    obtain ⟨x, y, z, w⟩ := hNode cl s' a.2 b (shallow_call C cl a.1)
    exact ⟨x, y, by omega, w⟩
  · rename_i hne
    have hcs : isCallStmt st1 = false := by
      cases st1 <;> simp_all [isCallStmt]
    have d' := d hcs s1
    generalize pstmtNode st1 s1 = q2 at d' ⊢
    obtain ⟨st2, s2⟩ := q2
    obtain ⟨gw, gc, gk, gs, gn⟩ := d'
    dsimp only at gw gc gk gs gn ⊢
    cases st2 with
    | callStmt c => simp [isCallStmt] at gn
    | ifs branches els =>
      simp only [wfS, Bool.and_eq_true, countS, kS, shallowS, Nat.add_eq_zero_iff, Nat.max_le] at gw gc gk gs
      simp only [hSc, hA, countS]
      grind
    | function name m body =>
      simp only [wfS, Bool.and_eq_true, countS, kS, shallowS, Nat.add_eq_zero_iff, Nat.max_le] at gw gc gk gs
      cases name with
      | nil => simp at gw
      | cons root path =>
        cases sc
        · cases body
          simp only [wfF, countF, kF, shallowF, Bool.and_eq_true, Nat.add_eq_zero_iff, Nat.max_le, Nat.mul_eq_zero] at gw gc gk gs
          simp only [hSc, hA, hAt, countS, countF, if_true, if_false, Bool.false_eq_true]
          grind
        · simp only [hSc, hA, hAt, countS, if_true, if_false, Bool.false_eq_true]
          grind
    | typeFn ex name body =>
      simp only [wfS, Bool.and_eq_true, countS, kS, shallowS, Nat.add_eq_zero_iff, Nat.max_le] at gw gc gk gs
      cases body
      simp only [wfF, countF, kF, shallowF, Bool.and_eq_true, Nat.add_eq_zero_iff, Nat.max_le, Nat.mul_eq_zero, List.isEmpty_iff] at gw gc gk gs
      cases sc <;>
        (simp only [hSc, hA, hAt, countS, countF, Hins, if_true, if_false, Bool.false_eq_true]
         grind)
    | localFn kind name body =>
      simp only [wfS, Bool.and_eq_true, countS, kS, shallowS, Nat.add_eq_zero_iff, Nat.max_le] at gw gc gk gs
      cases sc
      · simp only [hSc, hA, hIF, countS, Hins, if_true, if_false, Bool.false_eq_true]
        grind
      · cases body
        simp only [wfF, countF, kF, shallowF, Bool.and_eq_true, Nat.add_eq_zero_iff, Nat.max_le, Nat.mul_eq_zero] at gw gc gk gs
        simp only [hSc, hA, hIF, hAt, countS, countF, Hins, if_true, if_false, Bool.false_eq_true]
        grind
    | _ =>
      simp only [wfS, Bool.and_eq_true, countS, kS, shallowS, Nat.add_eq_zero_iff, Nat.max_le] at gw gc gk gs
      cases sc <;>
        (simp only [hSc, hA, hIF, countS, Hins, if_true, if_false, Bool.false_eq_true]
         grind)

theorem args_single (k : ArgKind) (es : List Expr) (ha : argsOk k es = true) (hk : k ≠ .tuple) :
    ∃ e, es = [e] ∧ shallowE C e = 0 := by
  cases k with
  | tuple => exact absurd rfl hk
  | str =>
    match es, ha with
    | [.str b], _ => exact ⟨_, rfl, rfl⟩
  | tbl =>
    match es, ha with
    | [.table b], _ => exact ⟨_, rfl, rfl⟩

theorem lists_of_level (h : Cover P C C0 W) (n : Nat) (L : Level P sc C C0 W n) : Lists P sc C C0 W n := by
  have Lty := L.ty
  have Lexpr := L.expr
  have Ltarget := L.target
  have Lentry := L.entry
  have Lseg := L.seg
  have Lstmt := L.stmt
  have Llast := L.last
  have Lblock := L.block
  have hSc := h.scope_id
  refine ⟨?_, ?_, ?_, ?_, ?_, ?_, ?_, ?_, ?_, ?_, ?_, ?_, ?_, ?_, ?_⟩
  · intro ts
    induction ts with
    | nil => intro s; simp [mapS, countTys]
    | cons t ts ih =>
      intro s hw hc h0 hk
      simp only [wfTys, countTys, kTys, Bool.and_eq_true, Nat.add_eq_zero_iff, Nat.max_le] at hw hc hk
      simp only [mapS, countTys]
      grind
  · intro t s hw hc h0 hk
    cases t with
    | none => simp [optS, countOTy]
    | some t =>
      simp only [wfOTy, countOTy, kOTy, optCount, Nat.mul_one] at hw hc hk h0
      simp only [optS, countOTy]
      grind
  · intro es
    induction es with
    | nil => intro s; simp [mapS, countEs]
    | cons t ts ih =>
      intro s hw hc hk
      simp only [wfEs, countEs, kEs, Bool.and_eq_true, Nat.add_eq_zero_iff, Nat.max_le] at hw hc hk
      simp only [mapS, countEs]
      grind
  · intro t s hw hc hk
    cases t with
    | none => simp [optS, countOE]
    | some t =>
      simp only [wfOE, countOE, kOE] at hw hc hk
      simp only [optS, countOE]
      grind
  · intro k es s ha hk hw hc hkk
    obtain ⟨e, rfl, hsh⟩ := args_single C k es ha hk
    simp only [wfEs, countEs, kEs, Bool.and_eq_true, Nat.add_eq_zero_iff, Nat.max_le] at hw hc hkk
    simp only [mapS, countEs, Nat.add_zero]
    apply L.node
    intro s'
    obtain ⟨x, y, z, w⟩ := h.nodePos e s' hw.1 hc.1 hsh
    exact ⟨x, y, by omega, w⟩
  · intro es
    induction es with
    | nil => intro s; simp [mapS, countEs]
    | cons t ts ih =>
      intro s hw hc hk
      simp only [wfTargets, countEs, kEs, Bool.and_eq_true, Nat.add_eq_zero_iff, Nat.max_le] at hw hc hk
      simp only [mapS, countEs]
      grind
  · intro es
    induction es with
    | nil => intro s; simp [mapS, countEntries]
    | cons t ts ih =>
      intro s hw hc hk
      simp only [wfEntries, countEntries, kEntries, Bool.and_eq_true, Nat.add_eq_zero_iff, Nat.max_le] at hw hc hk
      simp only [mapS, countEntries]
      grind
  · intro es
    induction es with
    | nil => intro s; simp [mapS, countSegs]
    | cons t ts ih =>
      intro s hw hc hk
      simp only [wfSegs, countSegs, kSegs, Bool.and_eq_true, Nat.add_eq_zero_iff, Nat.max_le] at hw hc hk
      simp only [mapS, countSegs]
      grind
  · intro es
    induction es with
    | nil => intro s; simp [mapS, countPairs]
    | cons t ts ih =>
      intro s hw hc hk
      obtain ⟨a, b⟩ := t
      simp only [wfPairs, countPairs, kPairs, Bool.and_eq_true, Nat.add_eq_zero_iff, Nat.max_le] at hw hc hk
      simp only [mapS, countPairs]
      grind
  · intro es
    induction es with
    | nil => intro s; simp [mapS, countTNs]
    | cons t ts ih =>
      intro s hw hc h0 hk
      cases t with
      | mk nm ty =>
        cases ty with
        | none =>
          simp only [wfTNs, wfTN, wfOTy, countTNs, countTN, countOTy, kTNs, kTN, kOTy, typedCount, Bool.and_eq_true,
            Nat.add_eq_zero_iff, Nat.max_le] at hw hc hk h0
          simp only [mapS, tnameTy, optS, countTNs, countTN, countOTy]
          grind
        | some ty =>
          simp only [wfTNs, wfTN, wfOTy, countTNs, countTN, countOTy, kTNs, kTN, kOTy, typedCount, Bool.and_eq_true,
            Nat.add_eq_zero_iff, Nat.max_le, Nat.mul_eq_zero] at hw hc hk h0
          simp only [mapS, tnameTy, optS, countTNs, countTN, countOTy]
          grind
  · intro t s hw hc h0 hk
    cases t with
    | mk nm ty =>
      cases ty with
      | none => simp [tnameTy, optS, countTN, countOTy]
      | some ty =>
        simp only [wfTN, wfOTy, countTN, countOTy, kTN, kOTy, typedCount, Nat.mul_eq_zero] at hw hc hk h0
        simp only [tnameTy, optS, countTN, countOTy]
        grind
  · intro es
    induction es with
    | nil => intro s; simp [mapS, countBranches]
    | cons t ts ih =>
      intro s hw hc hk
      obtain ⟨a, b⟩ := t
      simp only [wfBranches, countBranches, kBranches, Bool.and_eq_true, Nat.add_eq_zero_iff, Nat.max_le] at hw hc hk
      simp only [mapS, countBranches]
      grind
  · intro t s hw hc hk
    cases t with
    | none => simp [optS, countOB]
    | some t =>
      simp only [wfOB, countOB, kOB] at hw hc hk
      simp only [optS, countOB]
      grind
  · intro es
    induction es with
    | nil => intro s; simp [mapS, countSs]
    | cons t ts ih =>
      intro s hw hc hk
      simp only [wfSs, countSs, kSs, Bool.and_eq_true, Nat.add_eq_zero_iff, Nat.max_le] at hw hc hk
      simp only [mapS, countSs]
      grind
  · intro t s hw hc hk
    cases t with
    | none => simp [optS, countOL]
    | some t =>
      simp only [wfOL, countOL, kOL] at hw hc hk
      simp only [optS, countOL]
      grind

theorem level_zero (h : Cover P C C0 W) : Level P sc C C0 W 0 := by
  refine ⟨?_, ?_, ?_, ?_, ?_, ?_, ?_, ?_, ?_, ?_, ?_⟩
  all_goals (intros; first | omega | skip)
  -- `node`: the hypothesis on the hook's result asks for positive fuel
  rename_i e s hg
  have := (hg s).2.2.1
  omega

theorem level_all (h : Cover P C C0 W) : ∀ n, Level P sc C C0 W n := by
  intro n
  induction n with
  | zero => exact level_zero P sc C C0 W h
  | succ n ih =>
    have LL := lists_of_level P sc C C0 W h n ih
    exact ⟨succ_ty P sc C C0 W h n ih LL, succ_expr P sc C C0 W h n ih, succ_pref P sc C C0 W h n ih,
      succ_target P sc C C0 W h n ih, succ_entry P sc C C0 W n ih, succ_seg P sc C C0 W n ih,
      succ_node P sc C C0 W h n ih LL, succ_fnbody P sc C C0 W h n ih LL, succ_stmt P sc C C0 W h n ih LL,
      succ_last P sc C C0 W h n LL, succ_block P sc C C0 W h n LL⟩

/-- **Coverage.** A processor satisfying `Cover` brings the census `C` to zero on every
well-formed block whose `C0` census is zero, provided the fuel is at least the block's need. -/
theorem cover_block (h : Cover P C C0 W) (n : Nat) (b : Block) (s : σ) (hw : wfB b = true)
    (hc : countB C0 b = 0) (hfuel : kB W b + 1 ≤ n) :
    countB C (visitBlock P sc n true b s).1 = 0 :=
  (level_all P sc C C0 W h n).block true b s hw hc hfuel
end
end DarkluaModel.C07
