import DarkluaModel.C07.Fuel
/-!
# `remove_continue` removes every `continue` that is inside a loop

The hooks of `remove_continue` depend on its loop stack, so this is a dedicated traversal proof
(the generic `cover_block` is about state-independent hooks). Invariant: the SHAPE of the stack
(which entries are loops) after visiting any node is the shape before; a block is visited in a
state whose innermost entry is a loop whenever the block may end in `continue`
(`contOkB (headLoop s) b`, the decidable hypothesis `continueInLoops`).
-/
namespace DarkluaModel.C07
open DarkluaModel.Rules Visitor RemoveContinue

/-- which stack entries are loops -/
def shape (s : State) : List Bool := s.stack.map Option.isSome

/-- the innermost entry is a loop -/
def headLoopOf : List Bool → Bool
  | true :: _ => true
  | _ => false

def headLoop (s : State) : Bool := headLoopOf (shape s)

/-- a census that counts `continue` only -/
structure OnlyCont (C : Census) : Prop where
  bin : ∀ op, C.bin op = 0
  ifx : C.ifx = 0
  interp : C.interp = 0
  cast : C.cast = 0
  inst : C.inst = 0
  cassign : ∀ op, C.cassign op = 0
  localKind : ∀ k, C.localKind k = 0
  typeStmt : C.typeStmt = 0
  tyNode : C.tyNode = 0
  generic : C.generic = 0
  attr : C.attr = 0

def Wcont : Weights := { cont := 2 }

abbrev Pc := RemoveContinue.processor

variable (C : Census)

/-- claims about the element visitors at fuel `n` -/
structure CLevel (n : Nat) : Prop where
  ty : ∀ t s, contOkTy t = true → kTy Wcont t + 1 ≤ n →
    countTy C (visitTy Pc false n t s).1 = 0 ∧ shape (visitTy Pc false n t s).2 = shape s
  expr : ∀ e s, contOkE e = true → kE Wcont e + 2 ≤ n →
    countE C (visitExpr Pc false n e s).1 = 0 ∧ shape (visitExpr Pc false n e s).2 = shape s
  pref : ∀ e s, contOkE e = true → kE Wcont e + 2 ≤ n →
    countE C (visitPrefix Pc false n e s).1 = 0 ∧ shape (visitPrefix Pc false n e s).2 = shape s
  target : ∀ e s, contOkE e = true → kE Wcont e + 2 ≤ n →
    countE C (visitTarget Pc false n e s).1 = 0 ∧ shape (visitTarget Pc false n e s).2 = shape s
  entry : ∀ e s, contOkEntry e = true → kEntry Wcont e + 1 ≤ n →
    countEntry C (visitEntry Pc false n e s).1 = 0 ∧ shape (visitEntry Pc false n e s).2 = shape s
  seg : ∀ e s, contOkSeg e = true → kSeg Wcont e + 1 ≤ n →
    countSeg C (visitSeg Pc false n e s).1 = 0 ∧ shape (visitSeg Pc false n e s).2 = shape s
  node : ∀ e s, contOkE e = true → kE Wcont e + 1 ≤ n →
    countE C (visitNode Pc false n e s).1 = 0 ∧ shape (visitNode Pc false n e s).2 = shape s
  fnbody : ∀ hs body s, contOkF body = true → kF Wcont body + 1 ≤ n →
    countF C (visitFnBody Pc false n hs body s).1 = 0 ∧ shape (visitFnBody Pc false n hs body s).2 = shape s
  stmt : ∀ st s, contOkS (headLoop s) st = true → kS Wcont st + 1 ≤ n →
    countS C (visitStmt Pc false n st s).1 = 0 ∧ shape (visitStmt Pc false n st s).2 = shape s
  last : ∀ l s, contOkL false l = true → kL Wcont l + 1 ≤ n →
    countL C (visitLast Pc false n l s).1 = 0 ∧ shape (visitLast Pc false n l s).2 = shape s
  block : ∀ pushes b s, contOkB (headLoop s) b = true → kB Wcont b + 1 ≤ n →
    countB C (visitBlock Pc false n pushes b s).1 = 0 ∧ shape (visitBlock Pc false n pushes b s).2 = shape s

structure CLists (n : Nat) : Prop where
  tys : ∀ ts s, contOkTys ts = true → kTys Wcont ts ≤ n →
    countTys C (mapS (visitTy Pc false n) ts s).1 = 0 ∧ shape (mapS (visitTy Pc false n) ts s).2 = shape s
  oty : ∀ t s, contOkOTy t = true → kOTy Wcont t ≤ n →
    countOTy C (optS (visitTy Pc false n) t s).1 = 0 ∧ shape (optS (visitTy Pc false n) t s).2 = shape s
  exprs : ∀ es s, contOkEs es = true → kEs Wcont es ≤ n →
    countEs C (mapS (visitExpr Pc false n) es s).1 = 0 ∧ shape (mapS (visitExpr Pc false n) es s).2 = shape s
  oexpr : ∀ e s, contOkOE e = true → kOE Wcont e ≤ n →
    countOE C (optS (visitExpr Pc false n) e s).1 = 0 ∧ shape (optS (visitExpr Pc false n) e s).2 = shape s
  nodes : ∀ es s, contOkEs es = true → kEs Wcont es ≤ n →
    countEs C (mapS (visitNode Pc false n) es s).1 = 0 ∧ shape (mapS (visitNode Pc false n) es s).2 = shape s
  targets : ∀ es s, contOkEs es = true → kEs Wcont es ≤ n →
    countEs C (mapS (visitTarget Pc false n) es s).1 = 0 ∧ shape (mapS (visitTarget Pc false n) es s).2 = shape s
  entries : ∀ es s, contOkEntries es = true → kEntries Wcont es ≤ n →
    countEntries C (mapS (visitEntry Pc false n) es s).1 = 0 ∧ shape (mapS (visitEntry Pc false n) es s).2 = shape s
  segs : ∀ es s, contOkSegs es = true → kSegs Wcont es ≤ n →
    countSegs C (mapS (visitSeg Pc false n) es s).1 = 0 ∧ shape (mapS (visitSeg Pc false n) es s).2 = shape s
  pairs : ∀ ps s, contOkPairs ps = true → kPairs Wcont ps ≤ n →
    countPairs C (mapS (fun (p : Expr × Expr) st =>
      (((visitExpr Pc false n p.1 st).1, (visitExpr Pc false n p.2 (visitExpr Pc false n p.1 st).2).1),
        (visitExpr Pc false n p.2 (visitExpr Pc false n p.1 st).2).2)) ps s).1 = 0 ∧
    shape (mapS (fun (p : Expr × Expr) st =>
      (((visitExpr Pc false n p.1 st).1, (visitExpr Pc false n p.2 (visitExpr Pc false n p.1 st).2).1),
        (visitExpr Pc false n p.2 (visitExpr Pc false n p.1 st).2).2)) ps s).2 = shape s
  tnames : ∀ ns s, contOkTNs ns = true → kTNs Wcont ns ≤ n →
    countTNs C (mapS (tnameTy (visitTy Pc false n)) ns s).1 = 0 ∧
      shape (mapS (tnameTy (visitTy Pc false n)) ns s).2 = shape s
  tname : ∀ t s, contOkTN t = true → kTN Wcont t ≤ n →
    countTN C (tnameTy (visitTy Pc false n) t s).1 = 0 ∧ shape (tnameTy (visitTy Pc false n) t s).2 = shape s
  branches : ∀ bs s, contOkBranches (headLoop s) bs = true → kBranches Wcont bs ≤ n →
    countBranches C (mapS (fun (p : Expr × Block) st =>
      (((visitExpr Pc false n p.1 st).1,
          (visitBlock Pc false n true p.2 (visitExpr Pc false n p.1 st).2).1),
        (visitBlock Pc false n true p.2 (visitExpr Pc false n p.1 st).2).2)) bs s).1 = 0 ∧
    shape (mapS (fun (p : Expr × Block) st =>
      (((visitExpr Pc false n p.1 st).1,
          (visitBlock Pc false n true p.2 (visitExpr Pc false n p.1 st).2).1),
        (visitBlock Pc false n true p.2 (visitExpr Pc false n p.1 st).2).2)) bs s).2 = shape s
  oelse : ∀ b s, contOkOB (headLoop s) b = true → kOB Wcont b ≤ n →
    countOB C (optS (fun blk st => visitBlock Pc false n true blk st) b s).1 = 0 ∧
      shape (optS (fun blk st => visitBlock Pc false n true blk st) b s).2 = shape s
  stmts : ∀ ss s, contOkSs (headLoop s) ss = true → kSs Wcont ss ≤ n →
    countSs C (mapS (visitStmt Pc false n) ss s).1 = 0 ∧ shape (mapS (visitStmt Pc false n) ss s).2 = shape s
  olast : ∀ l s, contOkOL false l = true → kOL Wcont l ≤ n →
    countOL C (optS (visitLast Pc false n) l s).1 = 0 ∧ shape (optS (visitLast Pc false n) l s).2 = shape s


/-! ### the hooks, as rewriting lemmas -/
theorem pc_block (b : Block) (s : State) : Pc.block b s = processBlock b s := rfl
theorem pc_afterBlock (b : Block) (s : State) : Pc.afterBlock b s = (b, s) := rfl
theorem pc_scope (b : Block) (e : Option Expr) (s : State) : Pc.scope b e s = ((b, e), s) := rfl
theorem pc_stmt (st : Stmt) (s : State) : Pc.stmt st s = (st, s) := rfl
theorem pc_stmtNode (st : Stmt) (s : State) : Pc.stmtNode st s = RemoveContinue.stmtNode st s := rfl
theorem pc_afterStmtNode (st : Stmt) (s : State) : Pc.afterStmtNode st s = RemoveContinue.afterStmtNode st s := rfl
theorem pc_last (l : Last) (s : State) : Pc.last l s = (l, s) := rfl
theorem pc_expr (e : Expr) (s : State) : Pc.expr e s = (e, s) := rfl
theorem pc_pref (e : Expr) (s : State) : Pc.pref e s = (e, s) := rfl
theorem pc_target (e : Expr) (s : State) : Pc.target e s = (e, s) := rfl
theorem pc_node (e : Expr) (s : State) : Pc.node e s = RemoveContinue.node e s := rfl
theorem pc_afterNode (e : Expr) (s : State) : Pc.afterNode e s = RemoveContinue.afterNode e s := rfl
theorem pc_ty (t : Ty) (s : State) : Pc.ty t s = (t, s) := rfl
theorem pc_attrs (a : List String) (s : State) : Pc.attrs a s = (a, s) := rfl

/-! ### the stack -/
theorem shape_pushLoop (s : State) : shape (pushLoop s) = true :: shape s := rfl
theorem shape_pushNoLoop (s : State) : shape (pushNoLoop s) = false :: shape s := rfl
theorem shape_popOnly (s : State) : shape (popOnly s) = (shape s).tail := by
  cases s with
  | mk stack count => cases stack <;> simp [shape, popOnly]
theorem headLoop_eq (s : State) : headLoop s = headLoopOf (shape s) := rfl

variable {C} (hC : OnlyCont C)
include hC

theorem count_setFlag (id : Nat) : countS C (setFlag id) = 0 := by
  simp [setFlag, countS, countEs, countE]

theorem countSs_append : ∀ (a b : List Stmt), countSs C (a ++ b) = countSs C a + countSs C b
  | [], b => by simp [countSs]
  | x :: a, b => by simp only [List.cons_append, countSs, countSs_append a b]; omega

theorem count_wrapBlock (ld : LoopData) (b : Block) : countB C (wrapBlock ld b) = countB C b := by
  unfold wrapBlock
  split
  · rfl
  · cases b with
    | mk stmts last =>
      cases last <;>
        simp [countB, countSs, countS, countTNs, countTN, countOTy, countEs, countE, countBranches, countOB, countOL,
          countL, countSs_append hC, count_setFlag hC, hC.localKind, hC.bin]

theorem popWrap_props (s : State) (b : Block) :
    countB C (popWrap s b).1 = countB C b ∧ shape (popWrap s b).2 = (shape s).tail := by
  cases s with
  | mk stack count =>
    cases stack with
    | nil => simp [popWrap, shape]
    | cons x rest =>
      cases x <;> simp [popWrap, shape, count_wrapBlock hC]

omit hC in
theorem contOkSs_append (f : Bool) : ∀ (a b : List Stmt), contOkSs f (a ++ b) = (contOkSs f a && contOkSs f b)
  | [], b => by simp [contOkSs]
  | x :: a, b => by simp [contOkSs, contOkSs_append f a b, Bool.and_assoc]

omit hC in
theorem kSs_append (W : Weights) : ∀ (a b : List Stmt), kSs W (a ++ b) = max (kSs W a) (kSs W b)
  | [], b => by simp [kSs]
  | x :: a, b => by simp only [List.cons_append, kSs, kSs_append W a b]; omega

omit hC in
theorem headLoop_stack (s : State) (h : headLoop s = true) : ∃ ld rest, s.stack = some ld :: rest := by
  cases s with
  | mk stack count =>
    cases stack with
    | nil => simp [headLoop, shape, headLoopOf] at h
    | cons x rest =>
      cases x with
      | none => simp [headLoop, shape, headLoopOf] at h
      | some ld => exact ⟨ld, rest, rfl⟩

omit hC in
/-- the block hook: no `continue` is left at the end of the block when the innermost entry is a loop -/
theorem processBlock_props (b : Block) (s : State) (hok : contOkB (headLoop s) b = true)
    (stmts : List Stmt) (last : Option Last) (s1 : State) (h : processBlock b s = (.mk stmts last, s1)) :
    contOkSs (headLoop s) stmts = true ∧ contOkOL false last = true ∧ shape s1 = shape s ∧
      kB Wcont (.mk stmts last) ≤ kB Wcont b := by
  cases b with
  | mk ss l =>
    simp only [contOkB, Bool.and_eq_true] at hok
    cases l with
    | none =>
      simp only [processBlock, Prod.mk.injEq, Block.mk.injEq] at h
      obtain ⟨⟨rfl, rfl⟩, rfl⟩ := h
      exact ⟨hok.1, rfl, rfl, Nat.le_refl _⟩
    | some l =>
      cases l with
      | ret es =>
        simp only [processBlock, Prod.mk.injEq, Block.mk.injEq] at h
        obtain ⟨⟨rfl, rfl⟩, rfl⟩ := h
        exact ⟨hok.1, by simpa [contOkOL, contOkL] using hok.2, rfl, Nat.le_refl _⟩
      | brk =>
        simp only [processBlock, Prod.mk.injEq, Block.mk.injEq] at h
        obtain ⟨⟨rfl, rfl⟩, rfl⟩ := h
        exact ⟨hok.1, rfl, rfl, Nat.le_refl _⟩
      | cont =>
        have hh : headLoop s = true := by simpa [contOkOL, contOkL] using hok.2
        obtain ⟨ld, rest, hst⟩ := headLoop_stack s hh
        simp only [processBlock, hst, Prod.mk.injEq, Block.mk.injEq] at h
        obtain ⟨⟨rfl, rfl⟩, rfl⟩ := h
        refine ⟨?_, rfl, ?_, ?_⟩
        · simp [contOkSs_append, hok.1, contOkSs, contOkS, setFlag, contOkEs, contOkE]
        · simp [shape, hst]
        · simp only [kB, kSs_append, kSs, kOL, kL, setFlag, kS, kEs, kE, Wcont]; omega


set_option linter.unusedSimpArgs false
set_option linter.unusedVariables false

theorem csucc_node (n : Nat) (L : CLevel C n) (LL : CLists C n) :
    ∀ e s, contOkE e = true → kE Wcont e + 1 ≤ n + 1 →
      countE C (visitNode Pc false (n + 1) e s).1 = 0 ∧ shape (visitNode Pc false (n + 1) e s).2 = shape s := by
  intro e s hok hk
  have Lexpr := L.expr
  have Lpref := L.pref
  have Lfn := L.fnbody
  have Lty := L.ty
  have Lexprs := LL.exprs
  have Lnodes := LL.nodes
  have Lentries := LL.entries
  have Lsegs := LL.segs
  have Lpairs := LL.pairs
  have Ltys := LL.tys
  have hpop := shape_popOnly
  have hpn := shape_pushNoLoop
  cases e with
  | nil | «true» | «false» | vararg => rw [visitNode_leaf Pc false n _ s rfl]; simp [countE]
  | num _ | str _ | var _ =>
    rw [visitNode_noKids Pc false n _ s s (by rfl) _ rfl rfl]
    simp [pc_afterNode, RemoveContinue.afterNode, countE]
  | call f m k args =>
    simp only [contOkE, Bool.and_eq_true, kE, Nat.max_le] at hok hk
    cases k with
    | tuple =>
      rw [visitNode_call_tuple Pc false n _ s s (by rfl) f m args rfl]
      simp only [pc_afterNode, RemoveContinue.afterNode, countE]
      grind
    | str =>
      rw [visitNode_call_other Pc false n _ s s (by rfl) f m .str (by simp) args rfl]
      simp only [pc_afterNode, RemoveContinue.afterNode, countE]
      grind
    | tbl =>
      rw [visitNode_call_other Pc false n _ s s (by rfl) f m .tbl (by simp) args rfl]
      simp only [pc_afterNode, RemoveContinue.afterNode, countE]
      grind
  | fn body =>
    simp only [contOkE, kE] at hok hk
    rw [visitNode_fn Pc false n _ s (pushNoLoop s) (by rfl) body rfl]
    simp only [pc_afterNode, RemoveContinue.afterNode, countE]
    grind
  | bin op l r =>
    simp only [contOkE, Bool.and_eq_true, kE, Nat.max_le] at hok hk
    rw [visitNode_bin Pc false n _ s s (by rfl) op l r rfl]
    simp only [pc_afterNode, RemoveContinue.afterNode, countE, hC.bin, hC.ifx, hC.interp, hC.cast, hC.inst]
    grind
  | field x name =>
    simp only [contOkE, Bool.and_eq_true, kE, Nat.max_le] at hok hk
    rw [visitNode_field Pc false n _ s s (by rfl) x name rfl]
    simp only [pc_afterNode, RemoveContinue.afterNode, countE, hC.bin, hC.ifx, hC.interp, hC.cast, hC.inst]
    grind
  | index x k =>
    simp only [contOkE, Bool.and_eq_true, kE, Nat.max_le] at hok hk
    rw [visitNode_index Pc false n _ s s (by rfl) x k rfl]
    simp only [pc_afterNode, RemoveContinue.afterNode, countE, hC.bin, hC.ifx, hC.interp, hC.cast, hC.inst]
    grind
  | ifx c t elifs el =>
    simp only [contOkE, Bool.and_eq_true, kE, Nat.max_le] at hok hk
    rw [visitNode_ifx Pc false n _ s s (by rfl) c t elifs el rfl]
    simp only [pc_afterNode, RemoveContinue.afterNode, countE, hC.bin, hC.ifx, hC.interp, hC.cast, hC.inst]
    grind
  | paren x =>
    simp only [contOkE, Bool.and_eq_true, kE, Nat.max_le] at hok hk
    rw [visitNode_paren Pc false n _ s s (by rfl) x rfl]
    simp only [pc_afterNode, RemoveContinue.afterNode, countE, hC.bin, hC.ifx, hC.interp, hC.cast, hC.inst]
    grind
  | un op x =>
    simp only [contOkE, Bool.and_eq_true, kE, Nat.max_le] at hok hk
    rw [visitNode_un Pc false n _ s s (by rfl) op x rfl]
    simp only [pc_afterNode, RemoveContinue.afterNode, countE, hC.bin, hC.ifx, hC.interp, hC.cast, hC.inst]
    grind
  | interp segs =>
    simp only [contOkE, Bool.and_eq_true, kE, Nat.max_le] at hok hk
    rw [visitNode_interp Pc false n _ s s (by rfl) segs rfl]
    simp only [pc_afterNode, RemoveContinue.afterNode, countE, hC.bin, hC.ifx, hC.interp, hC.cast, hC.inst]
    grind
  | table entries =>
    simp only [contOkE, Bool.and_eq_true, kE, Nat.max_le] at hok hk
    rw [visitNode_table Pc false n _ s s (by rfl) entries rfl]
    simp only [pc_afterNode, RemoveContinue.afterNode, countE, hC.bin, hC.ifx, hC.interp, hC.cast, hC.inst]
    grind
  | cast x ty =>
    simp only [contOkE, Bool.and_eq_true, kE, Nat.max_le] at hok hk
    rw [visitNode_cast Pc false n _ s s (by rfl) x ty rfl]
    simp only [pc_afterNode, RemoveContinue.afterNode, countE, hC.bin, hC.ifx, hC.interp, hC.cast, hC.inst]
    grind
  | inst x tys =>
    simp only [contOkE, Bool.and_eq_true, kE, Nat.max_le] at hok hk
    rw [visitNode_inst Pc false n _ s s (by rfl) x tys rfl]
    simp only [pc_afterNode, RemoveContinue.afterNode, countE, hC.bin, hC.ifx, hC.interp, hC.cast, hC.inst]
    grind


/-! ### more loop context never hurts -/
omit hC in
mutual
  theorem monoS : ∀ st : Stmt, contOkS false st = true → contOkS true st = true
    | .doBlock b, h => by simp only [contOkS] at h ⊢; exact monoB b h
    | .ifs branches els, h => by
      simp only [contOkS, Bool.and_eq_true] at h ⊢; exact ⟨monoBranches branches h.1, monoOB els h.2⟩
    | .assign _ _, h | .cassign _ _ _, h | .callStmt _, h | .function _ _ _, h | .localFn _ _ _, h
    | .typeFn _ _ _, h | .gfor _ _ _, h | .nfor _ _ _ _ _, h | .localAssign _ _ _, h | .repeat_ _ _, h
    | .while_ _ _, h | .typeDecl _ _ _, h => by simpa [contOkS] using h
  theorem monoBranches : ∀ bs : List (Expr × Block), contOkBranches false bs = true → contOkBranches true bs = true
    | [], _ => rfl
    | (c, b) :: rest, h => by
      simp only [contOkBranches, Bool.and_eq_true] at h ⊢
      exact ⟨⟨h.1.1, monoB b h.1.2⟩, monoBranches rest h.2⟩
  theorem monoSs : ∀ ss : List Stmt, contOkSs false ss = true → contOkSs true ss = true
    | [], _ => rfl
    | st :: ss, h => by
      simp only [contOkSs, Bool.and_eq_true] at h ⊢; exact ⟨monoS st h.1, monoSs ss h.2⟩
  theorem monoOB : ∀ b : Option Block, contOkOB false b = true → contOkOB true b = true
    | none, _ => rfl
    | some b, h => by simp only [contOkOB] at h ⊢; exact monoB b h
  theorem monoB : ∀ b : Block, contOkB false b = true → contOkB true b = true
    | .mk stmts last, h => by
      simp only [contOkB, Bool.and_eq_true] at h ⊢
      refine ⟨monoSs stmts h.1, ?_⟩
      cases last with
      | none => rfl
      | some l => cases l <;> simp_all [contOkOL, contOkL]
end

omit hC in
theorem monoB' (f : Bool) (b : Block) (h : contOkB false b = true) : contOkB f b = true := by
  cases f
  · exact h
  · exact monoB b h

theorem csucc_expr (n : Nat) (L : CLevel C n) :
    ∀ e s, contOkE e = true → kE Wcont e + 2 ≤ n + 1 →
      countE C (visitExpr Pc false (n + 1) e s).1 = 0 ∧ shape (visitExpr Pc false (n + 1) e s).2 = shape s := by
  intro e s hok hk
  rw [visitExpr_eq]
  exact L.node e s hok (by omega)

theorem csucc_pref (n : Nat) (L : CLevel C n) :
    ∀ e s, contOkE e = true → kE Wcont e + 2 ≤ n + 1 →
      countE C (visitPrefix Pc false (n + 1) e s).1 = 0 ∧ shape (visitPrefix Pc false (n + 1) e s).2 = shape s := by
  intro e s hok hk
  rw [visitPrefix_eq]
  exact L.node e s hok (by omega)

theorem csucc_target (n : Nat) (L : CLevel C n) :
    ∀ e s, contOkE e = true → kE Wcont e + 2 ≤ n + 1 →
      countE C (visitTarget Pc false (n + 1) e s).1 = 0 ∧ shape (visitTarget Pc false (n + 1) e s).2 = shape s := by
  intro e s hok hk
  rw [visitTarget_eq]
  exact L.node e s hok (by omega)

theorem csucc_entry (n : Nat) (L : CLevel C n) :
    ∀ e s, contOkEntry e = true → kEntry Wcont e + 1 ≤ n + 1 →
      countEntry C (visitEntry Pc false (n + 1) e s).1 = 0 ∧ shape (visitEntry Pc false (n + 1) e s).2 = shape s := by
  intro e s hok hk
  have Lexpr := L.expr
  cases e <;>
    (simp only [contOkEntry, Bool.and_eq_true, kEntry, Nat.max_le] at hok hk
     simp only [visitEntry, countEntry]
     grind)

theorem csucc_seg (n : Nat) (L : CLevel C n) :
    ∀ e s, contOkSeg e = true → kSeg Wcont e + 1 ≤ n + 1 →
      countSeg C (visitSeg Pc false (n + 1) e s).1 = 0 ∧ shape (visitSeg Pc false (n + 1) e s).2 = shape s := by
  intro e s hok hk
  have Lexpr := L.expr
  cases e <;>
    (simp only [contOkSeg, kSeg] at hok hk
     simp only [visitSeg, countSeg]
     all_goals grind)

theorem csucc_ty (n : Nat) (L : CLevel C n) (LL : CLists C n) :
    ∀ t s, contOkTy t = true → kTy Wcont t + 1 ≤ n + 1 →
      countTy C (visitTy Pc false (n + 1) t s).1 = 0 ∧ shape (visitTy Pc false (n + 1) t s).2 = shape s := by
  intro t s hok hk
  have Lexpr := L.expr
  have Ltys := LL.tys
  cases t with
  | mk tag kids =>
    simp only [contOkTy, kTy] at hok hk
    rw [visitTy_mk Pc false n _ s s tag kids rfl]; simp only [countTy, hC.tyNode]; grind
  | typeof e =>
    simp only [contOkTy, kTy] at hok hk
    rw [visitTy_typeof Pc false n _ s s e rfl]; simp only [countTy, hC.tyNode]; grind

theorem csucc_last (n : Nat) (LL : CLists C n) :
    ∀ l s, contOkL false l = true → kL Wcont l + 1 ≤ n + 1 →
      countL C (visitLast Pc false (n + 1) l s).1 = 0 ∧ shape (visitLast Pc false (n + 1) l s).2 = shape s := by
  intro l s hok hk
  have Lexprs := LL.exprs
  cases l with
  | ret es =>
    simp only [contOkL, kL] at hok hk
    rw [visitLast_ret Pc false n _ s s es rfl]; simp only [countL]; grind
  | brk => rw [visitLast_other Pc false n _ s s .brk (Or.inl rfl) rfl]; simp [countL]
  | cont => simp [contOkL] at hok

theorem csucc_fnbody (n : Nat) (L : CLevel C n) (LL : CLists C n) :
    ∀ hs body s, contOkF body = true → kF Wcont body + 1 ≤ n + 1 →
      countF C (visitFnBody Pc false (n + 1) hs body s).1 = 0 ∧
        shape (visitFnBody Pc false (n + 1) hs body s).2 = shape s := by
  intro hs body s hok hk
  have Lblock := L.block
  have Ltnames := LL.tnames
  have Loty := LL.oty
  cases body with
  | mk params variadic varTy ret generics attrs blk =>
    simp only [contOkF, Bool.and_eq_true, kF, Nat.max_le] at hok hk
    have hb := monoB' (headLoop s) blk hok.2
    rw [visitFnBody_default]
    simp only [pc_scope, pc_attrs, countF, hC.generic, hC.attr, Nat.zero_mul, Nat.add_zero]
    grind

theorem csucc_block (n : Nat) (LL : CLists C n) :
    ∀ pushes b s, contOkB (headLoop s) b = true → kB Wcont b + 1 ≤ n + 1 →
      countB C (visitBlock Pc false (n + 1) pushes b s).1 = 0 ∧
        shape (visitBlock Pc false (n + 1) pushes b s).2 = shape s := by
  intro pushes b s hok hk
  have Lstmts := LL.stmts
  have Lolast := LL.olast
  rcases h2 : processBlock b s with ⟨b1, s1⟩
  cases b1 with
  | mk stmts last =>
    obtain ⟨a, b', c, d⟩ := processBlock_props b s hok stmts last s1 h2
    rw [visitBlock_eq Pc false n pushes b s stmts last s1 (by simpa [pc_block] using h2)]
    simp only [pc_afterBlock, countB, Bool.false_and, Bool.false_eq_true, if_false]
    simp only [kB, Nat.max_le] at d hk
    have hh : headLoop s1 = headLoop s := by rw [headLoop_eq, headLoop_eq, c]
    grind


theorem csucc_stmt (n : Nat) (L : CLevel C n) (LL : CLists C n) :
    ∀ st s, contOkS (headLoop s) st = true → kS Wcont st + 1 ≤ n + 1 →
      countS C (visitStmt Pc false (n + 1) st s).1 = 0 ∧ shape (visitStmt Pc false (n + 1) st s).2 = shape s := by
  intro st s hok hk
  have Lexpr := L.expr
  have Ltarget := L.target
  have Lblock := L.block
  have Lfn := L.fnbody
  have Lty := L.ty
  have Lnode := L.node
  have Lexprs := LL.exprs
  have Ltargets := LL.targets
  have Ltnames := LL.tnames
  have Ltname := LL.tname
  have Loty := LL.oty
  have Loexpr := LL.oexpr
  have Lbranches := LL.branches
  have Loelse := LL.oelse
  have hpop := shape_popOnly
  have hpn := shape_pushNoLoop
  have hpl := shape_pushLoop
  have hpw := popWrap_props hC
  have hhl := headLoop_eq
  have hmono := monoB'
  have htail : ∀ (x : Bool) (l : List Bool), (x :: l).tail = l := fun _ _ => rfl
  have Lblock_loop : ∀ (pushes : Bool) (b : Block) (s' : State), shape s' = true :: shape s →
      contOkB true b = true → kB Wcont b + 1 ≤ n →
      countB C (visitBlock Pc false n pushes b s').1 = 0 ∧
        shape (visitBlock Pc false n pushes b s').2 = true :: shape s := by
    intro pushes b s' hs' hb hkb
    have hh : headLoop s' = true := by rw [headLoop_eq, hs']; rfl
    have := L.block pushes b s' (by rw [hh]; exact hb) hkb
    rw [hs'] at this; exact this
  have Lblock_fn : ∀ (pushes : Bool) (b : Block) (s' : State), shape s' = false :: shape s →
      contOkB false b = true → kB Wcont b + 1 ≤ n →
      countB C (visitBlock Pc false n pushes b s').1 = 0 ∧
        shape (visitBlock Pc false n pushes b s').2 = false :: shape s := by
    intro pushes b s' hs' hb hkb
    have hh : headLoop s' = false := by rw [headLoop_eq, hs']; rfl
    have := L.block pushes b s' (by rw [hh]; exact hb) hkb
    rw [hs'] at this; exact this
  cases st with
  | callStmt c =>
    simp only [contOkS, kS] at hok hk
    rw [visitStmt_call Pc false n _ s s c rfl]
    simp only [countS]
    exact L.node c s hok (by omega)
  | function name m body =>
    cases name with
    | nil =>
      simp [contOkS] at hok
    | cons root path =>
      cases body with
      | mk params variadic varTy ret generics attrs blk =>
        simp only [contOkS, contOkF, Bool.and_eq_true, kS, kF, Nat.max_le] at hok hk
        rw [visitStmt_function_default Pc n _ _ s s (pushNoLoop s) rfl rfl root path m params variadic varTy ret generics attrs blk rfl]
        simp only [pc_scope, pc_attrs, pc_node, RemoveContinue.node, pc_afterStmtNode, RemoveContinue.afterStmtNode, countS, countF, hC.cassign, hC.localKind, hC.typeStmt, hC.generic, hC.attr, Nat.zero_mul, Nat.add_zero, Nat.zero_add]
        grind
  | typeFn ex name body =>
    cases body with
    | mk params variadic varTy ret generics attrs blk =>
      simp only [contOkS, contOkF, Bool.and_eq_true, kS, kF, Nat.max_le] at hok hk
      rw [visitStmt_typeFn_default Pc n _ _ s s s rfl rfl ex name params variadic varTy ret generics attrs blk rfl]
      simp only [pc_scope, pc_attrs, pc_node, RemoveContinue.node, pc_afterStmtNode, RemoveContinue.afterStmtNode, countS, countF, hC.cassign, hC.localKind, hC.typeStmt, hC.generic, hC.attr, Nat.zero_mul, Nat.add_zero, Nat.zero_add]
      grind
  | assign ts vs =>
    simp only [contOkS, contOkF, Bool.and_eq_true, kS, kF, Nat.max_le] at hok hk
    rw [visitStmt_assign Pc false n _ _ s s s rfl rfl ts vs rfl]
    simp only [pc_scope, pc_attrs, pc_node, RemoveContinue.node, pc_afterStmtNode, RemoveContinue.afterStmtNode, countS, countF, hC.cassign, hC.localKind, hC.typeStmt, hC.generic, hC.attr, Nat.zero_mul, Nat.add_zero, Nat.zero_add]
    grind
  | cassign op t v =>
    simp only [contOkS, contOkF, Bool.and_eq_true, kS, kF, Nat.max_le] at hok hk
    rw [visitStmt_cassign Pc false n _ _ s s s rfl rfl op t v rfl]
    simp only [pc_scope, pc_attrs, pc_node, RemoveContinue.node, pc_afterStmtNode, RemoveContinue.afterStmtNode, countS, countF, hC.cassign, hC.localKind, hC.typeStmt, hC.generic, hC.attr, Nat.zero_mul, Nat.add_zero, Nat.zero_add]
    grind
  | doBlock b =>
    simp only [contOkS, contOkF, Bool.and_eq_true, kS, kF, Nat.max_le] at hok hk
    rw [visitStmt_do Pc false n _ _ s s s rfl rfl b rfl]
    simp only [pc_scope, pc_attrs, pc_node, RemoveContinue.node, pc_afterStmtNode, RemoveContinue.afterStmtNode, countS, countF, hC.cassign, hC.localKind, hC.typeStmt, hC.generic, hC.attr, Nat.zero_mul, Nat.add_zero, Nat.zero_add]
    grind
  | while_ c b =>
    simp only [contOkS, contOkF, Bool.and_eq_true, kS, kF, Nat.max_le] at hok hk
    rw [visitStmt_while Pc false n _ _ s s (pushLoop s) rfl rfl c b rfl]
    simp only [pc_scope, pc_attrs, pc_node, RemoveContinue.node, pc_afterStmtNode, RemoveContinue.afterStmtNode, countS, countF, hC.cassign, hC.localKind, hC.typeStmt, hC.generic, hC.attr, Nat.zero_mul, Nat.add_zero, Nat.zero_add]
    grind
  | ifs branches els =>
    simp only [contOkS, contOkF, Bool.and_eq_true, kS, kF, Nat.max_le] at hok hk
    rw [visitStmt_ifs Pc false n _ _ s s s rfl rfl branches els rfl]
    simp only [pc_scope, pc_attrs, pc_node, RemoveContinue.node, pc_afterStmtNode, RemoveContinue.afterStmtNode, countS, countF, hC.cassign, hC.localKind, hC.typeStmt, hC.generic, hC.attr, Nat.zero_mul, Nat.add_zero, Nat.zero_add]
    grind
  | typeDecl ex name ty =>
    simp only [contOkS, contOkF, Bool.and_eq_true, kS, kF, Nat.max_le] at hok hk
    rw [visitStmt_typeDecl Pc false n _ _ s s s rfl rfl ex name ty rfl]
    simp only [pc_scope, pc_attrs, pc_node, RemoveContinue.node, pc_afterStmtNode, RemoveContinue.afterStmtNode, countS, countF, hC.cassign, hC.localKind, hC.typeStmt, hC.generic, hC.attr, Nat.zero_mul, Nat.add_zero, Nat.zero_add]
    grind
  | gfor names values body =>
    simp only [contOkS, contOkF, Bool.and_eq_true, kS, kF, Nat.max_le] at hok hk
    rw [visitStmt_gfor_default Pc n _ _ s s (pushLoop s) rfl rfl names values body rfl]
    simp only [pc_scope, pc_attrs, pc_node, RemoveContinue.node, pc_afterStmtNode, RemoveContinue.afterStmtNode, countS, countF, hC.cassign, hC.localKind, hC.typeStmt, hC.generic, hC.attr, Nat.zero_mul, Nat.add_zero, Nat.zero_add]
    grind
  | nfor name a b step body =>
    simp only [contOkS, contOkF, Bool.and_eq_true, kS, kF, Nat.max_le] at hok hk
    rw [visitStmt_nfor_default Pc n _ _ s s (pushLoop s) rfl rfl name a b step body rfl]
    simp only [pc_scope, pc_attrs, pc_node, RemoveContinue.node, pc_afterStmtNode, RemoveContinue.afterStmtNode, countS, countF, hC.cassign, hC.localKind, hC.typeStmt, hC.generic, hC.attr, Nat.zero_mul, Nat.add_zero, Nat.zero_add]
    grind
  | localAssign kind names values =>
    simp only [contOkS, contOkF, Bool.and_eq_true, kS, kF, Nat.max_le] at hok hk
    rw [visitStmt_local_default Pc n _ _ s s s rfl rfl kind names values rfl]
    simp only [pc_scope, pc_attrs, pc_node, RemoveContinue.node, pc_afterStmtNode, RemoveContinue.afterStmtNode, countS, countF, hC.cassign, hC.localKind, hC.typeStmt, hC.generic, hC.attr, Nat.zero_mul, Nat.add_zero, Nat.zero_add]
    grind
  | localFn kind name body =>
    simp only [contOkS, contOkF, Bool.and_eq_true, kS, kF, Nat.max_le] at hok hk
    rw [visitStmt_localFn_default Pc n _ _ s s s rfl rfl kind name body rfl]
    simp only [pc_scope, pc_attrs, pc_node, RemoveContinue.node, pc_afterStmtNode, RemoveContinue.afterStmtNode, countS, countF, hC.cassign, hC.localKind, hC.typeStmt, hC.generic, hC.attr, Nat.zero_mul, Nat.add_zero, Nat.zero_add]
    grind
  | repeat_ body cond =>
    simp only [contOkS, contOkF, Bool.and_eq_true, kS, kF, Nat.max_le] at hok hk
    rw [visitStmt_repeat_default Pc n _ _ s s (pushLoop s) rfl rfl body cond rfl]
    simp only [pc_scope, pc_attrs, pc_node, RemoveContinue.node, pc_afterStmtNode, RemoveContinue.afterStmtNode, countS, countF, hC.cassign, hC.localKind, hC.typeStmt, hC.generic, hC.attr, Nat.zero_mul, Nat.add_zero, Nat.zero_add]
    grind


theorem clists_of_level (n : Nat) (L : CLevel C n) : CLists C n := by
  have Lty := L.ty
  have Lexpr := L.expr
  have Ltarget := L.target
  have Lnode := L.node
  have Lentry := L.entry
  have Lseg := L.seg
  have Lstmt := L.stmt
  have Llast := L.last
  have Lblock := L.block
  have hhl := headLoop_eq
  refine ⟨?_, ?_, ?_, ?_, ?_, ?_, ?_, ?_, ?_, ?_, ?_, ?_, ?_, ?_, ?_⟩
  · intro es
    induction es with
    | nil => intro s; simp [mapS, countTys]
    | cons t ts ih =>
      intro s hok hk
      simp only [contOkTys, Bool.and_eq_true, kTys, Nat.max_le] at hok hk
      simp only [mapS, countTys]
      grind
  · intro t s hok hk
    cases t with
    | none => simp [optS, countOTy]
    | some t =>
      simp only [contOkOTy, kOTy] at hok hk
      simp only [optS, countOTy]
      grind
  · intro es
    induction es with
    | nil => intro s; simp [mapS, countEs]
    | cons t ts ih =>
      intro s hok hk
      simp only [contOkEs, Bool.and_eq_true, kEs, Nat.max_le] at hok hk
      simp only [mapS, countEs]
      grind
  · intro t s hok hk
    cases t with
    | none => simp [optS, countOE]
    | some t =>
      simp only [contOkOE, kOE] at hok hk
      simp only [optS, countOE]
      grind
  · intro es
    induction es with
    | nil => intro s; simp [mapS, countEs]
    | cons t ts ih =>
      intro s hok hk
      simp only [contOkEs, Bool.and_eq_true, kEs, Nat.max_le] at hok hk
      simp only [mapS, countEs]
      grind
  · intro es
    induction es with
    | nil => intro s; simp [mapS, countEs]
    | cons t ts ih =>
      intro s hok hk
      simp only [contOkEs, Bool.and_eq_true, kEs, Nat.max_le] at hok hk
      simp only [mapS, countEs]
      grind
  · intro es
    induction es with
    | nil => intro s; simp [mapS, countEntries]
    | cons t ts ih =>
      intro s hok hk
      simp only [contOkEntries, Bool.and_eq_true, kEntries, Nat.max_le] at hok hk
      simp only [mapS, countEntries]
      grind
  · intro es
    induction es with
    | nil => intro s; simp [mapS, countSegs]
    | cons t ts ih =>
      intro s hok hk
      simp only [contOkSegs, Bool.and_eq_true, kSegs, Nat.max_le] at hok hk
      simp only [mapS, countSegs]
      grind
  · intro es
    induction es with
    | nil => intro s; simp [mapS, countPairs]
    | cons t ts ih =>
      intro s hok hk
      obtain ⟨a, b⟩ := t
      simp only [contOkPairs, Bool.and_eq_true, kPairs, Nat.max_le] at hok hk
      simp only [mapS, countPairs]
      grind
  · intro es
    induction es with
    | nil => intro s; simp [mapS, countTNs]
    | cons t ts ih =>
      intro s hok hk
      cases t with
      | mk nm ty =>
        cases ty with
        | none =>
          simp only [contOkTNs, contOkTN, contOkOTy, Bool.and_eq_true, kTNs, kTN, kOTy, Nat.max_le] at hok hk
          simp only [mapS, tnameTy, optS, countTNs, countTN, countOTy]
          grind
        | some ty =>
          simp only [contOkTNs, contOkTN, contOkOTy, Bool.and_eq_true, kTNs, kTN, kOTy, Nat.max_le] at hok hk
          simp only [mapS, tnameTy, optS, countTNs, countTN, countOTy]
          grind
  · intro t s hok hk
    cases t with
    | mk nm ty =>
      cases ty with
      | none => simp [tnameTy, optS, countTN, countOTy]
      | some ty =>
        simp only [contOkTN, contOkOTy, kTN, kOTy] at hok hk
        simp only [tnameTy, optS, countTN, countOTy]
        grind
  · intro es
    induction es with
    | nil => intro s; simp [mapS, countBranches]
    | cons t ts ih =>
      intro s hok hk
      obtain ⟨a, b⟩ := t
      simp only [contOkBranches, Bool.and_eq_true, kBranches, Nat.max_le] at hok hk
      simp only [mapS, countBranches]
      grind
  · intro t s hok hk
    cases t with
    | none => simp [optS, countOB]
    | some t =>
      simp only [contOkOB, kOB] at hok hk
      simp only [optS, countOB]
      grind
  · intro es
    induction es with
    | nil => intro s; simp [mapS, countSs]
    | cons t ts ih =>
      intro s hok hk
      simp only [contOkSs, Bool.and_eq_true, kSs, Nat.max_le] at hok hk
      simp only [mapS, countSs]
      grind
  · intro t s hok hk
    cases t with
    | none => simp [optS, countOL]
    | some t =>
      simp only [contOkOL, kOL] at hok hk
      simp only [optS, countOL]
      grind

omit hC in
theorem clevel_zero : CLevel C 0 := by
  refine ⟨?_, ?_, ?_, ?_, ?_, ?_, ?_, ?_, ?_, ?_, ?_⟩ <;> (intros; omega)

theorem clevel_all : ∀ n, CLevel C n := by
  intro n
  induction n with
  | zero => exact clevel_zero
  | succ n ih =>
    have LL := clists_of_level hC n ih
    exact ⟨csucc_ty hC n ih LL, csucc_expr hC n ih, csucc_pref hC n ih, csucc_target hC n ih,
      csucc_entry hC n ih, csucc_seg hC n ih, csucc_node hC n ih LL, csucc_fnbody hC n ih LL,
      csucc_stmt hC n ih LL, csucc_last hC n LL, csucc_block hC n LL⟩

omit hC in
theorem onlyCont_continueCensus : OnlyCont continueCensus :=
  ⟨fun _ => rfl, rfl, rfl, rfl, rfl, fun _ => rfl, fun _ => rfl, rfl, rfl, rfl, rfl⟩

end DarkluaModel.C07
