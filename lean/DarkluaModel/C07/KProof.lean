import DarkluaModel.C07.KMono
import DarkluaModel.C07.VisitEqs
/-!
# C07 — the visitor does not increase the fuel measure `k`

`klevel_all`: if every hook of `P` is `k`-non-increasing at weights `W` (`KHooks`, C07/KMono.lean), then so is every
visit function, with ANY fuel (same shape as C07/WfProof.lean: list layer from the element layer, then one successor
lemma per constructor over the unfolding equations of C07/VisitEqs.lean). Used for the nested
`remove_compound_assignment` run inside `remove_floor_division` (`k_visitStmt`).
-/
namespace DarkluaModel.C07
open DarkluaModel.Rules Visitor

section
variable {σ : Type} (W : Weights) (P : Processor σ) (sc : Bool)

structure KLists (n : Nat) : Prop where
  tys : ∀ ts s, kTys W (mapS (visitTy P sc n) ts s).1 ≤ kTys W ts
  oty : ∀ t s, kOTy W (optS (visitTy P sc n) t s).1 ≤ kOTy W t
  exprs : ∀ es s, kEs W (mapS (visitExpr P sc n) es s).1 ≤ kEs W es
  oexpr : ∀ e s, kOE W (optS (visitExpr P sc n) e s).1 ≤ kOE W e
  nodes : ∀ es s, kEs W (mapS (visitNode P sc n) es s).1 ≤ kEs W es
  targets : ∀ es s, kEs W (mapS (visitTarget P sc n) es s).1 ≤ kEs W es
  entries : ∀ es s, kEntries W (mapS (visitEntry P sc n) es s).1 ≤ kEntries W es
  segs : ∀ es s, kSegs W (mapS (visitSeg P sc n) es s).1 ≤ kSegs W es
  pairs : ∀ ps s,
    kPairs W (mapS (fun (p : Expr × Expr) st =>
      (((visitExpr P sc n p.1 st).1, (visitExpr P sc n p.2 (visitExpr P sc n p.1 st).2).1),
        (visitExpr P sc n p.2 (visitExpr P sc n p.1 st).2).2)) ps s).1 ≤ kPairs W ps ∧
    (mapS (fun (p : Expr × Expr) st =>
      (((visitExpr P sc n p.1 st).1, (visitExpr P sc n p.2 (visitExpr P sc n p.1 st).2).1),
        (visitExpr P sc n p.2 (visitExpr P sc n p.1 st).2).2)) ps s).1.length = ps.length
  tnames : ∀ ns s, kTNs W (mapS (tnameTy (visitTy P sc n)) ns s).1 ≤ kTNs W ns
  tname : ∀ t s, kTN W (tnameTy (visitTy P sc n) t s).1 ≤ kTN W t
  branches : ∀ bs s,
    kBranches W (mapS (fun (p : Expr × Block) st =>
      (((visitExpr P sc n p.1 st).1,
          (visitBlock P sc n true p.2 (P.scope p.2 none (visitExpr P sc n p.1 st).2).2).1),
        (visitBlock P sc n true p.2 (P.scope p.2 none (visitExpr P sc n p.1 st).2).2).2)) bs s).1 ≤ kBranches W bs
  oelse : ∀ b s,
    kOB W (optS (fun blk st => visitBlock P sc n true blk (P.scope blk none st).2) b s).1 ≤ kOB W b
  stmts : ∀ ss s, kSs W (mapS (visitStmt P sc n) ss s).1 ≤ kSs W ss
  olast : ∀ l s, kOL W (optS (visitLast P sc n) l s).1 ≤ kOL W l

set_option linter.unusedSimpArgs false
set_option linter.unusedVariables false

theorem klists_of_level (n : Nat) (L : KLevel W P sc n) : KLists W P sc n := by
  have Lty := L.ty
  have Lexpr := L.expr
  have Lnode := L.node
  have Ltarget := L.target
  have Lentry := L.entry
  have Lseg := L.seg
  have Lstmt := L.stmt
  have Llast := L.last
  have Lblock := L.block
  refine ⟨?_, ?_, ?_, ?_, ?_, ?_, ?_, ?_, ?_, ?_, ?_, ?_, ?_, ?_, ?_⟩
  · intro ts
    induction ts with
    | nil => intro s; simp [mapS, kTys]
    | cons t ts ih => intro s; simp only [mapS, kTys]; have := Lty t s; have := ih (visitTy P sc n t s).2; omega
  · intro t s
    cases t with
    | none => simp [optS, kOTy]
    | some t => simp only [optS, kOTy]; have := Lty t s; omega
  · intro es
    induction es with
    | nil => intro s; simp [mapS, kEs]
    | cons t ts ih => intro s; simp only [mapS, kEs]; have := Lexpr t s; have := ih (visitExpr P sc n t s).2; omega
  · intro t s
    cases t with
    | none => simp [optS, kOE]
    | some t => simp only [optS, kOE]; have := Lexpr t s; omega
  · intro es
    induction es with
    | nil => intro s; simp [mapS, kEs]
    | cons t ts ih => intro s; simp only [mapS, kEs]; have := Lnode t s; have := ih (visitNode P sc n t s).2; omega
  · intro es
    induction es with
    | nil => intro s; simp [mapS, kEs]
    | cons t ts ih =>
      intro s; simp only [mapS, kEs]; have := Ltarget t s; have := ih (visitTarget P sc n t s).2; omega
  · intro es
    induction es with
    | nil => intro s; simp [mapS, kEntries]
    | cons t ts ih =>
      intro s; simp only [mapS, kEntries]; have := Lentry t s; have := ih (visitEntry P sc n t s).2; omega
  · intro es
    induction es with
    | nil => intro s; simp [mapS, kSegs]
    | cons t ts ih => intro s; simp only [mapS, kSegs]; have := Lseg t s; have := ih (visitSeg P sc n t s).2; omega
  · intro es
    induction es with
    | nil => intro s; simp [mapS, kPairs]
    | cons t ts ih =>
      intro s; obtain ⟨a, b⟩ := t
      simp only [mapS, kPairs, List.length_cons]
      have h1 := Lexpr a s
      have h2 := Lexpr b (visitExpr P sc n a s).2
      have h3 := ih (visitExpr P sc n b (visitExpr P sc n a s).2).2
      omega
  · intro es
    induction es with
    | nil => intro s; simp [mapS, kTNs]
    | cons t ts ih =>
      intro s
      cases t with
      | mk nm ty =>
        cases ty with
        | none =>
          simp only [mapS, tnameTy, optS, kTNs, kTN, kOTy]; have := ih s; omega
        | some ty =>
          simp only [mapS, tnameTy, optS, kTNs, kTN, kOTy]
          have := Lty ty s; have := ih (visitTy P sc n ty s).2; omega
  · intro t s
    cases t with
    | mk nm ty =>
      cases ty with
      | none => simp [tnameTy, optS, kTN, kOTy]
      | some ty => simp only [tnameTy, optS, kTN, kOTy]; have := Lty ty s; omega
  · intro es
    induction es with
    | nil => intro s; simp [mapS, kBranches]
    | cons t ts ih =>
      intro s; obtain ⟨a, b⟩ := t
      simp only [mapS, kBranches]
      have h1 := Lexpr a s
      have h2 := Lblock true b (P.scope b none (visitExpr P sc n a s).2).2
      have h3 := ih (visitBlock P sc n true b (P.scope b none (visitExpr P sc n a s).2).2).2
      omega
  · intro t s
    cases t with
    | none => simp [optS, kOB]
    | some t => simp only [optS, kOB]; have := Lblock true t (P.scope t none s).2; omega
  · intro es
    induction es with
    | nil => intro s; simp [mapS, kSs]
    | cons t ts ih => intro s; simp only [mapS, kSs]; have := Lstmt t s; have := ih (visitStmt P sc n t s).2; omega
  · intro t s
    cases t with
    | none => simp [optS, kOL]
    | some t => simp only [optS, kOL]; have := Llast t s; omega

theorem ksucc_node (h : KHooks W P) (n : Nat) (L : KLevel W P sc n) (LL : KLists W P sc n) :
    ∀ e s, kE W (visitNode P sc (n + 1) e s).1 ≤ kE W e := by
  intro e s
  by_cases hl : isLeafE e = true
  · rw [visitNode_leaf P sc n e s hl]; exact Nat.le_refl _
  · have hl : isLeafE e = false := by simpa using hl
    have nk := h.node e s
    rcases h2 : P.node e s with ⟨e1, s1⟩
    rw [h2] at nk
    simp only at nk
    have Lexpr := L.expr
    have Lpref := L.pref
    have Lfn := L.fnbody
    have Lty := L.ty
    have Lexprs := LL.exprs
    have Lnodes := LL.nodes
    have Lentries := LL.entries
    have Lsegs := LL.segs
    have Lpairs := LL.pairs
    have Ltys := LL.tys
    cases e1 with
    | nil | «true» | «false» | vararg | num _ | str _ | var _ =>
      rw [visitNode_noKids P sc n e s s1 hl _ rfl h2]
      exact Nat.le_trans (h.afterNode _ _) nk
    | call f m k args =>
      cases k with
      | tuple =>
        rw [visitNode_call_tuple P sc n e s s1 hl f m args h2]
        refine Nat.le_trans (h.afterNode _ _) (Nat.le_trans ?_ nk)
        simp only [kE]; grind
      | str =>
        rw [visitNode_call_other P sc n e s s1 hl f m .str (by simp) args h2]
        refine Nat.le_trans (h.afterNode _ _) (Nat.le_trans ?_ nk)
        simp only [kE]; grind
      | tbl =>
        rw [visitNode_call_other P sc n e s s1 hl f m .tbl (by simp) args h2]
        refine Nat.le_trans (h.afterNode _ _) (Nat.le_trans ?_ nk)
        simp only [kE]; grind
    | bin op l r =>
      rw [visitNode_bin P sc n e s s1 hl op l r h2]
      refine Nat.le_trans (h.afterNode _ _) (Nat.le_trans ?_ nk)
      simp only [kE]; grind
    | field x name =>
      rw [visitNode_field P sc n e s s1 hl x name h2]
      refine Nat.le_trans (h.afterNode _ _) (Nat.le_trans ?_ nk)
      simp only [kE]; grind
    | index x k =>
      rw [visitNode_index P sc n e s s1 hl x k h2]
      refine Nat.le_trans (h.afterNode _ _) (Nat.le_trans ?_ nk)
      simp only [kE]; grind
    | fn body =>
      rw [visitNode_fn P sc n e s s1 hl body h2]
      refine Nat.le_trans (h.afterNode _ _) (Nat.le_trans ?_ nk)
      simp only [kE]; grind
    | ifx c t elifs el =>
      rw [visitNode_ifx P sc n e s s1 hl c t elifs el h2]
      refine Nat.le_trans (h.afterNode _ _) (Nat.le_trans ?_ nk)
      simp only [kE]; grind
    | paren x =>
      rw [visitNode_paren P sc n e s s1 hl x h2]
      refine Nat.le_trans (h.afterNode _ _) (Nat.le_trans ?_ nk)
      simp only [kE]; grind
    | un op x =>
      rw [visitNode_un P sc n e s s1 hl op x h2]
      refine Nat.le_trans (h.afterNode _ _) (Nat.le_trans ?_ nk)
      simp only [kE]; grind
    | interp segs =>
      rw [visitNode_interp P sc n e s s1 hl segs h2]
      refine Nat.le_trans (h.afterNode _ _) (Nat.le_trans ?_ nk)
      simp only [kE]; grind
    | table entries =>
      rw [visitNode_table P sc n e s s1 hl entries h2]
      refine Nat.le_trans (h.afterNode _ _) (Nat.le_trans ?_ nk)
      simp only [kE]; grind
    | cast x ty =>
      rw [visitNode_cast P sc n e s s1 hl x ty h2]
      refine Nat.le_trans (h.afterNode _ _) (Nat.le_trans ?_ nk)
      simp only [kE]; grind
    | inst x tys =>
      rw [visitNode_inst P sc n e s s1 hl x tys h2]
      refine Nat.le_trans (h.afterNode _ _) (Nat.le_trans ?_ nk)
      simp only [kE]; grind

theorem ksucc_expr (h : KHooks W P) (n : Nat) (L : KLevel W P sc n) :
    ∀ e s, kE W (visitExpr P sc (n + 1) e s).1 ≤ kE W e := by
  intro e s
  rw [visitExpr_eq]
  exact Nat.le_trans (L.node _ _) (h.expr e s)

theorem ksucc_pref (h : KHooks W P) (n : Nat) (L : KLevel W P sc n) :
    ∀ e s, kE W (visitPrefix P sc (n + 1) e s).1 ≤ kE W e := by
  intro e s
  rw [visitPrefix_eq]
  exact Nat.le_trans (L.node _ _) (h.pref e s)

theorem ksucc_target (h : KHooks W P) (n : Nat) (L : KLevel W P sc n) :
    ∀ e s, kE W (visitTarget P sc (n + 1) e s).1 ≤ kE W e := by
  intro e s
  rw [visitTarget_eq, h.target_id]
  exact L.node _ _

theorem ksucc_entry (n : Nat) (L : KLevel W P sc n) :
    ∀ e s, kEntry W (visitEntry P sc (n + 1) e s).1 ≤ kEntry W e := by
  intro e s
  have Lexpr := L.expr
  cases e <;> (simp only [visitEntry, kEntry]; grind)

theorem ksucc_seg (n : Nat) (L : KLevel W P sc n) :
    ∀ e s, kSeg W (visitSeg P sc (n + 1) e s).1 ≤ kSeg W e := by
  intro e s
  have Lexpr := L.expr
  cases e <;> (simp only [visitSeg, kSeg]; all_goals grind)

theorem ksucc_ty (h : KHooks W P) (n : Nat) (L : KLevel W P sc n) (LL : KLists W P sc n) :
    ∀ t s, kTy W (visitTy P sc (n + 1) t s).1 ≤ kTy W t := by
  intro t s
  have ht := h.ty_id t s
  rcases h2 : P.ty t s with ⟨t1, s1⟩
  rw [h2] at ht
  simp only at ht
  subst ht
  cases t1 with
  | mk tag kids =>
    rw [visitTy_mk P sc n _ s s1 tag kids h2]; simp only [kTy]; exact LL.tys _ _
  | typeof e =>
    rw [visitTy_typeof P sc n _ s s1 e h2]; simp only [kTy]; have := L.expr e s1; omega

theorem ksucc_last (h : KHooks W P) (n : Nat) (LL : KLists W P sc n) :
    ∀ l s, kL W (visitLast P sc (n + 1) l s).1 ≤ kL W l := by
  intro l s
  have hl := h.last l s
  rcases h2 : P.last l s with ⟨l1, s1⟩
  rw [h2] at hl
  cases l1 with
  | ret es =>
    rw [visitLast_ret P sc n _ s s1 es h2]
    exact Nat.le_trans (by simp only [kL]; exact LL.exprs _ _) hl
  | brk => rw [visitLast_other P sc n _ s s1 .brk (Or.inl rfl) h2]; exact hl
  | cont => rw [visitLast_other P sc n _ s s1 .cont (Or.inr rfl) h2]; exact hl

theorem ksucc_block (h : KHooks W P) (n : Nat) (LL : KLists W P sc n) :
    ∀ pushes b s, kB W (visitBlock P sc (n + 1) pushes b s).1 ≤ kB W b := by
  intro pushes b s
  have hb := h.block b (if (sc && pushes) = true then P.push s else s)
  rcases h2 : P.block b (if (sc && pushes) = true then P.push s else s) with ⟨b1, s1⟩
  rw [h2] at hb
  cases b1 with
  | mk stmts last =>
    rw [visitBlock_eq P sc n pushes b s stmts last s1 h2]
    refine Nat.le_trans (h.afterBlock _ _) (Nat.le_trans ?_ hb)
    simp only [kB]
    have h1 := LL.stmts stmts s1
    have h2 := LL.olast last (mapS (visitStmt P sc n) stmts s1).2
    omega

theorem k_tnameInsert (f : String → σ → String × σ) :
    ∀ ns s, kTNs W (mapS (tnameInsert f) ns s).1 = kTNs W ns := by
  intro ns
  induction ns with
  | nil => intro s; simp [mapS]
  | cons t ts ih =>
    intro s
    cases t with
    | mk n ty => simp only [mapS, tnameInsert, kTNs, kTN, ih]

theorem k_tnameInsert1 (f : String → σ → String × σ) (t : TName) (s : σ) :
    kTN W (tnameInsert f t s).1 = kTN W t := by
  cases t; simp [tnameInsert, kTN]

theorem ksucc_fnbody (h : KHooks W P) (n : Nat) (L : KLevel W P sc n) (LL : KLists W P sc n) :
    ∀ hs body s, kF W (visitFnBody P sc (n + 1) hs body s).1 ≤ kF W body := by
  intro hs body s
  have Lblock := L.block
  have Ltnames := LL.tnames
  have Loty := LL.oty
  have Hins := k_tnameInsert (σ := σ) W
  cases body with
  | mk params variadic varTy ret generics attrs blk =>
    cases sc with
    | true =>
      rw [visitFnBody_scoped]
      simp only [h.scope_id, kF, Hins]
      grind
    | false =>
      rw [visitFnBody_default]
      simp only [h.scope_id, kF]
      grind

theorem k_insertLocals (h : KHooks W P) :
    ∀ ns vs s, kTNs W (insertLocals P ns vs s).1.1 = kTNs W ns ∧ kEs W (insertLocals P ns vs s).1.2 = kEs W vs := by
  intro ns
  induction ns with
  | nil => intro vs s; simp [insertLocals]
  | cons t ts ih =>
    intro vs s
    cases t with
    | mk n ty =>
      cases vs with
      | nil => simp only [insertLocals, kTNs, kTN, kEs, ih, and_self]
      | cons v vs =>
        have h1 := h.insertLocal_id n (some v) s
        simp only [insertLocals, kTNs, kTN, kEs, h1, Option.getD_some, ih, and_self]

theorem ksucc_stmt_assign {n : Nat}
    (h : KHooks W P) (L : KLevel W P sc n) (LL : KLists W P sc n) (st st1 : Stmt) (s s1 s2 : σ)
    (h1 : P.stmt st s = (st1, s1)) (hcs : isCallStmt st1 = false)
    (ts vs : List Expr) (h2 : P.stmtNode st1 s1 = (.assign ts vs, s2))
    (g : kS W (.assign ts vs) ≤ kS W st) :
    kS W (visitStmt P sc (n + 1) st s).1 ≤ kS W st := by
  have Lexpr := L.expr
  have Ltarget := L.target
  have Lblock := L.block
  have Lfn := L.fnbody
  have Lty := L.ty
  have Lexprs := LL.exprs
  have Ltargets := LL.targets
  have Ltnames := LL.tnames
  have Ltname := LL.tname
  have Loty := LL.oty
  have Loexpr := LL.oexpr
  have Lbranches := LL.branches
  have Loelse := LL.oelse
  have Hins := k_tnameInsert (σ := σ) W
  have Hins1 := k_tnameInsert1 (σ := σ) W
  have Hloc := k_insertLocals W P h
  have hSc := h.scope_id
  rw [visitStmt_assign P sc n st st1 s s1 s2 h1 hcs ts vs h2]
  refine Nat.le_trans (h.afterStmtNode _ _) (Nat.le_trans ?_ g)
  simp only [hSc, kS]
  grind

theorem ksucc_stmt_cassign {n : Nat}
    (h : KHooks W P) (L : KLevel W P sc n) (LL : KLists W P sc n) (st st1 : Stmt) (s s1 s2 : σ)
    (h1 : P.stmt st s = (st1, s1)) (hcs : isCallStmt st1 = false)
    (op : BinOp) (t v : Expr) (h2 : P.stmtNode st1 s1 = (.cassign op t v, s2))
    (g : kS W (.cassign op t v) ≤ kS W st) :
    kS W (visitStmt P sc (n + 1) st s).1 ≤ kS W st := by
  have Lexpr := L.expr
  have Ltarget := L.target
  have Lblock := L.block
  have Lfn := L.fnbody
  have Lty := L.ty
  have Lexprs := LL.exprs
  have Ltargets := LL.targets
  have Ltnames := LL.tnames
  have Ltname := LL.tname
  have Loty := LL.oty
  have Loexpr := LL.oexpr
  have Lbranches := LL.branches
  have Loelse := LL.oelse
  have Hins := k_tnameInsert (σ := σ) W
  have Hins1 := k_tnameInsert1 (σ := σ) W
  have Hloc := k_insertLocals W P h
  have hSc := h.scope_id
  rw [visitStmt_cassign P sc n st st1 s s1 s2 h1 hcs op t v h2]
  refine Nat.le_trans (h.afterStmtNode _ _) (Nat.le_trans ?_ g)
  simp only [hSc, kS]
  grind

theorem ksucc_stmt_doBlock {n : Nat}
    (h : KHooks W P) (L : KLevel W P sc n) (LL : KLists W P sc n) (st st1 : Stmt) (s s1 s2 : σ)
    (h1 : P.stmt st s = (st1, s1)) (hcs : isCallStmt st1 = false)
    (b : Block) (h2 : P.stmtNode st1 s1 = (.doBlock b, s2))
    (g : kS W (.doBlock b) ≤ kS W st) :
    kS W (visitStmt P sc (n + 1) st s).1 ≤ kS W st := by
  have Lexpr := L.expr
  have Ltarget := L.target
  have Lblock := L.block
  have Lfn := L.fnbody
  have Lty := L.ty
  have Lexprs := LL.exprs
  have Ltargets := LL.targets
  have Ltnames := LL.tnames
  have Ltname := LL.tname
  have Loty := LL.oty
  have Loexpr := LL.oexpr
  have Lbranches := LL.branches
  have Loelse := LL.oelse
  have Hins := k_tnameInsert (σ := σ) W
  have Hins1 := k_tnameInsert1 (σ := σ) W
  have Hloc := k_insertLocals W P h
  have hSc := h.scope_id
  rw [visitStmt_do P sc n st st1 s s1 s2 h1 hcs b h2]
  refine Nat.le_trans (h.afterStmtNode _ _) (Nat.le_trans ?_ g)
  simp only [hSc, kS]
  grind

theorem ksucc_stmt_while {n : Nat}
    (h : KHooks W P) (L : KLevel W P sc n) (LL : KLists W P sc n) (st st1 : Stmt) (s s1 s2 : σ)
    (h1 : P.stmt st s = (st1, s1)) (hcs : isCallStmt st1 = false)
    (c : Expr) (b : Block) (h2 : P.stmtNode st1 s1 = (.while_ c b, s2))
    (g : kS W (.while_ c b) ≤ kS W st) :
    kS W (visitStmt P sc (n + 1) st s).1 ≤ kS W st := by
  have Lexpr := L.expr
  have Ltarget := L.target
  have Lblock := L.block
  have Lfn := L.fnbody
  have Lty := L.ty
  have Lexprs := LL.exprs
  have Ltargets := LL.targets
  have Ltnames := LL.tnames
  have Ltname := LL.tname
  have Loty := LL.oty
  have Loexpr := LL.oexpr
  have Lbranches := LL.branches
  have Loelse := LL.oelse
  have Hins := k_tnameInsert (σ := σ) W
  have Hins1 := k_tnameInsert1 (σ := σ) W
  have Hloc := k_insertLocals W P h
  have hSc := h.scope_id
  rw [visitStmt_while P sc n st st1 s s1 s2 h1 hcs c b h2]
  refine Nat.le_trans (h.afterStmtNode _ _) (Nat.le_trans ?_ g)
  simp only [hSc, kS]
  grind

theorem ksucc_stmt_ifs {n : Nat}
    (h : KHooks W P) (L : KLevel W P sc n) (LL : KLists W P sc n) (st st1 : Stmt) (s s1 s2 : σ)
    (h1 : P.stmt st s = (st1, s1)) (hcs : isCallStmt st1 = false)
    (branches : List (Expr × Block)) (els : Option Block) (h2 : P.stmtNode st1 s1 = (.ifs branches els, s2))
    (g : kS W (.ifs branches els) ≤ kS W st) :
    kS W (visitStmt P sc (n + 1) st s).1 ≤ kS W st := by
  have Lexpr := L.expr
  have Ltarget := L.target
  have Lblock := L.block
  have Lfn := L.fnbody
  have Lty := L.ty
  have Lexprs := LL.exprs
  have Ltargets := LL.targets
  have Ltnames := LL.tnames
  have Ltname := LL.tname
  have Loty := LL.oty
  have Loexpr := LL.oexpr
  have Lbranches := LL.branches
  have Loelse := LL.oelse
  have Hins := k_tnameInsert (σ := σ) W
  have Hins1 := k_tnameInsert1 (σ := σ) W
  have Hloc := k_insertLocals W P h
  have hSc := h.scope_id
  rw [visitStmt_ifs P sc n st st1 s s1 s2 h1 hcs branches els h2]
  refine Nat.le_trans (h.afterStmtNode _ _) (Nat.le_trans ?_ g)
  simp only [hSc, kS]
  grind

theorem ksucc_stmt_typeDecl {n : Nat}
    (h : KHooks W P) (L : KLevel W P sc n) (LL : KLists W P sc n) (st st1 : Stmt) (s s1 s2 : σ)
    (h1 : P.stmt st s = (st1, s1)) (hcs : isCallStmt st1 = false)
    (ex : Bool) (name : String) (ty : Ty) (h2 : P.stmtNode st1 s1 = (.typeDecl ex name ty, s2))
    (g : kS W (.typeDecl ex name ty) ≤ kS W st) :
    kS W (visitStmt P sc (n + 1) st s).1 ≤ kS W st := by
  have Lexpr := L.expr
  have Ltarget := L.target
  have Lblock := L.block
  have Lfn := L.fnbody
  have Lty := L.ty
  have Lexprs := LL.exprs
  have Ltargets := LL.targets
  have Ltnames := LL.tnames
  have Ltname := LL.tname
  have Loty := LL.oty
  have Loexpr := LL.oexpr
  have Lbranches := LL.branches
  have Loelse := LL.oelse
  have Hins := k_tnameInsert (σ := σ) W
  have Hins1 := k_tnameInsert1 (σ := σ) W
  have Hloc := k_insertLocals W P h
  have hSc := h.scope_id
  rw [visitStmt_typeDecl P sc n st st1 s s1 s2 h1 hcs ex name ty h2]
  refine Nat.le_trans (h.afterStmtNode _ _) (Nat.le_trans ?_ g)
  simp only [hSc, kS]
  grind

theorem ksucc_stmt_gfor {n : Nat}
    (h : KHooks W P) (L : KLevel W P sc n) (LL : KLists W P sc n) (st st1 : Stmt) (s s1 s2 : σ)
    (h1 : P.stmt st s = (st1, s1)) (hcs : isCallStmt st1 = false)
    (names : List TName) (values : List Expr) (body : Block) (h2 : P.stmtNode st1 s1 = (.gfor names values body, s2))
    (g : kS W (.gfor names values body) ≤ kS W st) :
    kS W (visitStmt P sc (n + 1) st s).1 ≤ kS W st := by
  have Lexpr := L.expr
  have Ltarget := L.target
  have Lblock := L.block
  have Lfn := L.fnbody
  have Lty := L.ty
  have Lexprs := LL.exprs
  have Ltargets := LL.targets
  have Ltnames := LL.tnames
  have Ltname := LL.tname
  have Loty := LL.oty
  have Loexpr := LL.oexpr
  have Lbranches := LL.branches
  have Loelse := LL.oelse
  have Hins := k_tnameInsert (σ := σ) W
  have Hins1 := k_tnameInsert1 (σ := σ) W
  have Hloc := k_insertLocals W P h
  have hSc := h.scope_id
  cases sc with
  | true =>
    rw [visitStmt_gfor_scoped P n st st1 s s1 s2 h1 hcs names values body h2]
    refine Nat.le_trans (h.afterStmtNode _ _) (Nat.le_trans ?_ g)
    simp only [hSc, kS, Hins, Hins1]
    grind
  | false =>
    rw [visitStmt_gfor_default P n st st1 s s1 s2 h1 hcs names values body h2]
    refine Nat.le_trans (h.afterStmtNode _ _) (Nat.le_trans ?_ g)
    simp only [hSc, kS]
    grind

theorem ksucc_stmt_nfor {n : Nat}
    (h : KHooks W P) (L : KLevel W P sc n) (LL : KLists W P sc n) (st st1 : Stmt) (s s1 s2 : σ)
    (h1 : P.stmt st s = (st1, s1)) (hcs : isCallStmt st1 = false)
    (name : TName) (start stop : Expr) (step : Option Expr) (body : Block) (h2 : P.stmtNode st1 s1 = (.nfor name start stop step body, s2))
    (g : kS W (.nfor name start stop step body) ≤ kS W st) :
    kS W (visitStmt P sc (n + 1) st s).1 ≤ kS W st := by
  have Lexpr := L.expr
  have Ltarget := L.target
  have Lblock := L.block
  have Lfn := L.fnbody
  have Lty := L.ty
  have Lexprs := LL.exprs
  have Ltargets := LL.targets
  have Ltnames := LL.tnames
  have Ltname := LL.tname
  have Loty := LL.oty
  have Loexpr := LL.oexpr
  have Lbranches := LL.branches
  have Loelse := LL.oelse
  have Hins := k_tnameInsert (σ := σ) W
  have Hins1 := k_tnameInsert1 (σ := σ) W
  have Hloc := k_insertLocals W P h
  have hSc := h.scope_id
  cases sc with
  | true =>
    rw [visitStmt_nfor_scoped P n st st1 s s1 s2 h1 hcs name start stop step body h2]
    refine Nat.le_trans (h.afterStmtNode _ _) (Nat.le_trans ?_ g)
    simp only [hSc, kS, Hins, Hins1]
    grind
  | false =>
    rw [visitStmt_nfor_default P n st st1 s s1 s2 h1 hcs name start stop step body h2]
    refine Nat.le_trans (h.afterStmtNode _ _) (Nat.le_trans ?_ g)
    simp only [hSc, kS]
    grind

theorem ksucc_stmt_localAssign {n : Nat}
    (h : KHooks W P) (L : KLevel W P sc n) (LL : KLists W P sc n) (st st1 : Stmt) (s s1 s2 : σ)
    (h1 : P.stmt st s = (st1, s1)) (hcs : isCallStmt st1 = false)
    (kind : LocalKind) (names : List TName) (values : List Expr) (h2 : P.stmtNode st1 s1 = (.localAssign kind names values, s2))
    (g : kS W (.localAssign kind names values) ≤ kS W st) :
    kS W (visitStmt P sc (n + 1) st s).1 ≤ kS W st := by
  have Lexpr := L.expr
  have Ltarget := L.target
  have Lblock := L.block
  have Lfn := L.fnbody
  have Lty := L.ty
  have Lexprs := LL.exprs
  have Ltargets := LL.targets
  have Ltnames := LL.tnames
  have Ltname := LL.tname
  have Loty := LL.oty
  have Loexpr := LL.oexpr
  have Lbranches := LL.branches
  have Loelse := LL.oelse
  have Hins := k_tnameInsert (σ := σ) W
  have Hins1 := k_tnameInsert1 (σ := σ) W
  have Hloc := k_insertLocals W P h
  have hSc := h.scope_id
  cases sc with
  | true =>
    rw [visitStmt_local_scoped P n st st1 s s1 s2 h1 hcs kind names values h2]
    refine Nat.le_trans (h.afterStmtNode _ _) (Nat.le_trans ?_ g)
    simp only [hSc, kS, Hins, Hins1]
    grind
  | false =>
    rw [visitStmt_local_default P n st st1 s s1 s2 h1 hcs kind names values h2]
    refine Nat.le_trans (h.afterStmtNode _ _) (Nat.le_trans ?_ g)
    simp only [hSc, kS]
    grind

theorem ksucc_stmt_repeat {n : Nat}
    (h : KHooks W P) (L : KLevel W P sc n) (LL : KLists W P sc n) (st st1 : Stmt) (s s1 s2 : σ)
    (h1 : P.stmt st s = (st1, s1)) (hcs : isCallStmt st1 = false)
    (body : Block) (cond : Expr) (h2 : P.stmtNode st1 s1 = (.repeat_ body cond, s2))
    (g : kS W (.repeat_ body cond) ≤ kS W st) :
    kS W (visitStmt P sc (n + 1) st s).1 ≤ kS W st := by
  have Lexpr := L.expr
  have Ltarget := L.target
  have Lblock := L.block
  have Lfn := L.fnbody
  have Lty := L.ty
  have Lexprs := LL.exprs
  have Ltargets := LL.targets
  have Ltnames := LL.tnames
  have Ltname := LL.tname
  have Loty := LL.oty
  have Loexpr := LL.oexpr
  have Lbranches := LL.branches
  have Loelse := LL.oelse
  have Hins := k_tnameInsert (σ := σ) W
  have Hins1 := k_tnameInsert1 (σ := σ) W
  have Hloc := k_insertLocals W P h
  have hSc := h.scope_id
  cases sc with
  | true =>
    rw [visitStmt_repeat_scoped P n st st1 s s1 s2 h1 hcs body cond h2]
    refine Nat.le_trans (h.afterStmtNode _ _) (Nat.le_trans ?_ g)
    simp only [hSc, kS, Hins, Hins1]
    grind
  | false =>
    rw [visitStmt_repeat_default P n st st1 s s1 s2 h1 hcs body cond h2]
    refine Nat.le_trans (h.afterStmtNode _ _) (Nat.le_trans ?_ g)
    simp only [hSc, kS]
    grind

theorem ksucc_stmt_localFn {n : Nat}
    (h : KHooks W P) (L : KLevel W P sc n) (LL : KLists W P sc n) (st st1 : Stmt) (s s1 s2 : σ)
    (h1 : P.stmt st s = (st1, s1)) (hcs : isCallStmt st1 = false)
    (kind : LocalKind) (name : String) (body : FnBody) (h2 : P.stmtNode st1 s1 = (.localFn kind name body, s2))
    (g : kS W (.localFn kind name body) ≤ kS W st) :
    kS W (visitStmt P sc (n + 1) st s).1 ≤ kS W st := by
  have Lexpr := L.expr
  have Ltarget := L.target
  have Lblock := L.block
  have Lfn := L.fnbody
  have Lty := L.ty
  have Lexprs := LL.exprs
  have Ltargets := LL.targets
  have Ltnames := LL.tnames
  have Ltname := LL.tname
  have Loty := LL.oty
  have Loexpr := LL.oexpr
  have Lbranches := LL.branches
  have Loelse := LL.oelse
  have Hins := k_tnameInsert (σ := σ) W
  have Hins1 := k_tnameInsert1 (σ := σ) W
  have Hloc := k_insertLocals W P h
  have hSc := h.scope_id
  cases sc with
  | true =>
    cases body with
    | mk params variadic varTy ret generics attrs blk =>
      rw [visitStmt_localFn_scoped P n st st1 s s1 s2 h1 hcs kind name params variadic varTy ret generics attrs blk h2]
      refine Nat.le_trans (h.afterStmtNode _ _) (Nat.le_trans ?_ g)
      simp only [hSc, kS, kF, Hins, Hins1]
      grind
  | false =>
    rw [visitStmt_localFn_default P n st st1 s s1 s2 h1 hcs kind name body h2]
    refine Nat.le_trans (h.afterStmtNode _ _) (Nat.le_trans ?_ g)
    simp only [hSc, kS]
    grind

theorem ksucc_stmt_function {n : Nat}
    (h : KHooks W P) (L : KLevel W P sc n) (LL : KLists W P sc n) (st st1 : Stmt) (s s1 s2 : σ)
    (h1 : P.stmt st s = (st1, s1)) (hcs : isCallStmt st1 = false)
    (name : List String) (m : Option String) (body : FnBody) (h2 : P.stmtNode st1 s1 = (.function name m body, s2))
    (g : kS W (.function name m body) ≤ kS W st) :
    kS W (visitStmt P sc (n + 1) st s).1 ≤ kS W st := by
  have Lexpr := L.expr
  have Ltarget := L.target
  have Lblock := L.block
  have Lfn := L.fnbody
  have Lty := L.ty
  have Lexprs := LL.exprs
  have Ltargets := LL.targets
  have Ltnames := LL.tnames
  have Ltname := LL.tname
  have Loty := LL.oty
  have Loexpr := LL.oexpr
  have Lbranches := LL.branches
  have Loelse := LL.oelse
  have Hins := k_tnameInsert (σ := σ) W
  have Hins1 := k_tnameInsert1 (σ := σ) W
  have Hloc := k_insertLocals W P h
  have hSc := h.scope_id
  cases name with
  | nil =>
    rw [visitStmt_function_nil P sc n st st1 s s1 s2 h1 hcs m body h2]
    refine Nat.le_trans (h.afterStmtNode _ _) (Nat.le_trans ?_ g)
    simp only [hSc, kS]
    grind
  | cons root path =>
    cases sc with
    | true =>
      rw [visitStmt_function_scoped P n st st1 s s1 s2 h1 hcs root path m body h2]
      refine Nat.le_trans (h.afterStmtNode _ _) (Nat.le_trans ?_ g)
      simp only [hSc, kS]
      grind
    | false =>
      cases body with
      | mk params variadic varTy ret generics attrs blk =>
        rw [visitStmt_function_default P n st st1 s s1 s2 h1 hcs root path m params variadic varTy ret generics attrs blk h2]
        refine Nat.le_trans (h.afterStmtNode _ _) (Nat.le_trans ?_ g)
        simp only [hSc, kS, kF]
        grind

theorem ksucc_stmt_typeFn {n : Nat}
    (h : KHooks W P) (L : KLevel W P sc n) (LL : KLists W P sc n) (st st1 : Stmt) (s s1 s2 : σ)
    (h1 : P.stmt st s = (st1, s1)) (hcs : isCallStmt st1 = false)
    (ex : Bool) (name : String) (body : FnBody) (h2 : P.stmtNode st1 s1 = (.typeFn ex name body, s2))
    (g : kS W (.typeFn ex name body) ≤ kS W st) :
    kS W (visitStmt P sc (n + 1) st s).1 ≤ kS W st := by
  have Lexpr := L.expr
  have Ltarget := L.target
  have Lblock := L.block
  have Lfn := L.fnbody
  have Lty := L.ty
  have Lexprs := LL.exprs
  have Ltargets := LL.targets
  have Ltnames := LL.tnames
  have Ltname := LL.tname
  have Loty := LL.oty
  have Loexpr := LL.oexpr
  have Lbranches := LL.branches
  have Loelse := LL.oelse
  have Hins := k_tnameInsert (σ := σ) W
  have Hins1 := k_tnameInsert1 (σ := σ) W
  have Hloc := k_insertLocals W P h
  have hSc := h.scope_id
  cases body with
  | mk params variadic varTy ret generics attrs blk =>
    cases sc with
    | true =>
      rw [visitStmt_typeFn_scoped P n st st1 s s1 s2 h1 hcs ex name params variadic varTy ret generics attrs blk h2]
      refine Nat.le_trans (h.afterStmtNode _ _) (Nat.le_trans ?_ g)
      simp only [hSc, kS, kF, Hins]
      grind
    | false =>
      rw [visitStmt_typeFn_default P n st st1 s s1 s2 h1 hcs ex name params variadic varTy ret generics attrs blk h2]
      refine Nat.le_trans (h.afterStmtNode _ _) (Nat.le_trans ?_ g)
      simp only [hSc, kS, kF]
      grind

theorem ksucc_stmt (h : KHooks W P) (n : Nat) (L : KLevel W P sc n) (LL : KLists W P sc n) :
    ∀ st s, kS W (visitStmt P sc (n + 1) st s).1 ≤ kS W st := by
  intro st s
  have a := h.stmt st s
  rcases h1 : P.stmt st s with ⟨st1, s1⟩
  rw [h1] at a
  simp only at a
  by_cases hcs : isCallStmt st1 = true
  · cases st1 <;> simp [isCallStmt] at hcs
    rename_i cl
    rw [visitStmt_call P sc n st s s1 cl h1]
    have := L.node cl s1
    simp only [kS] at a ⊢
    omega
  · have hcs : isCallStmt st1 = false := by simpa using hcs
    have d' := Nat.le_trans (h.stmtNode st1 s1) a
    rcases h2 : P.stmtNode st1 s1 with ⟨st2, s2⟩
    rw [h2] at d'
    simp only at d'
    cases st2 with
    | callStmt c =>
      rw [visitStmt_other P sc n st st1 s s1 s2 h1 hcs c h2]; exact Nat.le_trans (h.afterStmtNode _ _) d'
    | assign ts vs => exact ksucc_stmt_assign W P sc h L LL st st1 s s1 s2 h1 hcs ts vs h2 d'
    | cassign op t v => exact ksucc_stmt_cassign W P sc h L LL st st1 s s1 s2 h1 hcs op t v h2 d'
    | doBlock b => exact ksucc_stmt_doBlock W P sc h L LL st st1 s s1 s2 h1 hcs b h2 d'
    | function name m body => exact ksucc_stmt_function W P sc h L LL st st1 s s1 s2 h1 hcs name m body h2 d'
    | gfor names values body => exact ksucc_stmt_gfor W P sc h L LL st st1 s s1 s2 h1 hcs names values body h2 d'
    | nfor name a b step body => exact ksucc_stmt_nfor W P sc h L LL st st1 s s1 s2 h1 hcs name a b step body h2 d'
    | ifs branches els => exact ksucc_stmt_ifs W P sc h L LL st st1 s s1 s2 h1 hcs branches els h2 d'
    | localAssign kind names values =>
      exact ksucc_stmt_localAssign W P sc h L LL st st1 s s1 s2 h1 hcs kind names values h2 d'
    | localFn kind name body => exact ksucc_stmt_localFn W P sc h L LL st st1 s s1 s2 h1 hcs kind name body h2 d'
    | repeat_ body cond => exact ksucc_stmt_repeat W P sc h L LL st st1 s s1 s2 h1 hcs body cond h2 d'
    | while_ c b => exact ksucc_stmt_while W P sc h L LL st st1 s s1 s2 h1 hcs c b h2 d'
    | typeDecl ex name ty => exact ksucc_stmt_typeDecl W P sc h L LL st st1 s s1 s2 h1 hcs ex name ty h2 d'
    | typeFn ex name body => exact ksucc_stmt_typeFn W P sc h L LL st st1 s s1 s2 h1 hcs ex name body h2 d'

theorem klevel_all (h : KHooks W P) : ∀ n, KLevel W P sc n := by
  intro n
  induction n with
  | zero => exact klevel_zero W P sc
  | succ n ih =>
    have LL := klists_of_level W P sc n ih
    exact ⟨ksucc_ty W P sc h n ih LL, ksucc_expr W P sc h n ih, ksucc_pref W P sc h n ih, ksucc_target W P sc h n ih,
      ksucc_entry W P sc n ih, ksucc_seg W P sc n ih, ksucc_node W P sc h n ih LL, ksucc_fnbody W P sc h n ih LL,
      ksucc_stmt W P sc h n ih LL, ksucc_last W P sc h n LL, ksucc_block W P sc h n LL⟩

/-- **A visitor pass with `k`-non-increasing hooks does not increase `k`** (any fuel, any statement). -/
theorem k_visitStmt (h : KHooks W P) (n : Nat) (st : Stmt) (s : σ) : kS W (visitStmt P sc n st s).1 ≤ kS W st :=
  (klevel_all W P sc h n).stmt st s

end
end DarkluaModel.C07
