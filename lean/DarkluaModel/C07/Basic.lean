import DarkluaModel.Shared.Visitor
/-! Small definitions shared by the C07 model files and the proof files (kept apart so that the
line-protocol driver does not depend on proofs). -/
namespace DarkluaModel.Visitor

def isCallStmt : Stmt → Bool
  | .callStmt _ => true
  | _ => false

end DarkluaModel.Visitor
