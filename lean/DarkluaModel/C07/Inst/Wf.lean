import DarkluaModel.C07.WfProof
import DarkluaModel.C07.Inst.Simple
import DarkluaModel.C07.Inst.IfExpr
import DarkluaModel.C07.Inst.Types
import DarkluaModel.C07.Inst.Compound
import DarkluaModel.C07.Inst.Interp
import DarkluaModel.C07.Inst.FloorDiv
/-! # C07 — every lowering rule maps well-formed blocks to well-formed blocks -/
namespace DarkluaModel.C07
open DarkluaModel.Rules Visitor

theorem wfHooks_make_assignment_local : WfHooks MakeAssignmentLocal.processor where
  block := fun _ _ h => h
  afterBlock := fun _ _ h => h
  scope_id := fun _ _ _ => rfl
  stmt := fun _ _ h => h
  stmtNode := by
    intro st s hw
    show wfS (MakeAssignmentLocal.stmtNode st s).1 = true
    cases st <;> simp_all [MakeAssignmentLocal.stmtNode, wfS]
  afterStmtNode := fun _ _ h => h
  last := fun _ _ h => h
  expr := fun _ _ h => h
  pref := fun _ _ hp h => ⟨hp, h⟩
  target_id := fun _ _ => rfl
  node := fun _ _ h => ⟨h, rfl⟩
  afterNode := fun _ _ h => ⟨h, rfl⟩
  ty_id := fun _ _ => rfl
  insertLocal_id := fun _ _ _ => rfl

theorem attr_node_ctor (e : Expr) : ctor (RemoveAttribute.node e) = ctor e := by
  cases e <;> rfl

theorem wfHooks_remove_attribute : WfHooks RemoveAttribute.processor where
  block := fun _ _ h => h
  afterBlock := fun _ _ h => h
  scope_id := fun _ _ _ => rfl
  stmt := fun _ _ h => h
  stmtNode := by
    intro st s hw
    show wfS (RemoveAttribute.stmtNode st) = true
    cases st <;> simp_all [RemoveAttribute.stmtNode, wfS]
    all_goals (rename_i body; cases body; simp_all [wfF, RemoveAttribute.clearAttrs])
  afterStmtNode := fun _ _ h => h
  last := fun _ _ h => h
  expr := fun _ _ h => h
  pref := fun _ _ hp h => ⟨hp, h⟩
  target_id := fun _ _ => rfl
  node := fun e _ h => ⟨(attr_node_good Z e h (zE e)).1, attr_node_ctor e⟩
  afterNode := fun _ _ h => ⟨h, rfl⟩
  ty_id := fun _ _ => rfl
  insertLocal_id := fun _ _ _ => rfl

theorem wfHooks_convert_luau_number : WfHooks ConvertLuauNumber.processor where
  block := fun _ _ h => h
  afterBlock := fun _ _ h => h
  scope_id := fun _ _ _ => rfl
  stmt := fun _ _ h => h
  stmtNode := fun _ _ h => h
  afterStmtNode := fun _ _ h => h
  last := fun _ _ h => h
  expr := fun _ _ h => h
  pref := fun _ _ hp h => ⟨hp, h⟩
  target_id := fun _ _ => rfl
  node := fun e s h => by
    show wfE (ConvertLuauNumber.node e s).1 = true ∧ ctor (ConvertLuauNumber.node e s).1 = ctor e
    rw [number_node]; exact ⟨h, rfl⟩
  afterNode := fun _ _ h => ⟨h, rfl⟩
  ty_id := fun _ _ => rfl
  insertLocal_id := fun _ _ _ => rfl

theorem wfHooks_remove_if_expression (truthy : Expr → Bool) : WfHooks (RemoveIfExpression.processor truthy) where
  block := fun _ _ h => h
  afterBlock := fun _ _ h => h
  scope_id := fun _ _ _ => rfl
  stmt := fun _ _ h => h
  stmtNode := fun _ _ h => h
  afterStmtNode := fun _ _ h => h
  last := fun _ _ h => h
  expr := fun e _ h => (ifx_good Z truthy rfl rfl e h (zE e)).1
  pref := fun _ _ hp h => ⟨hp, h⟩
  target_id := fun _ _ => rfl
  node := fun _ _ h => ⟨h, rfl⟩
  afterNode := fun _ _ h => ⟨h, rfl⟩
  ty_id := fun _ _ => rfl
  insertLocal_id := fun _ _ _ => rfl

theorem types_node_ctor (e : Expr) : ctor (RemoveTypes.node e) = ctor e := by
  cases e <;> rfl

theorem types_node_wf (e : Expr) (hw : wfE e = true) : wfE (RemoveTypes.node e) = true := by
  cases e with
  | fn body => simpa [RemoveTypes.node, wfE] using (clearFn_props Z body (by simpa [wfE] using hw) (zF body)).1
  | _ => simpa [RemoveTypes.node] using hw

theorem wfHooks_remove_types : WfHooks RemoveTypes.processor where
  block := by
    intro b s hw
    cases b with
    | mk stmts last =>
      simp only [wfB, Bool.and_eq_true] at hw
      have he : (RemoveTypes.processor.block (.mk stmts last) s).1 = RemoveTypes.processBlock (.mk stmts last) := rfl
      rw [he]
      simp only [RemoveTypes.processBlock, wfB, (filter_props Z stmts hw.1 (zSs stmts)).1, hw.2, Bool.and_self]
  afterBlock := fun _ _ h => h
  scope_id := fun _ _ _ => rfl
  stmt := fun _ _ h => h
  stmtNode := by
    intro st s hw
    show wfS (RemoveTypes.stmtNode st) = true
    cases st with
    | localAssign k names vs =>
      have := (clearTNames_props Z names).1; simp_all [RemoveTypes.stmtNode, wfS]
    | gfor names vs body =>
      have := (clearTNames_props Z names).1; simp_all [RemoveTypes.stmtNode, wfS]
    | nfor name a b step body =>
      have := (clearTName_props Z name).1; simp_all [RemoveTypes.stmtNode, wfS]
    | function name m body =>
      have := (clearFn_props Z body (by simp_all [wfS]) (zF body)).1; simp_all [RemoveTypes.stmtNode, wfS]
    | localFn k name body =>
      have := (clearFn_props Z body (by simp_all [wfS]) (zF body)).1; simp_all [RemoveTypes.stmtNode, wfS]
    | _ => simpa [RemoveTypes.stmtNode] using hw
  afterStmtNode := fun _ _ h => h
  last := fun _ _ h => h
  expr := fun e _ h => (pe_props Z e h).1
  pref := fun e _ hp h => ⟨(pp_props Z e hp h).2.2.2.2, (pp_props Z e hp h).1⟩
  target_id := fun _ _ => rfl
  node := fun e _ h => ⟨types_node_wf e h, types_node_ctor e⟩
  afterNode := fun _ _ h => ⟨h, rfl⟩
  ty_id := fun _ _ => rfl
  insertLocal_id := fun _ _ _ => rfl

theorem compound_stmt_wf (st : Stmt) (t : Tracker) (hw : wfS st = true) :
    wfS (RemoveCompoundAssign.processStatement st t).1 = true := by
  cases st with
  | cassign op target value =>
    simp only [wfS, Bool.and_eq_true] at hw
    exact (compound_good Z (fun _ => rfl) rfl op target value t hw.1.1.2 hw.1.2 hw.2 (zE _) (zE _)).1
  | _ => simpa [RemoveCompoundAssign.processStatement] using hw

theorem wfHooks_remove_compound_assignment : WfHooks RemoveCompoundAssign.processor where
  block := fun _ _ h => h
  afterBlock := fun _ _ h => h
  scope_id := fun _ _ _ => rfl
  stmt := fun st t h => compound_stmt_wf st t h
  stmtNode := fun _ _ h => h
  afterStmtNode := fun _ _ h => h
  last := fun _ _ h => h
  expr := fun _ _ h => h
  pref := fun _ _ hp h => ⟨hp, h⟩
  target_id := fun _ _ => rfl
  node := fun _ _ h => ⟨h, rfl⟩
  afterNode := fun _ _ h => ⟨h, rfl⟩
  ty_id := fun _ _ => rfl
  insertLocal_id := fun _ _ _ => rfl

theorem wfHooks_remove_interpolated_string (strategy : RemoveInterpolatedString.Strategy) :
    WfHooks (RemoveInterpolatedString.processor strategy) where
  block := fun _ _ h => h
  afterBlock := fun _ _ h => h
  scope_id := fun _ _ _ => rfl
  stmt := fun _ _ h => h
  stmtNode := fun _ _ h => h
  afterStmtNode := fun _ _ h => h
  last := fun _ _ h => h
  expr := fun e s h => (interp_good Z strategy e s h (zE e)).1
  pref := fun _ _ hp h => ⟨hp, h⟩
  target_id := fun _ _ => rfl
  node := fun _ _ h => ⟨h, rfl⟩
  afterNode := fun _ _ h => ⟨h, rfl⟩
  ty_id := fun _ _ => rfl
  insertLocal_id := fun _ _ _ => rfl

theorem wfHooks_remove_floor_division : WfHooks RemoveFloorDivision.processor where
  block := fun _ _ h => h
  afterBlock := fun _ _ h => h
  scope_id := fun _ _ _ => rfl
  stmt := by
    intro st s hw
    show wfS (RemoveFloorDivision.processStatement st s).1 = true
    cases st with
    | cassign op t v =>
      cases op <;> first
        | exact hw
        | (rw [RemoveFloorDivision.processStatement_idiv]
           exact (wlevel_all RemoveCompoundAssign.processor true wfHooks_remove_compound_assignment _).stmt _ _ hw)
    | _ => exact hw
  stmtNode := fun _ _ h => h
  afterStmtNode := fun _ _ h => h
  last := fun _ _ h => h
  expr := fun e s h => (floor_expr_good Z rfl e s h (zE e)).1
  pref := fun _ _ hp h => ⟨hp, h⟩
  target_id := fun _ _ => rfl
  node := fun _ _ h => ⟨h, rfl⟩
  afterNode := fun _ _ h => ⟨h, rfl⟩
  ty_id := fun _ _ => rfl
  insertLocal_id := fun _ _ _ => rfl

/-! ### `remove_continue` -/

theorem wfSs_append : ∀ (a b : List Stmt), wfSs (a ++ b) = (wfSs a && wfSs b)
  | [], b => by simp [wfSs]
  | x :: a, b => by simp [wfSs, wfSs_append a b, Bool.and_assoc]

theorem wf_setFlag (id : Nat) : wfS (RemoveContinue.setFlag id) = true := by
  simp [RemoveContinue.setFlag, wfS, wfTargets, wfEs, wfE, isVariable]

theorem wf_wrapBlock (ld : RemoveContinue.LoopData) (b : Block) (hw : wfB b = true) :
    wfB (RemoveContinue.wrapBlock ld b) = true := by
  unfold RemoveContinue.wrapBlock
  split
  · exact hw
  · cases b with
    | mk stmts last =>
      simp only [wfB, Bool.and_eq_true] at hw
      cases last <;>
        simp_all [wfB, wfSs, wfS, wfTNs, wfTN, wfOTy, wfEs, wfE, wfOL, wfL, wfBranches, wfOB, wfSs_append, wf_setFlag]

theorem wf_popWrap (s : RemoveContinue.State) (b : Block) (hw : wfB b = true) :
    wfB (RemoveContinue.popWrap s b).1 = true := by
  unfold RemoveContinue.popWrap
  split <;> simp [hw, wf_wrapBlock]

theorem wfHooks_remove_continue : WfHooks RemoveContinue.processor where
  block := by
    intro b s hw
    show wfB (RemoveContinue.processBlock b s).1 = true
    unfold RemoveContinue.processBlock
    split
    · split
      · rename_i stmts _ _ _ _
        simp_all [wfB, wfSs_append, wfSs, wf_setFlag, wfOL, wfL]
      · exact hw
    · exact hw
  afterBlock := fun _ _ h => h
  scope_id := fun _ _ _ => rfl
  stmt := fun _ _ h => h
  stmtNode := by
    intro st s hw
    show wfS (RemoveContinue.stmtNode st s).1 = true
    cases st <;> simpa [RemoveContinue.stmtNode] using hw
  afterStmtNode := by
    intro st s hw
    show wfS (RemoveContinue.afterStmtNode st s).1 = true
    cases st <;> simp_all [RemoveContinue.afterStmtNode, wfS, wf_popWrap]
  last := fun _ _ h => h
  expr := fun _ _ h => h
  pref := fun _ _ hp h => ⟨hp, h⟩
  target_id := fun _ _ => rfl
  node := by
    intro e s h
    show wfE (RemoveContinue.node e s).1 = true ∧ ctor (RemoveContinue.node e s).1 = ctor e
    cases e <;> exact ⟨h, rfl⟩
  afterNode := by
    intro e s h
    show wfE (RemoveContinue.afterNode e s).1 = true ∧ ctor (RemoveContinue.afterNode e s).1 = ctor e
    cases e <;> exact ⟨h, rfl⟩
  ty_id := fun _ _ => rfl
  insertLocal_id := fun _ _ _ => rfl

end DarkluaModel.C07
