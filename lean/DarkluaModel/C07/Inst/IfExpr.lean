import DarkluaModel.C07.Fuel
/-! # C07 — coverage instance: `remove_if_expression` -/
namespace DarkluaModel.C07
open DarkluaModel.Rules Visitor RemoveIfExpression

variable (A : Census) (truthy : Expr → Bool)

/-- 13 extra levels per branch: the depth of `(c and {(r)} or {(e)})[1]` above `r` -/
def Wifx : Weights := { ifx := 13 }

theorem kE_wrap (e : Expr) : kE Wifx (wrapInTable e) ≤ kE Wifx e + 5 := by
  unfold wrapInTable parenIfMultiple
  split <;> simp [kE, kEntries, kEntry] <;> omega

theorem wf_wrap (e : Expr) (h : wfE e = true) : wfE (wrapInTable e) = true := by
  unfold wrapInTable parenIfMultiple
  split <;> simp [wfE, wfEntries, wfEntry, h]

theorem count_wrap (e : Expr) : countE A (wrapInTable e) = countE A e := by
  unfold wrapInTable parenIfMultiple
  split <;> simp [countE, countEntries, countEntry]

theorem kE_convert (c r e : Expr) :
    kE Wifx (convertIfBranch truthy c r e) ≤ max (kE Wifx c + 8) (max (kE Wifx r + 13) (kE Wifx e + 11)) := by
  have h1 := kE_wrap r
  have h2 := kE_wrap e
  unfold convertIfBranch
  split
  · simp [kE, Wifx]; omega
  · simp only [kE, numOne]
    simp [Wifx] at *
    omega

theorem wf_convert (c r e : Expr) (hc : wfE c = true) (hr : wfE r = true) (he : wfE e = true) :
    wfE (convertIfBranch truthy c r e) = true := by
  unfold convertIfBranch
  split
  · simp [wfE, hc, hr, he]
  · simp [wfE, isPrefix, numOne, hc, wf_wrap r hr, wf_wrap e he]

theorem count_convert (hor : A.bin .or = 0) (hand : A.bin .and = 0) (c r e : Expr) :
    countE A (convertIfBranch truthy c r e) = countE A c + countE A r + countE A e := by
  unfold convertIfBranch
  split
  · simp only [countE, hor, hand]; omega
  · simp only [countE, numOne, count_wrap, hor, hand]; omega

theorem shallow_convert (c r e : Expr) : shallowE ifExpressionCensus (convertIfBranch truthy c r e) = 0 := by
  unfold convertIfBranch
  split <;> simp [shallowE, ifExpressionCensus]

theorem fold_props (hor : A.bin .or = 0) (hand : A.bin .and = 0) :
    ∀ (ps : List (Expr × Expr)) (acc : Expr), wfPairs ps = true → wfE acc = true →
    wfE (foldBranches truthy ps acc) = true ∧
    countE A (foldBranches truthy ps acc) = countPairs A ps + countE A acc ∧
    kE Wifx (foldBranches truthy ps acc) + 2 ≤ 13 * ps.length + max (kPairs Wifx ps) (kE Wifx acc + 2)
  | [], acc, _, ha => by simp [foldBranches, kPairs, countPairs, ha]
  | (c, r) :: rest, acc, hp, ha => by
    simp only [wfPairs, Bool.and_eq_true] at hp
    have ih := fold_props hor hand rest acc hp.2 ha
    have hw := wf_convert truthy c r (foldBranches truthy rest acc) hp.1.1 hp.1.2 ih.1
    have hk := kE_convert truthy c r (foldBranches truthy rest acc)
    have hcnt := count_convert A truthy hor hand c r (foldBranches truthy rest acc)
    simp only [foldBranches, kPairs, countPairs, List.length_cons]
    refine ⟨hw, ?_, ?_⟩ <;> omega

theorem shallowF_ifx (f : FnBody) : shallowF ifExpressionCensus f = 0 := by
  cases f; simp [shallowF, ifExpressionCensus]

theorem ifx_good (hor : A.bin .or = 0) (hand : A.bin .and = 0) (e : Expr) (hw : wfE e = true)
    (hc : countE A e = 0) : GoodE Wifx (ifExpressionCensus.add A) A e (processExpression truthy e) := by
  cases e with
  | ifx c t elifs el =>
    simp only [wfE, Bool.and_eq_true] at hw
    simp only [countE, Nat.add_eq_zero_iff] at hc
    obtain ⟨fw, fc, fk⟩ := fold_props A truthy hor hand elifs el hw.1.2 hw.2
    have hk := kE_convert truthy c t (foldBranches truthy elifs el)
    have hcnt := count_convert A truthy hor hand c t (foldBranches truthy elifs el)
    apply GoodE.of
    · exact wf_convert truthy c t _ hw.1.1.1 hw.1.1.2 fw
    · simp only [processExpression]; omega
    · simp only [processExpression, kE]
      simp only [Wifx] at *
      omega
    · exact shallow_convert truthy _ _ _
  | _ =>
    apply GoodE.of A _ hw hc (Nat.le_refl _)
    simp [processExpression, shallowE, ifExpressionCensus]
    try exact shallowF_ifx _

theorem cover_remove_if_expression (hor : A.bin .or = 0) (hand : A.bin .and = 0) :
    Cover (RemoveIfExpression.processor truthy) (ifExpressionCensus.add A) A Wifx (fun _ => true) where
  cont_ok := fun h => by simp [add_cont, ifExpressionCensus, h]
  afterBlock_id := fun _ _ => rfl
  scope_id := fun _ _ _ => rfl
  afterStmtNode_id := fun _ _ => rfl
  last_id := fun _ _ => rfl
  afterNode_id := fun _ _ => rfl
  ty_id := fun _ _ => rfl
  attrs_id := fun _ _ => rfl
  insert_id := fun _ _ => rfl
  insertLocal_id := fun _ _ _ => rfl
  insertLocalFn_id := fun _ _ => rfl
  target_id := fun _ _ => rfl
  exprPos := fun e _ _ hw hc => ifx_good A truthy hor hand e hw hc
  prefPos := by
    intro e s s' hp hw hc
    show GoodE _ _ _ e e
    apply GoodE.of A _ hw hc (Nat.le_refl _)
    cases e <;> simp_all [isPrefix, shallowE, ifExpressionCensus]
  nodePos := fun e _ hw hc hs => ⟨hw, hc, Nat.le_refl _, hs⟩
  stmtPos := by
    intro st s hw hc _
    refine ⟨hw, hc, Nat.le_refl _, ?_⟩
    intro hcs s'
    show GoodS _ _ _ st st
    apply GoodS.of A _ hw hc (Nat.le_refl _) _ hcs
    cases st <;> simp [shallowS, ifExpressionCensus]
    all_goals exact shallowF_ifx _
  blockPos := fun _ _ hw hc => ⟨hw, hc, Nat.le_refl _, fun _ _ => rfl⟩

end DarkluaModel.C07
