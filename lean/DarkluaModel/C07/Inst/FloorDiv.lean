import DarkluaModel.C07.Fuel
/-! # C07 — `remove_floor_division`: the expression hook

`a // b` becomes `math.floor(a / b)` (or a call of the local alias). These lemmas are used by the well-formedness
instance (C07/Inst/Wf.lean); the coverage instance itself — `//=` statements included, which the statement hook hands
to a nested `remove_compound_assignment` visitor — is in C07/Inst/FloorDivFull.lean. -/
namespace DarkluaModel.C07
open DarkluaModel.Rules Visitor RemoveFloorDivision

variable (A : Census)

def Wfloor : Weights := { bin := fun op => if op == .idiv then 2 else 0 }

theorem shallowF_floor (f : FnBody) : shallowF floorDivisionCensus f = 0 := by
  cases f; simp [shallowF, floorDivisionCensus]

theorem floorCall_props (v : Expr) (s : State) (hw : wfE v = true) :
    wfE (buildFloorCall v s).1 = true ∧ countE A (buildFloorCall v s).1 = countE A v ∧
      kE Wfloor (buildFloorCall v s).1 ≤ max 4 (kE Wfloor v + 2) ∧
      shallowE floorDivisionCensus (buildFloorCall v s).1 = 0 := by
  unfold buildFloorCall
  split <;> simp [wfE, isPrefix, argsOk, wfEs, hw, countE, countEs, kE, kEs, shallowE] <;> omega

theorem floor_expr_good (hdiv : A.bin .div = 0) (e : Expr) (s : State) (hw : wfE e = true) (hc : countE A e = 0) :
    GoodE Wfloor (floorDivisionCensus.add A) A e (processExpression e s).1 := by
  cases e with
  | bin op l r =>
    simp only [wfE, Bool.and_eq_true] at hw
    simp only [countE, Nat.add_eq_zero_iff] at hc
    cases op with
    | idiv =>
      obtain ⟨a, b, c, d⟩ := floorCall_props A (.bin .div l r) s (by simp [wfE, hw.1, hw.2])
      apply GoodE.of
      · exact a
      · simp only [processExpression, b, countE, hdiv]; omega
      · simp only [processExpression, kE, Wfloor] at c ⊢
        simp at c ⊢; omega
      · exact d
    | _ =>
      apply GoodE.of A _ (by simp [processExpression, wfE, hw.1, hw.2])
        (by simp [processExpression, countE, hc.1.1, hc.1.2, hc.2]) (Nat.le_refl _)
        (by simp [processExpression, shallowE, floorDivisionCensus])
  | _ =>
    apply GoodE.of A _ hw hc (Nat.le_refl _)
    simp [processExpression, shallowE, floorDivisionCensus]
    try exact shallowF_floor _

end DarkluaModel.C07
