import DarkluaModel.C07.Fuel
/-! # C07 — coverage instance: `remove_floor_division`

The statement hook hands `x //= y` to a nested `remove_compound_assignment` visitor; the instance
takes as INPUT INVARIANT that no `//=` statement is present (`A.cassign .idiv ≠ 0` with `A` at
zero on the input) — which is what running `remove_compound_assignment` first establishes. -/
namespace DarkluaModel.C07
open DarkluaModel.Rules Visitor RemoveFloorDivision

variable (A : Census)

def Wfloor : Weights := { bin := fun op => if op == .idiv then 2 else 0 }

theorem shallowF_floor (f : FnBody) : shallowF floorDivisionCensus f = 0 := by
  cases f; simp [shallowF, floorDivisionCensus]

theorem floorCall_props (v : Expr) (s : State) (hw : wfE v = true) :
    wfE (buildFloorCall v s).1 = true ∧ countE A (buildFloorCall v s).1 = countE A v ∧
      kE Wfloor (buildFloorCall v s).1 ≤ max 4 (kE Wfloor v + 2) ∧
      shallowE floorDivisionCensus (buildFloorCall v s).1 = 0 := by
  unfold buildFloorCall
  split <;> simp [wfE, isPrefix, argsOk, wfEs, hw, countE, countEs, kE, kEs, shallowE] <;> omega

theorem floor_expr_good (hdiv : A.bin .div = 0) (e : Expr) (s : State) (hw : wfE e = true) (hc : countE A e = 0) :
    GoodE Wfloor (floorDivisionCensus.add A) A e (processExpression e s).1 := by
  cases e with
  | bin op l r =>
    simp only [wfE, Bool.and_eq_true] at hw
    simp only [countE, Nat.add_eq_zero_iff] at hc
    cases op with
    | idiv =>
      obtain ⟨a, b, c, d⟩ := floorCall_props A (.bin .div l r) s (by simp [wfE, hw.1, hw.2])
      apply GoodE.of
      · exact a
      · simp only [processExpression, b, countE, hdiv]; omega
      · simp only [processExpression, kE, Wfloor] at c ⊢
        simp at c ⊢; omega
      · exact d
    | _ =>
      apply GoodE.of A _ (by simp [processExpression, wfE, hw.1, hw.2])
        (by simp [processExpression, countE, hc.1.1, hc.1.2, hc.2]) (Nat.le_refl _)
        (by simp [processExpression, shallowE, floorDivisionCensus])
  | _ =>
    apply GoodE.of A _ hw hc (Nat.le_refl _)
    simp [processExpression, shallowE, floorDivisionCensus]
    try exact shallowF_floor _

theorem cover_remove_floor_division (hdiv : A.bin .div = 0) (hno : A.cassign .idiv ≠ 0) :
    Cover RemoveFloorDivision.processor (floorDivisionCensus.add A) A Wfloor (fun _ => true) where
  cont_ok := fun h => by simp [add_cont, floorDivisionCensus, h]
  afterBlock_id := fun _ _ => rfl
  scope_id := fun _ _ _ => rfl
  afterStmtNode_id := fun _ _ => rfl
  last_id := fun _ _ => rfl
  afterNode_id := fun _ _ => rfl
  ty_id := fun _ _ => rfl
  attrs_id := fun _ _ => rfl
  insert_id := fun _ _ => rfl
  insertLocal_id := fun _ _ _ => rfl
  insertLocalFn_id := fun _ _ => rfl
  target_id := fun _ _ => rfl
  exprPos := fun e s _ hw hc => floor_expr_good A hdiv e s hw hc
  prefPos := by
    intro e s s' hp hw hc
    show GoodE _ _ _ e e
    apply GoodE.of A _ hw hc (Nat.le_refl _)
    cases e <;> simp_all [isPrefix, shallowE, floorDivisionCensus]
  nodePos := fun e _ hw hc hs => ⟨hw, hc, Nat.le_refl _, hs⟩
  stmtPos := by
    intro st s hw hc _
    have hid : (RemoveFloorDivision.processor.stmt st s).1 = st := by
      cases st with
      | cassign op t v =>
        cases op <;> first | rfl | (simp [countS] at hc; exact absurd hc.1.1 hno)
      | _ => rfl
    rw [hid]
    refine ⟨hw, hc, Nat.le_refl _, ?_⟩
    intro hcs s'
    show GoodS _ _ _ st st
    refine GoodS.of A _ hw hc (Nat.le_refl _) ?_ hcs
    cases st with
    | cassign op t v =>
      cases op <;> first | (simp [shallowS, floorDivisionCensus]; done) | (simp [countS] at hc; exact absurd hc.1.1 hno)
    | _ =>
      simp [shallowS, floorDivisionCensus]
      try exact shallowF_floor _
  blockPos := fun _ _ hw hc => ⟨hw, hc, Nat.le_refl _, fun _ _ => rfl⟩

end DarkluaModel.C07
