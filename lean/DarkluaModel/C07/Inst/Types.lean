import DarkluaModel.C07.Fuel
/-! # C07 — coverage instance: `remove_types` -/
namespace DarkluaModel.C07
open DarkluaModel.Rules Visitor RemoveTypes

variable (A : Census)

/-- the statements a block keeps after `process_block` -/
def notTypeStmt (st : Stmt) : Bool := !isTypeStmt st

def noTyTop : Expr → Bool
  | .cast .. | .inst .. => false
  | _ => true

theorem clearTNames_props : ∀ ns : List TName, wfTNs (ns.map clearTName) = true ∧
    countTNs A (ns.map clearTName) = 0 ∧ kTNs {} (ns.map clearTName) = 0 ∧ typedCount (ns.map clearTName) = 0
  | [] => by simp [wfTNs, countTNs, kTNs, typedCount]
  | .mk n ty :: ns => by
    have := clearTNames_props ns
    simp_all [clearTName, wfTNs, wfTN, wfOTy, countTNs, countTN, countOTy, kTNs, kTN, kOTy, typedCount]

theorem clearTName_props (t : TName) : wfTN (clearTName t) = true ∧ countTN A (clearTName t) = 0 ∧
    kTN {} (clearTName t) = 0 ∧ typedCount [clearTName t] = 0 := by
  cases t; simp [clearTName, wfTN, wfOTy, countTN, countOTy, kTN, kOTy, typedCount]

theorem clearFn_props (f : FnBody) (hw : wfF f = true) (hc : countF A f = 0) :
    wfF (clearFn f) = true ∧ countF A (clearFn f) = 0 ∧ kF {} (clearFn f) ≤ kF {} f ∧
      shallowF typesCensus (clearFn f) = 0 := by
  cases f with
  | mk params variadic varTy ret generics attrs body =>
    obtain ⟨a, b, c, d⟩ := clearTNames_props A params
    simp only [wfF, countF, Bool.and_eq_true, Nat.add_eq_zero_iff] at hw hc
    simp only [clearFn, wfF, countF, kF, shallowF, a, b, c, d, wfOTy, countOTy, kOTy, optCount, typesCensus,
      List.length_nil]
    simp_all
    omega

theorem pe_props : ∀ e : Expr, wfE e = true →
    wfE (processExpression e) = true ∧ countE A (processExpression e) ≤ countE A e ∧
      kE {} (processExpression e) ≤ kE {} e ∧ noTyTop (processExpression e) = true
  | .cast e ty, hw => by
    simp only [wfE, Bool.and_eq_true] at hw
    have ih := pe_props e hw.1
    simp only [processExpression]
    split
    · simp only [wfE, countE, kE, noTyTop, hw.1, true_and, and_true]; omega
    · simp only [countE, kE]; refine ⟨ih.1, ?_, ?_, ih.2.2.2⟩ <;> omega
  | .inst p tys, hw => by
    simp only [wfE, Bool.and_eq_true] at hw
    have ih := pe_props p hw.1.2
    simp only [processExpression]
    split
    · simp only [wfE, countE, kE, noTyTop, hw.1.2, true_and, and_true]; omega
    · simp only [countE, kE]; refine ⟨ih.1, ?_, ?_, ih.2.2.2⟩ <;> omega
  | .nil, hw | .true, hw | .false, hw | .vararg, hw | .num _, hw | .str _, hw | .var _, hw
  | .paren _, hw | .un _ _, hw | .bin _ _ _, hw | .call _ _ _ _, hw | .field _ _, hw | .index _ _, hw
  | .fn _, hw | .table _, hw | .ifx _ _ _ _, hw | .interp _, hw => by
    simp [processExpression, noTyTop, hw]

theorem pp_props : ∀ e : Expr, isPrefix e = true → wfE e = true →
    wfE (processPrefix e) = true ∧ countE A (processPrefix e) ≤ countE A e ∧
      kE {} (processPrefix e) ≤ kE {} e ∧ noTyTop (processPrefix e) = true ∧ isPrefix (processPrefix e) = true
  | .inst p tys, _, hw => by
    simp only [wfE, Bool.and_eq_true] at hw
    have ih := pp_props p hw.1.1 hw.1.2
    simp only [processPrefix, countE, kE]
    refine ⟨ih.1, ?_, ?_, ih.2.2.2⟩ <;> omega
  | .var _, hp, hw | .call _ _ _ _, hp, hw | .field _ _, hp, hw | .index _ _, hp, hw | .paren _, hp, hw => by
    simp [processPrefix, noTyTop, hw, hp]
  | .nil, hp, _ | .true, hp, _ | .false, hp, _ | .vararg, hp, _ | .num _, hp, _ | .str _, hp, _
  | .un _ _, hp, _ | .bin _ _ _, hp, _ | .fn _, hp, _ | .table _, hp, _ | .ifx _ _ _ _, hp, _
  | .interp _, hp, _ | .cast _ _, hp, _ => by simp [isPrefix] at hp

/-- the kind-specific hook on a node that is not a cast / instantiation -/
theorem types_node_good (e0 e : Expr) (hw : wfE e = true) (hc : countE A e = 0) (hk : kE {} e ≤ kE {} e0)
    (ht : noTyTop e = true) : GoodE {} (typesCensus.add A) A e0 (RemoveTypes.node e) := by
  cases e with
  | fn body =>
    obtain ⟨a, b, c, d⟩ := clearFn_props A body (by simpa [wfE] using hw) (by simpa [countE] using hc)
    apply GoodE.of
    · simpa [RemoveTypes.node, wfE] using a
    · simpa [RemoveTypes.node, countE] using b
    · simp only [RemoveTypes.node, kE] at hk ⊢; omega
    · simpa [RemoveTypes.node, shallowE] using d
  | cast _ _ | inst _ _ => simp [noTyTop] at ht
  | _ => exact GoodE.of A {} hw hc hk (by simp [RemoveTypes.node, shallowE, typesCensus])

theorem shallow_types_noTyTop (e : Expr) (h : shallowE (typesCensus.add A) e = 0) : noTyTop e = true := by
  cases e <;> simp_all [noTyTop, shallowE, add_cast, add_inst, typesCensus]

theorem filter_props : ∀ ss : List Stmt, wfSs ss = true → countSs A ss = 0 →
    wfSs (ss.filter fun s => !isTypeStmt s) = true ∧ countSs A (ss.filter fun s => !isTypeStmt s) = 0 ∧
      kSs {} (ss.filter fun s => !isTypeStmt s) ≤ kSs {} ss ∧
      ∀ st ∈ ss.filter (fun s => !isTypeStmt s), notTypeStmt st = true
  | [], _, _ => by simp [wfSs, countSs, kSs]
  | s :: ss, hw, hc => by
    simp only [wfSs, countSs, Bool.and_eq_true, Nat.add_eq_zero_iff] at hw hc
    have ih := filter_props ss hw.2 hc.2
    simp only [List.filter_cons]
    split
    · rename_i hs
      simp only [wfSs, countSs, kSs, hw.1, hc.1, ih.1, ih.2.1, Bool.and_self, Nat.add_zero, true_and,
        List.mem_cons, forall_eq_or_imp]
      refine ⟨?_, ?_, ih.2.2.2⟩
      · omega
      · simpa [notTypeStmt] using hs
    · simp only [kSs]
      refine ⟨ih.1, ih.2.1, ?_, ih.2.2.2⟩
      omega

theorem cover_remove_types : Cover RemoveTypes.processor (typesCensus.add A) A {} notTypeStmt where
  cont_ok := fun h => by simp [add_cont, typesCensus, h]
  afterBlock_id := fun _ _ => rfl
  scope_id := fun _ _ _ => rfl
  afterStmtNode_id := fun _ _ => rfl
  last_id := fun _ _ => rfl
  afterNode_id := fun _ _ => rfl
  ty_id := fun _ _ => rfl
  attrs_id := fun _ _ => rfl
  insert_id := fun _ _ => rfl
  insertLocal_id := fun _ _ _ => rfl
  insertLocalFn_id := fun _ _ => rfl
  target_id := fun _ _ => rfl
  exprPos := by
    intro e s s' hw hc
    obtain ⟨a, b, c, d⟩ := pe_props A e hw
    have b' : countE A (processExpression e) = 0 := by omega
    exact types_node_good A e _ a b' c d
  prefPos := by
    intro e s s' hp hw hc
    obtain ⟨a, b, c, d, _⟩ := pp_props A e hp hw
    have b' : countE A (processPrefix e) = 0 := by omega
    exact types_node_good A e _ a b' c d
  nodePos := fun e _ hw hc hs => types_node_good A e e hw hc (Nat.le_refl _) (shallow_types_noTyTop A e hs)
  stmtPos := by
    intro st s hw hc hok
    refine ⟨hw, hc, Nat.le_refl _, ?_⟩
    intro hcs s'
    show GoodS _ _ _ st (RemoveTypes.stmtNode st)
    have hcs' : isCallStmt st = false := hcs
    cases st with
    | callStmt c => simp [isCallStmt] at hcs'
    | typeDecl _ _ _ | typeFn _ _ _ => simp [notTypeStmt, isTypeStmt] at hok
    | localAssign k names vs =>
      obtain ⟨a, b, c, d⟩ := clearTNames_props A names
      apply GoodS.of <;>
        simp_all [RemoveTypes.stmtNode, wfS, countS, kS, shallowS, isCallStmt, typesCensus] <;> (try omega)
    | gfor names vs body =>
      obtain ⟨a, b, c, d⟩ := clearTNames_props A names
      apply GoodS.of <;>
        simp_all [RemoveTypes.stmtNode, wfS, countS, kS, shallowS, isCallStmt, typesCensus] <;> (try omega)
    | nfor name x y step body =>
      obtain ⟨a, b, c, d⟩ := clearTName_props A name
      apply GoodS.of <;>
        simp_all [RemoveTypes.stmtNode, wfS, countS, kS, shallowS, isCallStmt, typesCensus] <;> (try omega)
    | function name m body =>
      obtain ⟨a, b, c, d⟩ := clearFn_props A body (by simp_all [wfS]) (by simpa [countS] using hc)
      apply GoodS.of <;>
        simp_all [RemoveTypes.stmtNode, wfS, countS, kS, shallowS, isCallStmt, typesCensus] <;> (try omega)
    | localFn k name body =>
      simp only [countS, Nat.add_eq_zero_iff] at hc
      obtain ⟨a, b, c, d⟩ := clearFn_props A body (by simp_all [wfS]) hc.2
      apply GoodS.of <;>
        simp_all [RemoveTypes.stmtNode, wfS, countS, kS, shallowS, isCallStmt, typesCensus] <;> (try omega)
    | _ =>
      apply GoodS.of <;>
        simp_all [RemoveTypes.stmtNode, wfS, countS, kS, shallowS, isCallStmt, typesCensus] <;> (try omega)
  blockPos := by
    intro b s hw hc
    cases b with
    | mk stmts last =>
      simp only [wfB, countB, Bool.and_eq_true, Nat.add_eq_zero_iff] at hw hc
      obtain ⟨a, b', c, d⟩ := filter_props A stmts hw.1 hc.1
      have he : (RemoveTypes.processor.block (.mk stmts last) s).1 = processBlock (.mk stmts last) := rfl
      rw [he]
      simp only [processBlock, wfB, countB, kB, Block.stmts, a, b', hw.2, hc.2, Bool.and_self, true_and]
      exact ⟨by omega, d⟩

end DarkluaModel.C07
