import DarkluaModel.C07.Fuel
/-! # C07 — coverage instance: `remove_compound_assignment` -/
namespace DarkluaModel.C07
open DarkluaModel.Rules Visitor RemoveCompoundAssign

variable (A : Census)

/-- the `do local …; t = t op v end` wrapper adds four levels above `v` -/
def Wcompound : Weights := { cassign := 4 }

theorem removeParens_props (x : Expr) (hw : wfE x = true) :
    wfE (removeParens x) = true ∧ countE A (removeParens x) = countE A x ∧
      kE Wcompound (removeParens x) ≤ kE Wcompound x := by
  cases x <;> simp_all [removeParens, wfE, countE, kE]

theorem simplifyPrefix_props (p : Expr) (hp : isPrefix p = true) (hw : wfE p = true) :
    isPrefix (simplifyPrefix p) = true ∧ wfE (simplifyPrefix p) = true ∧
      countE A (simplifyPrefix p) = countE A p ∧ kE Wcompound (simplifyPrefix p) ≤ kE Wcompound p := by
  unfold simplifyPrefix
  split
  · simp [isPrefix, wfE, countE, kE]
  · simp [hp, hw]

theorem newAssign_props (hop : ∀ op, A.bin op = 0) (op : BinOp) (tgt v : Expr) (hv : isVariable tgt = true)
    (hwt : wfE tgt = true) (hwv : wfE v = true) (hct : countE A tgt = 0) (hcv : countE A v = 0) :
    wfS (newAssign op tgt v) = true ∧ countS A (newAssign op tgt v) = 0 ∧
      kS Wcompound (newAssign op tgt v) = max (kE Wcompound tgt) (kE Wcompound v) + 4 ∧
      shallowS compoundCensus (newAssign op tgt v) = 0 ∧ isCallStmt (newAssign op tgt v) = false := by
  simp only [newAssign, wfS, wfTargets, wfEs, wfE, countS, countEs, countE, kS, kEs, kE, shallowS, isCallStmt,
    hv, hwt, hwv, hct, hcv, hop, Wcompound, Bool.and_self, Nat.add_zero, Nat.zero_add, true_and, and_true]
  omega

theorem localOf_props (hl : A.localKind .loc = 0) (names : List String) (values : List Expr)
    (hw : wfEs values = true) (hc : countEs A values = 0) :
    wfS (localOf names values) = true ∧ countS A (localOf names values) = 0 ∧
      kS Wcompound (localOf names values) = kEs Wcompound values := by
  have h1 : ∀ ns : List String, wfTNs (ns.map fun n => TName.mk n none) = true ∧
      countTNs A (ns.map fun n => TName.mk n none) = 0 ∧ kTNs Wcompound (ns.map fun n => TName.mk n none) = 0 := by
    intro ns
    induction ns with
    | nil => simp [wfTNs, countTNs, kTNs]
    | cons n ns ih => simp [wfTNs, wfTN, wfOTy, countTNs, countTN, countOTy, kTNs, kTN, kOTy, ih]
  obtain ⟨a, b, c⟩ := h1 names
  simp only [localOf, wfS, countS, kS, a, b, c, hw, hc, hl, Bool.and_self, Nat.add_zero, Nat.zero_max, and_self]

theorem doAssign_props (hop : ∀ op, A.bin op = 0) (hl : A.localKind .loc = 0) (op : BinOp) (names : List String)
    (values : List Expr) (tgt v : Expr) (hw : wfEs values = true) (hc : countEs A values = 0)
    (hv : isVariable tgt = true) (hwt : wfE tgt = true) (hwv : wfE v = true) (hct : countE A tgt = 0)
    (hcv : countE A v = 0) :
    wfS (doAssign op (localOf names values) tgt v) = true ∧ countS A (doAssign op (localOf names values) tgt v) = 0 ∧
      kS Wcompound (doAssign op (localOf names values) tgt v)
        = max (kEs Wcompound values) (max (kE Wcompound tgt) (kE Wcompound v) + 4) + 2 ∧
      shallowS compoundCensus (doAssign op (localOf names values) tgt v) = 0 ∧
      isCallStmt (doAssign op (localOf names values) tgt v) = false := by
  obtain ⟨a, b, c⟩ := localOf_props A hl names values hw hc
  obtain ⟨d, e, f, _, _⟩ := newAssign_props A hop op tgt v hv hwt hwv hct hcv
  simp only [doAssign, wfS, wfB, wfSs, wfOL, countS, countB, countSs, countOL, kS, kB, kSs, kOL, shallowS, isCallStmt,
    a, b, c, d, e, f, Bool.and_self, Nat.add_zero, true_and, and_true]
  omega

theorem compound_good (hop : ∀ op, A.bin op = 0) (hl : A.localKind .loc = 0) (op : BinOp) (target value : Expr)
    (t : Tracker) (hv : isVariable target = true) (hwt : wfE target = true) (hwv : wfE value = true)
    (hct : countE A target = 0) (hcv : countE A value = 0) :
    let r := (replaceCompound op target value t).1
    wfS r = true ∧ countS A r = 0 ∧
      kS Wcompound r ≤ 4 + max (kE Wcompound target + 2) (kE Wcompound value + 2) ∧
      shallowS compoundCensus r = 0 ∧ isCallStmt r = false := by
  cases target with
  | index p k =>
    simp only [wfE, Bool.and_eq_true] at hwt
    simp only [countE, Nat.add_eq_zero_iff] at hct
    obtain ⟨⟨hpp, hwp⟩, hwk⟩ := hwt
    obtain ⟨sp1, sp2, sp3, sp4⟩ := simplifyPrefix_props A p hpp hwp
    obtain ⟨rk1, rk2, rk3⟩ := removeParens_props A k hwk
    obtain ⟨rp1, rp2, rp3⟩ := removeParens_props A p hwp
    by_cases h1 : prefixNeedsVar p = true <;> by_cases h2 : indexNeedsVar k = true
    · obtain ⟨a, b, c, d, e⟩ := doAssign_props A hop hl op
        [(t.generateWithPrefix varPrefix).1, ((t.generateWithPrefix varPrefix).2.generateWithPrefix varPrefix).1]
        [removeParens p, removeParens k]
        (.index (.var (t.generateWithPrefix varPrefix).1)
          (.var ((t.generateWithPrefix varPrefix).2.generateWithPrefix varPrefix).1)) value
        (by simp [wfEs, rp1, rk1]) (by simp [countEs]; omega) rfl (by simp [wfE, isPrefix]) hwv
        (by simp [countE]) hcv
      simp only [replaceCompound, h1, h2, if_true]
      refine ⟨a, b, ?_, d, e⟩
      rw [c]; simp only [kEs, kE]; omega
    · obtain ⟨a, b, c, d, e⟩ := doAssign_props A hop hl op [(t.generateWithPrefix varPrefix).1] [removeParens p]
        (.index (.var (t.generateWithPrefix varPrefix).1) k) value
        (by simp [wfEs, rp1]) (by simp [countEs]; omega) rfl (by simp [wfE, isPrefix, hwk]) hwv
        (by simp [countE]; omega) hcv
      simp only [replaceCompound, h1, h2, if_true, if_false, Bool.false_eq_true]
      refine ⟨a, b, ?_, d, e⟩
      rw [c]; simp only [kEs, kE]; omega
    · obtain ⟨a, b, c, d, e⟩ := doAssign_props A hop hl op [(t.generateWithPrefix varPrefix).1] [removeParens k]
        (.index (simplifyPrefix p) (.var (t.generateWithPrefix varPrefix).1)) value
        (by simp [wfEs, rk1]) (by simp [countEs]; omega) rfl (by simp [wfE, sp1, sp2]) hwv
        (by simp [countE]; omega) hcv
      simp only [replaceCompound, h1, h2, if_true, if_false, Bool.false_eq_true]
      refine ⟨a, b, ?_, d, e⟩
      rw [c]; simp only [kEs, kE]; omega
    · obtain ⟨a, b, c, d, e⟩ := newAssign_props A hop op (.index (simplifyPrefix p) (removeParens k)) value rfl
        (by simp [wfE, sp1, sp2, rk1]) hwv (by simp [countE]; omega) hcv
      simp only [replaceCompound, h1, h2, if_false, Bool.false_eq_true]
      refine ⟨a, b, ?_, d, e⟩
      rw [c]; simp only [kE]; omega
  | field p name =>
    simp only [wfE, Bool.and_eq_true] at hwt
    simp only [countE] at hct
    obtain ⟨hpp, hwp⟩ := hwt
    have generic : ∀ (x : Expr), wfE x = true → countE A x = 0 → kE Wcompound x ≤ kE Wcompound p →
        let r := doAssign op (localOf [(t.generateWithPrefix varPrefix).1] [x])
          (.field (.var (t.generateWithPrefix varPrefix).1) name) value
        wfS r = true ∧ countS A r = 0 ∧
          kS Wcompound r ≤ 4 + max (kE Wcompound (.field p name) + 2) (kE Wcompound value + 2) ∧
          shallowS compoundCensus r = 0 ∧ isCallStmt r = false := by
      intro x hx hcx hkx
      obtain ⟨a, b, c, d, e⟩ := doAssign_props A hop hl op [(t.generateWithPrefix varPrefix).1] [x]
        (.field (.var (t.generateWithPrefix varPrefix).1) name) value
        (by simp [wfEs, hx]) (by simp [countEs, hcx]) rfl (by simp [wfE, isPrefix]) hwv (by simp [countE]) hcv
      refine ⟨a, b, ?_, d, e⟩
      rw [c]; simp only [kEs, kE]; omega
    have plain : ∀ (q : Expr), isPrefix q = true → wfE q = true → countE A q = 0 →
        kE Wcompound q ≤ kE Wcompound p →
        let r := newAssign op (.field q name) value
        wfS r = true ∧ countS A r = 0 ∧
          kS Wcompound r ≤ 4 + max (kE Wcompound (.field p name) + 2) (kE Wcompound value + 2) ∧
          shallowS compoundCensus r = 0 ∧ isCallStmt r = false := by
      intro q hq hwq hcq hkq
      obtain ⟨a, b, c, d, e⟩ := newAssign_props A hop op (.field q name) value rfl (by simp [wfE, hq, hwq]) hwv
        (by simp [countE, hcq]) hcv
      refine ⟨a, b, ?_, d, e⟩
      rw [c]; simp only [kE]; omega
    cases p with
    | var x => simpa [replaceCompound] using plain (.var x) rfl hwp hct (Nat.le_refl _)
    | paren inner =>
      simp only [wfE] at hwp
      simp only [countE] at hct
      by_cases hs : isSimpleInner inner = true
      · simp only [replaceCompound, hs, if_true]
        cases inner <;> simp [isSimpleInner] at hs <;>
          first
          | exact plain _ rfl (by simp [wfE]) (by simp [countE]) (by simp [kE])
          | exact plain _ rfl (by simpa [wfE] using hwp) (by simpa [countE] using hct) (Nat.le_refl _)
      · simp only [replaceCompound, hs, if_false, Bool.false_eq_true]
        exact generic inner hwp hct (by simp only [kE]; omega)
    | call f m kd args => simpa [replaceCompound] using generic _ hwp hct (Nat.le_refl _)
    | field q nm => simpa [replaceCompound] using generic _ hwp hct (Nat.le_refl _)
    | index q kk => simpa [replaceCompound] using generic _ hwp hct (Nat.le_refl _)
    | inst q tys => simpa [replaceCompound] using generic _ hwp hct (Nat.le_refl _)
    | _ => simp [isPrefix] at hpp
  | var x =>
    obtain ⟨a, b, c, d, e⟩ := newAssign_props A hop op (.var x) value rfl rfl hwv (by simp [countE]) hcv
    simp only [replaceCompound]
    refine ⟨a, b, ?_, d, e⟩
    rw [c]; simp only [kE]; omega
  | _ => simp [isVariable] at hv

theorem shallowF_compound (f : FnBody) : shallowF compoundCensus f = 0 := by
  cases f; simp [shallowF, compoundCensus]

theorem shallowE_compound (e : Expr) : shallowE compoundCensus e = 0 := by
  cases e <;> simp [shallowE, compoundCensus]
  exact shallowF_compound _

theorem cover_remove_compound_assignment (hop : ∀ op, A.bin op = 0) (hl : A.localKind .loc = 0) :
    Cover RemoveCompoundAssign.processor (compoundCensus.add A) A Wcompound (fun _ => true) where
  cont_ok := fun h => by simp [add_cont, compoundCensus, h]
  afterBlock_id := fun _ _ => rfl
  scope_id := fun _ _ _ => rfl
  afterStmtNode_id := fun _ _ => rfl
  last_id := fun _ _ => rfl
  afterNode_id := fun _ _ => rfl
  ty_id := fun _ _ => rfl
  attrs_id := fun _ _ => rfl
  insert_id := fun _ _ => rfl
  insertLocal_id := fun _ _ _ => rfl
  insertLocalFn_id := fun _ _ => rfl
  target_id := fun _ _ => rfl
  exprPos := fun e _ _ hw hc => GoodE.of A _ hw hc (Nat.le_refl _) (shallowE_compound e)
  prefPos := fun e _ _ _ hw hc => GoodE.of A _ hw hc (Nat.le_refl _) (shallowE_compound e)
  nodePos := fun e _ hw hc _ => GoodE.of A _ hw hc (Nat.le_refl _) (shallowE_compound e)
  stmtPos := by
    intro st s hw hc _
    cases st with
    | cassign op target value =>
      simp only [wfS, Bool.and_eq_true] at hw
      simp only [countS, Nat.add_eq_zero_iff] at hc
      obtain ⟨a, b, c, d, e⟩ := compound_good A hop hl op target value s hw.1.1.2 hw.1.2 hw.2 hc.1.2 hc.2
      have hr : (RemoveCompoundAssign.processor.stmt (.cassign op target value) s).1
          = (replaceCompound op target value s).1 := rfl
      rw [hr]
      refine ⟨a, b, by simpa [kS, Wcompound] using c, ?_⟩
      intro _ s'
      show GoodS _ _ _ _ (replaceCompound op target value s).1
      exact GoodS.of A _ a b (by simpa [kS, Wcompound] using c) d e
    | _ =>
      simp only [RemoveCompoundAssign.processor, processStatement]
      refine ⟨hw, hc, Nat.le_refl _, ?_⟩
      intro hcs s'
      refine GoodS.of A _ hw hc (Nat.le_refl _) ?_ hcs
      simp [shallowS, compoundCensus]
      all_goals exact shallowF_compound _
  blockPos := fun _ _ hw hc => ⟨hw, hc, Nat.le_refl _, fun _ _ => rfl⟩

end DarkluaModel.C07
