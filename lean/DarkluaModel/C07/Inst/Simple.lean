import DarkluaModel.C07.Fuel
/-!
# C07 — coverage instances: `make_assignment_local`, `remove_attribute`, `convert_luau_number`

Each instance is stated with an ACCUMULATOR census `A`: the rule brings `Cr + A` to zero on inputs
whose `A` census is zero — i.e. it removes its own construct and re-introduces none of `A`'s
(what the pipeline theorem `all_lowered_is_51` chains).
-/
namespace DarkluaModel.C07
open DarkluaModel.Rules Visitor

variable (A : Census)

/-! ### `make_assignment_local` -/

theorem shallowF_const (f : FnBody) : shallowF constCensus f = 0 := by
  cases f; simp [shallowF, constCensus]

theorem shallowE_const (e : Expr) : shallowE constCensus e = 0 := by
  cases e <;> simp [shallowE, constCensus]
  exact shallowF_const _

theorem cover_make_assignment_local (hA : A.localKind .loc = 0) :
    Cover MakeAssignmentLocal.processor (constCensus.add A) A {} (fun _ => true) where
  cont_ok := fun h => by simp [add_cont, constCensus, h]
  afterBlock_id := fun _ _ => rfl
  scope_id := fun _ _ _ => rfl
  afterStmtNode_id := fun _ _ => rfl
  last_id := fun _ _ => rfl
  afterNode_id := fun _ _ => rfl
  ty_id := fun _ _ => rfl
  attrs_id := fun _ _ => rfl
  insert_id := fun _ _ => rfl
  insertLocal_id := fun _ _ _ => rfl
  insertLocalFn_id := fun _ _ => rfl
  target_id := fun _ _ => rfl
  exprPos := fun e _ _ hw hc => GoodE.of A {} hw hc (Nat.le_refl _) (shallowE_const e)
  prefPos := fun e _ _ _ hw hc => GoodE.of A {} hw hc (Nat.le_refl _) (shallowE_const e)
  nodePos := fun e _ hw hc _ => GoodE.of A {} hw hc (Nat.le_refl _) (shallowE_const e)
  stmtPos := by
    intro st s hw hc _
    refine ⟨hw, hc, Nat.le_refl _, ?_⟩
    intro hcs s'
    show GoodS _ _ _ st (MakeAssignmentLocal.stmtNode st s').1
    have hcs' : isCallStmt st = false := hcs
    cases st <;>
      first
      | (simp [isCallStmt] at hcs'; done)
      | (apply GoodS.of <;>
          simp_all [MakeAssignmentLocal.stmtNode, wfS, countS, kS, shallowS, constCensus, isCallStmt] <;>
          first | exact shallowF_const _ | omega)
  blockPos := fun _ _ hw hc => ⟨hw, hc, Nat.le_refl _, fun _ _ => rfl⟩

/-! ### `remove_attribute` -/

theorem shallowF_attr_clear (f : FnBody) : shallowF attributeCensus (RemoveAttribute.clearAttrs f) = 0 := by
  cases f; simp [shallowF, attributeCensus, RemoveAttribute.clearAttrs]

theorem attr_clear_props (f : FnBody) (hw : wfF f = true) (hc : countF A f = 0) :
    wfF (RemoveAttribute.clearAttrs f) = true ∧ countF A (RemoveAttribute.clearAttrs f) = 0 ∧
      kF {} (RemoveAttribute.clearAttrs f) = kF {} f := by
  cases f
  simp only [RemoveAttribute.clearAttrs, wfF, countF, kF, Nat.add_eq_zero_iff] at *
  simp_all

theorem attr_node_good (e : Expr) (hw : wfE e = true) (hc : countE A e = 0) :
    GoodE {} (attributeCensus.add A) A e (RemoveAttribute.node e) := by
  cases e with
  | fn body =>
    obtain ⟨a, b, c⟩ := attr_clear_props A body (by simpa [wfE] using hw) (by simpa [countE] using hc)
    apply GoodE.of
    · simpa [RemoveAttribute.node, wfE] using a
    · simpa [RemoveAttribute.node, countE] using b
    · simp [RemoveAttribute.node, kE, c]
    · simpa [RemoveAttribute.node, shallowE] using shallowF_attr_clear body
  | _ => exact GoodE.of A {} hw hc (Nat.le_refl _) (by simp [RemoveAttribute.node, shallowE, attributeCensus])

theorem cover_remove_attribute : Cover RemoveAttribute.processor (attributeCensus.add A) A {} (fun _ => true) where
  cont_ok := fun h => by simp [add_cont, attributeCensus, h]
  afterBlock_id := fun _ _ => rfl
  scope_id := fun _ _ _ => rfl
  afterStmtNode_id := fun _ _ => rfl
  last_id := fun _ _ => rfl
  afterNode_id := fun _ _ => rfl
  ty_id := fun _ _ => rfl
  attrs_id := fun _ _ => rfl
  insert_id := fun _ _ => rfl
  insertLocal_id := fun _ _ _ => rfl
  insertLocalFn_id := fun _ _ => rfl
  target_id := fun _ _ => rfl
  exprPos := fun e _ _ hw hc => attr_node_good A e hw hc
  prefPos := fun e _ _ _ hw hc => attr_node_good A e hw hc
  nodePos := fun e _ hw hc _ => attr_node_good A e hw hc
  stmtPos := by
    intro st s hw hc _
    refine ⟨hw, hc, Nat.le_refl _, ?_⟩
    intro hcs s'
    show GoodS _ _ _ st (RemoveAttribute.stmtNode st)
    have hcs' : isCallStmt st = false := hcs
    cases st with
    | callStmt c => simp [isCallStmt] at hcs'
    | function name m body =>
      obtain ⟨a, b, c⟩ := attr_clear_props A body (by simp_all [wfS]) (by simpa [countS] using hc)
      apply GoodS.of <;> simp_all [RemoveAttribute.stmtNode, wfS, countS, kS, shallowS, isCallStmt]
      exact shallowF_attr_clear body
    | localFn k name body =>
      simp only [countS, Nat.add_eq_zero_iff] at hc
      obtain ⟨a, b, c⟩ := attr_clear_props A body (by simp_all [wfS]) hc.2
      apply GoodS.of <;> simp_all [RemoveAttribute.stmtNode, wfS, countS, kS, shallowS, isCallStmt, attributeCensus]
      exact shallowF_attr_clear body
    | typeFn ex name body =>
      cases body
      apply GoodS.of <;>
        simp_all [RemoveAttribute.stmtNode, wfS, wfF, countS, kS, shallowS, shallowF, isCallStmt, attributeCensus]
    | _ =>
      apply GoodS.of <;>
        simp_all [RemoveAttribute.stmtNode, wfS, countS, kS, shallowS, isCallStmt, attributeCensus]
  blockPos := fun _ _ hw hc => ⟨hw, hc, Nat.le_refl _, fun _ _ => rfl⟩

/-! ### `convert_luau_number` (and any processor whose hooks are the identity on trees) -/

theorem number_node (e : Expr) (s : Unit) : (ConvertLuauNumber.node e s).1 = e := by
  cases e <;> rfl

theorem shallowF_Z (f : FnBody) : shallowF Z f = 0 := by cases f; simp [shallowF]
theorem shallowE_Z (e : Expr) : shallowE Z e = 0 := by
  cases e <;> simp [shallowE]
  exact shallowF_Z _
theorem shallowS_Z (st : Stmt) : shallowS Z st = 0 := by
  cases st <;> simp [shallowS] <;> exact shallowF_Z _

theorem cover_convert_luau_number : Cover ConvertLuauNumber.processor (Z.add A) A {} (fun _ => true) where
  cont_ok := fun h => by simp [add_cont, h]
  afterBlock_id := fun _ _ => rfl
  scope_id := fun _ _ _ => rfl
  afterStmtNode_id := fun _ _ => rfl
  last_id := fun _ _ => rfl
  afterNode_id := fun _ _ => rfl
  ty_id := fun _ _ => rfl
  attrs_id := fun _ _ => rfl
  insert_id := fun _ _ => rfl
  insertLocal_id := fun _ _ _ => rfl
  insertLocalFn_id := fun _ _ => rfl
  target_id := fun _ _ => rfl
  exprPos := fun e _ _ hw hc => by
    show GoodE _ _ _ e (ConvertLuauNumber.node e _).1
    rw [number_node]; exact GoodE.of A {} hw hc (Nat.le_refl _) (shallowE_Z e)
  prefPos := fun e _ _ _ hw hc => by
    show GoodE _ _ _ e (ConvertLuauNumber.node e _).1
    rw [number_node]; exact GoodE.of A {} hw hc (Nat.le_refl _) (shallowE_Z e)
  nodePos := fun e _ hw hc _ => by
    show GoodE _ _ _ e (ConvertLuauNumber.node e _).1
    rw [number_node]; exact GoodE.of A {} hw hc (Nat.le_refl _) (shallowE_Z e)
  stmtPos := by
    intro st s hw hc _
    refine ⟨hw, hc, Nat.le_refl _, ?_⟩
    intro hcs s'
    exact GoodS.of A {} hw hc (Nat.le_refl _) (shallowS_Z st) hcs
  blockPos := fun _ _ hw hc => ⟨hw, hc, Nat.le_refl _, fun _ _ => rfl⟩

end DarkluaModel.C07
