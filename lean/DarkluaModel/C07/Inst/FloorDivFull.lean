import DarkluaModel.C07.Inst.Wf
import DarkluaModel.C07.KProof
import DarkluaModel.C07.Fuel
/-! # C07 — coverage instance: `remove_floor_division`, `//=` statements INCLUDED

The statement hook hands `t //= v` to a nested `remove_compound_assignment` visitor run (`ScopeVisitor::visit_statement`
on that one statement, fuel `8 * size + 64`). What the coverage framework needs about the deep-rewritten output `st'`:

* well-formed — `wlevel_all` (C07/WfProof.lean) with the compound-assignment hooks;
* the accumulator census `A` is still 0 and NO compound assignment is left — `level_all` (C07/CoverProof.lean) with
  the coverage instance of `remove_compound_assignment`; the nested fuel is enough (`fS`, C07/Fuel.lean);
* its fuel need did not grow, `kS W st' ≤ kS W st` — `k_visitStmt` (C07/KProof.lean) with `khooks_compound`, at the
  weights `WfloorC` (`//` weighs 2, a compound assignment 6 = its operator + 4).

The outer visitor then descends into `st'` and rewrites the `t // v` it contains. -/
namespace DarkluaModel.C07
open DarkluaModel.Rules Visitor RemoveFloorDivision

variable (A : Census)

theorem floorCall_propsC (v : Expr) (s : State) (hw : wfE v = true) :
    wfE (buildFloorCall v s).1 = true ∧ countE A (buildFloorCall v s).1 = countE A v ∧
      kE WfloorC (buildFloorCall v s).1 ≤ max 4 (kE WfloorC v + 2) ∧
      shallowE floorDivisionCensus (buildFloorCall v s).1 = 0 := by
  unfold buildFloorCall
  split <;> simp [wfE, isPrefix, argsOk, wfEs, hw, countE, countEs, kE, kEs, shallowE] <;> omega

theorem floor_expr_goodC (hdiv : A.bin .div = 0) (e : Expr) (s : State) (hw : wfE e = true) (hc : countE A e = 0) :
    GoodE WfloorC (floorDivisionCensus.add A) A e (processExpression e s).1 := by
  cases e with
  | bin op l r =>
    simp only [wfE, Bool.and_eq_true] at hw
    simp only [countE, Nat.add_eq_zero_iff] at hc
    cases op with
    | idiv =>
      obtain ⟨a, b, c, d⟩ := floorCall_propsC A (.bin .div l r) s (by simp [wfE, hw.1, hw.2])
      apply GoodE.of
      · exact a
      · simp only [processExpression, b, countE, hdiv]; omega
      · simp only [processExpression, kE, WfloorC] at c ⊢
        simp at c ⊢; omega
      · exact d
    | _ =>
      apply GoodE.of A _ (by simp [processExpression, wfE, hw.1, hw.2])
        (by simp [processExpression, countE, hc.1.1, hc.1.2, hc.2]) (Nat.le_refl _)
        (by simp [processExpression, shallowE, floorDivisionCensus])
  | _ =>
    apply GoodE.of A _ hw hc (Nat.le_refl _)
    simp [processExpression, shallowE, floorDivisionCensus]
    try exact shallowF_floor _

theorem WfloorC_ok : ∀ op, WfloorC.bin op + 4 ≤ WfloorC.cassign := by
  intro op; cases op <;> decide

/-- what the nested `remove_compound_assignment` run returns for `t //= v` -/
theorem nested_idiv_props (hop : ∀ op, A.bin op = 0) (hl : A.localKind .loc = 0) (t v : Expr) (tr : Tracker)
    (hw : wfS (.cassign .idiv t v) = true) (hc : countS A (.cassign .idiv t v) = 0) :
    let r := (Visitor.visitStmt RemoveCompoundAssign.processor true (8 * (Stmt.cassign .idiv t v).size + 64)
      (.cassign .idiv t v) tr).1
    wfS r = true ∧ countS A r = 0 ∧ kS WfloorC r ≤ kS WfloorC (.cassign .idiv t v) ∧
      shallowS floorDivisionCensus r = 0 := by
  intro r
  have h1 : wfS r = true :=
    (wlevel_all RemoveCompoundAssign.processor true wfHooks_remove_compound_assignment _).stmt _ _ hw
  have hfuel : kS Wcompound (.cassign .idiv t v) + 1 ≤ 8 * (Stmt.cassign .idiv t v).size + 64 := by
    have := fS Wcompound (fun _ => Nat.zero_le _) (Nat.zero_le _) (Nat.zero_le _) (by decide) (Nat.zero_le _)
      (.cassign .idiv t v)
    omega
  have h2 : countS (compoundCensus.add A) r = 0 :=
    (level_all RemoveCompoundAssign.processor true (compoundCensus.add A) A Wcompound (fun _ => true)
      (cover_remove_compound_assignment A hop hl) _).stmt _ _ hw hc rfl hfuel
  rw [addS] at h2
  have h3 : kS WfloorC r ≤ kS WfloorC (.cassign .idiv t v) :=
    k_visitStmt WfloorC RemoveCompoundAssign.processor true (khooks_compound WfloorC WfloorC_ok) _ _ _
  refine ⟨h1, by omega, h3, ?_⟩
  have h5 := shallowS_le compoundCensus r
  have h6 : shallowS floorDivisionCensus r ≤ shallowS compoundCensus r := by
    cases r <;> simp [shallowS, floorDivisionCensus, compoundCensus, shallowF]
    all_goals (try split) <;> (try omega)
  omega

theorem cover_remove_floor_division_full (hop : ∀ op, A.bin op = 0) (hl : A.localKind .loc = 0) :
    Cover RemoveFloorDivision.processor (floorDivisionCensus.add A) A WfloorC (fun _ => true) where
  cont_ok := fun h => by simp [add_cont, floorDivisionCensus, h]
  afterBlock_id := fun _ _ => rfl
  scope_id := fun _ _ _ => rfl
  afterStmtNode_id := fun _ _ => rfl
  last_id := fun _ _ => rfl
  afterNode_id := fun _ _ => rfl
  ty_id := fun _ _ => rfl
  attrs_id := fun _ _ => rfl
  insert_id := fun _ _ => rfl
  insertLocal_id := fun _ _ _ => rfl
  insertLocalFn_id := fun _ _ => rfl
  target_id := fun _ _ => rfl
  exprPos := fun e s _ hw hc => floor_expr_goodC A (hop .div) e s hw hc
  prefPos := by
    intro e s s' hp hw hc
    show GoodE _ _ _ e e
    apply GoodE.of A _ hw hc (Nat.le_refl _)
    cases e <;> simp_all [isPrefix, shallowE, floorDivisionCensus]
  nodePos := fun e _ hw hc hs => ⟨hw, hc, Nat.le_refl _, hs⟩
  stmtPos := by
    intro st s hw hc _
    by_cases hidiv : ∃ t v, st = .cassign .idiv t v
    · obtain ⟨t, v, rfl⟩ := hidiv
      obtain ⟨a, b, c, d⟩ := nested_idiv_props A hop hl t v s.tracker hw hc
      have hr : (RemoveFloorDivision.processor.stmt (.cassign .idiv t v) s).1 =
          (Visitor.visitStmt RemoveCompoundAssign.processor true (8 * (Stmt.cassign .idiv t v).size + 64)
            (.cassign .idiv t v) s.tracker).1 := processStatement_idiv t v s
      rw [hr]
      refine ⟨a, b, c, ?_⟩
      intro hcs s'
      exact GoodS.of A _ a b c d hcs
    · have hid : (RemoveFloorDivision.processor.stmt st s).1 = st := by
        cases st with
        | cassign op t v => cases op <;> first | rfl | exact absurd ⟨t, v, rfl⟩ hidiv
        | _ => rfl
      rw [hid]
      refine ⟨hw, hc, Nat.le_refl _, ?_⟩
      intro hcs s'
      show GoodS _ _ _ st st
      refine GoodS.of A _ hw hc (Nat.le_refl _) ?_ hcs
      cases st with
      | cassign op t v =>
        cases op <;> first | (simp [shallowS, floorDivisionCensus]; done) | exact absurd ⟨t, v, rfl⟩ hidiv
      | _ =>
        simp [shallowS, floorDivisionCensus]
        try exact shallowF_floor _
  blockPos := fun _ _ hw hc => ⟨hw, hc, Nat.le_refl _, fun _ _ => rfl⟩

end DarkluaModel.C07
