import DarkluaModel.C07.Fuel
/-! # C07 — coverage instance: `remove_interpolated_string` (both strategies) -/
namespace DarkluaModel.C07
open DarkluaModel.Rules Visitor RemoveInterpolatedString

variable (A : Census) (strategy : Strategy)

def Winterp : Weights := { interp := 4 }

theorem tostringCall_props (e : Expr) (s : State) (hw : wfE e = true) :
    wfE (tostringCall e s).1 = true ∧ countE A (tostringCall e s).1 = countE A e ∧
      kE Winterp (tostringCall e s).1 = kE Winterp e + 2 ∧
      shallowE interpolatedStringCensus (tostringCall e s).1 = 0 := by
  unfold tostringCall tostringCallee
  split <;> simp [wfE, isPrefix, argsOk, wfEs, hw, countE, countEs, kE, kEs, shallowE]

theorem values_props : ∀ (segs : List Seg) (s : State), wfSegs segs = true →
    wfEs (values strategy segs s).1 = true ∧ countEs A (values strategy segs s).1 = countSegs A segs ∧
      kEs Winterp (values strategy segs s).1 ≤ kSegs Winterp segs + 1
  | [], s, _ => by simp [values, wfEs, countEs, countSegs, kEs]
  | .s b :: rest, s, hw => by
    simp only [wfSegs, wfSeg, Bool.true_and] at hw
    have ih := values_props rest s hw
    simp only [values, countSegs, countSeg, kSegs, Nat.zero_add]
    refine ⟨ih.1, ih.2.1, ?_⟩; omega
  | .v e :: rest, s, hw => by
    simp only [wfSegs, wfSeg, Bool.and_eq_true] at hw
    have ih := values_props rest s hw.2
    have ih2 := values_props rest (tostringCall e s).2 hw.2
    cases strategy with
    | tostring =>
      simp only [values, wfEs, countEs, countSegs, countSeg, kEs, kSegs, kSeg, hw.1, ih.1, ih.2.1, Bool.and_self,
        true_and]
      omega
    | string =>
      obtain ⟨a, b, c, _⟩ := tostringCall_props A e s hw.1
      simp only [values, wfEs, countEs, countSegs, countSeg, kEs, kSegs, kSeg, a, b, c, ih2.1, ih2.2.1, Bool.and_self,
        true_and]
      omega

theorem replaceWith_good (segs : List Seg) (s : State) (hw : wfSegs segs = true) (hc : countSegs A segs = 0) :
    wfE (replaceWith strategy segs s).1 = true ∧ countE A (replaceWith strategy segs s).1 = 0 ∧
      kE Winterp (replaceWith strategy segs s).1 ≤ 4 + kSegs Winterp segs ∧
      shallowE interpolatedStringCensus (replaceWith strategy segs s).1 = 0 := by
  unfold replaceWith
  split
  · simp [wfE, countE, kE, shallowE]
  · split
    · simp [wfE, countE, kE, shallowE]
    · rename_i e _
      simp only [wfSegs, wfSeg, Bool.and_true] at hw
      simp only [countSegs, countSeg, Nat.add_zero] at hc
      obtain ⟨a, b, c, d⟩ := tostringCall_props A e s hw
      refine ⟨a, by omega, ?_, d⟩
      simp only [c, kSegs, kSeg]; omega
    · obtain ⟨a, b, c⟩ := values_props A strategy segs s hw
      simp only []
      split <;>
        (simp only [wfE, isPrefix, argsOk, wfEs, a, countE, countEs, b, hc, kE, kEs, shallowE, Bool.and_self,
          Bool.true_and, Nat.add_zero, and_true, true_and]
         omega)

theorem shallowF_interp (f : FnBody) : shallowF interpolatedStringCensus f = 0 := by
  cases f; simp [shallowF, interpolatedStringCensus]

theorem interp_good (e : Expr) (s : State) (hw : wfE e = true) (hc : countE A e = 0) :
    GoodE Winterp (interpolatedStringCensus.add A) A e (processExpression strategy e s).1 := by
  cases e with
  | interp segs =>
    simp only [wfE] at hw
    simp only [countE, Nat.add_eq_zero_iff] at hc
    obtain ⟨a, b, c, d⟩ := replaceWith_good A strategy segs s hw hc.2
    apply GoodE.of
    · exact a
    · exact b
    · simp only [processExpression, kE, Winterp] at c ⊢; exact c
    · exact d
  | _ =>
    apply GoodE.of A _ hw hc (Nat.le_refl _)
    simp [processExpression, shallowE, interpolatedStringCensus]
    try exact shallowF_interp _

theorem cover_remove_interpolated_string :
    Cover (RemoveInterpolatedString.processor strategy) (interpolatedStringCensus.add A) A Winterp (fun _ => true) where
  cont_ok := fun h => by simp [add_cont, interpolatedStringCensus, h]
  afterBlock_id := fun _ _ => rfl
  scope_id := fun _ _ _ => rfl
  afterStmtNode_id := fun _ _ => rfl
  last_id := fun _ _ => rfl
  afterNode_id := fun _ _ => rfl
  ty_id := fun _ _ => rfl
  attrs_id := fun _ _ => rfl
  insert_id := fun _ _ => rfl
  insertLocal_id := fun _ _ _ => rfl
  insertLocalFn_id := fun _ _ => rfl
  target_id := fun _ _ => rfl
  exprPos := fun e s _ hw hc => interp_good A strategy e s hw hc
  prefPos := by
    intro e s s' hp hw hc
    have : (processor strategy).pref e s = (e, s) := rfl
    show GoodE _ _ _ e e
    apply GoodE.of A _ hw hc (Nat.le_refl _)
    cases e <;> simp_all [isPrefix, shallowE, interpolatedStringCensus]
  nodePos := fun e _ hw hc hs => ⟨hw, hc, Nat.le_refl _, hs⟩
  stmtPos := by
    intro st s hw hc _
    refine ⟨hw, hc, Nat.le_refl _, ?_⟩
    intro hcs s'
    show GoodS _ _ _ st st
    apply GoodS.of A _ hw hc (Nat.le_refl _) _ hcs
    cases st <;> simp [shallowS, interpolatedStringCensus]
    all_goals exact shallowF_interp _
  blockPos := fun _ _ hw hc => ⟨hw, hc, Nat.le_refl _, fun _ _ => rfl⟩

end DarkluaModel.C07
