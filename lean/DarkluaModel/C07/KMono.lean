import DarkluaModel.C07.Inst.Compound
/-!
# C07 — "a visitor pass does not increase the fuel measure": statement, and the hooks of `remove_compound_assignment`

The statement hook of `remove_floor_division` hands `t //= v` to a NESTED `remove_compound_assignment` visitor run,
and the coverage framework (`Cover.stmtPos`) needs `kS W (output) ≤ kS W (input)` for that deep-rewritten output.
That is an instance of a fourth traversal theorem next to coverage / well-formedness / congruence:

  `KHooks W P → ∀ n, KLevel W P sc n`   (every visit function is `k`-non-increasing, for every fuel)

This file has the statement (`KHooks`, `KLevel`) and the hook-level fact for `remove_compound_assignment` at any
weights with `W.bin op + 4 ≤ W.cassign` (`WfloorC`: `bin idiv = 2`, `cassign = 6`, what the floor-division instance
needs); the traversal proof is C07/KProof.lean (`klevel_all`, `k_visitStmt`), the instance C07/Inst/FloorDivFull.lean.
-/
namespace DarkluaModel.C07
open DarkluaModel.Rules Visitor RemoveCompoundAssign

/-- every hook is non-increasing for the fuel measure `k` with weights `W` -/
structure KHooks {σ : Type} (W : Weights) (P : Processor σ) : Prop where
  block : ∀ b s, kB W (P.block b s).1 ≤ kB W b
  afterBlock : ∀ b s, kB W (P.afterBlock b s).1 ≤ kB W b
  scope_id : ∀ b e s, (P.scope b e s).1 = (b, e)
  stmt : ∀ st s, kS W (P.stmt st s).1 ≤ kS W st
  stmtNode : ∀ st s, kS W (P.stmtNode st s).1 ≤ kS W st
  afterStmtNode : ∀ st s, kS W (P.afterStmtNode st s).1 ≤ kS W st
  last : ∀ l s, kL W (P.last l s).1 ≤ kL W l
  expr : ∀ e s, kE W (P.expr e s).1 ≤ kE W e
  pref : ∀ e s, kE W (P.pref e s).1 ≤ kE W e
  target_id : ∀ e s, (P.target e s).1 = e
  node : ∀ e s, kE W (P.node e s).1 ≤ kE W e
  afterNode : ∀ e s, kE W (P.afterNode e s).1 ≤ kE W e
  ty_id : ∀ t s, (P.ty t s).1 = t
  insertLocal_id : ∀ n e s, (P.insertLocal n e s).1 = (n, e)

/-- the claim at fuel `n` (proved by induction on `n`, one constructor at a time, in C07/KProof.lean) -/
structure KLevel {σ : Type} (W : Weights) (P : Processor σ) (sc : Bool) (n : Nat) : Prop where
  ty : ∀ t s, kTy W (visitTy P sc n t s).1 ≤ kTy W t
  expr : ∀ e s, kE W (visitExpr P sc n e s).1 ≤ kE W e
  pref : ∀ e s, kE W (visitPrefix P sc n e s).1 ≤ kE W e
  target : ∀ e s, kE W (visitTarget P sc n e s).1 ≤ kE W e
  entry : ∀ e s, kEntry W (visitEntry P sc n e s).1 ≤ kEntry W e
  seg : ∀ e s, kSeg W (visitSeg P sc n e s).1 ≤ kSeg W e
  node : ∀ e s, kE W (visitNode P sc n e s).1 ≤ kE W e
  fnbody : ∀ hs body s, kF W (visitFnBody P sc n hs body s).1 ≤ kF W body
  stmt : ∀ st s, kS W (visitStmt P sc n st s).1 ≤ kS W st
  last : ∀ l s, kL W (visitLast P sc n l s).1 ≤ kL W l
  block : ∀ pushes b s, kB W (visitBlock P sc n pushes b s).1 ≤ kB W b

theorem klevel_zero {σ : Type} (W : Weights) (P : Processor σ) (sc : Bool) : KLevel W P sc 0 := by
  refine ⟨?_, ?_, ?_, ?_, ?_, ?_, ?_, ?_, ?_, ?_, ?_⟩ <;> intros <;>
    simp [visitTy, visitExpr, visitPrefix, visitTarget, visitEntry, visitSeg, visitNode, visitFnBody, visitStmt,
      visitLast, visitBlock]

section compound
variable (W : Weights)

theorem k_removeParens (x : Expr) : kE W (removeParens x) ≤ kE W x := by
  cases x <;> simp [removeParens, kE]

theorem k_simplifyPrefix (p : Expr) : kE W (simplifyPrefix p) ≤ kE W p := by
  unfold simplifyPrefix
  split <;> simp [kE]

theorem k_newAssign (op : BinOp) (tgt v : Expr) :
    kS W (newAssign op tgt v) = W.bin op + max (kE W tgt + 2) (kE W v + 2) + 2 := by
  simp only [newAssign, kS, kEs, kE]
  omega

theorem k_localOf (names : List String) (values : List Expr) : kS W (localOf names values) = kEs W values := by
  have h1 : ∀ ns : List String, kTNs W (ns.map fun n => TName.mk n none) = 0 := by
    intro ns
    induction ns with
    | nil => simp [kTNs]
    | cons n ns ih => simp [kTNs, kTN, kOTy, ih]
  simp only [localOf, kS, h1, Nat.zero_max]

theorem k_doAssign (op : BinOp) (names : List String) (values : List Expr) (tgt v : Expr) :
    kS W (doAssign op (localOf names values) tgt v) =
      max (kEs W values + 1) (W.bin op + max (kE W tgt + 2) (kE W v + 2) + 3) + 1 := by
  simp only [doAssign, kS, kB, kSs, kOL, k_localOf, k_newAssign]
  omega

/-- the statement hook of `remove_compound_assignment` does not increase `k`, at ANY weights where a compound
assignment weighs at least its operator plus 4 (the rule's own `Wcompound` has 0 / 4; the floor-division instance
would use `bin idiv = 2`, `cassign = 6`) -/
theorem k_replaceCompound (op : BinOp) (target value : Expr) (t : Tracker) (hW : W.bin op + 4 ≤ W.cassign) :
    kS W (replaceCompound op target value t).1 ≤ kS W (.cassign op target value) := by
  have hc : kS W (.cassign op target value) = W.cassign + max (kE W target + 2) (kE W value + 2) := by
    simp only [kS]
  rw [hc]
  cases target with
  | index p k =>
    have sp := k_simplifyPrefix W p
    have rk := k_removeParens W k
    have rp := k_removeParens W p
    by_cases h1 : prefixNeedsVar p = true <;> by_cases h2 : indexNeedsVar k = true
    · simp only [replaceCompound, h1, h2, if_true, k_doAssign, kEs, kE]; omega
    · simp only [replaceCompound, h1, h2, if_true, if_false, Bool.false_eq_true, k_doAssign, kEs, kE]; omega
    · simp only [replaceCompound, h1, h2, if_true, if_false, Bool.false_eq_true, k_doAssign, kEs, kE]; omega
    · simp only [replaceCompound, h1, h2, if_false, Bool.false_eq_true, k_newAssign, kE]; omega
  | field p name =>
    have generic : ∀ (x : Expr), kE W x ≤ kE W p →
        kS W (doAssign op (localOf [(t.generateWithPrefix varPrefix).1] [x])
          (.field (.var (t.generateWithPrefix varPrefix).1) name) value)
          ≤ W.cassign + max (kE W (.field p name) + 2) (kE W value + 2) := by
      intro x hx
      simp only [k_doAssign, kEs, kE]; omega
    have plain : ∀ (q : Expr), kE W q ≤ kE W p →
        kS W (newAssign op (.field q name) value)
          ≤ W.cassign + max (kE W (.field p name) + 2) (kE W value + 2) := by
      intro q hq
      simp only [k_newAssign, kE]; omega
    cases p with
    | var x => simpa [replaceCompound] using plain (.var x) (Nat.le_refl _)
    | paren inner =>
      by_cases hs : isSimpleInner inner = true
      · simp only [replaceCompound, hs, if_true]
        cases inner <;> simp [isSimpleInner] at hs <;>
          first
          | exact plain _ (by simp [kE])
          | exact plain _ (Nat.le_refl _)
      · simp only [replaceCompound, hs, if_false, Bool.false_eq_true]
        exact generic inner (by simp only [kE]; omega)
    | _ => simpa [replaceCompound] using generic _ (Nat.le_refl _)
  | _ => simp only [replaceCompound, k_newAssign]; omega

/-- every hook of `remove_compound_assignment` is `k`-non-increasing at such weights -/
theorem khooks_compound (hW : ∀ op, W.bin op + 4 ≤ W.cassign) : KHooks W RemoveCompoundAssign.processor where
  block := fun _ _ => Nat.le_refl _
  afterBlock := fun _ _ => Nat.le_refl _
  scope_id := fun _ _ _ => rfl
  stmt := by
    intro st s
    cases st with
    | cassign op target value => exact k_replaceCompound W op target value s (hW op)
    | _ => exact Nat.le_refl _
  stmtNode := fun _ _ => Nat.le_refl _
  afterStmtNode := fun _ _ => Nat.le_refl _
  last := fun _ _ => Nat.le_refl _
  expr := fun _ _ => Nat.le_refl _
  pref := fun _ _ => Nat.le_refl _
  target_id := fun _ _ => rfl
  node := fun _ _ => Nat.le_refl _
  afterNode := fun _ _ => Nat.le_refl _
  ty_id := fun _ _ => rfl
  insertLocal_id := fun _ _ _ => rfl

/-- the weights the floor-division instance needs: `//` weighs 2, a compound assignment 6 -/
def WfloorC : Weights := { bin := fun op => if op == .idiv then 2 else 0, cassign := 6 }

/-- non-vacuity of `khooks_compound`'s hypothesis at the intended weights -/
example : ∀ op, WfloorC.bin op + 4 ≤ WfloorC.cassign := by
  intro op; cases op <;> decide

/-- a value: the nested run on `t[f()] //= 1` (a temporary for the key) does not increase `k` at those weights -/
example :
    kS WfloorC (replaceCompoundAssignment
      (.cassign .idiv (.index (.var "t") (.call (.var "f") none .tuple [])) (.num 1)) Tracker.new).1
      ≤ kS WfloorC (.cassign .idiv (.index (.var "t") (.call (.var "f") none .tuple [])) (.num 1)) := by
  decide

end compound
end DarkluaModel.C07
